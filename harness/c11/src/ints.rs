//! Integer element types, up to the limits of the type.
//!
//! Functions of the property whose trait bounds admit integers (checked against /repo/src/vec.rs):
//! every spatial type: `dot`, `magnitude_squared`, `distance_squared`, `reflected` (Add/Sub/Mul only) and
//! `face_forward` (needs `Neg`: signed and `Wrapping`); Vec2: `determine_side`, `signed_triangle_area`
//! (needs `One` + `Div`) and `triangle_area` (needs `Neg`); Vec3: `cross`; Vec4: `homogenized` / `homogenize`.
//! Everything else of the property needs `Real` or `RelativeEq` and exists for floats only.
//!
//! Element types: i8 i16 i32 i64, u8 u16 u32, Wrapping<i8 | i32 | i64 | u8 | u32>. (u64 / 128-bit types are
//! left out: their products do not fit the i128 model.)
//!
//! Oracle: the defining formula on i128. For the plain types the harness is built with overflow checks, so
//! an overflow inside vek is a panic; the exact result is demanded (and a panic reported) whenever the RESULT
//! and the *mathematically necessary intermediates* are representable in the element type, and nothing is
//! asserted (label, vek not called) otherwise. Necessary intermediates, per function:
//!   dot / magnitude_squared: every product a_i b_i and the sum in ANY order of summation (i.e. the sum of the
//!     positive and the sum of the negative products separately), so no association order is imposed;
//!   distance_squared: the lane differences, their squares, the sum;
//!   reflected: v.n as above, 2 (v.n), the products n_i * 2(v.n), the lane results;
//!   face_forward: reference.incident as above, and -v_i for every lane if (and only if) the vector is flipped;
//!   determine_side: the four coordinate differences b-a, c-a, the two products, their difference;
//!   signed_triangle_area: those plus the half; triangle_area: those plus |half| -- NOT |cross product|:
//!     a cross product of exactly T::MIN has a representable half and a representable area;
//!   cross: the six products and the three differences; homogenized: the four quotients.
//! Halving / dividing an integer that is not divisible: truncation and flooring are both accepted.
//! Wrapping<_>: +, -, * are ring operations, so every polynomial function must equal the model reduced
//! mod 2^n, always (no association order can change that); the halves / absolute values / signs are taken of
//! the wrapped value as vek's operators do, and are asserted when the true value is representable
//! (otherwise only `triangle_area == |signed_triangle_area| >= 0` and `face_forward in {v, -v}`).

use crate::*;
use num_traits::{One, Zero};
use std::fmt::Debug;
use std::num::Wrapping;
use std::ops::{Add, Div, Mul, Neg, Sub};
use vkit::regimes::int_edge;

pub trait IntEl: Copy + Debug + PartialEq + PartialOrd + Add<Output = Self> + Sub<Output = Self> + Mul<Output = Self> + Div<Output = Self> + Zero + One + 'static {
    const NAME: &'static str;
    const BITS: u32;
    const SIGNED: bool;
    const WRAP: bool;
    /// Truncating conversion (the value is in range wherever it matters).
    fn of(x: i128) -> Self;
    fn val(self) -> i128;
    fn lo() -> i128 {
        if Self::SIGNED {
            -(1i128 << (Self::BITS - 1))
        } else {
            0
        }
    }
    fn hi() -> i128 {
        if Self::SIGNED {
            (1i128 << (Self::BITS - 1)) - 1
        } else {
            (1i128 << Self::BITS) - 1
        }
    }
}
/// Element types with a negation (signed integers, Wrapping of signed integers).
pub trait IntNeg: IntEl + Neg<Output = Self> {}

macro_rules! int_el {
    ($T:ident, $bits:expr, $signed:expr) => {
        impl IntEl for $T {
            const NAME: &'static str = stringify!($T);
            const BITS: u32 = $bits;
            const SIGNED: bool = $signed;
            const WRAP: bool = false;
            fn of(x: i128) -> Self {
                x as $T
            }
            fn val(self) -> i128 {
                self as i128
            }
        }
        impl IntEl for Wrapping<$T> {
            const NAME: &'static str = concat!("Wrapping<", stringify!($T), ">");
            const BITS: u32 = $bits;
            const SIGNED: bool = $signed;
            const WRAP: bool = true;
            fn of(x: i128) -> Self {
                Wrapping(x as $T)
            }
            fn val(self) -> i128 {
                self.0 as i128
            }
        }
    };
}
int_el!(i8, 8, true);
int_el!(i16, 16, true);
int_el!(i32, 32, true);
int_el!(i64, 64, true);
int_el!(u8, 8, false);
int_el!(u16, 16, false);
int_el!(u32, 32, false);
impl IntNeg for i8 {}
impl IntNeg for i16 {}
impl IntNeg for i32 {}
impl IntNeg for i64 {}
impl IntNeg for Wrapping<i8> {}
impl IntNeg for Wrapping<i32> {}
impl IntNeg for Wrapping<i64> {}

/// x reduced mod 2^BITS to the representative of the type.
fn wrap<T: IntEl>(x: i128) -> i128 {
    let m = 1i128 << T::BITS;
    let r = x.rem_euclid(m);
    if T::SIGNED && r >= m / 2 {
        r - m
    } else {
        r
    }
}

/// Tracks whether every value passed through `v` was representable. Values handed back are reduced to the
/// type, so the i128 arithmetic of the model itself cannot overflow (|x| < 2^64, products < 2^127).
struct Md {
    exact: bool,
}
impl Md {
    fn new() -> Md {
        Md { exact: true }
    }
    fn v<T: IntEl>(&mut self, x: i128) -> i128 {
        if x < T::lo() || x > T::hi() {
            self.exact = false;
        }
        wrap::<T>(x)
    }
    /// The case can be asserted: exact, or a wrapping type (ring identity).
    fn ring<T: IntEl>(&self) -> bool {
        self.exact || T::WRAP
    }
}

/// sum_i a_i b_i; representable = every product and the sum in any order.
fn dot_m<T: IntEl, const N: usize>(m: &mut Md, a: &[i128; N], b: &[i128; N]) -> i128 {
    let (mut pos, mut neg, mut acc) = (0i128, 0i128, 0i128);
    for i in 0..N {
        let p = m.v::<T>(a[i] * b[i]);
        if p > 0 {
            pos += p;
        } else {
            neg += p;
        }
        acc = wrap::<T>(acc + p);
    }
    m.v::<T>(pos);
    m.v::<T>(neg);
    acc
}

fn floor_div(x: i128, w: i128) -> i128 {
    let q = x / w;
    if x % w != 0 && ((x < 0) != (w < 0)) {
        q - 1
    } else {
        q
    }
}
/// `got` is x / 2, truncated or floored.
fn half_ok(got: i128, x: i128) -> bool {
    got == x / 2 || got == floor_div(x, 2)
}
/// `got` is |x| / 2 (or the absolute value of the floored half of a negative odd x).
fn area_ok(got: i128, x: i128) -> bool {
    let ax = x.abs();
    got == ax / 2 || (ax % 2 == 1 && got == ax / 2 + 1)
}
fn quot_ok(got: i128, x: i128, w: i128) -> bool {
    got == x / w || got == floor_div(x, w)
}

// ---------------------------------------------------------------------------------------------
// generators
// ---------------------------------------------------------------------------------------------

fn clamp_t<T: IntEl>(x: i128) -> i128 {
    x.clamp(T::lo(), T::hi())
}
fn small<T: IntEl>(t: &mut Tape) -> i128 {
    clamp_t::<T>(t.int(-3, 3) as i128)
}
/// A value around 2^(value bits / 2): squares and pairwise products land next to the limits of the type.
fn root_scale<T: IntEl>(t: &mut Tape) -> i128 {
    let vb = T::BITS - T::SIGNED as u32;
    let base = 1i128 << (vb / 2);
    let x = match t.below(4) {
        0 => base + t.int(-2, 2) as i128,
        1 => base / 2 + t.int(-2, 2) as i128,
        2 => (base as f64 * std::f64::consts::SQRT_2) as i128 + t.int(-2, 2) as i128,
        _ => (t.u64() as i128) % (2 * base),
    };
    clamp_t::<T>(if t.bool() { -x } else { x })
}
fn uniform<T: IntEl>(t: &mut Tape) -> i128 {
    wrap::<T>(t.u64() as i128)
}
fn edge<T: IntEl>(t: &mut Tape) -> i128 {
    int_edge(t, T::lo(), T::hi())
}

fn gen_ivec<T: IntEl, const N: usize>(t: &mut Tape, cx: &mut Cx) -> [i128; N] {
    let mut v = [0i128; N];
    match t.below(6) {
        0 => {
            cx.label("vector: small lanes");
            for x in v.iter_mut() {
                *x = small::<T>(t);
            }
        }
        1 | 2 => {
            cx.label("vector: small lanes, one to three lanes at the edges of the type");
            for x in v.iter_mut() {
                *x = small::<T>(t);
            }
            for _ in 0..1 + t.below(3) {
                v[t.below(N)] = edge::<T>(t);
            }
        }
        3 => {
            cx.label("vector: small lanes, one to three lanes around 2^(bits/2)");
            for x in v.iter_mut() {
                *x = small::<T>(t);
            }
            for _ in 0..1 + t.below(3) {
                v[t.below(N)] = root_scale::<T>(t);
            }
        }
        4 => {
            cx.label("vector: every lane at an edge of the type");
            for x in v.iter_mut() {
                *x = edge::<T>(t);
            }
        }
        _ => {
            cx.label("vector: uniform lanes");
            for x in v.iter_mut() {
                *x = uniform::<T>(t);
            }
        }
    }
    v
}
/// A vector within a few units of `a` (every lane stays in range).
fn nearby<T: IntEl, const N: usize>(t: &mut Tape, a: &[i128; N]) -> [i128; N] {
    std::array::from_fn(|i| clamp_t::<T>(a[i] + t.int(-3, 3) as i128))
}
fn big<const N: usize>(a: &[i128; N]) -> bool {
    a.iter().any(|x| x.abs() > 3)
}
fn arr<T: IntEl, const N: usize>(a: &[i128; N]) -> [T; N] {
    std::array::from_fn(|i| T::of(a[i]))
}
fn vals<T: IntEl, const N: usize>(a: &[T; N]) -> [i128; N] {
    std::array::from_fn(|i| a[i].val())
}

// ---------------------------------------------------------------------------------------------
// the spatial types with an integer element
// ---------------------------------------------------------------------------------------------

pub trait IV<T: IntEl, const N: usize>: Copy + Debug {
    const NAME: &'static str;
    fn mk(a: [T; N]) -> Self;
    fn rd(self) -> [T; N];
    fn k_dot(self, o: Self) -> T;
    fn k_magsq(self) -> T;
    fn k_distsq(self, o: Self) -> T;
    fn k_reflected(self, n: Self) -> Self;
}
pub trait IVN<T: IntNeg, const N: usize>: IV<T, N> {
    fn k_ff(self, incident: Self, reference: Self) -> Self;
}
macro_rules! impl_iv {
    ($V:ident, $N:expr, $kind:ident, ($($f:ident)+), ($($i:tt)+)) => {
        impl<T: IntEl> IV<T, $N> for vek::vec::repr_c::$V<T> {
            const NAME: &'static str = stringify!($V);
            fn mk(a: [T; $N]) -> Self {
                use vek::vec::repr_c::$V;
                mk_body!($kind $V a ($($f)+))
            }
            #[allow(unused_imports)]
            fn rd(self) -> [T; $N] {
                use vek::vec::repr_c::$V;
                rd_body!($kind $V self ($($f)+) ($($i)+))
            }
            fn k_dot(self, o: Self) -> T { vek::vec::repr_c::$V::<T>::dot(self, o) }
            fn k_magsq(self) -> T { vek::vec::repr_c::$V::<T>::magnitude_squared(self) }
            fn k_distsq(self, o: Self) -> T { vek::vec::repr_c::$V::<T>::distance_squared(self, o) }
            fn k_reflected(self, n: Self) -> Self { vek::vec::repr_c::$V::<T>::reflected(self, n) }
        }
        impl<T: IntNeg> IVN<T, $N> for vek::vec::repr_c::$V<T> {
            fn k_ff(self, incident: Self, reference: Self) -> Self { vek::vec::repr_c::$V::<T>::face_forward(self, incident, reference) }
        }
    };
}
spatial_types!(impl_iv);

/// Calls vek under `catch`; a panic where the model says "representable" is a violation with context.
macro_rules! call {
    ($cx:expr, $what:expr, $ctx:expr, $e:expr) => {
        match vkit::catch(|| $e) {
            Ok(v) => {
                $cx.count();
                v
            }
            Err(p) => fail!("{}: panicked ({}) although the result and every necessary intermediate are representable; {}", $what, p, $ctx),
        }
    };
}

/// dot, magnitude_squared, distance_squared, reflected, and face_forward where the element type has `Neg`.
fn poly_case<T: IntEl, V: IV<T, N>, const N: usize>(t: &mut Tape, cx: &mut Cx, ff: Option<fn(V, V, V) -> V>) -> CaseResult {
    cx.label(T::NAME);
    let a: [i128; N] = gen_ivec::<T, N>(t, cx);
    let b: [i128; N] = match t.below(4) {
        0 => {
            cx.label("second operand within 3 units of the first");
            nearby::<T, N>(t, &a)
        }
        _ => gen_ivec::<T, N>(t, cx),
    };
    let (va, vb) = (V::mk(arr::<T, N>(&a)), V::mk(arr::<T, N>(&b)));
    let mut asserted = 0u32;
    sample!(cx, "{}<{}> a={:?} b={:?}", V::NAME, T::NAME, a, b);
    let ctx = format!("{}<{}> a={:?} b={:?}", V::NAME, T::NAME, a, b);
    macro_rules! skip {
        ($l:expr) => {
            cx.label($l)
        };
    }
    // dot
    {
        let mut m = Md::new();
        let want = dot_m::<T, N>(&mut m, &a, &b);
        if m.ring::<T>() {
            let g = call!(cx, "dot", ctx, va.k_dot(vb));
            check_eq!(cx, g.val(), want, "dot; {}", ctx);
            let g2 = call!(cx, "dot (swapped)", ctx, vb.k_dot(va));
            check_eq!(cx, g2.val(), want, "dot (operands swapped); {}", ctx);
            asserted += 1;
        } else {
            skip!("dot: not representable (not asserted)");
        }
    }
    // magnitude_squared
    {
        let mut m = Md::new();
        let want = dot_m::<T, N>(&mut m, &a, &a);
        if m.ring::<T>() {
            let g = call!(cx, "magnitude_squared", ctx, va.k_magsq());
            check_eq!(cx, g.val(), want, "magnitude_squared(a); {}", ctx);
            asserted += 1;
        } else {
            skip!("magnitude_squared: not representable (not asserted)");
        }
    }
    // distance_squared
    {
        let mut m = Md::new();
        let d: [i128; N] = std::array::from_fn(|i| m.v::<T>(a[i] - b[i]));
        let want = dot_m::<T, N>(&mut m, &d, &d);
        if m.ring::<T>() {
            let g = call!(cx, "distance_squared", ctx, va.k_distsq(vb));
            check_eq!(cx, g.val(), want, "distance_squared(a, b); {}", ctx);
            asserted += 1;
        } else {
            skip!("distance_squared: not representable (not asserted)");
        }
    }
    // reflected(a, n) = a - n * 2(a.n): n mostly a small ("normal-like") vector
    {
        let n: [i128; N] = if t.bool() {
            let mut n = [0i128; N];
            for x in n.iter_mut() {
                *x = clamp_t::<T>(t.int(-1, 1) as i128);
            }
            n
        } else {
            b
        };
        let mut m = Md::new();
        let d = dot_m::<T, N>(&mut m, &a, &n);
        let dd = m.v::<T>(d + d);
        let want: [i128; N] = std::array::from_fn(|i| {
            let p = m.v::<T>(n[i] * dd);
            m.v::<T>(a[i] - p)
        });
        if m.ring::<T>() {
            let g = call!(cx, "reflected", ctx, va.k_reflected(V::mk(arr::<T, N>(&n))));
            check_eq!(cx, vals(&g.rd()), want, "reflected(a, n) with n={:?}; {}", n, ctx);
            asserted += 1;
        } else {
            skip!("reflected: not representable (not asserted)");
        }
    }
    // face_forward(v = a, incident = b, reference)
    if let Some(ff) = ff {
        let r: [i128; N] = match t.below(4) {
            0 => b,
            1 => std::array::from_fn(|i| clamp_t::<T>(-b[i])),
            _ => gen_ivec::<T, N>(t, cx),
        };
        let mut m = Md::new();
        let d = dot_m::<T, N>(&mut m, &r, &b);
        let dot_exact = m.exact;
        let mut mn = Md::new();
        let neg: [i128; N] = std::array::from_fn(|i| mn.v::<T>(-a[i]));
        let vr = V::mk(arr::<T, N>(&r));
        if !dot_exact && !T::WRAP {
            skip!("face_forward: reference.incident not representable (not asserted)");
        } else if !mn.ring::<T>() && d >= 0 {
            skip!("face_forward: -v not representable and the vector may be flipped (not asserted)");
        } else {
            let g = vals(&call!(cx, "face_forward", ctx, ff(va, vb, vr)).rd());
            if !dot_exact || d == 0 {
                cx.label("face_forward: dot product 0 or wrapped (only `v or -v` asserted)");
                check!(cx, g == a || g == neg, "face_forward: result {:?} is neither v nor -v; reference={:?}; {}", g, r, ctx);
            } else if d < 0 {
                check_eq!(cx, g, a, "face_forward must keep v (reference.incident = {} < 0); reference={:?}; {}", d, r, ctx);
            } else {
                check_eq!(cx, g, neg, "face_forward must flip v (reference.incident = {} > 0); reference={:?}; {}", d, r, ctx);
            }
            asserted += 1;
        }
    }
    cx.set_nontrivial(asserted > 0 && (big(&a) || big(&b)));
    Ok(())
}

fn poly_neg<T: IntNeg, V: IVN<T, N>, const N: usize>(t: &mut Tape, cx: &mut Cx) -> CaseResult {
    poly_case::<T, V, N>(t, cx, Some(V::k_ff as fn(V, V, V) -> V))
}
fn poly_pos<T: IntEl, V: IV<T, N>, const N: usize>(t: &mut Tape, cx: &mut Cx) -> CaseResult {
    poly_case::<T, V, N>(t, cx, None)
}

// ---------------------------------------------------------------------------------------------
// Vec2: determine_side, signed_triangle_area, triangle_area
// ---------------------------------------------------------------------------------------------

type AreaFn<T> = fn([T; 2], [T; 2], [T; 2]) -> T;

/// One triple of points (coordinates already in the range of T). Returns whether anything was asserted.
fn side_core<T: IntEl>(cx: &mut Cx, a: [i128; 2], b: [i128; 2], c: [i128; 2], area: Option<AreaFn<T>>) -> Result<bool, Fail> {
    use vek::vec::repr_c::Vec2;
    let mut m = Md::new();
    let dx1 = m.v::<T>(b[0] - a[0]);
    let dy1 = m.v::<T>(c[1] - a[1]);
    let dy2 = m.v::<T>(b[1] - a[1]);
    let dx2 = m.v::<T>(c[0] - a[0]);
    let d1 = m.v::<T>(dx1 * dy1);
    let d2 = m.v::<T>(dy2 * dx2);
    let det = m.v::<T>(d1 - d2);
    if !m.ring::<T>() {
        cx.label("side / area: a difference, a product or the cross product is not representable (not asserted)");
        return Ok(false);
    }
    if det == T::lo() && T::SIGNED {
        cx.label("cross product exactly T::MIN");
    }
    let ctx = format!("Vec2<{}> a={:?} b={:?} c={:?} (cross product {})", T::NAME, a, b, c, det);
    let (ta, tb, tc) = (arr::<T, 2>(&a), arr::<T, 2>(&b), arr::<T, 2>(&c));
    let (va, vb, vc) = (vk::v2(&ta), vk::v2(&tb), vk::v2(&tc));
    let g = call!(cx, "determine_side", ctx, vc.determine_side(va, vb));
    check_eq!(cx, g.val(), det, "determine_side(c; a, b); {}", ctx);
    // halves of the (wrapped) cross product: asserted when the true cross product is representable
    let s = call!(cx, "signed_triangle_area", ctx, Vec2::signed_triangle_area(va, vb, vc)).val();
    if m.exact {
        check!(cx, half_ok(s, det), "signed_triangle_area = {} is not half of the cross product {}; {}", s, det, ctx);
    } else {
        cx.label("side / area: cross product wrapped (halves not asserted)");
    }
    if let Some(area) = area {
        // |half| is representable whenever the cross product is (|MIN / 2| = 2^(n-2))
        let ar = call!(cx, "triangle_area", ctx, area(ta, tb, tc)).val();
        check!(cx, ar >= 0, "triangle_area = {} is negative; {}", ar, ctx);
        check_eq!(cx, ar, s.abs(), "triangle_area must be |signed_triangle_area| = |{}|; {}", s, ctx);
        if m.exact {
            check!(cx, area_ok(ar, det), "triangle_area = {} is not half of |cross product| = |{}|; {}", ar, det, ctx);
        }
        // orientation reversed: same area (the reversed cross product must be representable too)
        let mut m2 = Md::new();
        m2.v::<T>(-det);
        let ey = m2.v::<T>(a[1] - b[1]);
        let ex = m2.v::<T>(a[0] - b[0]);
        let fy = m2.v::<T>(c[1] - b[1]);
        let fx = m2.v::<T>(c[0] - b[0]);
        m2.v::<T>(ex * fy);
        m2.v::<T>(ey * fx);
        if m2.exact && m.exact {
            let ar2 = call!(cx, "triangle_area (a, b exchanged)", ctx, area(tb, ta, tc)).val();
            check!(cx, area_ok(ar2, det), "triangle_area with a, b exchanged = {} is not half of |{}|; {}", ar2, det, ctx);
        }
    }
    Ok(true)
}

fn side_points<T: IntEl>(t: &mut Tape, cx: &mut Cx) -> ([i128; 2], [i128; 2], [i128; 2]) {
    fn mixed<T: IntEl>(t: &mut Tape) -> i128 {
        if t.bool() {
            root_scale::<T>(t)
        } else {
            small::<T>(t)
        }
    }
    fn three<T: IntEl>(t: &mut Tape, f0: fn(&mut Tape) -> i128, f: fn(&mut Tape) -> i128) -> ([i128; 2], [i128; 2], [i128; 2]) {
        let a = [f0(t), f0(t)];
        let b = [f(t), f(t)];
        let c = [f(t), f(t)];
        (a, b, c)
    }
    match t.below(8) {
        0 | 1 | 2 => {
            cx.label("legs p, q along the axes with p * q next to an edge of the type");
            // target cross product R at an edge, p a power of two / small / around 2^(bits/2), q = R / p
            let r = edge::<T>(t);
            let mut p = match t.below(3) {
                0 => 1i128 << t.below((T::BITS - 1) as usize),
                1 => t.int(1, 7) as i128,
                _ => root_scale::<T>(t).abs().max(1),
            };
            if T::SIGNED && t.bool() {
                p = -p;
            }
            let q = clamp_t::<T>(r / p + t.pick(&[0i64, 0, 0, 1, -1]) as i128);
            let p = clamp_t::<T>(p);
            // origin: 0, or a small offset the legs still fit next to
            let a = if t.bool() { [0, 0] } else { [clamp_t::<T>(t.int(-2, 2) as i128), clamp_t::<T>(t.int(-2, 2) as i128)] };
            let f = |x: i128| clamp_t::<T>(x);
            match t.below(4) {
                0 => (a, [f(a[0] + p), a[1]], [a[0], f(a[1] + q)]),
                1 => (a, [a[0], f(a[1] + p)], [f(a[0] + q), a[1]]),
                2 => (a, [f(a[0] + p), a[1]], [f(a[0] + p), f(a[1] + q)]),
                _ => (a, [f(a[0] + p), clamp_t::<T>(a[1] + t.int(-2, 2) as i128)], [a[0], f(a[1] + q)]),
            }
        }
        3 => {
            cx.label("small triangle next to an edge of the coordinate range");
            let a = [edge::<T>(t), edge::<T>(t)];
            let b = nearby::<T, 2>(t, &a);
            let c = nearby::<T, 2>(t, &a);
            (a, b, c)
        }
        4 => {
            cx.label("coordinates around 2^(bits/2)");
            three::<T>(t, root_scale::<T>, mixed::<T>)
        }
        5 => {
            cx.label("every coordinate at an edge of the type");
            three::<T>(t, edge::<T>, edge::<T>)
        }
        6 => {
            cx.label("uniform coordinates");
            three::<T>(t, uniform::<T>, uniform::<T>)
        }
        _ => {
            cx.label("small coordinates");
            three::<T>(t, small::<T>, small::<T>)
        }
    }
}

fn side_case<T: IntEl>(t: &mut Tape, cx: &mut Cx, area: Option<AreaFn<T>>) -> CaseResult {
    cx.label(T::NAME);
    let (a, b, c) = side_points::<T>(t, cx);
    sample!(cx, "Vec2<{}> a={:?} b={:?} c={:?}", T::NAME, a, b, c);
    let asserted = side_core::<T>(cx, a, b, c, area)?;
    cx.set_nontrivial(asserted && a != b && b != c && a != c && (big(&a) || big(&b) || big(&c)));
    Ok(())
}
fn area_of<T: IntNeg>(a: [T; 2], b: [T; 2], c: [T; 2]) -> T {
    vek::vec::repr_c::Vec2::triangle_area(vk::v2(&a), vk::v2(&b), vk::v2(&c))
}

fn side_all(t: &mut Tape, cx: &mut Cx) -> CaseResult {
    match t.below(12) {
        0 => side_case::<i8>(t, cx, Some(area_of::<i8>)),
        1 => side_case::<i16>(t, cx, Some(area_of::<i16>)),
        2 => side_case::<i32>(t, cx, Some(area_of::<i32>)),
        3 => side_case::<i64>(t, cx, Some(area_of::<i64>)),
        4 => side_case::<u8>(t, cx, None),
        5 => side_case::<u16>(t, cx, None),
        6 => side_case::<u32>(t, cx, None),
        7 => side_case::<Wrapping<i8>>(t, cx, Some(area_of::<Wrapping<i8>>)),
        8 => side_case::<Wrapping<i32>>(t, cx, Some(area_of::<Wrapping<i32>>)),
        9 => side_case::<Wrapping<i64>>(t, cx, Some(area_of::<Wrapping<i64>>)),
        10 => side_case::<Wrapping<u8>>(t, cx, None),
        _ => side_case::<Wrapping<u32>>(t, cx, None),
    }
}

/// 8-bit types, exhaustive structured subset: both legs of every length, four placements.
/// index = variant * 65536 + (p as u8) * 256 + (q as u8).
const GRID8: u64 = 4 * 65536;
fn side_grid8(idx: u64, cx: &mut Cx) -> CaseResult {
    let variant = idx / 65536;
    let (pu, qu) = (((idx / 256) % 256) as u8, (idx % 256) as u8);
    let place = |p: i128, q: i128, lo: i128, hi: i128| -> Option<([i128; 2], [i128; 2], [i128; 2])> {
        let (a, b, c) = match variant {
            0 => ([0, 0], [p, 0], [0, q]),
            1 => ([0, 0], [0, p], [q, 0]),
            2 => ([0, 0], [p, 0], [p, q]),
            _ => ([1, if lo < 0 { -1 } else { 1 }], [1 + p, if lo < 0 { -1 } else { 1 }], [1, (if lo < 0 { -1 } else { 1 }) + q]),
        };
        let fits = |v: &[i128; 2]| v.iter().all(|x| *x >= lo && *x <= hi);
        if fits(&a) && fits(&b) && fits(&c) {
            Some((a, b, c))
        } else {
            None
        }
    };
    let (ps, qs) = (pu as i8 as i128, qu as i8 as i128);
    let mut asserted = false;
    if let Some((a, b, c)) = place(ps, qs, -128, 127) {
        sample!(cx, "Vec2<i8 / Wrapping<i8>> a={:?} b={:?} c={:?}", a, b, c);
        asserted |= side_core::<i8>(cx, a, b, c, Some(area_of::<i8>))?;
        asserted |= side_core::<Wrapping<i8>>(cx, a, b, c, Some(area_of::<Wrapping<i8>>))?;
    }
    if let Some((a, b, c)) = place(pu as i128, qu as i128, 0, 255) {
        asserted |= side_core::<u8>(cx, a, b, c, None)?;
        asserted |= side_core::<Wrapping<u8>>(cx, a, b, c, None)?;
    }
    cx.set_nontrivial(asserted && pu != 0 && qu != 0);
    Ok(())
}

// ---------------------------------------------------------------------------------------------
// Vec3: cross; Vec4: homogenized
// ---------------------------------------------------------------------------------------------

fn cross_case<T: IntEl>(t: &mut Tape, cx: &mut Cx) -> CaseResult {
    cx.label(T::NAME);
    let a: [i128; 3] = gen_ivec::<T, 3>(t, cx);
    let b: [i128; 3] = gen_ivec::<T, 3>(t, cx);
    sample!(cx, "Vec3<{}> a={:?} b={:?}", T::NAME, a, b);
    let ctx = format!("Vec3<{}> a={:?} b={:?}", T::NAME, a, b);
    let mut m = Md::new();
    let want: [i128; 3] = std::array::from_fn(|i| {
        let (j, k) = ((i + 1) % 3, (i + 2) % 3);
        let p1 = m.v::<T>(a[j] * b[k]);
        let p2 = m.v::<T>(a[k] * b[j]);
        m.v::<T>(p1 - p2)
    });
    if !m.ring::<T>() {
        cx.label("cross: a product or a difference is not representable (not asserted)");
        return Ok(());
    }
    cx.set_nontrivial(want != [0, 0, 0] && (big(&a) || big(&b)));
    let (va, vb) = (vk::v3(&arr::<T, 3>(&a)), vk::v3(&arr::<T, 3>(&b)));
    let g = call!(cx, "cross", ctx, va.cross(vb));
    check_eq!(cx, vals(&vk::a3(&g)), want, "cross(a, b); {}", ctx);
    // b x a = -(a x b) where the negated lanes are representable
    let mut mn = Md::new();
    let neg: [i128; 3] = std::array::from_fn(|i| mn.v::<T>(-want[i]));
    if mn.ring::<T>() {
        let g2 = call!(cx, "cross (swapped)", ctx, vb.cross(va));
        check_eq!(cx, vals(&vk::a3(&g2)), neg, "cross(b, a) must be -(a x b); {}", ctx);
    }
    Ok(())
}
fn cross_all(t: &mut Tape, cx: &mut Cx) -> CaseResult {
    match t.below(12) {
        0 => cross_case::<i8>(t, cx),
        1 => cross_case::<i16>(t, cx),
        2 => cross_case::<i32>(t, cx),
        3 => cross_case::<i64>(t, cx),
        4 => cross_case::<u8>(t, cx),
        5 => cross_case::<u16>(t, cx),
        6 => cross_case::<u32>(t, cx),
        7 => cross_case::<Wrapping<i8>>(t, cx),
        8 => cross_case::<Wrapping<i32>>(t, cx),
        9 => cross_case::<Wrapping<i64>>(t, cx),
        10 => cross_case::<Wrapping<u8>>(t, cx),
        _ => cross_case::<Wrapping<u32>>(t, cx),
    }
}

fn homog_case<T: IntEl>(t: &mut Tape, cx: &mut Cx) -> CaseResult {
    cx.label(T::NAME);
    let mut v: [i128; 4] = gen_ivec::<T, 4>(t, cx);
    if t.bool() || v[3] == 0 {
        v[3] = match t.below(4) {
            0 => 1,
            1 => clamp_t::<T>(-1),
            2 => clamp_t::<T>(t.int(2, 7) as i128 * if t.bool() { -1 } else { 1 }),
            _ => edge::<T>(t),
        };
    }
    if v[3] == 0 {
        // w = 0 is the documented division by zero: never called
        v[3] = 1;
    }
    sample!(cx, "Vec4<{}> v={:?}", T::NAME, v);
    let ctx = format!("Vec4<{}> v={:?}", T::NAME, v);
    let mut m = Md::new();
    for i in 0..4 {
        m.v::<T>(v[i] / v[3]);
    }
    if !m.exact {
        // MIN / -1: Wrapping wraps, plain types overflow; nothing is asserted for either
        cx.label("homogenized: a quotient (MIN / -1) is not representable (not asserted)");
        return Ok(());
    }
    cx.set_nontrivial(v[3] != 1 && big(&v));
    let vv = vk::v4(&arr::<T, 4>(&v));
    let h = vals(&vk::a4(&call!(cx, "homogenized", ctx, vv.homogenized())));
    for i in 0..3 {
        check!(cx, quot_ok(h[i], v[i], v[3]), "homogenized lane {} = {} is not {} / {}; {}", i, h[i], v[i], v[3], ctx);
    }
    check_eq!(cx, h[3], 1, "homogenized: w must become 1; {}", ctx);
    let mut hm = vv;
    let _: () = call!(cx, "homogenize", ctx, hm.homogenize());
    check_eq!(cx, vals(&vk::a4(&hm)), h, "homogenize (in place) must equal homogenized; {}", ctx);
    Ok(())
}
fn homog_all(t: &mut Tape, cx: &mut Cx) -> CaseResult {
    match t.below(12) {
        0 => homog_case::<i8>(t, cx),
        1 => homog_case::<i16>(t, cx),
        2 => homog_case::<i32>(t, cx),
        3 => homog_case::<i64>(t, cx),
        4 => homog_case::<u8>(t, cx),
        5 => homog_case::<u16>(t, cx),
        6 => homog_case::<u32>(t, cx),
        7 => homog_case::<Wrapping<i8>>(t, cx),
        8 => homog_case::<Wrapping<i32>>(t, cx),
        9 => homog_case::<Wrapping<i64>>(t, cx),
        10 => homog_case::<Wrapping<u8>>(t, cx),
        _ => homog_case::<Wrapping<u32>>(t, cx),
    }
}

pub fn checks(checks: &mut Vec<Check>) {
    let g = "integer element types (i8 i16 i32 i64 u8 u16 u32, Wrapping<i8 i32 i64 u8 u32>; lanes small / at the edges of the type / around 2^(bits/2) / uniform; second operand also within 3 units of the first): dot (both orders), magnitude_squared, distance_squared, reflected, face_forward (types with Neg) equal the i128 model exactly whenever the result and the necessary intermediates are representable (no panic allowed then); Wrapping: equal the model mod 2^n always";
    macro_rules! reg {
        ($V:ident, $N:expr, $q:expr) => {{
            fn dispatch(t: &mut Tape, cx: &mut Cx) -> CaseResult {
                use vek::vec::repr_c::$V;
                match t.below(12) {
                    0 => poly_neg::<i8, $V<i8>, $N>(t, cx),
                    1 => poly_neg::<i16, $V<i16>, $N>(t, cx),
                    2 => poly_neg::<i32, $V<i32>, $N>(t, cx),
                    3 => poly_neg::<i64, $V<i64>, $N>(t, cx),
                    4 => poly_pos::<u8, $V<u8>, $N>(t, cx),
                    5 => poly_pos::<u16, $V<u16>, $N>(t, cx),
                    6 => poly_pos::<u32, $V<u32>, $N>(t, cx),
                    7 => poly_neg::<Wrapping<i8>, $V<Wrapping<i8>>, $N>(t, cx),
                    8 => poly_neg::<Wrapping<i32>, $V<Wrapping<i32>>, $N>(t, cx),
                    9 => poly_neg::<Wrapping<i64>, $V<Wrapping<i64>>, $N>(t, cx),
                    10 => poly_pos::<Wrapping<u8>, $V<Wrapping<u8>>, $N>(t, cx),
                    _ => poly_pos::<Wrapping<u32>, $V<Wrapping<u32>>, $N>(t, cx),
                }
            }
            let q: u64 = $q;
            checks.push(Check { name: concat!("int-", stringify!($V)), about: g, kind: Kind::Tape { len: 64 * $N + 128, quick: q, thorough: q * 100, f: dispatch } });
        }};
    }
    reg!(Vec2, 2, 12_000);
    reg!(Vec3, 3, 12_000);
    reg!(Vec4, 4, 12_000);
    reg!(Extent2, 2, 6000);
    reg!(Extent3, 3, 6000);
    reg!(Vec8, 8, 4000);
    reg!(Vec16, 16, 3000);
    reg!(Vec32, 32, 2000);
    reg!(Vec64, 64, 1500);
    let s = "Vec2 over the integer element types: determine_side = (b-a) x (c-a) exactly, signed_triangle_area = its half, triangle_area = |half| >= 0 (also with a, b exchanged), whenever the four differences, the two products, their difference and the half are representable -- in particular for a cross product of exactly T::MIN; legs with p * q at the edges of the type, small triangles at the edge of the coordinate range, coordinates around 2^(bits/2), all-edge, uniform, small; Wrapping: model mod 2^n, area = |signed area|";
    checks.push(Check { name: "int-side-area-Vec2", about: s, kind: Kind::Tape { len: 128, quick: 40_000, thorough: 4_000_000, f: side_all } });
    checks.push(Check {
        name: "int-side-area-Vec2-grid8",
        about: "i8, Wrapping<i8>, u8, Wrapping<u8>: right triangles with legs p, q for EVERY pair (p, q) of the 8-bit type, four placements (legs on x/y, y/x, second leg at the far end, origin at (1, -1)): determine_side, signed_triangle_area, triangle_area exact whenever representable (includes every factorisation of -128)",
        kind: Kind::Index { total: GRID8, quick: GRID8, thorough: GRID8, f: side_grid8 },
    });
    checks.push(Check { name: "int-cross-Vec3", about: "Vec3 over the integer element types: cross = the six products and three differences of the definition, exactly whenever those are representable; b x a = -(a x b) when the negation is; Wrapping: mod 2^n", kind: Kind::Tape { len: 128, quick: 20_000, thorough: 2_000_000, f: cross_all } });
    checks.push(Check { name: "int-homogenize-Vec4", about: "Vec4 over the integer element types: homogenized / homogenize = every lane divided by w (truncated or floored quotient), w becomes 1, whenever w != 0 and no quotient is MIN / -1", kind: Kind::Tape { len: 128, quick: 20_000, thorough: 2_000_000, f: homog_all } });
}
