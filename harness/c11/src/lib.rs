//! C11 — spatial vector functions satisfy their geometric definitions.
//!
//! Layout: `lib.rs` (oracle domain, comparison helpers, generators, the per-type forwarding trait),
//! `generic.rs` (dot / magnitude / distance / normalisation family / predicates, reflected / refracted /
//! face_forward, angle_between — for every spatial type), `v2.rs` (determine_side, triangle areas),
//! `v3.rs` (cross, slerp), `v4.rs` (homogenisation), `scale.rs` (every scale-invariant / scale-covariant function
//! with operands scaled exactly by 2^k, tiny and huge), `slerp_edge.rs` (slerp at very small angles, next to pi,
//! with endpoints of different and extreme lengths, through all four entry points), `ints.rs` (every function of the
//! property that exists for integer element types, up to the limits of the type, against an i128 model),
//! `etaparam.rs` (the scalar parameters over their whole domain: `refracted` for every real eta, slerp factors far
//! outside [0, 1]), `translate.rs` (the point-taking functions on figures far from the origin relative to their size).
//!
//! Every oracle works on plain arrays in the *oracle domain* `S::O` (`Rat` for `Rat`, `f64` for `f64`/`f32`)
//! and never calls the vek function it judges. Vectors are built with struct / tuple-struct literals and read
//! back through the public fields.

use vkit::refmath as rf;
use vkit::*;

/// Scalar domain together with the domain its oracle is evaluated in.
pub trait Lift: Dom {
    type O: Dom;
    fn lift(self) -> Self::O;
    /// Square root in the oracle domain when it can be given exactly (floats: correctly rounded f64).
    fn sqrt_o(x: Self::O) -> Option<Self::O>;
    /// Nearest value of the domain (exact for `Rat`).
    fn of_f64(x: f64) -> Self;
    /// Oracle-domain value back in the scalar domain (identity for Rat / f64, one rounding for f32).
    fn back(x: Self::O) -> Self;
}
impl Lift for Rat {
    type O = Rat;
    fn lift(self) -> Rat {
        self
    }
    fn sqrt_o(x: Rat) -> Option<Rat> {
        x.exact_sqrt()
    }
    fn of_f64(x: f64) -> Rat {
        Rat::from_f64_exact(x)
    }
    fn back(x: Rat) -> Rat {
        x
    }
}
impl Lift for f64 {
    type O = f64;
    fn lift(self) -> f64 {
        self
    }
    fn sqrt_o(x: f64) -> Option<f64> {
        Some(x.sqrt())
    }
    fn of_f64(x: f64) -> f64 {
        x
    }
    fn back(x: f64) -> f64 {
        x
    }
}
impl Lift for f32 {
    type O = f64;
    fn lift(self) -> f64 {
        self as f64
    }
    fn sqrt_o(x: f64) -> Option<f64> {
        Some(x.sqrt())
    }
    fn of_f64(x: f64) -> f32 {
        x as f32
    }
    fn back(x: f64) -> f32 {
        x as f32
    }
}

pub fn lift_v<S: Lift, const N: usize>(a: &[S; N]) -> [S::O; N] {
    let mut r = [<S::O as num_traits::Zero>::zero(); N];
    for i in 0..N {
        r[i] = a[i].lift();
    }
    r
}

/// `got` equals `want` (both in the oracle domain): exactly in the exact domain, within
/// `k * eps(S) * scale` for floats (`scale` is *not* floored at 1: callers pass the magnitude that
/// bounds the rounding of the operation).
pub fn near<S: Lift>(cx: &mut Cx, got: S::O, want: S::O, scale: f64, k: f64) -> bool {
    cx.count();
    if S::EXACT {
        got == want
    } else {
        let (x, y) = (got.f(), want.f());
        if x == y {
            return true;
        }
        let tol = (k * S::eps() * scale.abs()).max(f64::MIN_POSITIVE);
        let d = (x - y).abs();
        if !d.is_finite() {
            return false;
        }
        cx.note_err(d / tol);
        d <= tol
    }
}

#[macro_export]
macro_rules! near {
    ($cx:expr, $S:ty, $got:expr, $want:expr, $scale:expr, $k:expr, $($arg:tt)*) => {{
        let g = $got;
        let w = $want;
        if !$crate::near::<$S>($cx, g, w, $scale as f64, $k as f64) {
            return Err(vkit::Fail::Violation(format!("{}: got {:?}, want {:?} (scale {:.3e}, k {})", format!($($arg)*), g, w, $scale as f64, $k as f64)));
        }
    }};
}
/// Array version: `got` is in the scalar domain, `want` in the oracle domain.
#[macro_export]
macro_rules! near_vec {
    ($cx:expr, $S:ty, $got:expr, $want:expr, $scale:expr, $k:expr, $($arg:tt)*) => {{
        let g = $crate::lift_v::<$S, _>(&$got);
        let w = $want;
        for i_ in 0..g.len() {
            if !$crate::near::<$S>($cx, g[i_], w[i_], $scale as f64, $k as f64) {
                return Err(vkit::Fail::Violation(format!("{}: lane {} differs: got {:?}, want {:?} (got {:?}, want {:?}; scale {:.3e}, k {})", format!($($arg)*), i_, g[i_], w[i_], g, w, $scale as f64, $k as f64)));
            }
        }
    }};
}

pub fn vmax<O: Dom, const N: usize>(a: &[O; N]) -> f64 {
    a.iter().fold(0.0f64, |m, x| m.max(x.f().abs()))
}
/// sum |a_i * b_i| as f64 (rounding scale of a dot product)
pub fn absdot<O: Dom, const N: usize>(a: &[O; N], b: &[O; N]) -> f64 {
    (0..N).map(|i| (a[i].f() * b[i].f()).abs()).sum()
}
pub fn nonzero_count<S: Dom, const N: usize>(a: &[S; N]) -> usize {
    a.iter().filter(|x| !x.is_zero()).count()
}
pub fn neg_v<S: Dom, const N: usize>(a: &[S; N]) -> [S; N] {
    let mut r = *a;
    for i in 0..N {
        r[i] = -a[i];
    }
    r
}

// ---------------------------------------------------------------------------------------------
// generators
// ---------------------------------------------------------------------------------------------

/// Arbitrary vector with small rational / moderate float entries.
pub fn gen_any<S: Dom, const N: usize>(t: &mut Tape) -> [S; N] {
    vk::gen_vec(t, 9)
}

/// Rational point of the unit sphere S^(N-1) by inverse stereographic projection of an integer point
/// (exactly unit in `Rat`, unit up to rounding in floats); the pole lane and the overall sign are tape-chosen.
pub fn unit_n<S: Dom, const N: usize>(t: &mut Tape) -> [S; N] {
    let mut p = [0i64; N];
    let mut s = 0i64;
    // few lanes: a wider parameter range, so that low-dimensional vectors are not mostly axis-aligned
    let r0 = if N <= 4 { 6 } else { 2 };
    for i in 0..N - 1 {
        p[i] = t.int(-r0, r0);
        s += p[i] * p[i];
    }
    let mut u = [S::zero(); N];
    for i in 0..N - 1 {
        u[i] = S::q(2 * p[i], s + 1);
    }
    u[N - 1] = S::q(s - 1, s + 1);
    let r = t.below(N);
    let neg = t.bool();
    let mut out = [S::zero(); N];
    for i in 0..N {
        let x = u[(i + r) % N];
        out[i] = if neg { -x } else { x };
    }
    out
}

/// Two orthonormal vectors with rational components: columns `a != b` of the Householder reflection
/// I - 2 w w^T / (w^T w) for a small non-zero integer vector w.
pub fn ortho_pair<S: Dom, const N: usize>(t: &mut Tape) -> ([S; N], [S; N]) {
    let mut w = [0i64; N];
    let mut ww = 0i64;
    for i in 0..N {
        w[i] = t.int(-2, 2);
        ww += w[i] * w[i];
    }
    if ww == 0 {
        w[0] = 1;
        ww = 1;
    }
    let a = t.below(N);
    let mut b = t.below(N - 1);
    if b >= a {
        b += 1;
    }
    let col = |c: usize| {
        let mut v = [S::zero(); N];
        for i in 0..N {
            v[i] = S::q(if i == c { ww } else { 0 } - 2 * w[c] * w[i], ww);
        }
        v
    };
    (col(a), col(b))
}

/// A positive length: moderate fractions, powers of two, and small-but-clearly-non-zero values (>= 1e-3).
pub fn pos_len<S: Dom>(t: &mut Tape) -> S {
    match t.below(8) {
        0 => S::q(1, 1 << t.int(1, 6)),
        1 => S::i(1 << t.int(1, 6)),
        2 => S::i(1),
        _ => S::q(t.int(1, 12), t.pick(&[1i64, 1, 2, 3, 5, 7])),
    }
}

/// (sin, cos) of a Pythagorean angle in (0, pi/2), as integer triples (opposite, adjacent, hypotenuse).
pub const PYTH: [(i64, i64, i64); 10] = [(3, 4, 5), (4, 3, 5), (5, 12, 13), (12, 5, 13), (8, 15, 17), (15, 8, 17), (7, 24, 25), (24, 7, 25), (20, 21, 29), (21, 20, 29)];

pub fn scale_s<S: Dom, const N: usize>(a: &[S; N], k: S) -> [S; N] {
    rf::scale(a, k)
}

// ---------------------------------------------------------------------------------------------
// the spatial vector types behind one trait: build / read through the fields, forward to the real methods
// ---------------------------------------------------------------------------------------------

pub trait Sp<S: Dom, const N: usize>: Copy + std::fmt::Debug {
    const NAME: &'static str;
    fn mk(a: [S; N]) -> Self;
    fn rd(self) -> [S; N];
    fn k_dot(self, o: Self) -> S;
    fn k_magnitude_squared(self) -> S;
    fn k_magnitude(self) -> S;
    fn k_distance_squared(self, o: Self) -> S;
    fn k_distance(self, o: Self) -> S;
    fn k_normalized(self) -> Self;
    fn k_try_normalized(self) -> Option<Self>;
    fn k_normalize(&mut self);
    fn k_normalize_and_get_magnitude(&mut self) -> S;
    fn k_normalized_and_get_magnitude(self) -> (Self, S);
    fn k_is_normalized(self) -> bool;
    fn k_is_approx_zero(self) -> bool;
    fn k_is_magnitude_close_to(self, x: S) -> bool;
    fn k_angle_between(self, o: Self) -> S;
    /// the deprecated `angle_between_degrees`
    fn k_angle_between_degrees(self, o: Self) -> S;
    fn k_reflected(self, n: Self) -> Self;
    fn k_refracted(self, n: Self, eta: S) -> Self;
    fn k_face_forward(self, incident: Self, reference: Self) -> Self;
}

macro_rules! mk_body {
    (struct $V:ident $a:ident ($($f:ident)+)) => {{ let [$($f),+] = $a; $V { $($f),+ } }};
    (tuple $V:ident $a:ident ($($f:ident)+)) => {{ let [$($f),+] = $a; $V($($f),+) }};
}
macro_rules! rd_body {
    (struct $V:ident $v:ident ($($f:ident)+) ($($i:tt)+)) => {{ let $V { $($f),+ } = $v; [$($f),+] }};
    (tuple $V:ident $v:ident ($($f:ident)+) ($($i:tt)+)) => {{ [$($v.$i),+] }};
}

macro_rules! impl_sp {
    ($V:ident, $N:expr, $kind:ident, ($($f:ident)+), ($($i:tt)+)) => {
        impl<S: Dom> Sp<S, $N> for vek::vec::repr_c::$V<S> {
            const NAME: &'static str = stringify!($V);
            fn mk(a: [S; $N]) -> Self {
                use vek::vec::repr_c::$V;
                mk_body!($kind $V a ($($f)+))
            }
            #[allow(unused_imports)]
            fn rd(self) -> [S; $N] {
                use vek::vec::repr_c::$V;
                rd_body!($kind $V self ($($f)+) ($($i)+))
            }
            fn k_dot(self, o: Self) -> S { vek::vec::repr_c::$V::<S>::dot(self, o) }
            fn k_magnitude_squared(self) -> S { vek::vec::repr_c::$V::<S>::magnitude_squared(self) }
            fn k_magnitude(self) -> S { vek::vec::repr_c::$V::<S>::magnitude(self) }
            fn k_distance_squared(self, o: Self) -> S { vek::vec::repr_c::$V::<S>::distance_squared(self, o) }
            fn k_distance(self, o: Self) -> S { vek::vec::repr_c::$V::<S>::distance(self, o) }
            fn k_normalized(self) -> Self { vek::vec::repr_c::$V::<S>::normalized(self) }
            fn k_try_normalized(self) -> Option<Self> { vek::vec::repr_c::$V::<S>::try_normalized(self) }
            fn k_normalize(&mut self) { vek::vec::repr_c::$V::<S>::normalize(self) }
            fn k_normalize_and_get_magnitude(&mut self) -> S { vek::vec::repr_c::$V::<S>::normalize_and_get_magnitude(self) }
            fn k_normalized_and_get_magnitude(self) -> (Self, S) { vek::vec::repr_c::$V::<S>::normalized_and_get_magnitude(self) }
            fn k_is_normalized(self) -> bool { vek::vec::repr_c::$V::<S>::is_normalized(self) }
            fn k_is_approx_zero(self) -> bool { vek::vec::repr_c::$V::<S>::is_approx_zero(self) }
            fn k_is_magnitude_close_to(self, x: S) -> bool { vek::vec::repr_c::$V::<S>::is_magnitude_close_to(self, x) }
            fn k_angle_between(self, o: Self) -> S { vek::vec::repr_c::$V::<S>::angle_between(self, o) }
            #[allow(deprecated)]
            fn k_angle_between_degrees(self, o: Self) -> S { vek::vec::repr_c::$V::<S>::angle_between_degrees(self, o) }
            fn k_reflected(self, n: Self) -> Self { vek::vec::repr_c::$V::<S>::reflected(self, n) }
            fn k_refracted(self, n: Self, eta: S) -> Self { vek::vec::repr_c::$V::<S>::refracted(self, n, eta) }
            fn k_face_forward(self, incident: Self, reference: Self) -> Self { vek::vec::repr_c::$V::<S>::face_forward(self, incident, reference) }
        }
    };
}

/// Invokes `$m!(Type, lanes, struct|tuple, (field names), (tuple indices));` for every spatial vector type.
macro_rules! spatial_types {
    ($m:ident) => {
        $m!(Vec2, 2, struct, (x y), (0 1));
        $m!(Vec3, 3, struct, (x y z), (0 1 2));
        $m!(Vec4, 4, struct, (x y z w), (0 1 2 3));
        $m!(Extent2, 2, struct, (w h), (0 1));
        $m!(Extent3, 3, struct, (w h d), (0 1 2));
        $m!(Vec8, 8, tuple, (m0 m1 m2 m3 m4 m5 m6 m7), (0 1 2 3 4 5 6 7));
        $m!(Vec16, 16, tuple, (m0 m1 m2 m3 m4 m5 m6 m7 m8 m9 m10 m11 m12 m13 m14 m15), (0 1 2 3 4 5 6 7 8 9 10 11 12 13 14 15));
        $m!(Vec32, 32, tuple,
            (m0 m1 m2 m3 m4 m5 m6 m7 m8 m9 m10 m11 m12 m13 m14 m15 m16 m17 m18 m19 m20 m21 m22 m23 m24 m25 m26 m27 m28 m29 m30 m31),
            (0 1 2 3 4 5 6 7 8 9 10 11 12 13 14 15 16 17 18 19 20 21 22 23 24 25 26 27 28 29 30 31));
        $m!(Vec64, 64, tuple,
            (m0 m1 m2 m3 m4 m5 m6 m7 m8 m9 m10 m11 m12 m13 m14 m15 m16 m17 m18 m19 m20 m21 m22 m23 m24 m25 m26 m27 m28 m29 m30 m31
             m32 m33 m34 m35 m36 m37 m38 m39 m40 m41 m42 m43 m44 m45 m46 m47 m48 m49 m50 m51 m52 m53 m54 m55 m56 m57 m58 m59 m60 m61 m62 m63),
            (0 1 2 3 4 5 6 7 8 9 10 11 12 13 14 15 16 17 18 19 20 21 22 23 24 25 26 27 28 29 30 31
             32 33 34 35 36 37 38 39 40 41 42 43 44 45 46 47 48 49 50 51 52 53 54 55 56 57 58 59 60 61 62 63));
    };
}
spatial_types!(impl_sp);

mod etaparam;
mod generic;
mod ieee;
mod ints;
mod scale;
mod slerp_edge;
mod translate;
mod v2;
mod v3;
mod v4;

pub fn property() -> Property {
    let mut checks: Vec<Check> = Vec::new();
    generic::checks(&mut checks);
    v2::checks(&mut checks);
    v3::checks(&mut checks);
    v4::checks(&mut checks);
    scale::checks(&mut checks);
    slerp_edge::checks(&mut checks);
    ints::checks(&mut checks);
    etaparam::checks(&mut checks);
    translate::checks(&mut checks);
    Property {
        id: "C11",
        rule: "cases are byte tapes generated by proptest (uniform bytes, fixed seed) decoded by constructive generators into labelled classes, plus two exhaustively enumerated integer grids (cross on {-1,0,1}^6, determine_side / areas on {-2..2}^6). \
metric: non-trivial when the vector whose length is taken has >= 2 non-zero lanes and a != b; surface (reflected / refracted / face_forward): when v and n each have >= 2 non-zero lanes and v.n != 0; \
angle: when neither operand is axis-aligned; side/area: when the three points are pairwise distinct and not collinear-with-an-axis (determinant of the general 3x3 form with >= 4 non-zero products) or exactly collinear; \
cross: when a x b != 0 and each operand has >= 2 non-zero lanes; slerp: when the factor is not 0 or 1 and |a| != |b|; homogenise: when w is not 0 or 1 and x,y,z are non-zero; \
scale-* (extreme-magnitude regime, f64 / f32): operands are base vectors of moderate length (1/2 <= |v| <= 2^8 sqrt N; random, L * rational unit vector, anisotropic lanes, exactly / nearly (anti)parallel and perpendicular pairs) multiplied exactly by 2^k with k stratified over 0, mild, middle, extreme and the limits +-48 (f32) / +-480 (f64) (+-120 / +-1000 for homogenisation), alike, one only, opposite or independent per operand; non-trivial when at least one exponent is non-zero and the unscaled non-triviality rule of the function holds; \
slerp-edge: directions exactly parallel, log-uniform small angle down to TH_DEF/16, ordinary, next to pi, exactly antiparallel; lengths in [0.5, 2] times 2^k (none, +-4, extreme alike, extreme independent); factors 0, 1, 1/2, 2^-4..2^-20 next to 0 / 1, inside and outside [0, 1]; non-trivial when the result is finite and |from|, |to| differ from each other and from 1 by more than 1e-3 relative; \
int-* (integer element types i8 i16 i32 i64 u8 u16 u32 and Wrapping<i8 i32 i64 u8 u32>, chosen per case by the tape): lanes / coordinates small, at the edges of the type (vkit::regimes::int_edge), around 2^(bits/2), uniform; second operand also within 3 units of the first; triangles with axis-parallel legs p, q whose product is next to an edge of the type, small triangles at the edge of the coordinate range; plus, for the 8-bit types, every pair of leg lengths in four placements (262144 index cases, exhaustive); non-trivial when at least one function was asserted (result and necessary intermediates representable, or Wrapping) and an operand has a lane beyond +-3 (grid: both legs non-zero); \
refract-eta-* (every spatial type, Rat / f64 / f32): incidence angle ordinary, moderately / extremely (2/m, m up to 2e6) near the normal or grazing, exactly normal, exactly grazing; plane of incidence a Householder pair or two signed axes; incident against or along the normal; eta = +-1/sin(th1) (k = 0), a hair or far beyond it (k < 0), +-sin(th2)/sin(th1) with th2 Pythagorean / a hair below 90 degrees / tiny (k > 0), literally 0, +-1, +-(1 +- 2^-j), +-1e3 .. 2^20, +-1e-6 .. 2^-10, +-p/8, +-p/4; non-trivial when the incident vector has >= 2 non-zero lanes, the case is asserted and eta <= 0 or eta < 2^-12 or eta > 16 or |eta - 1| <= 2^-9; \
slerp-factor-Vec3-*: angle right / ordinary / small (log-uniform from 8 TH_DEF) / up to pi - 0.05, lengths in [0.5, 2] * 2^-4..4, factor an integer, half-integer, +-2^j, +-1e3 / 1e6 / 1e9, log-uniform up to 1e6, a hair outside [0, 1], -1 / 2, whole turns, +-1e30 / MAX (clamped forms); non-trivial when |from| != |to| (1e-3 relative) and the factor is outside [-0.5, 1.5]; \
translate-*: points = (integer offset + integer displacement) * 2^s, displacements of up to 1, 2, 8, 64, 512 grid steps (collinear / one step off / general triangles; differences on one, two (Pythagorean) or all lanes), offsets 0, 2^j, 2^j +- 1, largest representable, full random mantissa of up to 24 (f32) / 49 (f64, Rat) bits, alike on all lanes / one lane / independent, either sign; non-trivial when an offset is non-zero and the points are pairwise distinct; \
distinct = distinct consumed tape prefix per check",
        assumptions: &[
            "rustc and the proptest runner/shrinker are trusted",
            "oracles are textbook formulas on plain arrays in the oracle domain (Rat for Rat, f64 for f64 and f32): sum of products, Levi-Civita cross product, Leibniz 3x3 determinant for the 2D side test, Kahan's 2*atan2(|a^-b^|, |a^+b^|) for angles, Gram-Schmidt frame for slerp; none calls the vek function it judges",
            "vectors are built with struct / tuple-struct literals and read back through the public fields",
            "exact rational arithmetic (Rat over i128); irrational sqrt / acos / i128 overflow poison the case, which is discarded and counted; lengths in Rat are therefore taken of L*u with u a rational point of the unit sphere (inverse stereographic projection) and refraction is evaluated on Householder orthonormal pairs with Pythagorean incidence / refraction angles, so that every radical (incl. sqrt(k) at k = 0) is rational",
            "angle_between and slerp go through acos and are checked in f64 / f32 only",
            "float tolerances are k * eps(S) * scale with k and scale stated at each comparison (scale = magnitude bounding the rounding of that operation; acos-based results are widened by the conditioning 1/sin(angle)); max observed error / tolerance is recorded in the evidence",
            "try_normalized: None is demanded on the exact zero vector, Some(unit, parallel) whenever |v| >= 1e-3; for 0 < |v| < 1e-3 (incl. denormal lengths) nothing is asserted. is_normalized / is_approx_zero / is_magnitude_close_to are asserted only on clear-cut inputs (exact or within 2 eps relative for `true`, off by >= 1e-3 relative for `false`)",
            "face_forward at reference.incident == 0 (and, in floats, when the sign of the dot product is within rounding of 0): only `result is v or -v` is asserted. refracted in floats: nothing is asserted when |k| is within rounding of 0 (the branch is decided exactly in Rat)",
            "slerp-Vec3-* precondition: endpoints non-zero (0.1 <= |.| <= 10) and neither parallel nor antiparallel (angle in [0.05, pi-0.05]); factor in [-0.5, 1.5]",
            "extreme magnitudes (scale-*): asserted only where every operand alone is still normalisable and every degree-2 quantity of the property is representable: |k| <= 48 (f32) / 480 (f64) on base lengths in [1/2, 2^8 sqrt N], so |v|^2, a_i b_i and (a_i - b_i)^2 stay normal (f32 2^-98..2^120, f64 2^-962..2^990); cross uses half that range per operand (its derived clauses are of degree 3 and 4); homogenisation only forms quotients and is exercised over 2^+-120 / 2^+-1000 with the quotient exponent bounded by 100 / 900. Overflow or complete underflow of |v|^2 itself (|v| > ~2^63 / 2^511 or < ~2^-63 / 2^-511) is NOT asserted: the documented formulas (v / sqrt(v.v)) lose all meaning there in any implementation that squares. Oracles are evaluated at the unscaled magnitude and multiplied by the exact power of two; every tolerance is k * eps * (scaled magnitude) plus 8 subnormal ulps (gradual underflow of one product of two tiny lanes); the scaling itself is exact: every scaled lane is zero or a normal number (debug-asserted in the harness)",
            "extreme magnitudes, what is deliberately left out: reflected with a scaled *normal* (the property states it for the surface normal; only the incident vector is scaled), refracted (stated for unit vectors only; instead eta is drawn from 2^-12..2^4 and the incidence angle from near-normal / grazing Pythagorean triples), Rat (2^k scaling cannot leave its range; the rational code paths are already exact at unit scale), try_normalized between 0 and 1e-3 (Some(unit) or None both accepted, as at unit scale), `false` answers of the approximate predicates at tiny scale (absolute epsilon leg of RelativeEq)",
            "integer element types (int-*): oracle = the defining formula on i128. Plain integers (the harness is built with overflow checks, so an overflow inside vek is a panic): the exact result is demanded, and a panic reported, whenever the RESULT and the mathematically necessary intermediates are representable in the element type; otherwise vek is not called and the case only labelled. Necessary intermediates: dot / magnitude_squared: every product and the sum in ANY order (sum of the positive and sum of the negative products separately, so no association order is imposed); distance_squared: lane differences, squares, sum; reflected: v.n, 2(v.n), n_i * 2(v.n), the lane results; face_forward: reference.incident, and -v_i only if the vector is flipped; determine_side: the four differences b-a, c-a, the two products, their difference; signed_triangle_area: plus the half; triangle_area: plus |half| (NOT |cross product|: a cross product of exactly T::MIN has a representable half and area); cross: six products, three differences; homogenized: the four quotients (w = 0 never called, MIN / -1 not asserted). A non-divisible half / quotient may be truncated or floored. Wrapping<_>: polynomial functions must equal the model mod 2^n always (ring identity, independent of evaluation order); halves, absolute values and signs are asserted when the true value is representable, otherwise only triangle_area == |signed_triangle_area| >= 0 and face_forward in {v, -v}. Not covered: u64, i128 / u128, isize / usize (products exceed the i128 model / platform dependent); Wrapping of unsigned for triangle_area (absolute value meaningless)",
            "refracted, range of eta (refract-eta-*): vek's doc comment ('The refraction vector for this incident vector, a surface normal and a ratio of indices of refraction (`eta`)') names neither a formula nor a domain for eta; the property demands the Snell formula and the zero vector on total internal reflection. Asserted for every real eta: k = 1 - eta^2 (1 - (n.i)^2) < 0 gives the zero vector, otherwise eta*i - (eta*(n.i) + sqrt k)*n (the GLSL refract formula: tangential part eta * tangential(i), normal part -sqrt(k) n, also for eta <= 0, where it is the algebraic continuation, not physics). i and n are unit vectors (exactly in Rat, up to rounding in floats; the oracle evaluates the formula on the lanes actually passed). Floats: the rounding of k is bounded operation by operation: with m non-zero products n_j i_j, d(n.i) <= (2m - 1) eps sum|n_j i_j| (0 when the only non-zero product has a factor +-1, e.g. an axis-aligned normal), d(q) <= 2 |n.i| d(n.i) + eps (n.i)^2 (0 for |n.i| = 1) + eps |q| for q = 1 - (n.i)^2, dk = 2 (eta^2 (d(q) + 3 eps |q|) + eps |k|) (twice: vek and the f64 oracle); the zero vector is demanded for k < -2 dk, the formula for k > 8 dk within 2 eps (2m + 8)(|eta| + sqrt k + 1) + 2 dk / sqrt k, nothing in between. Since dk grows like eta^2 eps, f32 resolves the sign of k for |eta| >= 1e3 only at (near-)normal incidence with an exact n.i; there it is asserted (label 'Snell formula (k > 0) with |eta| >= 1e3'), everything else at that magnitude is decided exactly in Rat. Rat: literal eta with an irrational sqrt(k) are not called",
            "slerp factors far outside [0, 1] (slerp-factor-*): the doc says 'without implicitly constraining factor to be between 0 and 1 ... their length is also linearly interpolated' / 'implicitly constraining factor to be between 0 and 1'. Clamped forms: the end point on the side of the factor within 8 eps (as at factor 0 / 1), for every finite factor up to MAX (infinite and NaN factors are not asserted). Unclamped forms: |result| = |lerp(|from|, |to|, t)| (the interpolated length may be negative; its absolute value is compared) within (10 w1 w2 + 5 (w1 + w2) + 2.5 (|1-t| + |t|) alpha / sin(alpha) + 8) eps |l| + 4 (|1-t| + |t|) eps max(|from|, |to|) with w1 = min(1, |1-t| alpha) / sin(alpha), w2 = min(1, |t| alpha) / sin(alpha) bounding the weights; result in the plane of the end points; direction at t * angle within 32 (1 + |t|) / sin^2(alpha) eps (the computed angle is only known to 8 eps / sin(alpha), and t multiplies that); each clause only while its relative tolerance is <= 2^-6. Angles stay 8 TH_DEF away from 0 and 0.05 from pi, so a non-finite result is a violation",
            "translation (translate-*): asserted only for the functions whose documented / implemented definition works on differences of points (distance, distance_squared: '(self - v).magnitude()'; determine_side: '(bx - ax) * (cy - ay) - (by - ay) * (cx - ax)', the areas derived from it), and only on inputs where every coordinate and every difference of coordinates is exactly representable (integers below 2^24 / 2^49 times a power of two), so that the demanded tolerance relative to the figure (4 eps * sum of |edge component products| resp. (N + 2) / (N + 4) eps * the distance) is what the unchanged formula delivers. The oracle is integer arithmetic on the displacements. Nothing is asserted about translated figures whose coordinates are not exactly representable sums",
            "scalar parameters audited and left as they are: is_magnitude_close_to(x) with x < 0 is not asserted (the doc says 'Is the magnitude of the vector close to x?', the code compares squares, so it answers true for x = -|v|: neither is promised); large and tiny x >= 0 are covered by scale-*; face_forward, reflected, angle_between(_degrees) take no scalar parameter",
            "slerp-edge conditioning (documented GLM formula): the computed cosine is within 8 eps of the true one, so (i) end points are hit within 8 eps |from| (factor 0) / 8 eps max(|from|, |to|) (factor 1: one rounding of lerp's `to - from`) at EVERY angle with sin(alpha') != 0, (ii) |result| = lerp(|from|, |to|, t) within (8 |t1 t2| + 4 (|t1| + |t2|) + 2 (|1-t| + |t|) alpha / sin(alpha) + 8) eps |L| + 4 (|1-t| + |t|) eps max(|from|, |to|), where t1, t2 are the exact weights: bounded for small angles, growing like 1/sin^2 only next to pi, (iii) the full reference within 32 eps for angles <= 0.06 and 32 / sin^2 otherwise (asserted while that is <= 2^-6 / eps). The formula is 0/0 exactly when the computed cosine rounds to 1, possible only for theta^2 / 2 <= 8.25 eps (theta <= 1.40e-3 in f32, 6.05e-8 in f64): inside that zone and its mirror image at pi a non-finite result is accepted and nothing is asserted for the case, a finite result must satisfy every clause; outside it a non-finite result is reported. Within sqrt(512 eps) of pi only the end points are asserted (intermediate directions are genuinely ill-conditioned there)",
        ],
        checks,
        max_discard_frac: 0.1,
    }
}
