fn main() {
    vkit::driver::main(c11::property())
}
