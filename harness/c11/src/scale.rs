//! Extreme-magnitude regime (floats): every function of the property that is mathematically invariant or
//! covariant under scaling an operand is called with operands scaled **exactly** by 2^k, tiny and huge, and
//! compared with the oracle evaluated at moderate magnitude and scaled exactly; tolerances are relative to
//! the scaled magnitude.
//!
//! Range of k ("each operand alone is still normalisable"): base vectors have 1/2 <= |v| <= 2^8 sqrt(N) and
//! |k| <= 48 (f32) / 480 (f64), so |v|^2, every product of two lanes of two operands and every squared
//! difference stay inside the normal range (f32: 2^-98 .. 2^120, f64: 2^-962 .. 2^990), while the *product of
//! the two squared magnitudes*, |a|^2 |b|^2, the third power of a length, etc. do not. An individual product
//! of two tiny lanes may still underflow gradually; that costs at most one subnormal ulp per product, which
//! every comparison allows on top of its relative tolerance.

use crate::generic::{kahan_angle, near_abs};
use crate::*;
use vkit::refmath as rf;
use vkit::regimes::scale_label;

/// Exactly 2^k as f64 (|k| <= 1022).
pub fn p2(k: i32) -> f64 {
    debug_assert!((-1022..=1023).contains(&k));
    f64::from_bits(((1023 + k as i64) as u64) << 52)
}

fn is_f32<S: Dom>() -> bool {
    S::eps() > 1e-10
}

/// Largest |k| of the regime (see the module comment).
pub fn kmax<S: Dom>() -> i32 {
    if is_f32::<S>() {
        48
    } else {
        480
    }
}

/// Smallest positive subnormal of the float type.
fn tiny<S: Dom>() -> f64 {
    if is_f32::<S>() {
        p2(-149)
    } else {
        f64::from_bits(1)
    }
}

/// |got - want| <= k eps scale + 8 subnormal ulps; `scale` is the (scaled) magnitude bounding the rounding.
pub fn near_s<S: Lift>(cx: &mut Cx, got: f64, want: f64, scale: f64, k: f64) -> bool {
    cx.count();
    if got == want {
        return true;
    }
    let tol = k * S::eps() * scale.abs() + 8.0 * tiny::<S>();
    let d = (got - want).abs();
    if !d.is_finite() {
        return false;
    }
    cx.note_err(d / tol);
    d <= tol
}

macro_rules! near_s {
    ($cx:expr, $S:ty, $got:expr, $want:expr, $scale:expr, $k:expr, $($arg:tt)*) => {{
        let g: f64 = $got;
        let w: f64 = $want;
        if !near_s::<$S>($cx, g, w, $scale, $k) {
            return Err(vkit::Fail::Violation(format!("{}: got {:e}, want {:e} (scale {:.3e}, k {})", format!($($arg)*), g, w, $scale, $k)));
        }
    }};
}
macro_rules! near_sv {
    ($cx:expr, $S:ty, $got:expr, $want:expr, $scale:expr, $k:expr, $($arg:tt)*) => {{
        let g = $got;
        let w = $want;
        for i_ in 0..g.len() {
            if !near_s::<$S>($cx, g[i_].f(), w[i_], $scale, $k) {
                return Err(vkit::Fail::Violation(format!("{}: lane {} differs: got {:e}, want {:e} (got {:?}, want {:?}; scale {:.3e}, k {})", format!($($arg)*), i_, g[i_].f(), w[i_], g, w, $scale, $k)));
            }
        }
    }};
}

/// A scale exponent in [-km, km]: 0 (1/8), mild, middle, extreme, exactly +-km (1/8).
pub fn exp_pick(t: &mut Tape, km: i32) -> i32 {
    let km = km as i64;
    let k = match t.below(8) {
        0 => return 0,
        1 => t.int(1, km / 4),
        2 | 3 => t.int(km / 4, km / 2),
        4 => km,
        _ => t.int(km / 2, km),
    } as i32;
    if t.bool() {
        -k
    } else {
        k
    }
}

/// Exponents of two operands: alike, one only, opposite extremes, independent.
pub fn exp_pair(t: &mut Tape, cx: &mut Cx, km: i32) -> (i32, i32) {
    match t.below(4) {
        0 => {
            cx.label("both operands scaled alike");
            let k = exp_pick(t, km);
            (k, k)
        }
        1 => {
            cx.label("one operand scaled");
            let k = exp_pick(t, km);
            if t.bool() {
                (k, 0)
            } else {
                (0, k)
            }
        }
        2 => {
            cx.label("operands at opposite scales");
            let k = exp_pick(t, km);
            (k, -k)
        }
        _ => {
            cx.label("operands scaled independently");
            (exp_pick(t, km), exp_pick(t, km))
        }
    }
}

/// `a * 2^k`, exact (lanes stay normal or are zero in the regime).
pub fn scaled_by<S: Lift, const N: usize>(a: &[S; N], k: i32) -> [S; N] {
    let r = scale_s(a, S::of_f64(p2(k)));
    // exactness of the scaling: every lane stays zero or normal
    let min_normal = tiny::<S>() / S::eps();
    debug_assert!(r.iter().all(|x| x.f() == 0.0 || (x.f().abs() >= min_normal && x.f().is_finite())), "scaling by 2^{} left the normal range: {:?}", k, a);
    r
}

fn f_arr<S: Lift, const N: usize>(a: &[S; N]) -> [f64; N] {
    std::array::from_fn(|i| a[i].f())
}

/// Base vector at moderate magnitude, 1/2 <= |v| <= 2^8 sqrt(N): L * rational unit vector, random, or
/// random with lane exponents spread over 2^-4..2^4 (anisotropic).
pub fn base_vec<S: Lift, const N: usize>(t: &mut Tape) -> [S; N] {
    let mut v: [S; N] = match t.below(8) {
        0 => scale_s(&unit_n::<S, N>(t), pos_len::<S>(t)),
        1 | 2 => {
            let mut v: [S; N] = gen_any(t);
            for x in v.iter_mut() {
                *x = *x * S::of_f64(p2(t.int(-4, 4) as i32));
            }
            v
        }
        _ => gen_any(t),
    };
    let vf = f_arr(&v);
    let m2 = rf::dot(&vf, &vf);
    if m2 == 0.0 {
        for i in 0..N {
            v[i] = S::i([1, 2, -3, 5][i % 4]);
        }
    } else if m2 < 0.25 {
        // exact power of two bringing |v| into [1/2, 1)
        let e = (0.5 / m2.sqrt()).log2().ceil() as i32;
        v = scaled_by(&v, e);
    }
    v
}

/// dot, magnitude family, distance family, normalisation family and predicates, angle_between, reflected,
/// face_forward with operands scaled by 2^ka, 2^kb.
pub fn scaled<S: Lift, V: Sp<S, N>, const N: usize>(t: &mut Tape, cx: &mut Cx) -> CaseResult {
    let nf = N as f64;
    let km = kmax::<S>();
    let eps = S::eps();
    let mut a: [S; N] = base_vec(t);
    let b: [S; N] = match t.below(8) {
        0 => {
            cx.label("base pair exactly (anti)parallel");
            let l = S::of_f64(p2(t.int(-3, 3) as i32));
            scale_s(&a, if t.bool() { l } else { -l })
        }
        1 => {
            cx.label("base pair exactly perpendicular");
            let (p, q) = (t.int(1, 7), t.int(1, 7));
            let i0 = t.below(N);
            let mut j0 = t.below(N - 1);
            if j0 >= i0 {
                j0 += 1;
            }
            let mut x = [S::zero(); N];
            let mut y = [S::zero(); N];
            x[i0] = S::i(p);
            x[j0] = S::i(q);
            y[i0] = S::i(-q);
            y[j0] = S::i(p);
            a = x;
            y
        }
        2 => {
            cx.label("base pair nearly (anti)parallel (one lane off by 2^-4 .. 2^-20)");
            let mut y = if t.bool() { a } else { neg_v(&a) };
            let k0 = t.below(N);
            y[k0] = y[k0] + S::of_f64(p2(-(t.int(4, 20) as i32)));
            if f_arr(&y).iter().all(|x| *x == 0.0) {
                y[k0] = S::i(1);
            }
            y
        }
        _ => {
            cx.label("base pair random");
            base_vec(t)
        }
    };
    let (ka, kb) = exp_pair(t, cx, km);
    cx.label(scale_label(ka));
    if ka.abs().max(kb.abs()) >= km / 2 {
        cx.label("an operand in the outer half of the exponent range");
    }
    if (ka + kb).abs() > km + km / 3 {
        cx.label("|a|^2 |b|^2 not representable (|ka + kb| > 4/3 kmax)");
    }
    let (a1, b1) = (scaled_by(&a, ka), scaled_by(&b, kb));
    let (af, bf) = (f_arr(&a), f_arr(&b));
    let (m2a, m2b) = (rf::dot(&af, &af), rf::dot(&bf, &bf));
    let (ma, mb) = (m2a.sqrt(), m2b.sqrt());
    cx.set_nontrivial(nonzero_count(&a) >= 2 && nonzero_count(&b) >= 2 && (ka != 0 || kb != 0));
    sample!(cx, "{}<{}> a={:?} * 2^{} b={:?} * 2^{}", V::NAME, S::NAME, a, ka, b, kb);
    let (va, vb) = (V::mk(a1), V::mk(b1));
    let ctx = format!("{}<{}> a = {:?} * 2^{}, b = {:?} * 2^{}", V::NAME, S::NAME, a, ka, b, kb);

    // --- dot: bilinear, 2^(ka+kb) (a.b)
    {
        let e = p2(ka + kb);
        near_s!(cx, S, va.k_dot(vb).f(), rf::dot(&af, &bf) * e, absdot(&af, &bf) * e, nf + 2.0, "dot(a, b) must be 2^(ka+kb) * (a0.b0); {}", ctx);
    }
    // --- magnitude family: homogeneous of degree 2 / 1
    near_s!(cx, S, va.k_magnitude_squared().f(), m2a * p2(2 * ka), m2a * p2(2 * ka), nf + 2.0, "magnitude_squared(a); {}", ctx);
    near_s!(cx, S, va.k_magnitude().f(), ma * p2(ka), ma * p2(ka), nf + 4.0, "magnitude(a); {}", ctx);
    near_s!(cx, S, vb.k_magnitude().f(), mb * p2(kb), mb * p2(kb), nf + 4.0, "magnitude(b); {}", ctx);
    {
        // distance of two points of one space: both at a's scale
        let vb_a = V::mk(scaled_by(&b, ka));
        let d = rf::subv(&af, &bf);
        let d2 = rf::dot(&d, &d);
        let dm = d2.sqrt();
        let cancel = (vmax(&af) + vmax(&bf)).max(dm);
        near_s!(cx, S, va.k_distance(vb_a).f(), dm * p2(ka), cancel * p2(ka), nf + 6.0, "distance(a, b * 2^ka); {}", ctx);
        near_s!(cx, S, vb_a.k_distance(va).f(), dm * p2(ka), cancel * p2(ka), nf + 6.0, "distance(b * 2^ka, a); {}", ctx);
        near_s!(cx, S, va.k_distance_squared(vb_a).f(), d2 * p2(2 * ka), cancel * cancel * p2(2 * ka), 2.0 * nf + 12.0, "distance_squared(a, b * 2^ka); {}", ctx);
    }
    // --- normalisation family: invariant
    {
        let want: [f64; N] = std::array::from_fn(|i| af[i] / ma);
        let kn = nf + 8.0;
        let n1 = va.k_normalized();
        near_sv!(cx, S, n1.rd(), want, 1.0, kn, "normalized(a) must not depend on the scale; {}", ctx);
        let (n2, g2) = va.k_normalized_and_get_magnitude();
        near_sv!(cx, S, n2.rd(), want, 1.0, kn, "normalized_and_get_magnitude(a) (vector); {}", ctx);
        near_s!(cx, S, g2.f(), ma * p2(ka), ma * p2(ka), nf + 4.0, "normalized_and_get_magnitude(a) (magnitude); {}", ctx);
        let mut n3 = va;
        n3.k_normalize();
        near_sv!(cx, S, n3.rd(), want, 1.0, kn, "normalize(a) in place; {}", ctx);
        let mut n4 = va;
        let g4 = n4.k_normalize_and_get_magnitude();
        near_sv!(cx, S, n4.rd(), want, 1.0, kn, "normalize_and_get_magnitude(a) (vector); {}", ctx);
        near_s!(cx, S, g4.f(), ma * p2(ka), ma * p2(ka), nf + 4.0, "normalize_and_get_magnitude(a) (returned magnitude); {}", ctx);
        let la = ma * p2(ka);
        match va.k_try_normalized() {
            Some(n5) => near_sv!(cx, S, n5.rd(), want, 1.0, kn, "try_normalized(a) returned Some: must be the unit vector; {}", ctx),
            None => check!(cx, la < 1e-3 * (1.0 + 1e-3), "try_normalized refused a vector of length {:e} >= 1e-3; {}", la, ctx),
        }
        // predicates, clear-cut only
        if la >= 1e-3 * (1.0 + 1e-3) {
            check!(cx, !va.k_is_approx_zero(), "is_approx_zero(a) must be false (|a| = {:e}); {}", la, ctx);
            check!(cx, !va.k_is_magnitude_close_to(S::zero()), "is_magnitude_close_to(0) must be false (|a| = {:e}); {}", la, ctx);
        }
        if (la * la - 1.0).abs() > 1e-3 {
            check!(cx, !va.k_is_normalized(), "is_normalized(a) must be false (|a| = {:e}); {}", la, ctx);
            check!(cx, !va.k_is_magnitude_close_to(S::one()), "is_magnitude_close_to(1) must be false (|a| = {:e}); {}", la, ctx);
        }
        if ka >= 0 {
            let off = S::of_f64(la * 1.01);
            check!(cx, !va.k_is_magnitude_close_to(off), "is_magnitude_close_to(1.01 |a|) must be false (|a| = {:e}); {}", la, ctx);
        }
        // integer vector w with |w|^2 = M exactly, scaled: x = 2^k sqrt(M) is |w * 2^k| within 1.5 eps relative (in the square)
        let mut w = [S::zero(); N];
        let mut mm = 0i64;
        for x in w.iter_mut() {
            let c = t.int(-3, 3);
            *x = S::i(c);
            mm += c * c;
        }
        if mm > 0 {
            let x = S::of_f64((mm as f64).sqrt() * p2(ka));
            check!(cx, V::mk(scaled_by(&w, ka)).k_is_magnitude_close_to(x), "is_magnitude_close_to({:?}) on {:?} * 2^{} must be true (|w|^2 = {})", x, w, ka, mm);
        }
    }
    // --- angle_between: invariant under scaling either operand
    {
        let th = kahan_angle(&af, &bf);
        let delta = (4.0 * nf + 16.0) * eps;
        let tol = 2.0 * (delta / th.sin().abs().max(1e-300)).min((2.0 * delta).sqrt()) + 8.0 * eps;
        let pi = <S as num_traits::FloatConst>::PI();
        let g = va.k_angle_between(vb);
        check!(cx, g >= S::zero() && g <= pi, "angle_between = {:?} is not in [0, pi]; {}", g, ctx);
        if !near_abs(cx, g.f(), th, tol) {
            fail!("angle_between must not depend on the scale of either operand: got {:?}, want {:?} (tolerance {:.3e}); {}", g, th, tol, ctx);
        }
        let g2 = vb.k_angle_between(va);
        if !near_abs(cx, g2.f(), th, tol) {
            fail!("angle_between(b, a) must not depend on the scale of either operand: got {:?}, want {:?} (tolerance {:.3e}); {}", g2, th, tol, ctx);
        }
    }
    // --- reflected(a * 2^ka, n) = 2^ka reflected(a, n): n a unit normal or a moderate vector
    {
        let n: [S; N] = if t.bool() { unit_n(t) } else { b };
        let nfv = f_arr(&n);
        let an = rf::dot(&af, &nfv);
        let want: [f64; N] = std::array::from_fn(|i| (af[i] - 2.0 * an * nfv[i]) * p2(ka));
        let sc = (vmax(&af) + 2.0 * absdot(&af, &nfv) * vmax(&nfv)) * p2(ka);
        near_sv!(cx, S, va.k_reflected(V::mk(n)).rd(), want, sc, nf + 8.0, "reflected(a, n) must be 2^ka * reflected(a0, n), n = {:?}; {}", n, ctx);
    }
    // --- face_forward(v, incident, reference): only the sign of reference.incident matters
    {
        let (inc, kc): ([S; N], i32) = (b, exp_pick(t, km));
        let rfr0: [S; N] = match t.below(4) {
            0 => b,
            1 => neg_v(&b),
            _ => base_vec(t),
        };
        let rfr = scaled_by(&rfr0, kc);
        let rf0 = f_arr(&rfr0);
        let d = rf::dot(&rf0, &bf);
        let ad = absdot(&rf0, &bf);
        // undecidable: within rounding of 0, or so small after scaling that the products underflow
        let amb = d.abs() <= 4.0 * nf * eps * ad || d.abs() * p2(kb + kc) <= 64.0 * nf * tiny::<S>() / eps;
        let got = va.k_face_forward(V::mk(scaled_by(&inc, kb)), V::mk(rfr)).rd();
        if amb {
            cx.label("face_forward: sign of the dot product not decidable (only `v or -v` asserted)");
            check!(cx, got == a1 || got == neg_v(&a1), "face_forward: result {:?} is neither v nor -v; v = a, incident = b, reference = {:?} * 2^{}; {}", got, rfr0, kc, ctx);
        } else if d < 0.0 {
            cx.label("face_forward: dot < 0 (kept)");
            check_eq!(cx, got, a1, "face_forward must keep v (reference.incident = {:e} * 2^{} < 0); v = a, incident = b, reference = {:?} * 2^{}; {}", d, kb + kc, rfr0, kc, ctx);
        } else {
            cx.label("face_forward: dot > 0 (flipped)");
            check_eq!(cx, got, neg_v(&a1), "face_forward must flip v (reference.incident = {:e} * 2^{} > 0); v = a, incident = b, reference = {:?} * 2^{}; {}", d, kb + kc, rfr0, kc, ctx);
        }
    }
    Ok(())
}

// ---------------------------------------------------------------------------------------------
// Vec2: determine_side and the areas are homogeneous of degree 2
// ---------------------------------------------------------------------------------------------

pub fn side_scaled<S: Lift>(t: &mut Tape, cx: &mut Cx) -> CaseResult {
    let km = kmax::<S>();
    let a: [S; 2] = gen_any(t);
    let b: [S; 2] = gen_any(t);
    let c: [S; 2] = match t.below(6) {
        0 => {
            cx.label("c on the line ab (up to rounding)");
            let k = S::i(t.int(-3, 3));
            [a[0] + k * (b[0] - a[0]), a[1] + k * (b[1] - a[1])]
        }
        1 => {
            cx.label("c a hair off the line ab");
            let k = S::i(t.int(-3, 3));
            let e = if t.bool() { S::q(1, 64) } else { S::q(-1, 64) };
            [a[0] + k * (b[0] - a[0]) - e * (b[1] - a[1]), a[1] + k * (b[1] - a[1]) + e * (b[0] - a[0])]
        }
        _ => {
            cx.label("general position");
            gen_any(t)
        }
    };
    let k = exp_pick(t, km);
    cx.label(scale_label(k));
    let (af, bf, cf) = (f_arr(&a), f_arr(&b), f_arr(&c));
    // (b - a) x (c - a), expanded (no difference of nearby numbers is formed before the products)
    let det = (bf[0] * cf[1] - bf[1] * cf[0]) - (af[0] * cf[1] - af[1] * cf[0]) + (af[0] * bf[1] - af[1] * bf[0]);
    let sc = (((bf[0] - af[0]) * (cf[1] - af[1])).abs() + ((bf[1] - af[1]) * (cf[0] - af[0])).abs() + vmax(&af).max(vmax(&bf)).max(vmax(&cf)).powi(2) * 4.0) * p2(2 * k);
    cx.set_nontrivial(k != 0 && a != b && b != c && a != c && [af[0], af[1], bf[0], bf[1], cf[0], cf[1]].iter().filter(|x| **x != 0.0).count() >= 4);
    sample!(cx, "Vec2<{}> (a={:?} b={:?} c={:?}) * 2^{} det0={:?}", S::NAME, a, b, c, k, det);
    let (va, vb, vc) = (vk::v2(&scaled_by(&a, k)), vk::v2(&scaled_by(&b, k)), vk::v2(&scaled_by(&c, k)));
    let want = det * p2(2 * k);
    let ctx = format!("Vec2<{}> (a={:?} b={:?} c={:?}) * 2^{}", S::NAME, a, b, c, k);
    near_s!(cx, S, vc.determine_side(va, vb).f(), want, sc, 16.0, "determine_side must scale with 4^k; {}", ctx);
    near_s!(cx, S, vek::vec::repr_c::Vec2::signed_triangle_area(va, vb, vc).f(), want / 2.0, sc, 16.0, "signed_triangle_area must scale with 4^k; {}", ctx);
    let ta = vek::vec::repr_c::Vec2::triangle_area(va, vb, vc);
    near_s!(cx, S, ta.f(), want.abs() / 2.0, sc, 16.0, "triangle_area must scale with 4^k; {}", ctx);
    check!(cx, ta >= S::zero(), "triangle_area is negative; {}", ctx);
    near_s!(cx, S, vc.determine_side(vb, va).f(), -want, sc, 16.0, "determine_side with a, b exchanged must change sign; {}", ctx);
    Ok(())
}

// ---------------------------------------------------------------------------------------------
// Vec3: cross is bilinear
// ---------------------------------------------------------------------------------------------

pub fn cross_scaled<S: Lift>(t: &mut Tape, cx: &mut Cx) -> CaseResult {
    // |a x b|^2 and (a x b).a are of degree 4 / 3: half the exponent range per operand
    let km = kmax::<S>() / 2;
    let a: [S; 3] = base_vec(t);
    let b: [S; 3] = match t.below(8) {
        0 => {
            cx.label("b parallel to a");
            scaled_by(&a, t.int(-3, 3) as i32)
        }
        _ => {
            cx.label("general");
            base_vec(t)
        }
    };
    let (ka, kb) = exp_pair(t, cx, km);
    cx.label(scale_label(ka + kb));
    let (af, bf) = (f_arr(&a), f_arr(&b));
    let want0 = rf::cross(&af, &bf);
    let e = p2(ka + kb);
    let want: [f64; 3] = std::array::from_fn(|i| want0[i] * e);
    cx.set_nontrivial((ka != 0 || kb != 0) && want0.iter().any(|x| *x != 0.0) && nonzero_count(&a) >= 2 && nonzero_count(&b) >= 2);
    sample!(cx, "Vec3<{}> a={:?} * 2^{} b={:?} * 2^{}", S::NAME, a, ka, b, kb);
    let ctx = format!("Vec3<{}> a = {:?} * 2^{}, b = {:?} * 2^{}", S::NAME, a, ka, b, kb);
    let (va, vb) = (vk::v3(&scaled_by(&a, ka)), vk::v3(&scaled_by(&b, kb)));
    let (am, bm) = (vmax(&af), vmax(&bf));
    let sc = 2.0 * am * bm * e;
    let axb = vk::a3(&va.cross(vb));
    near_sv!(cx, S, axb, want, sc, 4.0, "cross must be 2^(ka+kb) * (a0 x b0); {}", ctx);
    let bxa = vk::a3(&vb.cross(va));
    near_sv!(cx, S, bxa, neg_v(&want), sc, 4.0, "b x a must be -(a x b); {}", ctx);
    // orthogonality and the Lagrange identity on vek's own result (evaluated in f64)
    let g = f_arr(&axb);
    let (a1f, b1f) = (f_arr(&scaled_by(&a, ka)), f_arr(&scaled_by(&b, kb)));
    near_s!(cx, S, rf::dot(&g, &a1f), 0.0, 6.0 * am * am * bm * e * p2(ka), 8.0, "(a x b).a must be 0; {}", ctx);
    near_s!(cx, S, rf::dot(&g, &b1f), 0.0, 6.0 * am * bm * bm * e * p2(kb), 8.0, "(a x b).b must be 0; {}", ctx);
    let ab = rf::dot(&af, &bf);
    let lag = rf::dot(&af, &af) * rf::dot(&bf, &bf) - ab * ab;
    near_s!(cx, S, rf::dot(&g, &g), lag * e * e, 18.0 * am * am * bm * bm * e * e, 16.0, "|a x b|^2 = |a|^2 |b|^2 - (a.b)^2; {}", ctx);
    Ok(())
}

// ---------------------------------------------------------------------------------------------
// Vec4: homogenized is invariant under scaling all four lanes, covariant in x, y, z
// ---------------------------------------------------------------------------------------------

pub fn homog_scaled<S: Lift>(t: &mut Tape, cx: &mut Cx) -> CaseResult {
    // only quotients are formed: the whole normal range is in the domain (quotient exponent kept <= 100 / 900)
    let (kw_max, kd_max) = if is_f32::<S>() { (120, 100) } else { (1000, 900) };
    let xyz: [S; 3] = gen_any(t);
    let mut w: S = S::any(t, 9);
    if w.f().abs() < 1.0 / 64.0 {
        w = if t.bool() { S::q(3, 4) } else { S::q(-5, 2) };
    }
    let kw = exp_pick(t, kw_max);
    let kx = match t.below(4) {
        0 | 1 => {
            cx.label("all four lanes scaled alike");
            kw
        }
        _ => {
            cx.label("x, y, z and w scaled differently");
            (kw + exp_pick(t, kd_max)).clamp(-kw_max, kw_max)
        }
    };
    cx.label(scale_label(kw));
    let xs = scale_s(&xyz, S::of_f64(p2(kx)));
    let v = [xs[0], xs[1], xs[2], w * S::of_f64(p2(kw))];
    cx.set_nontrivial((kw != 0 || kx != 0) && xyz.iter().all(|x| !x.is_zero()));
    sample!(cx, "Vec4<{}> xyz={:?} * 2^{} w={:?} * 2^{}", S::NAME, xyz, kx, w, kw);
    let ctx = format!("Vec4<{}> xyz = {:?} * 2^{}, w = {:?} * 2^{}", S::NAME, xyz, kx, w, kw);
    // quotient of the lanes as actually passed (a lane that becomes subnormal by the scaling is rounded)
    let want = [v[0].f() / v[3].f(), v[1].f() / v[3].f(), v[2].f() / v[3].f(), 1.0];
    let sc = vmax(&want);
    let vv = vk::v4(&v);
    let h = vk::a4(&vv.homogenized());
    near_sv!(cx, S, h, want, sc, 2.0, "homogenized must divide every lane by w; {}", ctx);
    check_eq!(cx, h[3], S::one(), "homogenized: w must become exactly 1; {}", ctx);
    let mut m = vv;
    m.homogenize();
    let hm = vk::a4(&m);
    near_sv!(cx, S, hm, want, sc, 2.0, "homogenize (in place) must divide every lane by w; {}", ctx);
    check_eq!(cx, hm[3], S::one(), "homogenize (in place): w must become exactly 1; {}", ctx);
    check!(cx, vv.homogenized().is_point() && vv.homogenized().is_homogeneous(), "homogenized must be a homogeneous point; {}", ctx);
    // lane-wise relative accuracy of a single division (no cancellation is involved)
    for i in 0..3 {
        near_s!(cx, S, h[i].f(), want[i], want[i], 2.0, "homogenized lane {} (relative to the lane itself); {}", i, ctx);
    }
    // predicates at scale, clear-cut only (w off 1 by more than 1e-3 / |w| above 1e-3)
    let wv = v[3].f();
    if (wv - 1.0).abs() > 1e-3 {
        check!(cx, !vv.is_point(), "is_point must be false for w = {:?} * 2^{}; {}", w, kw, ctx);
    }
    if wv.abs() > 1e-3 {
        check!(cx, !vv.is_direction(), "is_direction must be false for w = {:?} * 2^{}; {}", w, kw, ctx);
    }
    Ok(())
}

pub fn checks(checks: &mut Vec<Check>) {
    use vek::vec::repr_c::*;
    let g = "operands scaled exactly by 2^ka, 2^kb (|k| <= 48 in f32, 480 in f64; alike, one only, opposite, independent): dot = 2^(ka+kb) a0.b0, magnitude(_squared) and distance(_squared) homogeneous, the whole normalisation family and angle_between (both argument orders) independent of the scale, try_normalized Some(unit) or refusing only below 1e-3, predicates clear-cut at scale, reflected = 2^ka reflected(a0, n), face_forward decided by the sign of the unit-scale dot product; tolerances relative to the scaled magnitude";
    macro_rules! reg {
        ($V:ident, $N:expr, $q:expr) => {{
            const N: usize = $N;
            let q: u64 = $q;
            checks.push(Check { name: concat!("scale-", stringify!($V), "-f64"), about: g, kind: Kind::Tape { len: 48 * N + 128, quick: q, thorough: q * 60, f: scaled::<f64, $V<f64>, N> } });
            checks.push(Check { name: concat!("scale-", stringify!($V), "-f32"), about: g, kind: Kind::Tape { len: 48 * N + 128, quick: q, thorough: q * 60, f: scaled::<f32, $V<f32>, N> } });
        }};
    }
    reg!(Vec2, 2, 6000);
    reg!(Vec3, 3, 6000);
    reg!(Vec4, 4, 6000);
    reg!(Extent2, 2, 4000);
    reg!(Extent3, 3, 4000);
    reg!(Vec8, 8, 3000);
    reg!(Vec16, 16, 2000);
    reg!(Vec32, 32, 1200);
    reg!(Vec64, 64, 800);
    let mut add = |name: &'static str, about: &'static str, len: usize, q: u64, f: fn(&mut Tape, &mut Cx) -> CaseResult| {
        checks.push(Check { name, about, kind: Kind::Tape { len, quick: q, thorough: q * 100, f } });
    };
    let s = "three points scaled alike by 2^k (|k| <= 48 / 480): determine_side, signed_triangle_area, triangle_area scale with 4^k, keep their sign, a<->b changes it";
    add("scale-side-area-Vec2-f64", s, 96, 4000, side_scaled::<f64>);
    add("scale-side-area-Vec2-f32", s, 96, 4000, side_scaled::<f32>);
    let c = "cross(a 2^ka, b 2^kb) = 2^(ka+kb) a0 x b0 (|k| <= 24 / 240 per operand), anticommutative, orthogonal to both operands, Lagrange identity, all relative to the scaled magnitudes";
    add("scale-cross-Vec3-f64", c, 128, 4000, cross_scaled::<f64>);
    add("scale-cross-Vec3-f32", c, 128, 4000, cross_scaled::<f32>);
    let h = "homogenized / homogenize with all four lanes scaled by 2^k (|k| <= 120 / 1000) or x,y,z and w scaled differently: every lane = lane / w relative to the lane, w exactly 1, result is_point; is_point / is_direction false for w far from 1 / 0 in relative terms";
    add("scale-homogenize-Vec4-f64", h, 96, 4000, homog_scaled::<f64>);
    add("scale-homogenize-Vec4-f32", h, 96, 4000, homog_scaled::<f32>);
}
