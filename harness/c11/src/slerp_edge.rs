//! Vec3 slerp outside the comfortable middle: very small angles (down to exactly parallel), angles next to pi
//! (up to exactly antiparallel), endpoints of different and of extreme lengths, all four entry points
//! (inherent `slerp_unclamped` / `slerp`, `Slerp::slerp_unclamped` / `Slerp::slerp`).
//!
//! Conditioning relied on (GLM formula, as documented in vek: normalise both, alpha = acos(clamp(from^.to^)),
//! weights sin((1-t) alpha)/sin(alpha), sin(t alpha)/sin(alpha), result times lerp(|from|, |to|, t)):
//!
//! * the computed cosine c' differs from cos(theta) by |d| <= 8 eps (3 lanes: two normalisations, one dot
//!   product), so alpha' = acos(c') satisfies alpha'^2 - theta^2 = -2d for small angles, however small theta is;
//! * the weights depend on alpha' only through O(alpha'^2) terms: t1 + t2 = cos((1-2t) alpha'/2) / cos(alpha'/2),
//!   hence |from^ t1 + to^ t2|^2 = 1 - 2 t1 t2 (cos(alpha') - cos(theta)) = 1 + 2 t1 t2 d. The length clause
//!   therefore holds within (|t1 t2| * 8 + rounding of the weights, incl. eps |x cos x| / sin(alpha) from the rounded
//!   arguments x = (1-t) alpha', t alpha' of sin) eps at *every* angle, and the whole reference within
//!   32 eps for theta <= 0.06 (t1 t2 <= |t (1-t)|); only next to pi do t1, t2 grow like 1/sin(theta);
//! * at t = 0 (t = 1) the weights are x/x = 1 and 0/x = 0 exactly for every alpha' with sin(alpha') != 0, so
//!   the end points are hit within the two roundings of v/|v| * |v| (and the one of lerp at t = 1) at every
//!   angle, including next to pi;
//! * the formula is undefined (0/0) exactly when c' rounds to 1, i.e. alpha' = 0. That can happen only for
//!   theta^2/2 <= (8 + 1/4) eps (`TH_DEF`: 1.40e-3 rad in f32, 6.05e-8 rad in f64). Inside that zone (and its
//!   mirror image next to pi) a non-finite result is tolerated and nothing is asserted; a *finite* result must
//!   satisfy every clause. Outside the zone a non-finite result is a violation.

use crate::generic::{kahan_angle, near_abs};
use crate::scale::{exp_pick, kmax, p2};
use crate::*;
use vek::ops::Slerp;
use vek::vec::repr_c::Vec3;
use vkit::refmath as rf;
use vkit::regimes::scale_label;

fn unit3(v: [f64; 3]) -> Option<[f64; 3]> {
    let l = rf::dot(&v, &v).sqrt();
    if l > 0.0 && l.is_finite() {
        Some([v[0] / l, v[1] / l, v[2] / l])
    } else {
        None
    }
}

fn perp_to(u: &[f64; 3]) -> [f64; 3] {
    let w = if u[0].abs() < 0.9 { [1.0, 0.0, 0.0] } else { [0.0, 1.0, 0.0] };
    let p = rf::dot(&w, u);
    unit3([w[0] - p * u[0], w[1] - p * u[1], w[2] - p * u[2]]).unwrap()
}

pub fn slerp_edge<S: Lift>(t: &mut Tape, cx: &mut Cx) -> CaseResult {
    let eps = S::eps();
    let pi = std::f64::consts::PI;
    let delta = 8.0 * eps;
    let th_def = (2.0 * (delta + 0.25 * eps)).sqrt();
    let th_lo = th_def / 16.0;
    // orthonormal (u, e)
    let r1: [f64; 3] = [t.range_f64(-1.0, 1.0), t.range_f64(-1.0, 1.0), t.range_f64(-1.0, 1.0)];
    let r2: [f64; 3] = [t.range_f64(-1.0, 1.0), t.range_f64(-1.0, 1.0), t.range_f64(-1.0, 1.0)];
    let u = if t.chance(32) { [[1.0, 0.0, 0.0], [0.0, 1.0, 0.0], [0.0, 0.0, -1.0]][t.below(3)] } else { unit3(r1).filter(|_| rf::dot(&r1, &r1) > 1e-4).unwrap_or([0.6, 0.0, -0.8]) };
    let proj = rf::dot(&r2, &u);
    let e0 = [r2[0] - proj * u[0], r2[1] - proj * u[1], r2[2] - proj * u[2]];
    let e = if rf::dot(&e0, &e0) > 1e-4 { unit3(e0).unwrap() } else { perp_to(&u) };
    let log_uniform = |t: &mut Tape| th_lo * (0.06 / th_lo).powf(t.unit_f64());
    let (al0, small) = match t.below(8) {
        0 => {
            cx.label("exactly parallel directions");
            (0.0, true)
        }
        1 | 2 | 3 => {
            cx.label("small angle (log-uniform, TH_DEF/16 .. 0.06)");
            (log_uniform(t), true)
        }
        4 => {
            cx.label("angle next to pi (pi - log-uniform TH_DEF/16 .. 0.06)");
            (pi - log_uniform(t), false)
        }
        5 => {
            cx.label("exactly antiparallel directions");
            (pi, false)
        }
        _ => {
            cx.label("ordinary angle (0.06 .. pi - 0.06)");
            (t.range_f64(0.06, pi - 0.06), false)
        }
    };
    let _ = small;
    let len = |t: &mut Tape| if t.chance(16) { 1.0 } else { t.range_f64(0.5, 2.0) };
    let (la0, lb0) = (len(t), len(t));
    let km = kmax::<S>();
    let (ka, kb) = match t.below(4) {
        0 => {
            cx.label("lengths in [0.5, 2]");
            (0, 0)
        }
        1 => {
            cx.label("lengths scaled by 2^-4 .. 2^4 independently");
            (t.int(-4, 4) as i32, t.int(-4, 4) as i32)
        }
        2 => {
            cx.label("both lengths scaled alike (extreme)");
            let k = exp_pick(t, km);
            (k, k)
        }
        _ => {
            cx.label("lengths scaled independently (extreme)");
            (exp_pick(t, km), exp_pick(t, km))
        }
    };
    cx.label(scale_label(ka));
    let dir_b: [f64; 3] = if al0 == 0.0 {
        u
    } else if al0 == pi {
        [-u[0], -u[1], -u[2]]
    } else {
        std::array::from_fn(|i| u[i] * al0.cos() + e[i] * al0.sin())
    };
    let a0: [S; 3] = std::array::from_fn(|i| S::of_f64(u[i] * la0));
    let b0: [S; 3] = std::array::from_fn(|i| S::of_f64(dir_b[i] * lb0));
    let a: [S; 3] = scale_s(&a0, S::of_f64(p2(ka)));
    let b: [S; 3] = scale_s(&b0, S::of_f64(p2(kb)));
    let f: S = match t.below(8) {
        0 | 1 => {
            cx.label("factor 0");
            S::zero()
        }
        2 | 3 => {
            cx.label("factor 1");
            S::i(1)
        }
        4 => {
            cx.label("factor 1/2");
            S::q(1, 2)
        }
        5 => {
            cx.label("factor within 2^-4 .. 2^-20 of 0 or 1");
            let d = S::of_f64(p2(-(t.int(4, 20) as i32)));
            if t.bool() {
                d
            } else {
                S::i(1) - d
            }
        }
        6 => {
            cx.label("factor outside [0, 1]");
            S::of_f64(if t.bool() { t.range_f64(-0.5, 0.0) } else { t.range_f64(1.0, 1.5) })
        }
        _ => {
            cx.label("factor in (0, 1)");
            S::of_f64(t.range_f64(0.0, 1.0))
        }
    };
    // oracle frame from the base endpoints as actually passed (before the exact scaling)
    let af0: [f64; 3] = std::array::from_fn(|i| a0[i].f());
    let bf0: [f64; 3] = std::array::from_fn(|i| b0[i].f());
    let (la_b, lb_b) = (rf::dot(&af0, &af0).sqrt(), rf::dot(&bf0, &bf0).sqrt());
    let (la, lb) = (la_b * p2(ka), lb_b * p2(kb));
    let lmx = la.max(lb);
    let al = kahan_angle(&af0, &bf0);
    let ah: [f64; 3] = std::array::from_fn(|i| af0[i] / la_b);
    let bh: [f64; 3] = std::array::from_fn(|i| bf0[i] / lb_b);
    let cab = rf::dot(&ah, &bh);
    let eh = unit3(std::array::from_fn(|i| bh[i] - cab * ah[i])).unwrap_or_else(|| perp_to(&ah));
    let af: [f64; 3] = std::array::from_fn(|i| af0[i] * p2(ka));
    let bf: [f64; 3] = std::array::from_fn(|i| bf0[i] * p2(kb));
    let degenerate = al < th_def || al > pi - th_def;
    if degenerate {
        cx.label("degenerate zone (computed cosine may round to +-1)");
    }
    sample!(cx, "Vec3<{}> from={:?} to={:?} factor={:?} (angle {:e}, |from| {:e}, |to| {:e})", S::NAME, a, b, f, al, la, lb);
    let ctx = format!("from={:?} to={:?} (angle {:e}, |from| = {:e}, |to| = {:e})", a, b, al, la, lb);
    let (va, vb) = (vk::v3(&a), vk::v3(&b));
    let (zero, one) = (S::zero(), S::i(1));
    const FORMS: [&str; 4] = ["Vec3::slerp_unclamped", "Vec3::slerp", "<Vec3 as Slerp>::slerp_unclamped", "<Vec3 as Slerp>::slerp"];
    let eval = |form: usize, x: S| -> Option<[f64; 3]> {
        let r = match form {
            0 => Vec3::slerp_unclamped(va, vb, x),
            1 => Vec3::slerp(va, vb, x),
            2 => <Vec3<S> as Slerp<S>>::slerp_unclamped(va, vb, x),
            _ => <Vec3<S> as Slerp<S>>::slerp(va, vb, x),
        };
        let g = [r.x.f(), r.y.f(), r.z.f()];
        if g.iter().all(|v| v.is_finite()) {
            Some(g)
        } else {
            None
        }
    };
    macro_rules! get {
        ($form:expr, $x:expr) => {
            match eval($form, $x) {
                Some(g) => g,
                None => {
                    if degenerate {
                        cx.label("non-finite result in the degenerate zone (0/0 of the documented formula; not asserted)");
                        cx.set_nontrivial(false);
                        return Ok(());
                    }
                    fail!("Vec3<{}>: {}(.., {:?}) is not finite although the angle is outside the degenerate zone ({:e} rad from it); {}", S::NAME, FORMS[$form], $x, th_def, ctx);
                }
            }
        };
    }
    macro_rules! vec_near {
        ($got:expr, $want:expr, $tol:expr, $($arg:tt)*) => {{
            let g: [f64; 3] = $got;
            let w: [f64; 3] = $want;
            let tol: f64 = $tol;
            for i in 0..3 {
                if !near_abs(cx, g[i], w[i], tol) {
                    fail!("Vec3<{}>: {}: lane {}: got {:?}, want {:?} (tolerance {:.3e}); {}", S::NAME, format!($($arg)*), i, g, w, tol, ctx);
                }
            }
        }};
    }
    // --- end points, every entry point; clamped forms also beyond the ends
    let below = S::of_f64(-0.75);
    let above = S::of_f64(1.75);
    for form in 0..4 {
        let g0 = get!(form, zero);
        vec_near!(g0, af, 8.0 * eps * la, "{}(.., 0) must be `from`", FORMS[form]);
        let g1 = get!(form, one);
        vec_near!(g1, bf, 8.0 * eps * lmx, "{}(.., 1) must be `to`", FORMS[form]);
        if form % 2 == 1 {
            let gb = get!(form, below);
            vec_near!(gb, af, 8.0 * eps * la, "{}(.., -0.75) must be `from` (factor clamped)", FORMS[form]);
            let ga = get!(form, above);
            vec_near!(ga, bf, 8.0 * eps * lmx, "{}(.., 1.75) must be `to` (factor clamped)", FORMS[form]);
        }
    }
    // --- length and reference at the drawn factor
    let tf = f.f();
    cx.set_nontrivial((la - lb).abs() > 1e-3 * lmx && (la - 1.0).abs() > 1e-3 && (lb - 1.0).abs() > 1e-3);
    let lf = |x: f64| la + x * (lb - la);
    let wsum = |x: f64| (1.0 - x).abs() + x.abs();
    // weights of the exact formula (limits at theta -> 0)
    let weights = |x: f64| -> (f64, f64) {
        if al < 1e-12 {
            (1.0 - x, x)
        } else {
            (((1.0 - x) * al).sin() / al.sin(), (x * al).sin() / al.sin())
        }
    };
    let reference = |x: f64| -> [f64; 3] {
        let l = lf(x);
        std::array::from_fn(|i| (ah[i] * (x * al).cos() + eh[i] * (x * al).sin()) * l)
    };
    let sin2 = al.sin() * al.sin();
    let near_pi = al > pi / 2.0 && sin2 < 64.0 * delta;
    if near_pi {
        cx.label("within sqrt(512 eps) of pi: only the end points are asserted");
        return Ok(());
    }
    for form in 0..4 {
        let x = if form % 2 == 1 { tf.clamp(0.0, 1.0) } else { tf };
        let g = get!(form, f);
        let (t1, t2) = weights(x);
        let l = lf(x);
        // 2 t1 t2 d with |d| <= 8 eps; rounding of the weights (3 eps each) and of the lanes; the arguments
        // (1-t) alpha', t alpha' carry a relative error eps, which sin turns into eps |x cos x| / sin(alpha)
        let k_len = 8.0 * (t1 * t2).abs() + 4.0 * (t1.abs() + t2.abs()) + 2.0 * (if al < 1e-12 { wsum(x) } else { (((1.0 - x) * al).abs() + (x * al).abs()) / al.sin() }) + 8.0;
        let tol_len = eps * (k_len * l.abs() + 4.0 * wsum(x) * lmx);
        if !near_abs(cx, rf::dot(&g, &g).sqrt(), l.abs(), tol_len) {
            fail!("Vec3<{}>: {}(.., {:?}): length {:e} is not lerp(|from|, |to|, factor) = {:e} (tolerance {:.3e}); {}", S::NAME, FORMS[form], f, rf::dot(&g, &g).sqrt(), l, tol_len, ctx);
        }
        let k_vec = if al <= 0.06 { 32.0 } else { 32.0 / sin2 };
        if k_vec * eps <= 1.0 / 64.0 {
            vec_near!(g, reference(x), eps * (k_vec * l.abs() + 4.0 * wsum(x) * lmx), "{}(.., {:?}) vs (a^ cos(t al) + e^ sin(t al)) * lerp(|a|, |b|, t)", FORMS[form], f);
        }
    }
    Ok(())
}

pub fn checks(checks: &mut Vec<Check>) {
    let s = "all four slerp entry points of Vec3 at exactly parallel / very small / ordinary / next-to-pi / exactly antiparallel directions, lengths different and scaled by 2^k (|k| <= 48 / 480): factor 0 gives `from` within 8 eps |from|, factor 1 gives `to` within 8 eps max(|from|,|to|), clamped forms beyond the ends too; |result| = lerp(|from|, |to|, t) within (8 |t1 t2| + 4(|t1|+|t2|) + 2 (|1-t|+|t|) alpha / sin(alpha) + 8) eps; full reference within 32 eps for angles <= 0.06 (32/sin^2 otherwise); non-finite results tolerated only inside the degenerate zone theta^2/2 <= 8.25 eps (or its mirror image at pi)";
    let mut add = |name: &'static str, q: u64, f: fn(&mut Tape, &mut Cx) -> CaseResult| {
        checks.push(Check { name, about: s, kind: Kind::Tape { len: 128, quick: q, thorough: q * 100, f } });
    };
    add("slerp-edge-Vec3-f64", 12_000, slerp_edge::<f64>);
    add("slerp-edge-Vec3-f32", 12_000, slerp_edge::<f32>);
}
