//! Position-relative regime: figures far from the origin relative to their own size.
//!
//! The functions of the property that take *points* — `distance`, `distance_squared` (every spatial type),
//! `Vec2::determine_side`, `signed_triangle_area`, `triangle_area` — are defined on differences of their
//! arguments ("(self - v).magnitude()", "(bx - ax) * (cy - ay) - (by - ay) * (cx - ax)") and are therefore
//! invariant under a common translation. Here every point is `offset + displacement` with displacements that are
//! small integers (|d| <= 1 .. 512) and offsets that are integers of up to 24 (f32) / 49 (f64, Rat) bits — powers
//! of two, 2^j -+ 1, full random mantissas, alike on all lanes / independent per lane / on one lane only — all times
//! an exact 2^s. Every coordinate and every difference of two coordinates is then exactly representable, so the
//! result must equal the oracle evaluated on the displacements alone within a few eps of the *figure* (products of
//! edge lengths / the distance itself), however far away the figure is. The oracle is integer arithmetic on the
//! displacements.

use crate::scale::p2;
use crate::*;
use vek::vec::repr_c::Vec2;

type O<S> = <S as Lift>::O;

fn is_f32<S: Dom>() -> bool {
    S::eps() > 1e-10
}

/// Number of bits available for |offset| + |displacement| in units of the grid.
fn coord_bits<S: Dom>() -> u32 {
    if S::EXACT || !is_f32::<S>() {
        49
    } else {
        24
    }
}

/// n * 4^s in the oracle domain (exact: n < 2^40, |s| <= 10).
fn times_4s<S: Lift>(n: i64, s: i32) -> O<S> {
    if s >= 0 {
        <O<S> as Dom>::i(n << (2 * s))
    } else {
        <O<S> as Dom>::q(n, 1 << (-2 * s))
    }
}

/// An integer offset with |off| + dmax < 2^bits; the label says which kind.
fn offset(t: &mut Tape, bits: u32, dmax: i64) -> (i64, &'static str) {
    let cap = (1i64 << bits) - dmax - 1;
    let (v, l) = match t.below(8) {
        0 => (0, "lane offset 0"),
        1 | 2 => {
            let j = t.int(1, bits as i64 - 1);
            (1i64 << j, "lane offset 2^j")
        }
        3 => {
            let j = t.int(2, bits as i64 - 1);
            ((1i64 << j) + if t.bool() { 1 } else { -1 }, "lane offset 2^j +- 1")
        }
        4 => (cap, "lane offset the largest exactly representable"),
        _ => {
            // full mantissa of j bits: top bit set, the rest random
            let j = t.int(2, bits as i64) as u32;
            let r = (t.u64() >> 1) as i64;
            ((1i64 << (j - 1)) | (r & ((1i64 << (j - 1)) - 1)), "lane offset with a full random mantissa")
        }
    };
    let v = v.min(cap);
    (if t.bool() { -v } else { v }, l)
}

fn ratio_label(cx: &mut Cx, off: i64, size: i64) {
    let r = off.unsigned_abs() as f64 / size.max(1) as f64;
    cx.label(if off == 0 {
        "figure at the origin"
    } else if r < 1024.0 {
        "offset / figure size < 2^10"
    } else if r < 1048576.0 {
        "offset / figure size in 2^10 .. 2^20"
    } else if r < 1073741824.0 {
        "offset / figure size in 2^20 .. 2^30"
    } else {
        "offset / figure size >= 2^30"
    });
}

/// Per-lane offsets: alike, independent, one lane only.
fn offsets<const N: usize>(t: &mut Tape, cx: &mut Cx, bits: u32, dmax: i64) -> [i64; N] {
    let mut off = [0i64; N];
    match t.below(4) {
        0 => {
            cx.label("offsets: the same on every lane");
            let (v, l) = offset(t, bits, dmax);
            cx.label(l);
            off = [v; N];
        }
        1 => {
            cx.label("offsets: one lane only");
            let (v, l) = offset(t, bits, dmax);
            cx.label(l);
            off[t.below(N)] = v;
        }
        _ => {
            cx.label("offsets: independent per lane");
            for o in off.iter_mut() {
                let (v, l) = offset(t, bits, dmax);
                cx.label(l);
                *o = v;
            }
        }
    }
    off
}

fn dmax_pick(t: &mut Tape) -> i64 {
    t.pick(&[1i64, 2, 8, 8, 64, 64, 512, 512])
}

fn point<S: Lift, const N: usize>(off: &[i64; N], d: &[i64; N], s: i32) -> [S; N] {
    std::array::from_fn(|i| {
        let x = S::of_f64((off[i] + d[i]) as f64 * p2(s));
        debug_assert!(S::EXACT || x.f() == (off[i] + d[i]) as f64 * p2(s), "coordinate not exactly representable");
        x
    })
}

/// determine_side, signed_triangle_area, triangle_area of a translated triangle.
pub fn side_translated<S: Lift>(t: &mut Tape, cx: &mut Cx) -> CaseResult {
    let bits = coord_bits::<S>();
    let dmax = dmax_pick(t);
    let dv = |t: &mut Tape| [t.int(-dmax, dmax), t.int(-dmax, dmax)];
    let da = dv(t);
    let db = dv(t);
    let dc = match t.below(6) {
        0 => {
            cx.label("c on the line ab (exactly collinear)");
            let k = t.int(-2, 2);
            [da[0] + k * (db[0] - da[0]), da[1] + k * (db[1] - da[1])]
        }
        1 => {
            cx.label("c one grid step off the line ab");
            let k = t.int(-2, 2);
            let e = if t.bool() { 1 } else { -1 };
            let mut p = [da[0] + k * (db[0] - da[0]), da[1] + k * (db[1] - da[1])];
            p[t.below(2)] += e;
            p
        }
        _ => {
            cx.label("general position");
            dv(t)
        }
    };
    // displacements of up to 5 dmax: the bound handed to the offsets
    let reach = 5 * dmax + 1;
    let off: [i64; 2] = offsets(t, cx, bits, reach);
    let s = t.int(-10, 10) as i32;
    let size = [da, db, dc].iter().flat_map(|p| p.iter()).fold(1i64, |m, x| m.max(x.abs()));
    ratio_label(cx, off[0].abs().max(off[1].abs()), size);
    let (a, b, c): ([S; 2], [S; 2], [S; 2]) = (point(&off, &da, s), point(&off, &db, s), point(&off, &dc, s));
    // oracle on the displacements, in integers
    let (ux, uy, vx, vy) = (db[0] - da[0], db[1] - da[1], dc[0] - da[0], dc[1] - da[1]);
    let det = ux * vy - uy * vx;
    let want = times_4s::<S>(det, s);
    let want_half = want / <O<S> as Dom>::i(2);
    let want_abs = times_4s::<S>(det.abs(), s) / <O<S> as Dom>::i(2);
    // rounding scale: the two products of edge components (the differences themselves are exact)
    let sc = ((ux * vy).abs() + (uy * vx).abs()) as f64 * p2(2 * s);
    cx.label(if det > 0 { "c left of ab (> 0)" } else if det < 0 { "c right of ab (< 0)" } else { "determinant exactly 0" });
    cx.set_nontrivial((off[0] != 0 || off[1] != 0) && da != db && db != dc && da != dc);
    sample!(cx, "Vec2<{}> ({:?} + {:?}, {:?}, {:?}) * 2^{} det={}", S::NAME, off, da, db, dc, s, det);
    let ctx = format!("Vec2<{}> a={:?} b={:?} c={:?} = (offset {:?} + displacements {:?}, {:?}, {:?}) * 2^{}", S::NAME, a, b, c, off, da, db, dc, s);
    let (va, vb, vc) = (vk::v2(&a), vk::v2(&b), vk::v2(&c));
    let k = 4.0;
    near!(cx, S, vc.determine_side(va, vb).lift(), want, sc, k, "determine_side(c; a, b) must be the cross product of the differences, wherever the triangle lies; {}", ctx);
    near!(cx, S, va.determine_side(vb, vc).lift(), want, sc, k, "determine_side(a; b, c) (cyclic); {}", ctx);
    near!(cx, S, vb.determine_side(vc, va).lift(), want, sc, k, "determine_side(b; c, a) (cyclic); {}", ctx);
    near!(cx, S, vc.determine_side(vb, va).lift(), -want, sc, k, "determine_side(c; b, a) (orientation reversed); {}", ctx);
    near!(cx, S, vb.determine_side(va, vc).lift(), -want, sc, k, "determine_side(b; a, c) (orientation reversed); {}", ctx);
    near!(cx, S, va.determine_side(vc, vb).lift(), -want, sc, k, "determine_side(a; c, b) (orientation reversed); {}", ctx);
    near!(cx, S, Vec2::signed_triangle_area(va, vb, vc).lift(), want_half, sc, k, "signed_triangle_area(a, b, c); {}", ctx);
    near!(cx, S, Vec2::signed_triangle_area(vb, va, vc).lift(), -want_half, sc, k, "signed_triangle_area(b, a, c); {}", ctx);
    near!(cx, S, Vec2::signed_triangle_area(vb, vc, va).lift(), want_half, sc, k, "signed_triangle_area(b, c, a); {}", ctx);
    for (i, (p, q, r)) in [(va, vb, vc), (vb, vc, va), (vc, va, vb), (vb, va, vc), (vc, vb, va), (va, vc, vb)].into_iter().enumerate() {
        let g = Vec2::triangle_area(p, q, r);
        near!(cx, S, g.lift(), want_abs, sc, k, "triangle_area (permutation {} of a, b, c); {}", i, ctx);
        check!(cx, g >= S::zero(), "triangle_area is negative (permutation {} of a, b, c); {}", i, ctx);
    }
    Ok(())
}

/// distance, distance_squared of two translated points.
pub fn distance_translated<S: Lift, V: Sp<S, N>, const N: usize>(t: &mut Tape, cx: &mut Cx) -> CaseResult {
    let nf = N as f64;
    let bits = coord_bits::<S>();
    let dmax = dmax_pick(t);
    let mut da = [0i64; N];
    let mut db = [0i64; N];
    match t.below(4) {
        0 => {
            cx.label("difference on two lanes, a multiple of a Pythagorean pair (rational distance)");
            let (p, q, _) = PYTH[t.below(PYTH.len())];
            let k = (dmax / 24).max(1) * if t.bool() { 1 } else { -1 };
            let i0 = t.below(N);
            let mut j0 = t.below(N - 1);
            if j0 >= i0 {
                j0 += 1;
            }
            for i in 0..N {
                da[i] = t.int(-dmax, dmax);
                db[i] = da[i];
            }
            db[i0] = da[i0] + k * p;
            db[j0] = da[j0] - k * q;
        }
        1 => {
            cx.label("difference on one lane");
            for i in 0..N {
                da[i] = t.int(-dmax, dmax);
                db[i] = da[i];
            }
            let i0 = t.below(N);
            db[i0] = da[i0] + t.int(1, dmax) * if t.bool() { 1 } else { -1 };
        }
        _ => {
            cx.label("difference on every lane");
            for i in 0..N {
                da[i] = t.int(-dmax, dmax);
                db[i] = t.int(-dmax, dmax);
            }
        }
    }
    let reach = da.iter().chain(db.iter()).fold(1i64, |m, x| m.max(x.abs())) + 1;
    let off: [i64; N] = offsets(t, cx, bits, reach);
    let s = t.int(-10, 10) as i32;
    let d2: i64 = (0..N).map(|i| (da[i] - db[i]) * (da[i] - db[i])).sum();
    let size = (0..N).fold(1i64, |m, i| m.max((da[i] - db[i]).abs()));
    ratio_label(cx, off.iter().fold(0i64, |m, x| m.max(x.abs())), size);
    let (a, b): ([S; N], [S; N]) = (point(&off, &da, s), point(&off, &db, s));
    cx.set_nontrivial(off.iter().any(|x| *x != 0) && d2 != 0);
    sample!(cx, "{}<{}> ({:?} + {:?}, {:?}) * 2^{} d2={}", V::NAME, S::NAME, off, da, db, s, d2);
    let ctx = format!("{}<{}> a={:?} b={:?} = (offsets {:?} + displacements {:?}, {:?}) * 2^{}", V::NAME, S::NAME, a, b, off, da, db, s);
    let (va, vb) = (V::mk(a), V::mk(b));
    let want2 = times_4s::<S>(d2, s);
    // the lane differences are exact: N squares, N - 1 additions
    near!(cx, S, va.k_distance_squared(vb).lift(), want2, want2.f(), nf + 2.0, "distance_squared(a, b) must be the squared length of the difference, wherever the points lie; {}", ctx);
    near!(cx, S, vb.k_distance_squared(va).lift(), want2, want2.f(), nf + 2.0, "distance_squared(b, a); {}", ctx);
    match S::sqrt_o(want2) {
        Some(want) => {
            cx.label("asserted: distance");
            near!(cx, S, va.k_distance(vb).lift(), want, want.f(), nf + 4.0, "distance(a, b) must be the length of the difference, wherever the points lie; {}", ctx);
            near!(cx, S, vb.k_distance(va).lift(), want, want.f(), nf + 4.0, "distance(b, a); {}", ctx);
        }
        None => cx.label("Rat: irrational distance (distance_squared only)"),
    }
    // coincident points far away: exactly 0
    check_eq!(cx, va.k_distance_squared(va), S::zero(), "distance_squared(a, a); {}", ctx);
    check_eq!(cx, va.k_distance(va), S::zero(), "distance(a, a); {}", ctx);
    Ok(())
}

pub fn checks(checks: &mut Vec<Check>) {
    use vek::vec::repr_c::*;
    let sd = "triangles translated by exactly representable offsets of up to 2^24 (f32) / 2^49 (f64, Rat) grid steps (2^j, 2^j +- 1, full mantissas, per axis) with displacements of 1 .. 512 steps, times 2^s: determine_side (all six argument orders), signed_triangle_area, triangle_area (all six orders, >= 0) equal the integer cross product of the displacements within 4 eps of the products of the edge components";
    let mut add = |name: &'static str, q: u64, f: fn(&mut Tape, &mut Cx) -> CaseResult| {
        checks.push(Check { name, about: sd, kind: Kind::Tape { len: 64, quick: q, thorough: q * 100, f } });
    };
    add("translate-side-area-Vec2-rat", 2500, side_translated::<Rat>);
    add("translate-side-area-Vec2-f64", 6000, side_translated::<f64>);
    add("translate-side-area-Vec2-f32", 6000, side_translated::<f32>);
    let ds = "two points translated by exactly representable per-lane offsets of up to 2^24 (f32) / 2^49 (f64, Rat) grid steps with displacements of 1 .. 512 steps, times 2^s: distance_squared = integer sum of squared displacement differences within (N + 2) eps of itself, distance = its root within (N + 4) eps of itself, both operand orders; distance(a, a) = 0";
    macro_rules! reg {
        ($V:ident, $N:expr, $qr:expr, $qf:expr) => {{
            const N: usize = $N;
            let mut add = |name: &'static str, q: u64, f: fn(&mut Tape, &mut Cx) -> CaseResult| {
                checks.push(Check { name, about: ds, kind: Kind::Tape { len: 14 * N + 32, quick: q, thorough: q * 60, f } });
            };
            add(concat!("translate-distance-", stringify!($V), "-rat"), $qr, distance_translated::<Rat, $V<Rat>, N>);
            add(concat!("translate-distance-", stringify!($V), "-f64"), $qf, distance_translated::<f64, $V<f64>, N>);
            add(concat!("translate-distance-", stringify!($V), "-f32"), $qf, distance_translated::<f32, $V<f32>, N>);
        }};
    }
    reg!(Vec2, 2, 1500, 3000);
    reg!(Vec3, 3, 1500, 3000);
    reg!(Vec4, 4, 1500, 3000);
    reg!(Extent2, 2, 800, 1500);
    reg!(Extent3, 3, 800, 1500);
    reg!(Vec8, 8, 800, 1500);
    reg!(Vec16, 16, 500, 1000);
    reg!(Vec32, 32, 300, 700);
    reg!(Vec64, 64, 200, 500);
}
