//! Vec2: determine_side, signed_triangle_area, triangle_area against the 3x3 determinant |1 a; 1 b; 1 c|.

use crate::*;
use num_traits::Zero;
use vek::vec::repr_c::Vec2;
use vkit::refmath as rf;

/// (b - a) x (c - a) as the Leibniz determinant of [[1, ax, ay], [1, bx, by], [1, cx, cy]].
fn side_det<T: rf::Ring>(a: &[T; 2], b: &[T; 2], c: &[T; 2]) -> T {
    rf::det(&[[T::one(), a[0], a[1]], [T::one(), b[0], b[1]], [T::one(), c[0], c[1]]])
}

fn side<S: Lift>(t: &mut Tape, cx: &mut Cx) -> CaseResult {
    let sel = t.below(6);
    let a: [S; 2] = gen_any(t);
    let b: [S; 2] = gen_any(t);
    let c: [S; 2] = match sel {
        0 => {
            cx.label("c on the line ab (exactly collinear)");
            // a + k (b - a) with k a small integer: exact in every domain for the small-fraction inputs; floats re-derive the oracle anyway
            let k = S::i(t.int(-3, 3));
            [a[0] + k * (b[0] - a[0]), a[1] + k * (b[1] - a[1])]
        }
        1 => {
            cx.label("c a hair off the line ab");
            let k = S::i(t.int(-3, 3));
            let e = if t.bool() { S::q(1, 64) } else { S::q(-1, 64) };
            [a[0] + k * (b[0] - a[0]) - e * (b[1] - a[1]), a[1] + k * (b[1] - a[1]) + e * (b[0] - a[0])]
        }
        _ => {
            cx.label("general position");
            gen_any(t)
        }
    };
    let (ao, bo, co) = (lift_v(&a), lift_v(&b), lift_v(&c));
    let det = side_det(&ao, &bo, &co);
    let zero = <<S as Lift>::O as Zero>::zero();
    if det > zero { cx.label("c left of ab (> 0)") } else if det < zero { cx.label("c right of ab (< 0)") } else { cx.label("determinant exactly 0") }
    cx.set_nontrivial(a != b && b != c && a != c && (det.is_zero() || [ao[0], ao[1], bo[0], bo[1], co[0], co[1]].iter().filter(|x| !x.is_zero()).count() >= 4));
    sample!(cx, "Vec2<{}> a={:?} b={:?} c={:?} det={:?}", S::NAME, a, b, c, det);
    // rounding scale: the four products of the differences
    let sc = ((bo[0] - ao[0]).f() * (co[1] - ao[1]).f()).abs() + ((bo[1] - ao[1]).f() * (co[0] - ao[0]).f()).abs() + vmax(&ao).max(vmax(&bo)).max(vmax(&co)).powi(2) * 4.0;
    let two = <<S as Lift>::O as Dom>::i(2);
    let (va, vb, vc) = (vk::v2(&a), vk::v2(&b), vk::v2(&c));
    near!(cx, S, vc.determine_side(va, vb).lift(), det, sc, 16.0, "Vec2<{}>::determine_side c={:?} a={:?} b={:?}", S::NAME, c, a, b);
    near!(cx, S, Vec2::signed_triangle_area(va, vb, vc).lift(), det / two, sc, 16.0, "Vec2<{}>::signed_triangle_area a={:?} b={:?} c={:?}", S::NAME, a, b, c);
    let want_abs = if det < zero { -det / two } else { det / two };
    near!(cx, S, Vec2::triangle_area(va, vb, vc).lift(), want_abs, sc, 16.0, "Vec2<{}>::triangle_area a={:?} b={:?} c={:?}", S::NAME, a, b, c);
    check!(cx, Vec2::triangle_area(va, vb, vc) >= S::zero(), "Vec2<{}>::triangle_area a={:?} b={:?} c={:?} is negative", S::NAME, a, b, c);
    // orientation reversal and cyclic invariance, on vek's own results
    near!(cx, S, vc.determine_side(vb, va).lift(), -det, sc, 16.0, "Vec2<{}>::determine_side with a, b exchanged must change sign: c={:?} a={:?} b={:?}", S::NAME, c, b, a);
    near!(cx, S, va.determine_side(vb, vc).lift(), det, sc, 16.0, "Vec2<{}>::determine_side is invariant under cyclic permutation: a={:?} (b={:?}, c={:?})", S::NAME, a, b, c);
    near!(cx, S, Vec2::triangle_area(vb, va, vc).lift(), want_abs, sc, 16.0, "Vec2<{}>::triangle_area (a, b exchanged) a={:?} b={:?} c={:?}", S::NAME, a, b, c);
    Ok(())
}

/// All point triples of the grid {-2..2}^2: i64 for determine_side, Rat for the (halved) areas.
const GRID: u64 = 5 * 5 * 5 * 5 * 5 * 5;
fn side_grid(idx: u64, cx: &mut Cx) -> CaseResult {
    let mut k = idx;
    let mut c = [0i64; 6];
    for x in c.iter_mut() {
        *x = (k % 5) as i64 - 2;
        k /= 5;
    }
    let (a, b, p) = ([c[0], c[1]], [c[2], c[3]], [c[4], c[5]]);
    let det = side_det(&a, &b, &p);
    cx.set_nontrivial(a != b && b != p && a != p);
    if det == 0 { cx.label("grid: collinear") } else if det > 0 { cx.label("grid: left") } else { cx.label("grid: right") }
    sample!(cx, "grid a={:?} b={:?} c={:?} det={}", a, b, p, det);
    check_eq!(cx, vk::v2(&p).determine_side(vk::v2(&a), vk::v2(&b)), det, "Vec2<i64>::determine_side c={:?} a={:?} b={:?}", p, a, b);
    let r = |v: [i64; 2]| vk::v2(&[Rat::int(v[0]), Rat::int(v[1])]);
    check_eq!(cx, r(p).determine_side(r(a), r(b)), Rat::int(det), "Vec2<Rat>::determine_side c={:?} a={:?} b={:?}", p, a, b);
    check_eq!(cx, Vec2::signed_triangle_area(r(a), r(b), r(p)), Rat::frac(det, 2), "Vec2<Rat>::signed_triangle_area a={:?} b={:?} c={:?}", a, b, p);
    check_eq!(cx, Vec2::triangle_area(r(a), r(b), r(p)), Rat::frac(det.abs(), 2), "Vec2<Rat>::triangle_area a={:?} b={:?} c={:?}", a, b, p);
    let f = |v: [i64; 2]| vk::v2(&[v[0] as f32, v[1] as f32]);
    check_eq!(cx, f(p).determine_side(f(a), f(b)), det as f32, "Vec2<f32>::determine_side c={:?} a={:?} b={:?}", p, a, b);
    check_eq!(cx, Vec2::signed_triangle_area(f(a), f(b), f(p)), det as f32 / 2.0, "Vec2<f32>::signed_triangle_area a={:?} b={:?} c={:?}", a, b, p);
    check_eq!(cx, Vec2::triangle_area(f(a), f(b), f(p)), det.abs() as f32 / 2.0, "Vec2<f32>::triangle_area a={:?} b={:?} c={:?}", a, b, p);
    Ok(())
}

pub fn checks(checks: &mut Vec<Check>) {
    let about = "determine_side(c; a, b) = det[[1,a],[1,b],[1,c]] (> 0 left, < 0 right, 0 on the line), signed_triangle_area = half of it, triangle_area = its absolute value; sign change under a<->b, cyclic invariance; collinear and hair-off-the-line triples forced";
    let mut add = |name: &'static str, q: u64, f: fn(&mut Tape, &mut Cx) -> CaseResult| {
        checks.push(Check { name, about, kind: Kind::Tape { len: 64, quick: q, thorough: q * 50, f } });
    };
    add("side-area-Vec2-rat", 20_000, side::<Rat>);
    add("side-area-Vec2-f64", 20_000, side::<f64>);
    add("side-area-Vec2-f32", 20_000, side::<f32>);
    checks.push(Check {
        name: "side-area-Vec2-grid",
        about: "every triple of points of {-2..2}^2 (15625): determine_side on i64 / Rat / f32 and both areas on Rat / f32, exact",
        kind: Kind::Index { total: GRID, quick: GRID, thorough: GRID, f: side_grid },
    });
}
