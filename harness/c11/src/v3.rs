//! Vec3: cross product and spherical interpolation.

use crate::generic::{kahan_angle, near_abs};
use crate::*;
use num_traits::Zero;
use vek::ops::Slerp;
use vek::vec::repr_c::Vec3;
use vkit::refmath as rf;

/// (a x b)_i = sum_jk eps_ijk a_j b_k over the six non-zero Levi-Civita symbols.
fn cross_eps<T: rf::Ring>(a: &[T; 3], b: &[T; 3]) -> [T; 3] {
    const E: [(usize, usize, usize, bool); 6] = [(0, 1, 2, true), (1, 2, 0, true), (2, 0, 1, true), (0, 2, 1, false), (2, 1, 0, false), (1, 0, 2, false)];
    let mut r = [T::zero(); 3];
    for (i, j, k, pos) in E {
        let term = a[j] * b[k];
        r[i] = if pos { r[i] + term } else { r[i] - term };
    }
    r
}

fn cross<S: Lift>(t: &mut Tape, cx: &mut Cx) -> CaseResult {
    let a: [S; 3] = gen_any(t);
    let mut b: [S; 3] = gen_any(t);
    let c: [S; 3] = gen_any(t);
    let s: S = S::any(t, 9);
    match t.below(8) {
        0 => {
            cx.label("b parallel to a");
            b = scale_s(&a, S::q(t.int(-4, 4), 2));
        }
        1 => {
            cx.label("b = a");
            b = a;
        }
        _ => cx.label("general"),
    }
    let (ao, bo, co, so) = (lift_v(&a), lift_v(&b), lift_v(&c), s.lift());
    let want = cross_eps(&ao, &bo);
    cx.set_nontrivial(want.iter().any(|x| !x.is_zero()) && nonzero_count(&a) >= 2 && nonzero_count(&b) >= 2);
    sample!(cx, "Vec3<{}> a={:?} b={:?} c={:?} s={:?}", S::NAME, a, b, c, s);
    let (va, vb, vc) = (vk::v3(&a), vk::v3(&b), vk::v3(&c));
    let (am, bm, cm) = (vmax(&ao), vmax(&bo), vmax(&co));
    let sc = 2.0 * am * bm;
    let axb = vk::a3(&va.cross(vb));
    near_vec!(cx, S, axb, want, sc, 4.0, "Vec3<{}>::cross a={:?} b={:?}", S::NAME, a, b);
    // anticommutative
    near_vec!(cx, S, vk::a3(&vb.cross(va)), neg_v(&lift_v(&axb)), sc, 4.0, "Vec3<{}>::cross: b x a must be -(a x b), a={:?} b={:?}", S::NAME, a, b);
    near_vec!(cx, S, vk::a3(&va.cross(va)), [<<S as Lift>::O as Zero>::zero(); 3], sc, 4.0, "Vec3<{}>::cross: a x a must be 0, a={:?}", S::NAME, a);
    // bilinear in both arguments
    {
        let sc3 = 2.0 * (am + so.f().abs() * cm) * bm + sc;
        let apsc = [a[0] + s * c[0], a[1] + s * c[1], a[2] + s * c[2]];
        let cxb = cross_eps(&co, &bo);
        let lin: [<S as Lift>::O; 3] = std::array::from_fn(|i| want[i] + so * cxb[i]);
        near_vec!(cx, S, vk::a3(&vk::v3(&apsc).cross(vb)), lin, sc3, 16.0, "Vec3<{}>::cross: (a + s c) x b = a x b + s (c x b), a={:?} b={:?} c={:?} s={:?}", S::NAME, a, b, c, s);
        let bxa = cross_eps(&bo, &ao);
        let bxc = cross_eps(&bo, &co);
        let lin2: [<S as Lift>::O; 3] = std::array::from_fn(|i| bxa[i] + so * bxc[i]);
        near_vec!(cx, S, vk::a3(&vb.cross(vk::v3(&apsc))), lin2, sc3, 16.0, "Vec3<{}>::cross: b x (a + s c) = b x a + s (b x c), a={:?} b={:?} c={:?} s={:?}", S::NAME, a, b, c, s);
        let _ = vc;
    }
    // orthogonal to both operands, Lagrange identity
    let g = lift_v(&axb);
    let zero = <<S as Lift>::O as Zero>::zero();
    near!(cx, S, rf::dot(&g, &ao), zero, 6.0 * am * am * bm, 8.0, "Vec3<{}>::cross: (a x b).a must be 0, a={:?} b={:?}", S::NAME, a, b);
    near!(cx, S, rf::dot(&g, &bo), zero, 6.0 * am * bm * bm, 8.0, "Vec3<{}>::cross: (a x b).b must be 0, a={:?} b={:?}", S::NAME, a, b);
    let ab = rf::dot(&ao, &bo);
    near!(cx, S, rf::dot(&g, &g), rf::dot(&ao, &ao) * rf::dot(&bo, &bo) - ab * ab, 18.0 * am * am * bm * bm, 16.0, "Vec3<{}>::cross: |a x b|^2 = |a|^2 |b|^2 - (a.b)^2, a={:?} b={:?}", S::NAME, a, b);
    Ok(())
}

/// a, b in {-1,0,1}^3 (729 pairs, includes every signed pair of basis vectors): exact on i64, Rat, f64.
fn cross_grid(idx: u64, cx: &mut Cx) -> CaseResult {
    let mut k = idx;
    let mut c = [0i64; 6];
    for x in c.iter_mut() {
        *x = (k % 3) as i64 - 1;
        k /= 3;
    }
    let (a, b) = ([c[0], c[1], c[2]], [c[3], c[4], c[5]]);
    let want = cross_eps(&a, &b);
    let basis = |v: &[i64; 3]| v.iter().filter(|x| **x != 0).count() == 1;
    if basis(&a) && basis(&b) { cx.label("grid: signed basis vectors") } else { cx.label("grid: other") }
    cx.set_nontrivial(want != [0, 0, 0]);
    sample!(cx, "grid a={:?} b={:?} a x b={:?}", a, b, want);
    check_eq!(cx, vk::a3(&vk::v3(&a).cross(vk::v3(&b))), want, "Vec3<i64>::cross a={:?} b={:?}", a, b);
    let r = |v: &[i64; 3]| [Rat::int(v[0]), Rat::int(v[1]), Rat::int(v[2])];
    check_eq!(cx, vk::a3(&vk::v3(&r(&a)).cross(vk::v3(&r(&b)))), r(&want), "Vec3<Rat>::cross a={:?} b={:?}", a, b);
    let f = |v: &[i64; 3]| [v[0] as f64, v[1] as f64, v[2] as f64];
    check_eq!(cx, vk::a3(&vk::v3(&f(&a)).cross(vk::v3(&f(&b)))), f(&want), "Vec3<f64>::cross a={:?} b={:?}", a, b);
    if idx == 0 {
        let (x, y, z) = (Vec3::<i64>::unit_x(), Vec3::<i64>::unit_y(), Vec3::<i64>::unit_z());
        check_eq!(cx, (vk::a3(&x), vk::a3(&y), vk::a3(&z)), ([1, 0, 0], [0, 1, 0], [0, 0, 1]), "unit_x/unit_y/unit_z");
        check_eq!(cx, vk::a3(&x.cross(y)), [0, 0, 1], "unit_x x unit_y = unit_z");
        check_eq!(cx, vk::a3(&y.cross(z)), [1, 0, 0], "unit_y x unit_z = unit_x");
        check_eq!(cx, vk::a3(&z.cross(x)), [0, 1, 0], "unit_z x unit_x = unit_y");
    }
    Ok(())
}

fn normalize3(v: [f64; 3]) -> Option<[f64; 3]> {
    let l = rf::dot(&v, &v).sqrt();
    if l < 1e-3 {
        None
    } else {
        Some([v[0] / l, v[1] / l, v[2] / l])
    }
}

fn slerp<S: Lift>(t: &mut Tape, cx: &mut Cx) -> CaseResult {
    // constructed endpoints: directions u and u cos(al) + e sin(al) for an orthonormal (u, e), lengths in [0.1, 10]
    let r1: [f64; 3] = [t.range_f64(-1.0, 1.0), t.range_f64(-1.0, 1.0), t.range_f64(-1.0, 1.0)];
    let r2: [f64; 3] = [t.range_f64(-1.0, 1.0), t.range_f64(-1.0, 1.0), t.range_f64(-1.0, 1.0)];
    let u = if t.chance(32) { [[1.0, 0.0, 0.0], [0.0, 1.0, 0.0], [0.0, 0.0, -1.0]][t.below(3)] } else { normalize3(r1).unwrap_or([0.6, 0.0, -0.8]) };
    let proj = rf::dot(&r2, &u);
    let e = normalize3([r2[0] - proj * u[0], r2[1] - proj * u[1], r2[2] - proj * u[2]]).unwrap_or_else(|| {
        // any vector perpendicular to u
        let w = if u[0].abs() < 0.9 { [1.0, 0.0, 0.0] } else { [0.0, 1.0, 0.0] };
        let p = rf::dot(&w, &u);
        normalize3([w[0] - p * u[0], w[1] - p * u[1], w[2] - p * u[2]]).unwrap()
    });
    let pi = std::f64::consts::PI;
    let al0 = match t.below(8) {
        0 => {
            cx.label("angle near the lower bound (0.06..0.1)");
            t.range_f64(0.06, 0.1)
        }
        1 => {
            cx.label("angle near the upper bound (pi-0.1..pi-0.06)");
            t.range_f64(pi - 0.1, pi - 0.06)
        }
        2 => {
            cx.label("right angle");
            pi / 2.0
        }
        _ => {
            cx.label("angle in (0.1, pi-0.1)");
            t.range_f64(0.1, pi - 0.1)
        }
    };
    let len = |t: &mut Tape| if t.chance(64) { 1.0 } else { t.range_f64(0.1, 10.0) };
    let (la0, lb0) = (len(t), len(t));
    let a: [S; 3] = std::array::from_fn(|i| S::of_f64(u[i] * la0));
    let b: [S; 3] = std::array::from_fn(|i| S::of_f64((u[i] * al0.cos() + e[i] * al0.sin()) * lb0));
    let f: S = match t.below(8) {
        0 => {
            cx.label("factor 0");
            S::zero()
        }
        1 => {
            cx.label("factor 1");
            S::i(1)
        }
        2 => {
            cx.label("factor 1/2");
            S::q(1, 2)
        }
        3 => {
            cx.label("factor outside [0, 1]");
            S::of_f64(if t.bool() { t.range_f64(-0.5, 0.0) } else { t.range_f64(1.0, 1.5) })
        }
        _ => {
            cx.label("factor in (0, 1)");
            S::of_f64(t.range_f64(0.0, 1.0))
        }
    };
    // oracle frame from the endpoints as actually passed
    let af: [f64; 3] = std::array::from_fn(|i| a[i].f());
    let bf: [f64; 3] = std::array::from_fn(|i| b[i].f());
    let (la, lb) = (rf::dot(&af, &af).sqrt(), rf::dot(&bf, &bf).sqrt());
    let al = kahan_angle(&af, &bf);
    if !(al >= 0.05 && al <= pi - 0.05) {
        discard!("precondition: endpoints (anti)parallel within 0.05 rad");
    }
    let ah: [f64; 3] = std::array::from_fn(|i| af[i] / la);
    let bh: [f64; 3] = std::array::from_fn(|i| bf[i] / lb);
    let cab = rf::dot(&ah, &bh);
    let eh = normalize3(std::array::from_fn(|i| bh[i] - cab * ah[i])).unwrap();
    let expect = |tf: f64| -> [f64; 3] {
        let l = la + tf * (lb - la);
        std::array::from_fn(|i| (ah[i] * (tf * al).cos() + eh[i] * (tf * al).sin()) * l)
    };
    let tf = f.f();
    cx.set_nontrivial(tf != 0.0 && tf != 1.0 && (la - lb).abs() > 1e-3);
    sample!(cx, "Vec3<{}> from={:?} to={:?} factor={:?} (angle {:.4})", S::NAME, a, b, f, al);
    let (va, vb) = (vk::v3(&a), vk::v3(&b));
    let lmax = la.max(lb) * 1.5;
    // acos and the division by sin(alpha) each amplify rounding by 1/sin(alpha)
    let kk = 16.0 / (al.sin() * al.sin());
    macro_rules! vec_near {
        ($got:expr, $want:expr, $k:expr, $($arg:tt)*) => {{
            let g = $got;
            let w: [f64; 3] = $want;
            for i in 0..3 {
                if !near_abs(cx, g[i].f(), w[i], $k * S::eps() * lmax) {
                    fail!("{}: lane {}: got {:?}, want {:?} (from={:?} to={:?} factor={:?}; tolerance {:.3e})", format!($($arg)*), i, g, w, a, b, f, $k * S::eps() * lmax);
                }
            }
        }};
    }
    let zero = S::zero();
    let one = S::i(1);
    vec_near!(vk::a3(&Vec3::slerp_unclamped(va, vb, zero)), af, kk, "Vec3<{}>::slerp_unclamped(.., 0) must be `from`", S::NAME);
    vec_near!(vk::a3(&Vec3::slerp_unclamped(va, vb, one)), bf, kk, "Vec3<{}>::slerp_unclamped(.., 1) must be `to`", S::NAME);
    let got = vk::a3(&Vec3::slerp_unclamped(va, vb, f));
    vec_near!(got, expect(tf), kk, "Vec3<{}>::slerp_unclamped vs (a^ cos(t al) + e^ sin(t al)) * lerp(|a|, |b|, t)", S::NAME);
    // the separate clauses
    let gf: [f64; 3] = std::array::from_fn(|i| got[i].f());
    let l = la + tf * (lb - la);
    if !near_abs(cx, rf::dot(&gf, &gf).sqrt(), l.abs(), 2.0 * kk * S::eps() * lmax) {
        fail!("Vec3<{}>::slerp_unclamped: length {:?} is not lerp(|from|, |to|, factor) = {:?} (from={:?} to={:?} factor={:?})", S::NAME, rf::dot(&gf, &gf).sqrt(), l, a, b, f);
    }
    let nrm = normalize3(rf::cross(&ah, &bh)).unwrap();
    if !near_abs(cx, rf::dot(&gf, &nrm), 0.0, 2.0 * kk * S::eps() * lmax) {
        fail!("Vec3<{}>::slerp_unclamped: result {:?} leaves the plane of from={:?} and to={:?} (factor {:?})", S::NAME, got, a, b, f);
    }
    if l > 0.05 && tf.abs() * al <= pi - 0.01 {
        let ang = kahan_angle(&af, &gf);
        if !near_abs(cx, ang, tf.abs() * al, 4.0 * kk * S::eps() * lmax / l) {
            fail!("Vec3<{}>::slerp_unclamped: angle(from, result) = {:?}, want factor * angle(from, to) = {:?} (from={:?} to={:?} factor={:?})", S::NAME, ang, tf.abs() * al, a, b, f);
        }
    }
    // clamped form = unclamped at clamp01(factor); trait = inherent
    let fc = if f < zero { zero } else if f > one { one } else { f };
    let want_c: [f64; 3] = { let w = vk::a3(&Vec3::slerp_unclamped(va, vb, fc)); std::array::from_fn(|i| w[i].f()) };
    vec_near!(vk::a3(&Vec3::slerp(va, vb, f)), want_c, 8.0, "Vec3<{}>::slerp(.., f) must equal slerp_unclamped(.., clamp01(f))", S::NAME);
    vec_near!(vk::a3(&Vec3::slerp(va, vb, f)), expect(fc.f()), kk, "Vec3<{}>::slerp vs the reference at clamp01(factor)", S::NAME);
    vec_near!(vk::a3(&<Vec3<S> as Slerp<S>>::slerp_unclamped(va, vb, f)), gf, 8.0, "<Vec3<{}> as Slerp>::slerp_unclamped must equal the inherent function", S::NAME);
    vec_near!(vk::a3(&<Vec3<S> as Slerp<S>>::slerp(va, vb, f)), want_c, 8.0, "<Vec3<{}> as Slerp>::slerp must equal slerp_unclamped at clamp01(f)", S::NAME);
    Ok(())
}

pub fn checks(checks: &mut Vec<Check>) {
    let c = "cross = Levi-Civita sum; anticommutative, a x a = 0, bilinear in both arguments, orthogonal to both operands, |a x b|^2 = |a|^2|b|^2 - (a.b)^2";
    let s = "slerp_unclamped hits the endpoints, equals (a^ cos(t al) + e^ sin(t al)) * lerp(|a|,|b|,t) in the Gram-Schmidt frame of the endpoints (length linear, result in the plane, angle(from, result) = t * angle); slerp = slerp_unclamped at clamp01(t); Slerp trait = inherent";
    let mut add = |name: &'static str, about: &'static str, len: usize, q: u64, f: fn(&mut Tape, &mut Cx) -> CaseResult| {
        checks.push(Check { name, about, kind: Kind::Tape { len, quick: q, thorough: q * 50, f } });
    };
    add("cross-Vec3-rat", c, 48, 20_000, cross::<Rat>);
    add("cross-Vec3-f64", c, 96, 20_000, cross::<f64>);
    add("cross-Vec3-f32", c, 96, 20_000, cross::<f32>);
    add("slerp-Vec3-f64", s, 64, 20_000, slerp::<f64>);
    add("slerp-Vec3-f32", s, 64, 20_000, slerp::<f32>);
    checks.push(Check {
        name: "cross-Vec3-grid",
        about: "a, b in {-1,0,1}^3 (729 pairs incl. all signed basis pairs, x^ x y^ = z^): exact on i64, Rat, f64",
        kind: Kind::Index { total: 729, quick: 729, thorough: 729, f: cross_grid },
    });
}
