//! Vec4: homogenized / homogenize, is_point / is_direction / is_homogeneous.

use crate::*;

fn homog<S: Lift>(t: &mut Tape, cx: &mut Cx) -> CaseResult {
    let xyz: [S; 3] = gen_any(t);
    let sel = t.below(10);
    // (w, is_point, is_direction); None = not clear-cut, not asserted
    let (w, pt, dir): (S, Option<bool>, Option<bool>) = match sel {
        0 => {
            cx.label("w = 1");
            (S::one(), Some(true), Some(false))
        }
        1 => {
            cx.label("w = 0");
            (S::zero(), Some(false), Some(true))
        }
        2 => {
            cx.label("w = 1/2");
            (S::q(1, 2), Some(false), Some(false))
        }
        3 => {
            cx.label("w = 1 +- 2^-60 (within the default RelativeEq epsilon of 1)");
            let e = S::of_f64(2f64.powi(-60));
            (if t.bool() { S::one() + e } else { S::one() - e }, Some(true), Some(false))
        }
        4 => {
            cx.label("w = +-2^-60 (within the default RelativeEq epsilon of 0)");
            let e = S::of_f64(2f64.powi(-60));
            (if t.bool() { e } else { -e }, Some(false), Some(true))
        }
        5 => {
            cx.label("w = 1 +- 1/1000");
            (if t.bool() { S::q(1001, 1000) } else { S::q(999, 1000) }, Some(false), Some(false))
        }
        6 => {
            cx.label("w = +-1/1000");
            (if t.bool() { S::q(1, 1000) } else { S::q(-1, 1000) }, Some(false), Some(false))
        }
        7 => {
            cx.label("w = -1");
            (-S::one(), Some(false), Some(false))
        }
        _ => {
            cx.label("w arbitrary");
            let w = S::any(t, 9);
            let f = w.f();
            let clear = |c: f64| if f == c { Some(true) } else if (f - c).abs() > 1e-3 { Some(false) } else { None };
            (w, clear(1.0), clear(0.0))
        }
    };
    let v = [xyz[0], xyz[1], xyz[2], w];
    cx.set_nontrivial(!w.is_zero() && w != S::one() && xyz.iter().all(|x| !x.is_zero()));
    sample!(cx, "Vec4<{}> v={:?}", S::NAME, v);
    let vv = vk::v4(&v);
    if S::EXACT && (sel == 3 || sel == 4) {
        // Rat: comparing 2^-60-sized residues against 2^-52-sized bounds overflows i128 in the *other* predicate;
        // only the predicate whose reference value w is next to is evaluated
        if sel == 3 {
            check!(cx, vv.is_point(), "Vec4<Rat>::is_point of {:?} must be true (|w - 1| < default epsilon)", v);
        } else {
            check!(cx, vv.is_direction(), "Vec4<Rat>::is_direction of {:?} must be true (|w| < default epsilon)", v);
        }
        return Ok(());
    }
    if let Some(p) = pt {
        check_eq!(cx, vv.is_point(), p, "Vec4<{}>::is_point of {:?}", S::NAME, v);
    }
    if let Some(d) = dir {
        check_eq!(cx, vv.is_direction(), d, "Vec4<{}>::is_direction of {:?}", S::NAME, v);
    }
    if let (Some(p), Some(d)) = (pt, dir) {
        check_eq!(cx, vv.is_homogeneous(), p || d, "Vec4<{}>::is_homogeneous of {:?}", S::NAME, v);
    }
    check_eq!(cx, vv.is_homogeneous(), vv.is_point() || vv.is_direction(), "Vec4<{}>::is_homogeneous must be is_point || is_direction, v={:?}", S::NAME, v);
    if w.is_zero() {
        // documented division by zero: not evaluated
        return Ok(());
    }
    // every lane divided by w; w/w is exactly 1 (also in IEEE arithmetic)
    let vo = lift_v(&v);
    let want: [<S as Lift>::O; 4] = std::array::from_fn(|i| vo[i] / vo[3]);
    let h = vk::a4(&vv.homogenized());
    let sc = vmax(&want);
    near_vec!(cx, S, h, want, sc, 2.0, "Vec4<{}>::homogenized of {:?}", S::NAME, v);
    check_eq!(cx, h[3], S::one(), "Vec4<{}>::homogenized of {:?}: w must become exactly 1", S::NAME, v);
    let mut m = vv;
    m.homogenize();
    let hm = vk::a4(&m);
    near_vec!(cx, S, hm, want, sc, 2.0, "Vec4<{}>::homogenize (in place) of {:?}", S::NAME, v);
    check_eq!(cx, hm[3], S::one(), "Vec4<{}>::homogenize (in place) of {:?}: w must become exactly 1", S::NAME, v);
    check!(cx, vv.homogenized().is_point() && vv.homogenized().is_homogeneous(), "Vec4<{}>::homogenized of {:?} must be a homogeneous point", S::NAME, v);
    Ok(())
}

pub fn checks(checks: &mut Vec<Check>) {
    let about = "homogenized / homogenize = every lane divided by w, w becomes exactly 1, result is_point; is_point / is_direction / is_homogeneous on w in {0, 1, 1/2, -1, 1 +- 2^-60, +-2^-60, 1 +- 1e-3, +-1e-3, arbitrary}";
    let mut add = |name: &'static str, q: u64, f: fn(&mut Tape, &mut Cx) -> CaseResult| {
        checks.push(Check { name, about, kind: Kind::Tape { len: 48, quick: q, thorough: q * 50, f } });
    };
    add("homogenize-Vec4-rat", 20_000, homog::<Rat>);
    add("homogenize-Vec4-f64", 20_000, homog::<f64>);
    add("homogenize-Vec4-f32", 20_000, homog::<f32>);
}
