//! Float scalar `Lerp` impls (f32, f64; value and &) and float vectors: exact endpoints, derived
//! error bound against an exact (double-double) reference, clamped / & / range forms.

use crate::check_within;
use crate::util::*;
use vek::ops::Lerp;
use vek::vec::repr_c::{Rgba, Vec3, Vec4};
use vkit::*;

/// A finite float of moderate magnitude (|x| <= 2^41, no subnormals) with a `p`-bit significand.
fn gen_val(t: &mut Tape, p: u32) -> f64 {
    match t.below(7) {
        0 => t.small_int(40) as f64 / t.pick(&[1.0, 1.0, 2.0, 3.0, 4.0, 5.0, 8.0, 10.0]),
        1 => t.range_f64(-100.0, 100.0),
        2 | 3 => {
            let mant = (t.u64() >> (64 - p)) | (1u64 << (p - 1));
            let e = t.int(-30, 40) as i32;
            let v = mant as f64 * 2f64.powi(e - p as i32);
            if t.bool() {
                -v
            } else {
                v
            }
        }
        4 => t.int(-30000, 30000) as f64 * 64.0,
        5 => t.pick(&[0.0, -0.0, 1.0, -1.0, 0.5, 255.0, 1e-6, -1e6]),
        _ => t.range_f64(-1.0, 1.0),
    }
}

macro_rules! float_scalar_case {
    ($fname:ident, $F:ident, $P:expr, $clamp:ident) => {
        pub fn $fname(t: &mut Tape, cx: &mut Cx) -> CaseResult {
            type F = $F;
            const EPS: f64 = $F::EPSILON as f64;
            const TINY: f64 = $F::MIN_POSITIVE as f64;
            let from = gen_val(t, $P) as F;
            let to = if t.chance(40) {
                // nearly equal endpoints: cancellation in to-from
                let k = t.int(-8, 8) as F;
                from + from * k * $F::EPSILON
            } else {
                gen_val(t, $P) as F
            };
            let f = factor_f64(t) as F;
            let s = factor_f64(t) as F;
            sample!(cx, "{} from={:e} to={:e} factor={:e} second factor={:e}", stringify!($F), from, to, f, s);
            cx.set_nontrivial(from != to && f != 0.0 && f != 1.0);
            if f < 0.0 || f > 1.0 { cx.label("factor-outside-[0,1]"); }
            if f > 0.0 && f < 1.0 { cx.label("factor-in-(0,1)"); }
            if (from as f64 - to as f64).abs() <= 16.0 * EPS * (from.abs() as f64) && from != to { cx.label("nearly-equal-endpoints"); }
            let (a, b) = (from as f64, to as f64);
            // derived bound: both formulas commit at most 3 roundings, each relative to at most
            // (|from|+|to|)(1+|t|); 2*eps = 4 half-ulps leaves room for the 1-t rounding.
            let tol = |x: F| 2.0 * EPS * (a.abs() + b.abs()) * (1.0 + (x as f64).abs()) + 4.0 * TINY;
            let fc = $clamp(f);
            macro_rules! near_exact {
                ($name:expr, $got:expr, $x:expr) => {{
                    let g: F = $got;
                    let e = dd_err(g as f64, lerp_dd(a, b, $x as f64));
                    check_within!(cx, e, 0.0, tol($x), "{} {}: from={:e} to={:e} factor={:e} got {:e}: distance from the exact from+t(to-from)", stringify!($F), $name, from, to, $x, g);
                    g
                }};
            }
            let fast = near_exact!("lerp_unclamped", <F as Lerp<F>>::lerp_unclamped(from, to, f), f);
            let prec = near_exact!("lerp_unclamped_precise", <F as Lerp<F>>::lerp_unclamped_precise(from, to, f), f);
            let cfast = near_exact!("lerp", <F as Lerp<F>>::lerp(from, to, f), fc);
            let cprec = near_exact!("lerp_precise", <F as Lerp<F>>::lerp_precise(from, to, f), fc);
            // fast and precise agree to rounding error
            check_within!(cx, fast as f64, prec as f64, tol(f) * 2.0, "{} |fast-precise| from={:e} to={:e} factor={:e}", stringify!($F), from, to, f);
            // clamped = unclamped at the clamped factor (same computation: bit-identical)
            check_eq!(cx, cfast.to_bits(), <F as Lerp<F>>::lerp_unclamped(from, to, fc).to_bits(), "{} lerp(from,to,t) vs lerp_unclamped(from,to,clamp01 t), from={:e} to={:e} t={:e}", stringify!($F), from, to, f);
            check_eq!(cx, cprec.to_bits(), <F as Lerp<F>>::lerp_unclamped_precise(from, to, fc).to_bits(), "{} lerp_precise(from,to,t) vs lerp_unclamped_precise(from,to,clamp01 t), from={:e} to={:e} t={:e}", stringify!($F), from, to, f);
            // & forms and range forms are the same function
            macro_rules! same {
                ($name:expr, $got:expr, $want:expr) => {
                    check_eq!(cx, ($got).to_bits(), ($want).to_bits(), "{} {} differs from the two-argument value form, from={:e} to={:e} t={:e}", stringify!($F), $name, from, to, f);
                };
            }
            same!("&lerp_unclamped", <&F as Lerp<F>>::lerp_unclamped(&from, &to, f), fast);
            same!("&lerp_unclamped_precise", <&F as Lerp<F>>::lerp_unclamped_precise(&from, &to, f), prec);
            same!("&lerp", <&F as Lerp<F>>::lerp(&from, &to, f), cfast);
            same!("&lerp_precise", <&F as Lerp<F>>::lerp_precise(&from, &to, f), cprec);
            same!("lerp_unclamped_inclusive_range", <F as Lerp<F>>::lerp_unclamped_inclusive_range(from..=to, f), fast);
            same!("lerp_unclamped_precise_inclusive_range", <F as Lerp<F>>::lerp_unclamped_precise_inclusive_range(from..=to, f), prec);
            same!("lerp_inclusive_range", <F as Lerp<F>>::lerp_inclusive_range(from..=to, f), cfast);
            same!("lerp_precise_inclusive_range", <F as Lerp<F>>::lerp_precise_inclusive_range(from..=to, f), cprec);
            same!("&lerp_unclamped_inclusive_range", <&F as Lerp<F>>::lerp_unclamped_inclusive_range(&from..=&to, f), fast);
            same!("&lerp_unclamped_precise_inclusive_range", <&F as Lerp<F>>::lerp_unclamped_precise_inclusive_range(&from..=&to, f), prec);
            same!("&lerp_inclusive_range", <&F as Lerp<F>>::lerp_inclusive_range(&from..=&to, f), cfast);
            same!("&lerp_precise_inclusive_range", <&F as Lerp<F>>::lerp_precise_inclusive_range(&from..=&to, f), cprec);
            // exact endpoints (numeric equality; finite inputs)
            check!(cx, <F as Lerp<F>>::lerp_unclamped(from, to, 0.0) == from, "{} lerp_unclamped({:e},{:e},0) = {:e} != from", stringify!($F), from, to, <F as Lerp<F>>::lerp_unclamped(from, to, 0.0));
            check!(cx, <F as Lerp<F>>::lerp(from, to, 0.0) == from, "{} lerp({:e},{:e},0) != from", stringify!($F), from, to);
            check!(cx, <&F as Lerp<F>>::lerp(&from, &to, 0.0) == from, "{} &lerp({:e},{:e},0) != from", stringify!($F), from, to);
            check!(cx, <F as Lerp<F>>::lerp_unclamped_precise(from, to, 0.0) == from, "{} lerp_unclamped_precise({:e},{:e},0) != from", stringify!($F), from, to);
            check!(cx, <F as Lerp<F>>::lerp_precise(from, to, 0.0) == from, "{} lerp_precise({:e},{:e},0) != from", stringify!($F), from, to);
            check!(cx, <F as Lerp<F>>::lerp_unclamped_precise(from, to, 1.0) == to, "{} lerp_unclamped_precise({:e},{:e},1) = {:e} != to", stringify!($F), from, to, <F as Lerp<F>>::lerp_unclamped_precise(from, to, 1.0));
            check!(cx, <F as Lerp<F>>::lerp_precise(from, to, 1.0) == to, "{} lerp_precise({:e},{:e},1) != to", stringify!($F), from, to);
            check!(cx, <&F as Lerp<F>>::lerp_precise(&from, &to, 1.0) == to, "{} &lerp_precise({:e},{:e},1) != to", stringify!($F), from, to);
            // clamping beyond the ends lands on the ends
            check!(cx, <F as Lerp<F>>::lerp(from, to, -0.75) == from, "{} lerp({:e},{:e},-0.75) != from", stringify!($F), from, to);
            check!(cx, <F as Lerp<F>>::lerp_precise(from, to, 1.75) == to, "{} lerp_precise({:e},{:e},1.75) != to", stringify!($F), from, to);
            // fast form at 1: within rounding of `to`
            check_within!(cx, <F as Lerp<F>>::lerp_unclamped(from, to, 1.0) as f64, b, 2.0 * EPS * a.abs().max(b.abs()) + 4.0 * TINY, "{} lerp_unclamped({:e},{:e},1) vs to", stringify!($F), from, to);
            check_within!(cx, <F as Lerp<F>>::lerp(from, to, 2.5) as f64, b, 2.0 * EPS * a.abs().max(b.abs()) + 4.0 * TINY, "{} lerp({:e},{:e},2.5) vs to", stringify!($F), from, to);
            // affine in the factor, to rounding error
            let fs = <F as Lerp<F>>::lerp_unclamped(from, to, s);
            check_within!(cx, fast as f64 - fs as f64, (f as f64 - s as f64) * (b - a), tol(f) + tol(s), "{} f(t)-f(s) vs (t-s)(to-from), from={:e} to={:e} t={:e} s={:e}", stringify!($F), from, to, f, s);
            Ok(())
        }
    };
}
float_scalar_case!(scalar_f32, f32, 24, clamp01_f32);
float_scalar_case!(scalar_f64, f64, 53, clamp01_f64);

/// Extreme magnitudes: the endpoints are moderate values times an exact 2^k, up to the top binade (where `to - from`
/// overflows for opposite signs) and down towards the smallest normal numbers. vek runs on the scaled endpoints, the
/// result is scaled back exactly and judged against the exact lerp of the unscaled ones.
macro_rules! float_extreme_case {
    ($fname:ident, $F:ident, $P:expr, $clamp:ident) => {
        pub fn $fname(t: &mut Tape, cx: &mut Cx) -> CaseResult {
            type F = $F;
            const EPS: f64 = $F::EPSILON as f64;
            let mut from0 = gen_val(t, $P) as F;
            let mut to0 = gen_val(t, $P) as F;
            if t.bool() && from0 != 0.0 {
                // opposite signs, comparable magnitudes: the difference is up to twice the larger endpoint
                to0 = -from0 * (1.0 + t.int(-4, 4) as F / 16.0);
            }
            if from0 == 0.0 && to0 == 0.0 {
                from0 = 1.0;
            }
            let big = (from0.abs() as f64).max(to0.abs() as f64);
            let small = [from0.abs() as f64, to0.abs() as f64].iter().copied().filter(|x| *x > 0.0).fold(f64::INFINITY, f64::min);
            let emax = $F::MAX_EXP as i32; // MAX < 2^emax
            let emin = $F::MIN_EXP as i32; // MIN_POSITIVE = 2^(emin-1)
            let k_hi = emax - 1 - big.log2().floor() as i32; // big * 2^k_hi is in the top binade
            let k_lo = emin + 40 - small.log2().floor() as i32; // small * 2^k_lo >= 2^40 MIN_POSITIVE: results stay normal
            let k = match t.below(4) {
                0 => k_hi,
                1 => k_hi - t.int(1, 3) as i32,
                2 => k_lo,
                _ => t.int(k_lo as i64, k_hi as i64) as i32,
            };
            let sc = (2.0 as F).powi(k / 2) * (2.0 as F).powi(k - k / 2);
            let unsc = |x: F| -> f64 { (x as f64) * (2.0f64).powi(-k) }; // exact for f32; f64: see below
            let (from, to) = (from0 * (2.0 as F).powi(k / 2) * (2.0 as F).powi(k - k / 2), to0 * (2.0 as F).powi(k / 2) * (2.0 as F).powi(k - k / 2));
            let _ = sc;
            if !from.is_finite() || !to.is_finite() {
                discard!("scaled endpoint not finite");
            }
            // factor in [0, 1]: the convex combination never exceeds the larger endpoint
            let f = match t.below(6) {
                0 => 0.0,
                1 => 1.0,
                2 => 0.5,
                _ => t.unit_f64(),
            } as F;
            let diff_overflows = !(to - from).is_finite();
            cx.label(if diff_overflows { "to - from overflows" } else if k >= k_hi - 3 { "top binades" } else if k <= k_lo + 3 { "next to the smallest normals" } else { "scaled by 2^k" });
            cx.set_nontrivial(from != to);
            sample!(cx, "{} from={:e} to={:e} (= {:e}, {:e} * 2^{}) factor={:e}", stringify!($F), from, to, from0, to0, k, f);
            let (a, b) = (from0 as f64, to0 as f64);
            let tol = 2.0 * EPS * (a.abs() + b.abs()) * 2.0;
            // scale results back: for f64 do it in two exact steps to stay inside the f64 range
            let back = |g: F| -> f64 {
                if std::mem::size_of::<F>() == 4 { unsc(g) } else { ((g as f64) * (2.0f64).powi(-(k / 2))) * (2.0f64).powi(-(k - k / 2)) }
            };
            let exact = lerp_dd(a, b, f as f64);
            let prec = <F as Lerp<F>>::lerp_unclamped_precise(from, to, f);
            check!(cx, prec.is_finite(), "{} lerp_unclamped_precise({:e}, {:e}, {:e}) = {:e}: not finite although the result lies between the endpoints", stringify!($F), from, to, f, prec);
            check_within!(cx, dd_err(back(prec), exact), 0.0, tol, "{} lerp_unclamped_precise from={:e} to={:e} factor={:e} got {:e}", stringify!($F), from, to, f, prec);
            let cprec = <F as Lerp<F>>::lerp_precise(from, to, f);
            check_eq!(cx, cprec.to_bits(), prec.to_bits(), "{} lerp_precise vs lerp_unclamped_precise for a factor in [0,1], from={:e} to={:e} factor={:e}", stringify!($F), from, to, f);
            check_eq!(cx, <&F as Lerp<F>>::lerp_unclamped_precise(&from, &to, f).to_bits(), prec.to_bits(), "{} &lerp_unclamped_precise", stringify!($F));
            check!(cx, <F as Lerp<F>>::lerp_unclamped_precise(from, to, 0.0) == from, "{} lerp_unclamped_precise({:e},{:e},0) != from", stringify!($F), from, to);
            check!(cx, <F as Lerp<F>>::lerp_unclamped_precise(from, to, 1.0) == to, "{} lerp_unclamped_precise({:e},{:e},1) != to", stringify!($F), from, to);
            check!(cx, <F as Lerp<F>>::lerp_precise(from, to, 2.0) == to && <F as Lerp<F>>::lerp_precise(from, to, -1.0) == from, "{} lerp_precise clamps to the endpoints, from={:e} to={:e}", stringify!($F), from, to);
            // the fast form computes from + (to - from) * t by its documentation: asserted whenever that difference is finite
            if !diff_overflows {
                let fast = <F as Lerp<F>>::lerp_unclamped(from, to, f);
                check_within!(cx, dd_err(back(fast), exact), 0.0, tol, "{} lerp_unclamped from={:e} to={:e} factor={:e} got {:e}", stringify!($F), from, to, f, fast);
                check!(cx, <F as Lerp<F>>::lerp_unclamped(from, to, 0.0) == from, "{} lerp_unclamped({:e},{:e},0) != from", stringify!($F), from, to);
                check_eq!(cx, <F as Lerp<F>>::lerp(from, to, f).to_bits(), fast.to_bits(), "{} lerp vs lerp_unclamped in [0,1]", stringify!($F));
            }
            // vector lanes go through the same scalar code
            let v = Vec4::<F>::lerp_unclamped_precise(Vec4::broadcast(from), Vec4::broadcast(to), f);
            check!(cx, v.x.is_finite() && v.w.is_finite(), "{} Vec4::lerp_unclamped_precise lane not finite: {:?}", stringify!($F), v);
            check_within!(cx, dd_err(back(v.z), exact), 0.0, tol, "{} Vec4::lerp_unclamped_precise lane from={:e} to={:e} factor={:e} got {:e}", stringify!($F), from, to, f, v.z);
            Ok(())
        }
    };
}
float_extreme_case!(extreme_f32, f32, 24, clamp01_f32);
float_extreme_case!(extreme_f64, f64, 53, clamp01_f64);

macro_rules! float_vec_case {
    ($fname:ident, $F:ident, $P:expr, $clamp:ident) => {
        /// Vec4 / Rgba / Vec3 of floats: inherent (scalar and per-lane factor) and trait forms, lane by lane.
        pub fn $fname(t: &mut Tape, cx: &mut Cx) -> CaseResult {
            type F = $F;
            const EPS: f64 = $F::EPSILON as f64;
            const TINY: f64 = $F::MIN_POSITIVE as f64;
            let mut a = [0.0 as F; 4];
            let mut b = [0.0 as F; 4];
            let mut fv = [0.0 as F; 4];
            for i in 0..4 {
                a[i] = gen_val(t, $P) as F;
                b[i] = gen_val(t, $P) as F;
                fv[i] = factor_f64(t) as F;
            }
            let f = factor_f64(t) as F;
            sample!(cx, "{} lanes from={:?} to={:?} scalar factor={:e} per-lane factor={:?}", stringify!($F), a, b, f, fv);
            cx.set_nontrivial((0..4).all(|i| a[i] != b[i]) && f != 0.0 && f != 1.0 && (1..4).any(|i| fv[i] != fv[0]));
            let lane = |cx: &mut Cx, name: &str, i: usize, got: F, x: F| -> CaseResult {
                let (p, q) = (a[i] as f64, b[i] as f64);
                let tol = 2.0 * EPS * (p.abs() + q.abs()) * (1.0 + (x as f64).abs()) + 4.0 * TINY;
                let e = dd_err(got as f64, lerp_dd(p, q, x as f64));
                check_within!(cx, e, 0.0, tol, "{} {} lane {}: from={:e} to={:e} factor={:e} got {:e}: distance from exact", stringify!($F), name, i, a[i], b[i], x, got);
                Ok(())
            };
            let (v4a, v4b, v4f) = (Vec4 { x: a[0], y: a[1], z: a[2], w: a[3] }, Vec4 { x: b[0], y: b[1], z: b[2], w: b[3] }, Vec4 { x: fv[0], y: fv[1], z: fv[2], w: fv[3] });
            let r4 = |v: Vec4<F>| [v.x, v.y, v.z, v.w];
            let bc = [f; 4];
            let cl = |v: [F; 4]| [$clamp(v[0]), $clamp(v[1]), $clamp(v[2]), $clamp(v[3])];
            let forms: Vec<(&str, [F; 4], [F; 4])> = vec![
                ("Vec4::lerp_unclamped(scalar)", r4(Vec4::<F>::lerp_unclamped(v4a, v4b, f)), bc),
                ("Vec4::lerp_unclamped_precise(scalar)", r4(Vec4::<F>::lerp_unclamped_precise(v4a, v4b, f)), bc),
                ("Vec4::lerp(scalar)", r4(Vec4::<F>::lerp(v4a, v4b, f)), cl(bc)),
                ("Vec4::lerp_precise(scalar)", r4(Vec4::<F>::lerp_precise(v4a, v4b, f)), cl(bc)),
                ("Vec4::lerp_unclamped(per-lane)", r4(Vec4::<F>::lerp_unclamped(v4a, v4b, v4f)), fv),
                ("Vec4::lerp_unclamped_precise(per-lane)", r4(Vec4::<F>::lerp_unclamped_precise(v4a, v4b, v4f)), fv),
                ("Vec4::lerp(per-lane)", r4(Vec4::<F>::lerp(v4a, v4b, v4f)), cl(fv)),
                ("Vec4::lerp_precise(per-lane)", r4(Vec4::<F>::lerp_precise(v4a, v4b, v4f)), cl(fv)),
                ("<Vec4 as Lerp>::lerp_unclamped", r4(<Vec4<F> as Lerp<F>>::lerp_unclamped(v4a, v4b, f)), bc),
                ("<Vec4 as Lerp>::lerp_unclamped_precise", r4(<Vec4<F> as Lerp<F>>::lerp_unclamped_precise(v4a, v4b, f)), bc),
                ("<Vec4 as Lerp>::lerp", r4(<Vec4<F> as Lerp<F>>::lerp(v4a, v4b, f)), cl(bc)),
                ("<Vec4 as Lerp>::lerp_precise", r4(<Vec4<F> as Lerp<F>>::lerp_precise(v4a, v4b, f)), cl(bc)),
                ("<&Vec4 as Lerp>::lerp_unclamped", r4(<&Vec4<F> as Lerp<F>>::lerp_unclamped(&v4a, &v4b, f)), bc),
                ("<&Vec4 as Lerp>::lerp_unclamped_precise", r4(<&Vec4<F> as Lerp<F>>::lerp_unclamped_precise(&v4a, &v4b, f)), bc),
                ("<&Vec4 as Lerp>::lerp", r4(<&Vec4<F> as Lerp<F>>::lerp(&v4a, &v4b, f)), cl(bc)),
                ("<&Vec4 as Lerp>::lerp_precise", r4(<&Vec4<F> as Lerp<F>>::lerp_precise(&v4a, &v4b, f)), cl(bc)),
                ("<&Vec4 as Lerp>::lerp_inclusive_range", r4(<&Vec4<F> as Lerp<F>>::lerp_inclusive_range(&v4a..=&v4b, f)), cl(bc)),
                ("<Vec4 as Lerp>::lerp_unclamped_precise_inclusive_range", r4(<Vec4<F> as Lerp<F>>::lerp_unclamped_precise_inclusive_range(v4a..=v4b, f)), bc),
            ];
            for (name, got, fac) in &forms {
                for i in 0..4 {
                    lane(cx, name, i, got[i], fac[i])?;
                }
            }
            // endpoints per lane: factor 0 -> from (both formulas), precise at 1 -> to
            let z = Vec4::<F>::lerp_unclamped(v4a, v4b, 0.0 as F);
            let zp = Vec4::<F>::lerp_unclamped_precise(v4a, v4b, 0.0 as F);
            let op = Vec4::<F>::lerp_precise(v4a, v4b, 1.0 as F);
            check!(cx, r4(z) == a && r4(zp) == a, "{} Vec4 lerp at 0: {:?} / {:?} vs from {:?}", stringify!($F), z, zp, a);
            check!(cx, r4(op) == b, "{} Vec4 lerp_precise at 1: {:?} vs to {:?}", stringify!($F), op, b);
            // a colour and a 3-vector through the same code, spot forms
            let (ca, cb) = (Rgba { r: a[0], g: a[1], b: a[2], a: a[3] }, Rgba { r: b[0], g: b[1], b: b[2], a: b[3] });
            let g = Rgba::<F>::lerp(ca, cb, Rgba { r: fv[0], g: fv[1], b: fv[2], a: fv[3] });
            let gg = [g.r, g.g, g.b, g.a];
            let g2 = <&Rgba<F> as Lerp<F>>::lerp_unclamped_precise(&ca, &cb, f);
            let gg2 = [g2.r, g2.g, g2.b, g2.a];
            for i in 0..4 {
                lane(cx, "Rgba::lerp(per-lane)", i, gg[i], $clamp(fv[i]))?;
                lane(cx, "<&Rgba as Lerp>::lerp_unclamped_precise", i, gg2[i], f)?;
            }
            let (ta, tb) = (Vec3 { x: a[0], y: a[1], z: a[2] }, Vec3 { x: b[0], y: b[1], z: b[2] });
            let h = Vec3::<F>::lerp_unclamped_precise(ta, tb, Vec3 { x: fv[0], y: fv[1], z: fv[2] });
            let h2 = <Vec3<F> as Lerp<F>>::lerp(ta, tb, f);
            for (i, (x, y)) in [(h.x, h2.x), (h.y, h2.y), (h.z, h2.z)].into_iter().enumerate() {
                lane(cx, "Vec3::lerp_unclamped_precise(per-lane)", i, x, fv[i])?;
                lane(cx, "<Vec3 as Lerp>::lerp", i, y, $clamp(f))?;
            }
            Ok(())
        }
    };
}
float_vec_case!(vec_f32, f32, 24, clamp01_f32);
float_vec_case!(vec_f64, f64, 53, clamp01_f64);
