//! Generic lerp code in exact arithmetic (`Rat`): vector inherent `lerp*` (scalar and per-lane factor),
//! `Lerp` for `Vec<T>` / `&Vec<T>`, the trait's default methods (clamped and range forms).

use crate::util::*;
use vek::ops::Lerp;
use vek::vec::repr_c::{Extent2, Extent3, Rgb, Rgba, Uv, Uvw, Vec2, Vec3, Vec4, Vec8};
use vkit::*;

pub struct FormResult<const N: usize> {
    pub name: &'static str,
    pub got: [Rat; N],
    pub factor: [Rat; N],
    pub clamped: bool,
}

macro_rules! vec_rat_case {
    ($fname:ident, $V:ident, $N:expr, $(($f:tt, $i:expr)),+) => {
        pub fn $fname(t: &mut Tape, cx: &mut Cx) -> CaseResult {
            const N: usize = $N;
            type V = $V<Rat>;
            let mk = |x: &[Rat; N]| -> V { $V { $($f: x[$i]),+ } };
            let rd = |v: V| -> [Rat; N] { [$(v.$f),+] };
            let mut a = [Rat::ZERO; N];
            let mut b = [Rat::ZERO; N];
            let mut tv = [Rat::ZERO; N];
            let mut sv = [Rat::ZERO; N];
            for i in 0..N {
                a[i] = <Rat as Dom>::any(t, 12);
                b[i] = <Rat as Dom>::any(t, 12);
            }
            let ts = factor_rat(t);
            let ss = factor_rat(t);
            for i in 0..N {
                tv[i] = factor_rat(t);
                sv[i] = factor_rat(t);
            }
            let (va, vb) = (mk(&a), mk(&b));
            sample!(cx, "{}<Rat> from={:?} to={:?} scalar factors {:?},{:?} per-lane factors {:?},{:?}", stringify!($V), a, b, ts, ss, tv, sv);
            let lanes_differ = (0..N).all(|i| a[i] != b[i]);
            let per_lane_varies = (1..N).any(|i| tv[i] != tv[0]);
            cx.set_nontrivial(lanes_differ && ts != Rat::ZERO && ts != Rat::ONE && per_lane_varies);
            if ts > Rat::ZERO && ts < Rat::ONE { cx.label("scalar-factor-in-(0,1)"); }
            if ts < Rat::ZERO || ts > Rat::ONE { cx.label("scalar-factor-outside-[0,1](extrapolates/clamps)"); }
            if ts == Rat::ZERO || ts == Rat::ONE { cx.label("scalar-factor-endpoint"); }
            if tv.iter().any(|x| *x < Rat::ZERO || *x > Rat::ONE) { cx.label("per-lane-factor-clamps-some-lane"); }

            // every spelling, for a scalar factor `s` and a per-lane factor `v`
            let eval = |s: Rat, v: &[Rat; N]| -> Vec<FormResult<N>> {
                let vv = mk(v);
                let bc = [s; N];
                let mut r: Vec<FormResult<N>> = Vec::new();
                let mut push = |name: &'static str, got: V, factor: [Rat; N], clamped: bool| r.push(FormResult { name, got: rd(got), factor, clamped });
                // inherent, scalar factor
                push("V::lerp_unclamped(scalar)", V::lerp_unclamped(va, vb, s), bc, false);
                push("V::lerp_unclamped_precise(scalar)", V::lerp_unclamped_precise(va, vb, s), bc, false);
                push("V::lerp(scalar)", V::lerp(va, vb, s), bc, true);
                push("V::lerp_precise(scalar)", V::lerp_precise(va, vb, s), bc, true);
                // inherent, per-lane factor
                push("V::lerp_unclamped(per-lane)", V::lerp_unclamped(va, vb, vv), *v, false);
                push("V::lerp_unclamped_precise(per-lane)", V::lerp_unclamped_precise(va, vb, vv), *v, false);
                push("V::lerp(per-lane)", V::lerp(va, vb, vv), *v, true);
                push("V::lerp_precise(per-lane)", V::lerp_precise(va, vb, vv), *v, true);
                // Lerp for V
                push("<V as Lerp>::lerp_unclamped", <V as Lerp<Rat>>::lerp_unclamped(va, vb, s), bc, false);
                push("<V as Lerp>::lerp_unclamped_precise", <V as Lerp<Rat>>::lerp_unclamped_precise(va, vb, s), bc, false);
                push("<V as Lerp>::lerp", <V as Lerp<Rat>>::lerp(va, vb, s), bc, true);
                push("<V as Lerp>::lerp_precise", <V as Lerp<Rat>>::lerp_precise(va, vb, s), bc, true);
                push("<V as Lerp>::lerp_unclamped_inclusive_range", <V as Lerp<Rat>>::lerp_unclamped_inclusive_range(va..=vb, s), bc, false);
                push("<V as Lerp>::lerp_unclamped_precise_inclusive_range", <V as Lerp<Rat>>::lerp_unclamped_precise_inclusive_range(va..=vb, s), bc, false);
                push("<V as Lerp>::lerp_inclusive_range", <V as Lerp<Rat>>::lerp_inclusive_range(va..=vb, s), bc, true);
                push("<V as Lerp>::lerp_precise_inclusive_range", <V as Lerp<Rat>>::lerp_precise_inclusive_range(va..=vb, s), bc, true);
                // Lerp for &V
                push("<&V as Lerp>::lerp_unclamped", <&V as Lerp<Rat>>::lerp_unclamped(&va, &vb, s), bc, false);
                push("<&V as Lerp>::lerp_unclamped_precise", <&V as Lerp<Rat>>::lerp_unclamped_precise(&va, &vb, s), bc, false);
                push("<&V as Lerp>::lerp", <&V as Lerp<Rat>>::lerp(&va, &vb, s), bc, true);
                push("<&V as Lerp>::lerp_precise", <&V as Lerp<Rat>>::lerp_precise(&va, &vb, s), bc, true);
                push("<&V as Lerp>::lerp_unclamped_inclusive_range", <&V as Lerp<Rat>>::lerp_unclamped_inclusive_range(&va..=&vb, s), bc, false);
                push("<&V as Lerp>::lerp_unclamped_precise_inclusive_range", <&V as Lerp<Rat>>::lerp_unclamped_precise_inclusive_range(&va..=&vb, s), bc, false);
                push("<&V as Lerp>::lerp_inclusive_range", <&V as Lerp<Rat>>::lerp_inclusive_range(&va..=&vb, s), bc, true);
                push("<&V as Lerp>::lerp_precise_inclusive_range", <&V as Lerp<Rat>>::lerp_precise_inclusive_range(&va..=&vb, s), bc, true);
                r
            };
            // oracle: lane i = from_i + f_i (to_i - from_i), f_i clamped to [0,1] for the clamped forms
            let judge = |cx: &mut Cx, rs: &Vec<FormResult<N>>| -> CaseResult {
                for r in rs {
                    let mut want = [Rat::ZERO; N];
                    for i in 0..N {
                        let f = if r.clamped { clamp01_rat(r.factor[i]) } else { r.factor[i] };
                        want[i] = a[i] + f * (b[i] - a[i]);
                    }
                    check_eq!(cx, r.got, want, "{}<Rat> {} from={:?} to={:?} factor={:?}", stringify!($V), r.name, a, b, r.factor);
                }
                Ok(())
            };
            let r1 = eval(ts, &tv);
            judge(cx, &r1)?;
            let r2 = eval(ss, &sv);
            judge(cx, &r2)?;
            // affine in the factor: f(t) - f(s) = (t - s)(to - from), on the unclamped forms
            for (x, y) in r1.iter().zip(r2.iter()) {
                if x.clamped { continue; }
                for i in 0..N {
                    check_eq!(cx, x.got[i] - y.got[i], (x.factor[i] - y.factor[i]) * (b[i] - a[i]), "{}<Rat> {} lane {}: f(t)-f(s) vs (t-s)(to-from), t={:?} s={:?}", stringify!($V), x.name, i, x.factor[i], y.factor[i]);
                }
            }
            // exact endpoints: factor 0 -> from, factor 1 -> to; per-lane 0/1 pattern picks lanes
            let mut pat = [Rat::ZERO; N];
            let bits = t.u8();
            for i in 0..N { if bits >> (i % 8) & 1 == 1 { pat[i] = Rat::ONE; } }
            let mut npat = pat;
            for i in 0..N { npat[i] = Rat::ONE - pat[i]; }
            for r in eval(Rat::ZERO, &pat) {
                let mut want = a;
                for i in 0..N { if r.factor[i] == Rat::ONE { want[i] = b[i]; } }
                check_eq!(cx, r.got, want, "{}<Rat> {} at factor {:?} (endpoint) from={:?} to={:?}", stringify!($V), r.name, r.factor, a, b);
            }
            for r in eval(Rat::ONE, &npat) {
                let mut want = b;
                for i in 0..N { if r.factor[i] == Rat::ZERO { want[i] = a[i]; } }
                check_eq!(cx, r.got, want, "{}<Rat> {} at factor {:?} (endpoint) from={:?} to={:?}", stringify!($V), r.name, r.factor, a, b);
            }
            Ok(())
        }
    };
}

vec_rat_case!(vec2_rat, Vec2, 2, (x, 0), (y, 1));
vec_rat_case!(vec3_rat, Vec3, 3, (x, 0), (y, 1), (z, 2));
vec_rat_case!(vec4_rat, Vec4, 4, (x, 0), (y, 1), (z, 2), (w, 3));
vec_rat_case!(vec8_rat, Vec8, 8, (0, 0), (1, 1), (2, 2), (3, 3), (4, 4), (5, 5), (6, 6), (7, 7));
vec_rat_case!(rgb_rat, Rgb, 3, (r, 0), (g, 1), (b, 2));
vec_rat_case!(rgba_rat, Rgba, 4, (r, 0), (g, 1), (b, 2), (a, 3));
vec_rat_case!(extent2_rat, Extent2, 2, (w, 0), (h, 1));
vec_rat_case!(extent3_rat, Extent3, 3, (w, 0), (h, 1), (d, 2));
vec_rat_case!(uv_rat, Uv, 2, (u, 0), (v, 1));
vec_rat_case!(uvw_rat, Uvw, 3, (u, 0), (v, 1), (w, 2));

/// The `Lerp` trait's provided methods (clamped forms, all `*_inclusive_range` forms) on a scalar
/// implementor whose two required methods are exact (`Rat`, value and `&`).
pub fn scalar_rat(t: &mut Tape, cx: &mut Cx) -> CaseResult {
    let a = <Rat as Dom>::any(t, 40);
    let b = <Rat as Dom>::any(t, 40);
    let f = factor_rat(t);
    let s = factor_rat(t);
    sample!(cx, "Rat from={:?} to={:?} factor={:?} second factor={:?}", a, b, f, s);
    cx.set_nontrivial(a != b && f != Rat::ZERO && f != Rat::ONE);
    if f < Rat::ZERO || f > Rat::ONE {
        cx.label("factor-outside-[0,1]");
    }
    let at = |x: Rat| a + x * (b - a);
    let fc = clamp01_rat(f);
    type R = Rat;
    check_eq!(cx, <R as Lerp<R>>::lerp_unclamped(a, b, f), at(f), "Rat lerp_unclamped({:?},{:?},{:?})", a, b, f);
    check_eq!(cx, <R as Lerp<R>>::lerp_unclamped_precise(a, b, f), at(f), "Rat lerp_unclamped_precise({:?},{:?},{:?})", a, b, f);
    check_eq!(cx, <R as Lerp<R>>::lerp(a, b, f), at(fc), "Rat lerp({:?},{:?},{:?})", a, b, f);
    check_eq!(cx, <R as Lerp<R>>::lerp_precise(a, b, f), at(fc), "Rat lerp_precise({:?},{:?},{:?})", a, b, f);
    check_eq!(cx, <R as Lerp<R>>::lerp_unclamped_inclusive_range(a..=b, f), at(f), "Rat lerp_unclamped_inclusive_range({:?}..={:?},{:?})", a, b, f);
    check_eq!(cx, <R as Lerp<R>>::lerp_unclamped_precise_inclusive_range(a..=b, f), at(f), "Rat lerp_unclamped_precise_inclusive_range({:?}..={:?},{:?})", a, b, f);
    check_eq!(cx, <R as Lerp<R>>::lerp_inclusive_range(a..=b, f), at(fc), "Rat lerp_inclusive_range({:?}..={:?},{:?})", a, b, f);
    check_eq!(cx, <R as Lerp<R>>::lerp_precise_inclusive_range(a..=b, f), at(fc), "Rat lerp_precise_inclusive_range({:?}..={:?},{:?})", a, b, f);
    check_eq!(cx, <&R as Lerp<R>>::lerp_unclamped(&a, &b, f), at(f), "&Rat lerp_unclamped({:?},{:?},{:?})", a, b, f);
    check_eq!(cx, <&R as Lerp<R>>::lerp_unclamped_precise(&a, &b, f), at(f), "&Rat lerp_unclamped_precise({:?},{:?},{:?})", a, b, f);
    check_eq!(cx, <&R as Lerp<R>>::lerp(&a, &b, f), at(fc), "&Rat lerp({:?},{:?},{:?})", a, b, f);
    check_eq!(cx, <&R as Lerp<R>>::lerp_precise(&a, &b, f), at(fc), "&Rat lerp_precise({:?},{:?},{:?})", a, b, f);
    check_eq!(cx, <&R as Lerp<R>>::lerp_unclamped_inclusive_range(&a..=&b, f), at(f), "&Rat lerp_unclamped_inclusive_range({:?}..={:?},{:?})", a, b, f);
    check_eq!(cx, <&R as Lerp<R>>::lerp_unclamped_precise_inclusive_range(&a..=&b, f), at(f), "&Rat lerp_unclamped_precise_inclusive_range({:?}..={:?},{:?})", a, b, f);
    check_eq!(cx, <&R as Lerp<R>>::lerp_inclusive_range(&a..=&b, f), at(fc), "&Rat lerp_inclusive_range({:?}..={:?},{:?})", a, b, f);
    check_eq!(cx, <&R as Lerp<R>>::lerp_precise_inclusive_range(&a..=&b, f), at(fc), "&Rat lerp_precise_inclusive_range({:?}..={:?},{:?})", a, b, f);
    // affine, endpoints
    check_eq!(cx, <R as Lerp<R>>::lerp_unclamped(a, b, f) - <R as Lerp<R>>::lerp_unclamped(a, b, s), (f - s) * (b - a), "Rat f(t)-f(s)");
    check_eq!(cx, <R as Lerp<R>>::lerp(a, b, Rat::ZERO), a, "Rat lerp(.., 0)");
    check_eq!(cx, <R as Lerp<R>>::lerp(a, b, Rat::ONE), b, "Rat lerp(.., 1)");
    check_eq!(cx, <R as Lerp<R>>::lerp_precise(a, b, Rat::ZERO), a, "Rat lerp_precise(.., 0)");
    check_eq!(cx, <R as Lerp<R>>::lerp_precise(a, b, Rat::ONE), b, "Rat lerp_precise(.., 1)");
    Ok(())
}
