//! Integer `Lerp<f32>` / `Lerp<f64>` impls: all 10 types x 2 factor types x value/& x 8 forms against
//! round-half-away-from-zero of the exact rational value computed in i128.

use std::fmt::Debug;
use vek::ops::Lerp;
use vkit::*;

pub const F4: &str = "F4-int-lerp-fast-diff-overflow";

#[derive(Clone, Copy, Debug, PartialEq, Eq)]
pub enum Form {
    /// lerp_unclamped
    Fast,
    /// lerp_unclamped_precise
    Precise,
    /// lerp (clamped, fast path)
    CFast,
    /// lerp_precise (clamped)
    CPrecise,
}
pub const FORMS: [Form; 4] = [Form::Fast, Form::Precise, Form::CFast, Form::CPrecise];

#[derive(Clone, Copy, Debug)]
pub struct Variant {
    pub form: Form,
    /// `<&T as Lerp<F>>` instead of `<T as Lerp<F>>`
    pub by_ref: bool,
    /// the `*_inclusive_range` spelling
    pub range: bool,
    /// factor type f64 (else f32)
    pub f64_factor: bool,
}

pub fn variants(f64_factor: bool) -> Vec<Variant> {
    let mut v = Vec::with_capacity(16);
    for form in FORMS {
        for by_ref in [false, true] {
            for range in [false, true] {
                v.push(Variant { form, by_ref, range, f64_factor });
            }
        }
    }
    v
}

pub trait IntT: Copy + Debug + PartialEq + 'static {
    const NAME: &'static str;
    const LO: i128;
    const HI: i128;
    fn from_i128(x: i128) -> Self;
    fn to_i128(self) -> i128;
    /// The vek call under test. `t` is a dyadic rational, exact in f32 and f64.
    fn call(v: Variant, from: Self, to: Self, t: f64) -> Self;
}

macro_rules! int_impl {
    ($($T:ident)+) => {$(
        impl IntT for $T {
            const NAME: &'static str = stringify!($T);
            const LO: i128 = $T::MIN as i128;
            const HI: i128 = $T::MAX as i128;
            fn from_i128(x: i128) -> $T {
                assert!(x >= Self::LO && x <= Self::HI);
                x as $T
            }
            fn to_i128(self) -> i128 {
                self as i128
            }
            fn call(v: Variant, from: $T, to: $T, t: f64) -> $T {
                macro_rules! go {
                    ($F:ty) => {{
                        let f = t as $F;
                        match (v.form, v.by_ref, v.range) {
                            (Form::Fast, false, false) => <$T as Lerp<$F>>::lerp_unclamped(from, to, f),
                            (Form::Fast, false, true) => <$T as Lerp<$F>>::lerp_unclamped_inclusive_range(from..=to, f),
                            (Form::Fast, true, false) => <&$T as Lerp<$F>>::lerp_unclamped(&from, &to, f),
                            (Form::Fast, true, true) => <&$T as Lerp<$F>>::lerp_unclamped_inclusive_range(&from..=&to, f),
                            (Form::Precise, false, false) => <$T as Lerp<$F>>::lerp_unclamped_precise(from, to, f),
                            (Form::Precise, false, true) => <$T as Lerp<$F>>::lerp_unclamped_precise_inclusive_range(from..=to, f),
                            (Form::Precise, true, false) => <&$T as Lerp<$F>>::lerp_unclamped_precise(&from, &to, f),
                            (Form::Precise, true, true) => <&$T as Lerp<$F>>::lerp_unclamped_precise_inclusive_range(&from..=&to, f),
                            (Form::CFast, false, false) => <$T as Lerp<$F>>::lerp(from, to, f),
                            (Form::CFast, false, true) => <$T as Lerp<$F>>::lerp_inclusive_range(from..=to, f),
                            (Form::CFast, true, false) => <&$T as Lerp<$F>>::lerp(&from, &to, f),
                            (Form::CFast, true, true) => <&$T as Lerp<$F>>::lerp_inclusive_range(&from..=&to, f),
                            (Form::CPrecise, false, false) => <$T as Lerp<$F>>::lerp_precise(from, to, f),
                            (Form::CPrecise, false, true) => <$T as Lerp<$F>>::lerp_precise_inclusive_range(from..=to, f),
                            (Form::CPrecise, true, false) => <&$T as Lerp<$F>>::lerp_precise(&from, &to, f),
                            (Form::CPrecise, true, true) => <&$T as Lerp<$F>>::lerp_precise_inclusive_range(&from..=&to, f),
                        }
                    }};
                }
                if v.f64_factor { go!(f64) } else { go!(f32) }
            }
        }
    )+};
}
int_impl!(i8 i16 i32 i64 isize u8 u16 u32 u64 usize);

/// Is n/16 exactly representable in a binary float with a `p`-bit significand? (The exponent range is
/// not an issue for |n/16| in [1/16, 2^70].)
fn repr16(n: i128, p: u32) -> bool {
    if n == 0 {
        return true;
    }
    let m = n.unsigned_abs();
    (m >> m.trailing_zeros()) < (1u128 << p)
}

/// round-half-away-from-zero of n/16
pub fn round16(n: i128) -> i128 {
    let m = (n.abs() + 8) / 16;
    if n < 0 {
        -m
    } else {
        m
    }
}

pub struct Verdict {
    pub asserted: bool,
    pub f4_class: bool,
    pub f4_hit: bool,
}

/// Judge one call. `k` is the factor in sixteenths. The value is asserted when the mathematically
/// exact result is representable in `T` and every intermediate of the float formula (documented in
/// the `Lerp` trait: `from + factor*(to-from)` resp. `from*(1-factor) + to*factor`) is exact in the
/// factor type, so that no rounding but the final round-to-integer takes place.
///
/// `f4_seen`: the known finding F4 has already been observed (and is tolerated) at this point; the
/// remaining calls of its class at the same point would only unwind through the same overflow again
/// (unwinding is serialized process-wide), so they are not made.
pub fn judge<T: IntT>(cx: &mut Cx, from: T, to: T, k: i32, v: Variant, f4_seen: bool) -> Result<Verdict, Fail> {
    let p: u32 = if v.f64_factor { 53 } else { 24 };
    let (a, b) = (from.to_i128(), to.to_i128());
    let clamped = matches!(v.form, Form::CFast | Form::CPrecise);
    let fast = matches!(v.form, Form::Fast | Form::CFast);
    let kk = if clamped { k.clamp(0, 16) } else { k } as i128;
    let d = b - a;
    let v16 = 16 * a + kk * d;
    let want = round16(v16);
    let in_range = want >= T::LO && want <= T::HI;
    let exact = repr16(16 * a, p)
        && repr16(16 * b, p)
        && repr16(v16, p)
        && if fast { repr16(16 * d, p) && repr16(kk * d, p) } else { repr16(a * (16 - kk), p) && repr16(b * kk, p) };
    let f4_class = fast && (d < T::LO || d > T::HI);
    let mut verdict = Verdict { asserted: false, f4_class, f4_hit: false };
    if f4_class && f4_seen && cx.known(F4) {
        verdict.f4_hit = true;
        return Ok(verdict);
    }
    let t = k as f64 / 16.0;
    match catch(|| T::call(v, from, to, t)) {
        Err(msg) => {
            if f4_class && cx.known(F4) {
                verdict.f4_hit = true;
                return Ok(verdict);
            }
            let class = if f4_class { " [F4 class: fast path, to-from not representable in the integer type]" } else { "" };
            fail!("{} {:?}: from={:?} to={:?} factor={} panicked: {}{}", T::NAME, v, from, to, t, msg, class);
        }
        Ok(got) => {
            if in_range && exact {
                verdict.asserted = true;
                cx.count();
                if got.to_i128() != want {
                    if f4_class && cx.known(F4) {
                        verdict.f4_hit = true;
                        return Ok(verdict);
                    }
                    fail!(
                        "{} {:?}: from={:?} to={:?} factor={}: got {:?}, want {} = round_half_away({}/16)",
                        T::NAME, v, from, to, t, got, want, v16
                    );
                }
            }
        }
    }
    Ok(verdict)
}

/// Factor grids in sixteenths.
pub const CORE: [i32; 9] = [-16, -8, 0, 3, 8, 13, 16, 24, 32];
pub fn full_grid() -> Vec<i32> {
    (-16..=32).collect()
}

fn point_labels<T: IntT>(cx: &mut Cx, from: T, to: T, k: i32) {
    let (a, b) = (from.to_i128(), to.to_i128());
    let v16 = 16 * a + k as i128 * (b - a);
    if v16.rem_euclid(16) == 8 {
        cx.label("tie(x.5)");
    }
    if a == T::LO || a == T::HI || b == T::LO || b == T::HI {
        cx.label("range-limit-endpoint");
    }
    if b < a {
        cx.label("to<from");
    }
    if k < 0 || k > 16 {
        cx.label("factor-outside-[0,1]");
    }
    let w = round16(v16);
    if w < T::LO || w > T::HI {
        cx.label("unclamped-result-out-of-range(unasserted)");
    }
    cx.set_nontrivial(a != b && k != 0 && k != 16);
}

/// 8-bit sweep: index = factor_index * 65536 + (from_index * 256 + to_index).
pub fn sweep8<T: IntT>(idx: u64, grid: &[i32], cx: &mut Cx) -> CaseResult {
    let fi = (idx / 65536) as usize;
    let pair = (idx % 65536) as i128;
    let k = grid[fi];
    let from = T::from_i128(T::LO + (pair >> 8));
    let to = T::from_i128(T::LO + (pair & 255));
    sample!(cx, "{} from={:?} to={:?} factor={}/16, all 32 forms (f32/f64 x value/& x 8 methods)", T::NAME, from, to, k);
    point_labels(cx, from, to, k);
    let mut hit = false;
    for f64_factor in [false, true] {
        for v in variants(f64_factor) {
            let r = judge(cx, from, to, k, v, hit)?;
            hit |= r.f4_hit;
            if r.f4_class {
                cx.label("F4-class(fast path, to-from overflows T)");
            }
        }
    }
    if hit {
        cx.label("F4-hit(tolerated)");
    }
    Ok(())
}

fn snap(x: i128, p: u32) -> i128 {
    let m = x.unsigned_abs();
    let bits = 128 - m.leading_zeros();
    let m = if bits > p { (m >> (bits - p)) << (bits - p) } else { m };
    if x < 0 {
        -(m as i128)
    } else {
        m as i128
    }
}

fn strat<T: IntT>(t: &mut Tape) -> i128 {
    if T::HI > i64::MAX as i128 {
        match t.below(4) {
            3 => T::HI - t.below(3) as i128,
            2 => (1i128 << 63) + t.int(-300, 300) as i128,
            _ => t.strat_i64(0, i64::MAX) as i128,
        }
    } else {
        t.strat_i64(T::LO as i64, T::HI as i64) as i128
    }
}

/// Wider integers: stratified endpoints, snapped to values the factor's float type represents exactly.
pub fn wide<T: IntT>(t: &mut Tape, cx: &mut Cx) -> CaseResult {
    let mut pts: Vec<(bool, i128, i128, i32)> = Vec::new();
    for f64_factor in [false, true] {
        let p = if f64_factor { 53 } else { 24 };
        let a = snap(strat::<T>(t), p);
        let b = match t.below(4) {
            0 => {
                // near `from`: small difference, so the formulas stay exact at large magnitudes
                let b = a + t.int(-40, 40) as i128;
                snap(b.clamp(T::LO, T::HI), p)
            }
            1 => {
                let j = t.below(p as usize) as u32;
                let b = if t.bool() { a + (1i128 << j) } else { a - (1i128 << j) };
                snap(b.clamp(T::LO, T::HI), p)
            }
            _ => snap(strat::<T>(t), p),
        };
        let k = if t.bool() { t.pick(&CORE) } else { t.int(-16, 32) as i32 };
        pts.push((f64_factor, a, b, k));
    }
    sample!(cx, "{} (f32 factor: from={} to={} factor={}/16) (f64 factor: from={} to={} factor={}/16), 16 forms each", T::NAME, pts[0].1, pts[0].2, pts[0].3, pts[1].1, pts[1].2, pts[1].3);
    let mut nontrivial = false;
    for (f64_factor, a, b, k) in pts {
        let p = if f64_factor { 53 } else { 24 };
        let (from, to) = (T::from_i128(a), T::from_i128(b));
        point_labels(cx, from, to, k);
        if a.unsigned_abs() >= 1u128 << p || b.unsigned_abs() >= 1u128 << p {
            cx.label("endpoint>=2^p(exactly representable)");
        }
        let mut asserted = 0;
        let mut hit = false;
        for v in variants(f64_factor) {
            let r = judge(cx, from, to, k, v, hit)?;
            if r.asserted {
                asserted += 1;
            }
            hit |= r.f4_hit;
            if r.f4_class {
                cx.label("F4-class(fast path, to-from overflows T)");
            }
        }
        if hit {
            cx.label("F4-hit(tolerated)");
        }
        if asserted == 16 {
            cx.label("all-16-forms-asserted");
        } else if asserted == 0 {
            cx.label("no-form-asserted(inexact float intermediates or out of range)");
        } else {
            cx.label("some-forms-asserted");
        }
        nontrivial |= a != b && k != 0 && k != 16 && asserted > 0;
    }
    cx.set_nontrivial(nontrivial);
    Ok(())
}

/// Vectors of integers through the `Lerp` trait impls of the vector types (value and &): each lane is
/// the scalar result.
pub fn vec_int(t: &mut Tape, cx: &mut Cx) -> CaseResult {
    use vek::vec::repr_c::{Rgba, Vec3};
    let k = if t.bool() { t.pick(&CORE) } else { t.int(-16, 32) as i32 };
    let kc = k.clamp(0, 16);
    let f = k as f32 / 16.0;
    // Rgba<u8>, arbitrary lanes (to < from is the F4 class on the fast path)
    let a = [t.u8(), t.u8(), t.u8(), t.u8()];
    let mut b = [t.u8(), t.u8(), t.u8(), t.u8()];
    let mut a = a;
    if t.bool() {
        // every lane ascending: outside the F4 class, so the fast forms are judged in every mode
        for i in 0..4 {
            if b[i] < a[i] {
                std::mem::swap(&mut a[i], &mut b[i]);
            }
        }
    }
    let (a, b) = (a, b);
    let (va, vb) = (Rgba { r: a[0], g: a[1], b: a[2], a: a[3] }, Rgba { r: b[0], g: b[1], b: b[2], a: b[3] });
    sample!(cx, "Rgba<u8> from={:?} to={:?} factor={}/16", a, b, k);
    cx.set_nontrivial(a != b && k != 0 && k != 16);
    let want = |kk: i32| -> [i128; 4] {
        let mut w = [0i128; 4];
        for i in 0..4 {
            w[i] = round16(16 * a[i] as i128 + kk as i128 * (b[i] as i128 - a[i] as i128));
        }
        w
    };
    let f4_class = (0..4).any(|i| b[i] < a[i]);
    let in_range = |w: &[i128; 4]| w.iter().all(|x| *x >= 0 && *x <= 255);
    macro_rules! one {
        ($name:expr, $fast:expr, $kk:expr, $call:expr) => {{
            let w = want($kk);
            match catch(|| $call) {
                Ok(g) => {
                    if in_range(&w) {
                        let got = [g.r as i128, g.g as i128, g.b as i128, g.a as i128];
                        cx.count();
                        if got != w {
                            if $fast && f4_class && cx.known(F4) {
                                cx.label("F4-hit(tolerated)");
                            } else {
                                fail!("Rgba<u8> {}: from={:?} to={:?} factor={}: got {:?}, want {:?}", $name, a, b, f, got, w);
                            }
                        }
                    }
                }
                Err(msg) => {
                    if $fast && f4_class && cx.known(F4) {
                        cx.label("F4-hit(tolerated)");
                    } else {
                        fail!("Rgba<u8> {}: from={:?} to={:?} factor={} panicked: {}{}", $name, a, b, f, msg, if $fast && f4_class { " [F4 class: a lane has to<from]" } else { "" });
                    }
                }
            }
        }};
    }
    type V = Rgba<u8>;
    one!("lerp_unclamped", true, k, <V as Lerp<f32>>::lerp_unclamped(va, vb, f));
    one!("lerp_unclamped_precise", false, k, <V as Lerp<f32>>::lerp_unclamped_precise(va, vb, f));
    one!("lerp", true, kc, <V as Lerp<f32>>::lerp(va, vb, f));
    one!("lerp_precise", false, kc, <V as Lerp<f32>>::lerp_precise(va, vb, f));
    one!("&lerp_unclamped", true, k, <&V as Lerp<f32>>::lerp_unclamped(&va, &vb, f));
    one!("&lerp_unclamped_precise", false, k, <&V as Lerp<f32>>::lerp_unclamped_precise(&va, &vb, f));
    one!("&lerp", true, kc, <&V as Lerp<f32>>::lerp(&va, &vb, f));
    one!("&lerp_precise", false, kc, <&V as Lerp<f32>>::lerp_precise(&va, &vb, f));
    one!("lerp_precise_inclusive_range", false, kc, <V as Lerp<f32>>::lerp_precise_inclusive_range(va..=vb, f));
    one!("&lerp_unclamped_precise_inclusive_range", false, k, <&V as Lerp<f32>>::lerp_unclamped_precise_inclusive_range(&va..=&vb, f));
    if f4_class {
        cx.label("F4-class(a lane has to<from)");
    }
    // Vec3<i32> with f64 factor, moderate values (no overflow class)
    let a = [t.int(-30000, 30000), t.int(-30000, 30000), t.int(-30000, 30000)];
    let b = [t.int(-30000, 30000), t.int(-30000, 30000), t.int(-30000, 30000)];
    let (va, vb) = (Vec3 { x: a[0] as i32, y: a[1] as i32, z: a[2] as i32 }, Vec3 { x: b[0] as i32, y: b[1] as i32, z: b[2] as i32 });
    let fd = k as f64 / 16.0;
    let want3 = |kk: i32| -> [i32; 3] {
        let mut w = [0i32; 3];
        for i in 0..3 {
            w[i] = round16(16 * a[i] as i128 + kk as i128 * (b[i] as i128 - a[i] as i128)) as i32;
        }
        w
    };
    type W = Vec3<i32>;
    let rd = |v: W| [v.x, v.y, v.z];
    check_eq!(cx, rd(<W as Lerp<f64>>::lerp_unclamped(va, vb, fd)), want3(k), "Vec3<i32> lerp_unclamped from={:?} to={:?} factor={}", a, b, fd);
    check_eq!(cx, rd(<W as Lerp<f64>>::lerp_unclamped_precise(va, vb, fd)), want3(k), "Vec3<i32> lerp_unclamped_precise from={:?} to={:?} factor={}", a, b, fd);
    check_eq!(cx, rd(<W as Lerp<f64>>::lerp(va, vb, fd)), want3(kc), "Vec3<i32> lerp from={:?} to={:?} factor={}", a, b, fd);
    check_eq!(cx, rd(<W as Lerp<f64>>::lerp_precise(va, vb, fd)), want3(kc), "Vec3<i32> lerp_precise from={:?} to={:?} factor={}", a, b, fd);
    check_eq!(cx, rd(<&W as Lerp<f64>>::lerp_unclamped(&va, &vb, fd)), want3(k), "&Vec3<i32> lerp_unclamped from={:?} to={:?} factor={}", a, b, fd);
    check_eq!(cx, rd(<&W as Lerp<f64>>::lerp_unclamped_precise(&va, &vb, fd)), want3(k), "&Vec3<i32> lerp_unclamped_precise from={:?} to={:?} factor={}", a, b, fd);
    check_eq!(cx, rd(<&W as Lerp<f64>>::lerp(&va, &vb, fd)), want3(kc), "&Vec3<i32> lerp from={:?} to={:?} factor={}", a, b, fd);
    check_eq!(cx, rd(<&W as Lerp<f64>>::lerp_precise(&va, &vb, fd)), want3(kc), "&Vec3<i32> lerp_precise from={:?} to={:?} factor={}", a, b, fd);
    check_eq!(cx, rd(<W as Lerp<f64>>::lerp_inclusive_range(va..=vb, fd)), want3(kc), "Vec3<i32> lerp_inclusive_range from={:?} to={:?} factor={}", a, b, fd);
    check_eq!(cx, rd(<&W as Lerp<f64>>::lerp_unclamped_inclusive_range(&va..=&vb, fd)), want3(k), "&Vec3<i32> lerp_unclamped_inclusive_range from={:?} to={:?} factor={}", a, b, fd);
    // inherent vector lerp on integer lanes with an integer factor (scalar and per lane): exact affine map
    let s = t.int(-3, 4) as i32;
    let sv = Vec3 { x: t.int(-3, 4) as i32, y: t.int(-3, 4) as i32, z: t.int(-3, 4) as i32 };
    let aff = |f: [i32; 3]| [a[0] as i32 + f[0] * (b[0] - a[0]) as i32, a[1] as i32 + f[1] * (b[1] - a[1]) as i32, a[2] as i32 + f[2] * (b[2] - a[2]) as i32];
    let c01 = |x: i32| x.clamp(0, 1);
    check_eq!(cx, rd(W::lerp_unclamped(va, vb, s)), aff([s; 3]), "Vec3<i32>::lerp_unclamped(int factor {}) from={:?} to={:?}", s, a, b);
    check_eq!(cx, rd(W::lerp_unclamped_precise(va, vb, s)), aff([s; 3]), "Vec3<i32>::lerp_unclamped_precise(int factor {}) from={:?} to={:?}", s, a, b);
    check_eq!(cx, rd(W::lerp_unclamped(va, vb, sv)), aff(rd(sv)), "Vec3<i32>::lerp_unclamped(per-lane int factor {:?}) from={:?} to={:?}", sv, a, b);
    check_eq!(cx, rd(W::lerp_unclamped_precise(va, vb, sv)), aff(rd(sv)), "Vec3<i32>::lerp_unclamped_precise(per-lane int factor {:?}) from={:?} to={:?}", sv, a, b);
    check_eq!(cx, rd(W::lerp(va, vb, s)), aff([c01(s); 3]), "Vec3<i32>::lerp(int factor {}) from={:?} to={:?}", s, a, b);
    check_eq!(cx, rd(W::lerp_precise(va, vb, sv)), aff([c01(sv.x), c01(sv.y), c01(sv.z)]), "Vec3<i32>::lerp_precise(per-lane int factor {:?}) from={:?} to={:?}", sv, a, b);
    Ok(())
}
