//! C12 — lerp is affine with exact endpoints; nlerp and slerp stay on the unit sphere.

pub mod floats;
pub mod generic;
pub mod ints;
pub mod qregime;
pub mod quat;
pub mod util;
pub mod xform;

use vkit::*;

fn i8_core(i: u64, cx: &mut Cx) -> CaseResult {
    ints::sweep8::<i8>(i, &ints::CORE, cx)
}
fn u8_core(i: u64, cx: &mut Cx) -> CaseResult {
    ints::sweep8::<u8>(i, &ints::CORE, cx)
}
fn i8_full(i: u64, cx: &mut Cx) -> CaseResult {
    ints::sweep8::<i8>(i, &ints::full_grid(), cx)
}
fn u8_full(i: u64, cx: &mut Cx) -> CaseResult {
    ints::sweep8::<u8>(i, &ints::full_grid(), cx)
}

pub fn property() -> Property {
    let mut checks = Vec::new();
    macro_rules! tape {
        ($name:expr, $about:expr, $len:expr, $q:expr, $th:expr, $f:expr) => {
            checks.push(Check { name: $name, about: $about, kind: Kind::Tape { len: $len, quick: $q, thorough: $th, f: $f } });
        };
    }
    macro_rules! index {
        ($name:expr, $about:expr, $total:expr, $q:expr, $th:expr, $f:expr) => {
            checks.push(Check { name: $name, about: $about, kind: Kind::Index { total: $total, quick: $q, thorough: $th, f: $f } });
        };
    }

    // --- integers ---------------------------------------------------------------------------------
    let sweep = "integer Lerp<f32>/Lerp<f64>, value and &, lerp_unclamped / lerp_unclamped_precise / lerp / lerp_precise and their *_inclusive_range spellings (32 calls per point): result == round-half-away-from-zero of the exact from + t(to-from) (i128) whenever that is representable in the type; a panic is a failure";
    let core_total = 65536 * ints::CORE.len() as u64;
    let full_total = 65536 * 49u64;
    index!("int8-core-i8", sweep, core_total, core_total, core_total, i8_core);
    index!("int8-core-u8", sweep, core_total, core_total, core_total, u8_core);
    index!("int8-full-i8", sweep, full_total, 150_000, full_total, i8_full);
    index!("int8-full-u8", sweep, full_total, 150_000, full_total, u8_full);
    let wide = "wider integer types on stratified endpoints the factor's float type represents exactly (limits, small, 2^k+-1, random, snapped to the significand width), dyadic factors k/16: same oracle, asserted when every intermediate of the documented float formula is exact";
    tape!("int-wide-i16", wide, 64, 6_000, 300_000, ints::wide::<i16>);
    tape!("int-wide-u16", wide, 64, 6_000, 300_000, ints::wide::<u16>);
    tape!("int-wide-i32", wide, 64, 6_000, 300_000, ints::wide::<i32>);
    tape!("int-wide-u32", wide, 64, 6_000, 300_000, ints::wide::<u32>);
    tape!("int-wide-i64", wide, 64, 6_000, 300_000, ints::wide::<i64>);
    tape!("int-wide-u64", wide, 64, 6_000, 300_000, ints::wide::<u64>);
    tape!("int-wide-isize", wide, 64, 6_000, 300_000, ints::wide::<isize>);
    tape!("int-wide-usize", wide, 64, 6_000, 300_000, ints::wide::<usize>);
    tape!("vec-int", "Lerp for Rgba<u8> (f32 factor) and Vec3<i32> (f64 factor), value and &: every lane is the rounded exact value; inherent Vec3<i32>::lerp* with integer scalar / per-lane factor is the exact affine map", 64, 10_000, 300_000, ints::vec_int);

    // --- generic code in exact arithmetic ------------------------------------------------------------
    let vr = "Rat lanes: inherent lerp / lerp_unclamped / lerp_precise / lerp_unclamped_precise with scalar and per-lane factor, Lerp for V and &V incl. all *_inclusive_range forms: lane i == from_i + f_i (to_i - from_i) exactly (f clamped to [0,1] for the clamped forms); f(t)-f(s) = (t-s)(to-from); factor 0 / 1 (and per-lane 0/1 patterns) give the ends exactly";
    tape!("vec2-rat", vr, 96, 2_000, 100_000, generic::vec2_rat);
    tape!("vec3-rat", vr, 128, 2_000, 100_000, generic::vec3_rat);
    tape!("vec4-rat", vr, 160, 2_000, 100_000, generic::vec4_rat);
    tape!("vec8-rat", vr, 288, 1_500, 100_000, generic::vec8_rat);
    tape!("rgb-rat", vr, 128, 1_500, 100_000, generic::rgb_rat);
    tape!("rgba-rat", vr, 160, 1_500, 100_000, generic::rgba_rat);
    tape!("extent2-rat", vr, 96, 1_500, 100_000, generic::extent2_rat);
    tape!("extent3-rat", vr, 128, 1_500, 100_000, generic::extent3_rat);
    tape!("uv-rat", vr, 96, 1_000, 100_000, generic::uv_rat);
    tape!("uvw-rat", vr, 128, 1_000, 100_000, generic::uvw_rat);
    tape!("scalar-rat", "the Lerp trait's provided methods (clamped forms, *_inclusive_range forms) on an exact scalar implementor, value and &: all 16 spellings == from + f (to - from) with f clamped where the name says so", 32, 4_000, 200_000, generic::scalar_rat);

    // --- float impls -----------------------------------------------------------------------------------
    let fs = "float Lerp impl, value and &: lerp*(..,0) == from, precise (..,1) == to exactly, fast (..,1) within 2 eps max(|from|,|to|); every form within 2 eps (|from|+|to|)(1+|t|) of the exact from+t(to-from) (double-double reference); |fast-precise| within the sum of the bounds; clamped == unclamped at clamp01(t), & and *_inclusive_range forms bit-identical to the value forms";
    tape!("scalar-f32", fs, 64, 10_000, 1_000_000, floats::scalar_f32);
    tape!("scalar-f64", fs, 64, 10_000, 1_000_000, floats::scalar_f64);
    let fx = "float lerp at extreme magnitudes: endpoints = moderate values * exact 2^k, from the top binade (where to - from overflows for opposite signs) down to 2^40 * MIN_POSITIVE, factor in [0,1]; precise forms (value, &, clamped, Vec4 lane) are finite, within 4 eps (|from|+|to|) of the exact lerp after exact rescaling, and hit both endpoints exactly; the fast form likewise whenever to - from is finite";
    tape!("extreme-f32", fx, 48, 10_000, 1_000_000, floats::extreme_f32);
    tape!("extreme-f64", fx, 48, 10_000, 1_000_000, floats::extreme_f64);
    let fv = "Vec4/Rgba/Vec3 of floats: inherent (scalar and per-lane factor) and Lerp trait forms (value, &, range), every lane within the derived bound of the exact value; exact ends";
    tape!("vec-f32", fv, 128, 5_000, 300_000, floats::vec_f32);
    tape!("vec-f64", fv, 128, 5_000, 300_000, floats::vec_f64);

    // --- quaternions -----------------------------------------------------------------------------------
    tape!("quat-rat", "Quaternion<Rat>: the four *_unnormalized forms are the exact component lerp; nlerp (Lerp for Quaternion and &Quaternion) of exactly unit rational quaternions returns the ends exactly at 0 / 1 and beyond when clamped", 48, 4_000, 200_000, quat::quat_rat);
    let nl = "Lerp for Quaternion / &Quaternion (nlerp): result is unit and equals the normalized component lerp (tolerance conditioned on its length; the 0/0 midpoint of antipodal inputs is excluded), ends, clamped == unclamped at clamp01(t), &/range forms bit-identical; *_unnormalized forms == component lerp";
    tape!("nlerp-f32", nl, 96, 10_000, 500_000, quat::nlerp_f32);
    tape!("nlerp-f64", nl, 96, 10_000, 500_000, quat::nlerp_f64);
    let sl = "slerp of unit quaternions (random, rational S^3 points, identical / antipodal / tiny-angle / nearly antipodal / nearly orthogonal pairs): result unit; equals the point at angle t*theta from `from` on the shorter arc (theta = angle to the representative of `to` with non-negative dot); angle(from,r) = |t| theta and angle(r,+-to) = |1-t| theta for theta >= 1e-3; slerp(0) = from, slerp(1) = +-to; clamped form; Slerp trait (value, &) == inherent";
    tape!("slerp-f32", sl, 96, 20_000, 1_000_000, quat::slerp_f32);
    tape!("slerp-f64", sl, 96, 20_000, 1_000_000, quat::slerp_f64);
    let th = "targets at angles just below / just above the near-parallel switch (cos > 1 - eps => nlerp): both results unit and on the arc, and they differ by no more than the targets do + 1e-6";
    tape!("slerp-switch-f32", th, 96, 5_000, 300_000, quat::thresh_f32);
    tape!("slerp-switch-f64", th, 96, 5_000, 300_000, quat::thresh_f64);
    tape!("slerp-mixed-factor", "Slerp<f32> for Quaternion<f64> and &Quaternion<f64>: the factor goes through Into, clamped form clamps", 96, 2_000, 100_000, quat::slerp_mixed);
    let sp = "slerp of RELATED unit pairs (bit-identical, bitwise adjacent, 2..64 ulps apart, 4D angle pinned 1e-2..1e-12, around the fallback switch sqrt(2 eps), log-uniform 1..1e-13, moderate; each also with the target negated = nearly antipodal) x unclamped factors (inside [0,1], just outside, +-1.5 / 3 / 50 / 1000 / 1e6, log-uniform to 1e6): for inherent slerp / slerp_unclamped, Slerp for Quaternion and &Quaternion, the orientation of Lerp for Transform / &Transform (fast, precise, clamped, range) and of all 8 Transition<Transform> accessors, each judged by the plain-array oracle: |norm - 1| <= 6 eps (1 + (pi/2)(|1-t|+|t|)) for EVERY factor (linear in |t|: first-order rounding of any weighted-sum formula); result within eps (3 + 0.75 (pi/2)(|1-t|+|t|)) of span{from,to}; position = from rotated towards the near representative of to by t*theta (theta >= 8 sqrt(eps): exact arc point within 4 eps (1 + (pi/2)(|1-t|+|t|)); below: the normalised lerp point within 3 eps (1 + ..) + |t| theta (1+|t|)^2 (theta^2 + 8 eps), i.e. to first order), asserted while the bound is below 1e-2";
    tape!("slerp-pair-f32", sp, 160, 6_000, 400_000, qregime::slerp_pair_f32);
    tape!("slerp-pair-f64", sp, 160, 6_000, 400_000, qregime::slerp_pair_f64);
    let ns = "nlerp (Lerp for Quaternion / &Quaternion, fast and precise, clamped, all range forms, 8 Transition<Quaternion> accessors; 24 results per case) of NON-UNIT endpoints = directions (incl. antipodal, tiny-angle, identical) x magnitudes m 2^k with k over the whole range where the squared length stays normal (f32 +-60, f64 +-500; pinned: both ends of the range, just below sqrt(eps)), equal and different magnitudes (ratio up to 2^20), factors inside and outside [0,1] up to +-1000: every result has |norm - 1| <= 3 eps and is within 1.5 err/|lerp| + 3 eps (err = first-order rounding bound of the fast resp. precise component formula) of the normalised component-wise lerp computed on plain arrays after exact rescaling by 2^-k; unit norm excluded only where the lerped vector is shorter than 8 x 1.5 err (it cancels down to its own rounding error; relative, never absolute) or leaves the squaring range, direction additionally where its bound exceeds 0.1; two factors with distinguishable lerped directions give different results";
    tape!("nlerp-scaled-f32", ns, 128, 6_000, 400_000, qregime::nlerp_scaled_f32);
    tape!("nlerp-scaled-f64", ns, 128, 6_000, 400_000, qregime::nlerp_scaled_f64);

    // --- Transform, Transition ---------------------------------------------------------------------------
    let tf = "Lerp for Transform and &Transform, fast / precise / clamped / range forms: == (lerp position, slerp orientation, lerp scale) with the pieces called directly, and against the independent oracle (exact component lerp, reference slerp); ends";
    tape!("transform-f32", tf, 160, 5_000, 300_000, xform::transform_f32);
    tape!("transform-f64", tf, 160, 5_000, 300_000, xform::transform_f64);
    tape!("transform-probe", "Transform over recording elements: every position / scale lane is produced by the fast resp. precise, value resp. & Lerp method of that same lane of the two positions / scales, in (a, b) order, at the (clamped) factor; orientation is slerp_unclamped of the orientations; Transform<i32,f64,i32> with f32 factor", 96, 4_000, 200_000, xform::transform_probe);
    let tr = "Transition: current / current_unclamped / current_precise / current_unclamped_precise and the four into_current* == the corresponding Lerp::lerp* of (start, end) at mapper(progress), for IdentityProgressMapper, ProgressMapperFn(t^2), ProgressMapperFn(1-t) and a user mapper; recording elements pin down method, operand order and factor; with_mapper, with_mapper_and_progress, into_range, From<Range>, Default, LinearTransition::new / with_progress, ProgressMapperFn::default / From<fn>";
    tape!("transition-rat", tr, 96, 4_000, 200_000, xform::transition_rat);
    tape!("transition-float", tr, 192, 4_000, 200_000, xform::transition_float);

    Property {
        id: "C12",
        rule: "integer impls: index = (factor k/16, from, to) enumerated exhaustively over all 2^16 pairs of i8 and of u8 at the 9 core factors (quick) / all 49 factors k in -16..=32 (thorough; a seeded sample of it in quick); everything else: byte tapes generated by proptest (uniform bytes, fixed seed) decoded to endpoints and factors (factor classes: 0, 1, 1/2, outside [0,1], random). A case is non-trivial when from != to (every lane / member) and the factor is neither 0 nor 1 (integers: additionally labelled tie / range-limit endpoint / to<from; vectors: the per-lane factor is not constant; slerp: theta >= 1e-3 and the arc choice is not ambiguous; slerp-pair: to is neither from nor -from bit for bit; nlerp-scaled: from != to and the scale exponent k != 0); distinct = distinct index resp. consumed tape prefix per check",
        assumptions: &[
            "rustc and the proptest runner/shrinker are trusted; the harness is built with overflow-checks and debug-assertions on, a panic inside vek is a failure",
            "integer oracle: i128 arithmetic on sixteenths, round half away from zero; dyadic factors k/16 are exact in f32 and f64; asserted only when the exact result is representable in the integer type and (wider types) every intermediate of the documented formula is exactly representable in the factor's float type, so the only rounding is the final round-to-integer",
            "exact arithmetic for generic code: vkit::Rat (i128 rationals; its two required Lerp methods are harness code, the provided methods under test are vek's)",
            "float oracle: double-double evaluation of from + t(to-from) (error O(eps^2)); bounds derived from the documented formulas from + t(to-from) and from(1-t) + to t with at most 3 roundings",
            "quaternion oracle on plain f64 arrays: angle = 2 atan2(|u-v|, |u+v|), slerp weights sin((1-t)theta)/sin(theta), sin(t theta)/sin(theta); inputs are unit to rounding of the scalar type; tolerance 16 eps (1+|t|)^3; pairs with |dot| < 64 eps have no unique shorter arc and only unit-ness and the ends are asserted there; nlerp is not asserted where the component lerp is shorter than 1e-3 (the midpoint of antipodal inputs is 0/0)",
            "slerp-pair (related pairs x unclamped factors): both operands are unit to rounding of the scalar type (| |q| - 1 | <= 1.5 eps; nudged pairs further off are projected back onto the sphere); the unit-norm bound 6 eps (1 + (pi/2)(|1-t|+|t|)) grows linearly in |t| (first-order rounding of a weighted sum whose weights grow like |t|: input norm error, rounded arguments (1-t) theta and t theta, two sines, two scalings, sum, division) - an error quadratic in t is a violation (finding F17, fixed); the position on the arc is asserted only while its own bound is below 1e-2 (f32 with |t| theta beyond ~1e4 has no digits of t theta left: only unit norm and the plane are asserted there); for theta < 8 sqrt(eps) the documented near-parallel fallback (normalised lerp) may or may not run - its switch point is not part of the contract - so the position is asserted against the normalised lerp with a relative rotation-angle slack (1+|t|)^2 (theta^2 + 8 eps), i.e. to first order, and only while that slack is <= 1e-2; theta is the angle to the representative of `to` with non-negative dot (no pair of this class comes within 64 eps of orthogonal)",
            "nlerp-scaled: the oracle is the component-wise lerp (double-double) of the endpoints handed to vek after exact rescaling by 2^-k, normalised in f64; nothing is asserted where the lerped 4-vector is shorter than 12 err, err = eps/2 (|t| |to-from|-bound (|from|+|to|) + |lerp|) for the fast and eps (|1-t| |from| + |t| |to|/2 + |lerp|/2) for the precise formula, i.e. cancels down to the rounding error of the component lerp (relative to the endpoint magnitudes: antipodal ends at factor ~1/2), or where its length times 2^k leaves [2^-(KMAX+1), 2^(KMAX+2)] (KMAX = 60 / 500: the squared length would leave the normal range); the direction is not asserted where its bound 1.5 err/|lerp| + 3 eps exceeds 0.1 (the unit norm still is); a lane that underflows to a subnormal under the scaling is taken at its scaled value",
            "Transform / Transition differential checks call vek's Lerp / Slerp impls of the members (themselves judged by the other checks of this property); Probe elements record the invoked required method, operands and factor",
        ],
        checks,
        max_discard_frac: 0.2,
    }
}
