fn main() {
    vkit::driver::main(c12::property())
}
