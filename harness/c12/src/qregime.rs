//! Quaternion regimes the moderate samplers of `quat.rs` / `xform.rs` do not reach.
//!
//! (A) `slerp-pair-*`: slerp of two unit quaternions in a *relation* - bit-identical, bitwise adjacent, a
//!     few ulps apart, at every 4D angle from ~1 rad down to 1e-13, on both sides of the near-parallel
//!     fallback switch, and the negations of all of these (nearly antipodal) - combined with unclamped
//!     factors far outside [0,1] (|t| = 1.5 .. 1e6, both signs), inside and just outside. Every entry
//!     point that reaches slerp is judged by the same plain-array oracle.
//! (B) `nlerp-scaled-*`: the `Lerp` impl of quaternions (nlerp) on non-unit endpoints whose magnitude is
//!     an exact 2^k over the whole range in which the squared length of the lerped 4-vector stays normal,
//!     endpoints of different magnitudes, factors inside and outside [0,1]; all 16 trait spellings and the
//!     8 `Transition<Quaternion>` accessors are judged by the oracle (never by each other).

use crate::check_within;
use crate::util::*;
use vek::ops::{Lerp, Slerp};
use vek::quaternion::repr_c::Quaternion;
use vek::transform::repr_c::Transform;
use vek::transition::{IdentityProgressMapper, Transition};
use vek::vec::repr_c::Vec3;
use vkit::*;

/// Sum of the magnitudes of the two interpolation weights, bounded for every angle of the shorter arc
/// (theta <= pi/2, so theta / sin(theta) <= pi/2): |sin(x theta)| / sin(theta) <= (pi/2) |x|.
fn weight_bound(x: f64) -> f64 {
    std::f64::consts::FRAC_PI_2 * ((1.0 - x).abs() + x.abs())
}

/// Unit-norm tolerance of a slerp result, first-order rounding analysis of *any* formula of the shape
/// w_from * from + w_to * to: the inputs are unit to ~eps each (norm error eps * weight), the arguments
/// (1-t) theta and t theta are rounded (eps/2 * |t| theta / sin theta each), the two sines, two scalings,
/// one sum and one division commit eps/2 * weight each: <= ~4 eps (1 + W); 6 because bitwise-adjacent pairs are
/// off the sphere by one more ulp. (The unchanged tree stays below 3.2 eps (1 + W) over 1.6e6 cases.)
pub fn norm_tol(eps: f64, x: f64) -> f64 {
    6.0 * eps * (1.0 + weight_bound(x))
}

/// Geometry of a pair of (nearly) unit quaternions, all in f64 on the exact values of the scalar type.
pub struct Pair {
    pub a: A4,
    /// the representative of `to` on `from`'s side (non-negative dot)
    pub bb: A4,
    /// bb - a (exact in f64 for f32 inputs and for close f64 inputs) made orthogonal to a; spans the plane with a
    pub e: A4,
    pub e2: f64,
    /// angle of the shorter arc, in [0, pi/2]
    pub theta: f64,
    pub dot: f64,
}

pub fn pair(a: &A4, b: &A4) -> Pair {
    let dot = dot4(a, b);
    let bb = if dot < 0.0 { scale4(b, -1.0) } else { *b };
    let d = sub4(&bb, a);
    let e = sub4(&d, &scale4(a, dot4(a, &d) / dot4(a, a)));
    let theta = angle4(a, &bb);
    Pair { a: *a, bb, e, e2: dot4(&e, &e), theta, dot }
}

/// Distance of `r` from span{from, to}.
pub fn span_residual(p: &Pair, r: &A4) -> f64 {
    let mut res = sub4(r, &scale4(&p.a, dot4(r, &p.a) / dot4(&p.a, &p.a)));
    if p.e2 > 0.0 {
        res = sub4(&res, &scale4(&p.e, dot4(&res, &p.e) / p.e2));
    }
    norm4(&res)
}

/// What may be said about the position of the result on the arc.
pub enum Where {
    /// the exact slerp point and its tolerance
    Arc(A4, f64),
    /// near-parallel pair: the normalised lerp point and its tolerance (first-order agreement)
    FirstOrder(A4, f64),
    /// nothing beyond unit norm and the plane
    Unasserted,
}

/// The position clause (constant angular speed: `from` rotated towards the near representative of `to` by t theta).
///
/// * theta >= 8 sqrt(eps): the exact arc point. Error budget of the sin formula with an angle that is accurate to
///   a few eps *relative* (chord / atan2 based): the rotation angle t theta is off by ~4 eps |t| theta, the rounded
///   arguments (1-t) theta, t theta by eps/2 each, the weights, two scalings, sum and division by eps/2 weight each:
///   4 eps (1 + (pi/2)(|1-t|+|t|)). Asserted while that is below 1e-2 (f32 at |t| ~ 1e4 and beyond has no digits
///   left in t theta).
/// * theta < 8 sqrt(eps): the documented fallback ("linear interpolation when the angle is close to 0, i.e.
///   cosTheta > 1 - epsilon") may or may not run - the switch point is not part of the contract; the normalised
///   lerp and the arc point both rotate `from` towards `to` by t theta (1 + O((1+|t|)^2 theta^2)); 8 eps are added to
///   theta^2 for an implementation whose switch is decided by a dot product with a few eps of noise. Asserted
///   against the normalised lerp while (1+|t|)^2 (theta^2 + 8 eps) <= 1e-2 (first-order agreement).
pub fn position(p: &Pair, x: f64, eps: f64) -> Where {
    let w = weight_bound(x);
    if p.theta >= 8.0 * eps.sqrt() {
        let s = p.theta.sin();
        let tol = 4.0 * eps * (1.0 + w);
        if tol > 1e-2 {
            return Where::Unasserted;
        }
        let want = lin4(&p.a, ((1.0 - x) * p.theta).sin() / s, &p.bb, (x * p.theta).sin() / s);
        Where::Arc(want, tol)
    } else {
        let rel = (1.0 + x.abs()) * (1.0 + x.abs()) * (p.theta * p.theta + 8.0 * eps);
        if rel > 1e-2 {
            return Where::Unasserted;
        }
        let l = add4(&p.a, &scale4(&sub4(&p.bb, &p.a), x));
        let want = scale4(&l, 1.0 / norm4(&l));
        Where::FirstOrder(want, 3.0 * eps * (1.0 + w) + x.abs() * p.theta * rel)
    }
}

macro_rules! qregime_cases {
    ($S:ident, $U:ident, $clamp:ident, $slerp_pair:ident, $nlerp_scaled:ident, $KMAX:expr, $KSUB:expr) => {
        /// (A) slerp of related pairs with unclamped factors, every entry point.
        pub fn $slerp_pair(t: &mut Tape, cx: &mut Cx) -> CaseResult {
            type S = $S;
            type Q = Quaternion<S>;
            type X = Transform<S, S, S>;
            const EPS: f64 = $S::EPSILON as f64;
            let q = |v: &A4| Quaternion { x: v[0] as S, y: v[1] as S, z: v[2] as S, w: v[3] as S };
            let rd = |v: Q| -> A4 { [v.x as f64, v.y as f64, v.z as f64, v.w as f64] };
            // k ulps up or down in the scalar type
            let step = |x: S, k: i64| -> S {
                if x == 0.0 || !x.is_finite() {
                    return x;
                }
                let b = x.to_bits() as i64;
                // the magnitude grows with the bit pattern for either sign
                $S::from_bits((b + k) as $U)
            };
            let a0 = gen_unit(t);
            let qa = q(&a0);
            let sw = EPS.sqrt();
            let sel = t.below(12);
            let (mut qb, sep): (Q, &'static str) = match sel {
                0 => (qa, "pair: bit-identical"),
                1 | 2 => {
                    let mask = 1 + t.below(15);
                    let dirs = t.u8();
                    let k = if sel == 1 { 1 } else { t.int(2, 64) };
                    let mut v = [qa.x, qa.y, qa.z, qa.w];
                    for i in 0..4 {
                        if mask >> i & 1 == 1 {
                            v[i] = step(v[i], if dirs >> i & 1 == 1 { k } else { -k });
                        }
                    }
                    // a 1-ulp nudge keeps the norm within 1.5 eps of 1; larger ones are projected back onto the sphere
                    // (normalised in f64, rounded to the scalar type) so that the pair stays unit to rounding
                    let mut w = [v[0] as f64, v[1] as f64, v[2] as f64, v[3] as f64];
                    if (norm4(&w) - 1.0).abs() > 1.5 * EPS {
                        w = scale4(&w, 1.0 / norm4(&w));
                        for i in 0..4 {
                            v[i] = w[i] as S;
                        }
                    }
                    (Quaternion { x: v[0], y: v[1], z: v[2], w: v[3] }, if sel == 1 { "pair: bitwise-adjacent (1 ulp in some lanes)" } else { "pair: 2..64 ulps apart" })
                }
                _ => {
                    let (phi, lab): (f64, &'static str) = match sel {
                        3 | 4 => (t.pick(&[1e-3, 1e-4, 1e-8, 1e-12, 1e-2, 1e-6, 1e-10, 3e-4]), "pair: pinned angle 1e-2..1e-12"),
                        5 | 6 => (std::f64::consts::SQRT_2 * sw * t.pick(&[0.25, 0.5, 0.9, 0.99, 1.01, 1.1, 1.5, 2.0, 4.0, 8.0, 16.0]), "pair: angle around the fallback switch sqrt(2 eps)"),
                        7 | 8 => (10f64.powf(-t.range_f64(0.0, 13.0)), "pair: angle log-uniform 1..1e-13"),
                        _ => (t.range_f64(0.05, 1.45), "pair: moderate angle 0.05..1.45"),
                    };
                    let e = gen_orth(t, &a0);
                    (q(&lin4(&a0, phi.cos(), &e, phi.sin())), lab)
                }
            };
            let anti = t.chance(96);
            if anti {
                qb = -qb;
            }
            let (fx, flab): (f64, &'static str) = match t.below(8) {
                0 => (t.unit_f64(), "factor: inside [0,1]"),
                1 => {
                    let d = 0.5f64.powi(t.int(1, 30) as i32);
                    (if t.bool() { -d } else { 1.0 + d }, "factor: just outside [0,1]")
                }
                2 | 3 | 4 => {
                    let m = t.pick(&[1.5, 3.0, 50.0, 1000.0, 1e6]);
                    (if t.bool() { -m } else { m }, "factor: pinned +-1.5, 3, 50, 1000, 1e6")
                }
                5 | 6 => {
                    let m = 10f64.powf(t.range_f64(0.0, 6.0));
                    (if t.bool() { -m } else { m }, "factor: log-uniform 1..1e6, both signs")
                }
                _ => (factor_f64(t), "factor: 0, 1, 1/2, dyadic, [-2,3]"),
            };
            let f = fx as S;
            let fc = $clamp(f);
            let (a, b) = (rd(qa), rd(qb));
            let p = pair(&a, &b);
            sample!(cx, "Quaternion<{}> slerp of a related pair: from={:?} to={:?} ({}{}; dot {:e}, shorter angle {:e}) factor={:e}", stringify!($S), a, b, sep, if anti { ", negated" } else { "" }, p.dot, p.theta, f);
            cx.label(sep);
            cx.label(flab);
            if anti {
                cx.label("pair: target negated (nearly antipodal)");
            }
            cx.label(if p.theta == 0.0 {
                "theta = 0"
            } else if p.theta < EPS {
                "theta < eps"
            } else if p.theta < 0.5 * sw {
                "theta in [eps, sqrt(eps)/2)"
            } else if p.theta < 8.0 * sw {
                "theta in [sqrt(eps)/2, 8 sqrt(eps)) (fallback switch zone)"
            } else if p.theta < 1e-2 {
                "theta in [8 sqrt(eps), 1e-2)"
            } else if p.theta < 0.3 {
                "theta in [1e-2, 0.3)"
            } else {
                "theta >= 0.3"
            });
            let at = (f as f64).abs();
            cx.label(if at <= 1.0 && f >= 0.0 { "t in [0,1]" } else if at <= 3.0 { "t outside [0,1], |t| <= 3" } else if at <= 50.0 { "|t| in (3,50]" } else if at <= 1000.0 { "|t| in (50,1000]" } else { "|t| > 1000" });
            cx.set_nontrivial((qa != qb) && (qa != -qb) && f != 0.0 && f != 1.0);
            if p.dot.abs() < 64.0 * EPS {
                discard!("orthogonal pair: not in this class");
            }
            // ---- the judge: one oracle for every entry point -------------------------------------------
            let judge = |cx: &mut Cx, what: &str, got: Q, x: S| -> CaseResult {
                let x = x as f64;
                let r = rd(got);
                // 1. unit norm, for EVERY factor
                let tol = norm_tol(EPS, x);
                check_within!(cx, norm4(&r), 1.0, tol, "{} from={:?} to={:?} t={:e}: result {:?} is not unit (shorter angle {:e})", what, a, b, x, r, p.theta);
                // 2. in the plane of from and to
                check_within!(cx, span_residual(&p, &r), 0.0, EPS * (3.0 + 0.75 * weight_bound(x)), "{} from={:?} to={:?} t={:e}: result {:?} leaves span{{from,to}}", what, a, b, x, r);
                // 3. rotation of `from` towards `to` by t * theta
                match position(&p, x, EPS) {
                    Where::Arc(want, tol) => {
                        cx.label("position: exact arc point asserted");
                        check_within!(cx, maxdiff4(&r, &want), 0.0, tol, "{} from={:?} to={:?} t={:e}: got {:?}, want {:?} (shorter arc, angle t*theta, theta={:e})", what, a, b, x, r, want, p.theta);
                    }
                    Where::FirstOrder(want, tol) => {
                        cx.label("position: first-order agreement asserted (near-parallel)");
                        check_within!(cx, maxdiff4(&r, &want), 0.0, tol, "{} from={:?} to={:?} t={:e}: got {:?}, want {:?} to first order (theta={:e})", what, a, b, x, r, want, p.theta);
                    }
                    Where::Unasserted => cx.label("position: unasserted (|t| theta error bound above 1e-2)"),
                }
                Ok(())
            };
            let n = stringify!($S);
            judge(cx, &format!("Quaternion<{}>::slerp_unclamped", n), Q::slerp_unclamped(qa, qb, f), f)?;
            judge(cx, &format!("Quaternion<{}>::slerp", n), Q::slerp(qa, qb, f), fc)?;
            judge(cx, &format!("<Quaternion<{}> as Slerp>::slerp_unclamped", n), <Q as Slerp<S>>::slerp_unclamped(qa, qb, f), f)?;
            judge(cx, &format!("<Quaternion<{}> as Slerp>::slerp", n), <Q as Slerp<S>>::slerp(qa, qb, f), fc)?;
            judge(cx, &format!("<&Quaternion<{}> as Slerp>::slerp_unclamped", n), <&Q as Slerp<S>>::slerp_unclamped(&qa, &qb, f), f)?;
            judge(cx, &format!("<&Quaternion<{}> as Slerp>::slerp", n), <&Q as Slerp<S>>::slerp(&qa, &qb, f), fc)?;
            // Transform: the orientation member
            let g3 = |t: &mut Tape| Vec3 { x: <S as Dom>::any(t, 9), y: <S as Dom>::any(t, 9), z: <S as Dom>::any(t, 9) };
            let xa: X = Transform { position: g3(t), orientation: qa, scale: g3(t) };
            let xb: X = Transform { position: g3(t), orientation: qb, scale: g3(t) };
            judge(cx, &format!("<Transform<{}> as Lerp>::lerp_unclamped .orientation", n), <X as Lerp<S>>::lerp_unclamped(xa, xb, f).orientation, f)?;
            judge(cx, &format!("<Transform<{}> as Lerp>::lerp_unclamped_precise .orientation", n), <X as Lerp<S>>::lerp_unclamped_precise(xa, xb, f).orientation, f)?;
            judge(cx, &format!("<Transform<{}> as Lerp>::lerp .orientation", n), <X as Lerp<S>>::lerp(xa, xb, f).orientation, fc)?;
            judge(cx, &format!("<Transform<{}> as Lerp>::lerp_precise .orientation", n), <X as Lerp<S>>::lerp_precise(xa, xb, f).orientation, fc)?;
            judge(cx, &format!("<&Transform<{}> as Lerp>::lerp_unclamped .orientation", n), <&X as Lerp<S>>::lerp_unclamped(&xa, &xb, f).orientation, f)?;
            judge(cx, &format!("<&Transform<{}> as Lerp>::lerp_unclamped_precise .orientation", n), <&X as Lerp<S>>::lerp_unclamped_precise(&xa, &xb, f).orientation, f)?;
            judge(cx, &format!("<&Transform<{}> as Lerp>::lerp .orientation", n), <&X as Lerp<S>>::lerp(&xa, &xb, f).orientation, fc)?;
            judge(cx, &format!("<&Transform<{}> as Lerp>::lerp_precise .orientation", n), <&X as Lerp<S>>::lerp_precise(&xa, &xb, f).orientation, fc)?;
            judge(cx, &format!("<Transform<{}> as Lerp>::lerp_unclamped_inclusive_range .orientation", n), <X as Lerp<S>>::lerp_unclamped_inclusive_range(xa..=xb, f).orientation, f)?;
            judge(cx, &format!("<&Transform<{}> as Lerp>::lerp_unclamped_precise_inclusive_range .orientation", n), <&X as Lerp<S>>::lerp_unclamped_precise_inclusive_range(&xa..=&xb, f).orientation, f)?;
            // Transition<Transform>: reaches slerp through Lerp for Transform / &Transform
            let tr: Transition<X, IdentityProgressMapper, S> = Transition::with_mapper_and_progress(xa, xb, IdentityProgressMapper, f);
            judge(cx, &format!("Transition<Transform<{}>>::current_unclamped .orientation", n), tr.current_unclamped().orientation, f)?;
            judge(cx, &format!("Transition<Transform<{}>>::current_unclamped_precise .orientation", n), tr.current_unclamped_precise().orientation, f)?;
            judge(cx, &format!("Transition<Transform<{}>>::current .orientation", n), tr.current().orientation, fc)?;
            judge(cx, &format!("Transition<Transform<{}>>::current_precise .orientation", n), tr.current_precise().orientation, fc)?;
            judge(cx, &format!("Transition<Transform<{}>>::into_current_unclamped .orientation", n), tr.clone().into_current_unclamped().orientation, f)?;
            judge(cx, &format!("Transition<Transform<{}>>::into_current_unclamped_precise .orientation", n), tr.clone().into_current_unclamped_precise().orientation, f)?;
            judge(cx, &format!("Transition<Transform<{}>>::into_current .orientation", n), tr.clone().into_current().orientation, fc)?;
            judge(cx, &format!("Transition<Transform<{}>>::into_current_precise .orientation", n), tr.clone().into_current_precise().orientation, fc)?;
            Ok(())
        }

        /// (B) nlerp of non-unit endpoints at every magnitude.
        pub fn $nlerp_scaled(t: &mut Tape, cx: &mut Cx) -> CaseResult {
            type S = $S;
            type Q = Quaternion<S>;
            const EPS: f64 = $S::EPSILON as f64;
            const KMAX: i32 = $KMAX; // endpoints and lerped vector between 2^-KMAX and 2^KMAX: squares stay normal
            const KSUB: i32 = $KSUB; // 2^-KSUB < sqrt(eps): the squared length is below eps
            let q = |v: &A4| Quaternion { x: v[0] as S, y: v[1] as S, z: v[2] as S, w: v[3] as S };
            let rd = |v: Q| -> A4 { [v.x as f64, v.y as f64, v.z as f64, v.w as f64] };
            let p2 = |k: i32| -> S { (2.0 as S).powi(k) };
            let a0 = gen_unit(t);
            let (mut b0, mut how) = gen_to(t, &a0);
            if t.chance(16) {
                b0 = a0;
                how = "to == from";
            }
            // factors: the one under test and a second one for "depends on the factor"
            let gen_f = |t: &mut Tape| -> f64 {
                match t.below(6) {
                    0 | 1 => t.unit_f64(),
                    2 => {
                        let m = t.pick(&[1.5, 3.0, 50.0, 1000.0]);
                        if t.bool() {
                            -m
                        } else {
                            m
                        }
                    }
                    3 => {
                        let m = 10f64.powf(t.range_f64(0.0, 3.0));
                        if t.bool() {
                            -m
                        } else {
                            m
                        }
                    }
                    _ => factor_f64(t),
                }
            };
            let f = gen_f(t) as S;
            let s = gen_f(t) as S;
            // magnitudes: mantissas and a relative exponent, then the common exact 2^k
            let (ma, mb, dk, mlab): (f64, f64, i32, &'static str) = match t.below(5) {
                0 | 1 => (1.0, 1.0, 0, "magnitudes: both exactly 2^k"),
                2 => {
                    let m = t.range_f64(1.0, 2.0);
                    (m, m, 0, "magnitudes: equal, not a power of two")
                }
                3 => (t.range_f64(1.0, 2.0), t.range_f64(1.0, 2.0), t.int(-8, 8) as i32, "magnitudes: different (ratio up to 2^9)"),
                _ => (t.range_f64(1.0, 2.0), t.range_f64(1.0, 2.0), if t.bool() { 20 } else { -20 }, "magnitudes: different (ratio ~2^20)"),
            };
            // head-room so that neither the endpoints nor the lerped vector leave [2^-KMAX, 2^KMAX]
            let big = (f as f64).abs().max((s as f64).abs());
            let head = (if (0.0..=1.0).contains(&(f as f64)) && (0.0..=1.0).contains(&(s as f64)) { 0 } else { (1.0 + 2.0 * big).log2().ceil() as i32 }) + dk.max(0) + if ma != 1.0 || mb != 1.0 { 1 } else { 0 };
            let (k_lo, k_hi) = (-KMAX + (-dk).max(0), KMAX - head);
            let k = match t.below(8) {
                0 => k_hi,
                1 => k_lo,
                2 => -KSUB - t.int(0, 6) as i32,
                3 => t.int(k_lo as i64, k_hi as i64) as i32,
                4 => -(t.int(KSUB as i64, (-k_lo) as i64) as i32),
                5 => t.int(KSUB as i64, k_hi as i64) as i32,
                6 => t.int(-4, 4) as i32,
                _ => 0,
            }
            .clamp(k_lo, k_hi);
            // unscaled endpoints in the scalar type, then the exact common scaling (in two exact steps)
            let ua = q(&scale4(&a0, ma));
            let ub = q(&scale4(&b0, mb * 2f64.powi(dk)));
            let sc = |v: Q| -> Q {
                let (h1, h2) = (p2(k / 2), p2(k - k / 2));
                Quaternion { x: v.x * h1 * h2, y: v.y * h1 * h2, z: v.z * h1 * h2, w: v.w * h1 * h2 }
            };
            let (qa, qb) = (sc(ua), sc(ub));
            // the oracle works on the endpoints actually handed to vek, rescaled exactly by 2^-k in f64
            let un = |v: Q| -> A4 {
                let r = rd(v);
                let (h1, h2) = (2f64.powi(-(k / 2)), 2f64.powi(-(k - k / 2)));
                [r[0] * h1 * h2, r[1] * h1 * h2, r[2] * h1 * h2, r[3] * h1 * h2]
            };
            let (a, b) = (un(qa), un(qb));
            let exact_scaling = a == rd(ua) && b == rd(ub);
            let (na, nb) = (norm4(&a), norm4(&b));
            sample!(cx, "Quaternion<{}> nlerp of non-unit endpoints: from={:?} to={:?} = ({:?}, {:?}) * 2^{} ({}; {}) factor={:e} second factor={:e}", stringify!($S), rd(qa), rd(qb), a, b, k, how, mlab, f, s);
            cx.label(how);
            cx.label(mlab);
            cx.label(if k == 0 {
                "scale 2^0"
            } else if k >= KMAX - 12 {
                "scale: top of the squaring range"
            } else if k <= -KMAX + 12 {
                "scale: bottom of the squaring range"
            } else if k <= -KSUB {
                "scale below sqrt(eps) (squared length < eps)"
            } else if k < 0 {
                "scale 2^-1 .. sqrt(eps)"
            } else if k >= KSUB {
                "scale above 1/sqrt(eps)"
            } else {
                "scale 2^1 .. 1/sqrt(eps)"
            });
            if !exact_scaling {
                cx.label("a lane became subnormal under the scaling (oracle uses the scaled values)");
            }
            let fl = |x: S| -> &'static str {
                let x = x as f64;
                if (0.0..=1.0).contains(&x) {
                    "factor inside [0,1]"
                } else if x.abs() <= 3.0 {
                    "factor outside [0,1], |t| <= 3"
                } else {
                    "factor |t| > 3"
                }
            };
            cx.label(fl(f));
            cx.set_nontrivial(a != b && f != 0.0 && f != 1.0 && k != 0);
            // oracle: component-wise lerp on plain arrays (double-double for the f64 build), its length and direction
            // Ok((direction, length, tolerance of the direction)) unless nothing can be said
            let dir = |x: f64, precise: bool| -> Result<(A4, f64, f64), &'static str> {
                let mut l = [0.0f64; 4];
                for i in 0..4 {
                    let dd = lerp_dd(a[i], b[i], x);
                    l[i] = dd.0 + dd.1; // the unevaluated sum is not normalised: the low part matters under cancellation
                }
                let nl = norm4(&l);
                // rounding error of the component lerp (2-norm, first order), times 1.5:
                //   fast    t.mul_add(to - from, from): eps/2 |to - from| |t| + eps/2 |l|
                //   precise from (1-t) + to t: eps |1-t| |from| (two roundings) + eps/2 |t| |to| + eps/2 |l|
                let err = 1.5 * EPS * if precise { (1.0 - x).abs() * na + 0.5 * x.abs() * nb + 0.5 * nl } else { 0.5 * x.abs() * (na + nb) + 0.5 * nl };
                // genuinely degenerate: the lerped 4-vector cancels down to its own rounding error - relative to the
                // endpoint magnitudes, never an absolute threshold (antipodal ends at factor ~1/2)
                if !(nl >= 8.0 * err) {
                    return Err("unasserted: the lerped vector cancels down to its rounding error (relative to the endpoints)");
                }
                // squaring range of the scalar type, on the vector that is actually squared
                let lk = nl.log2() + k as f64;
                if lk > (KMAX + 2) as f64 || lk < -(KMAX + 1) as f64 {
                    return Err("unasserted: the lerped vector leaves the squaring range of the scalar type");
                }
                // seen from the lerped vector's length; then the normalisation
                Ok((scale4(&l, 1.0 / nl), nl, err / nl + 3.0 * EPS))
            };
            let judge = |cx: &mut Cx, what: &str, got: Q, x: S| -> CaseResult {
                let x = x as f64;
                let r = rd(got);
                match dir(x, what.contains("precise")) {
                    Err(why) => cx.label(why),
                    Ok((want, _, tol)) => {
                        // normalisation of a non-zero vector: 4 products + 3 sums (<= 2 eps on the squared length), sqrt, division
                        check_within!(cx, norm4(&r), 1.0, 3.0 * EPS, "{} from={:?} to={:?} t={:e}: result {:?} is not unit", what, rd(qa), rd(qb), x, r);
                        if tol > 0.1 {
                            cx.label("direction unasserted (ill-conditioned: bound above 0.1), unit norm asserted");
                        } else {
                            check_within!(cx, maxdiff4(&r, &want), 0.0, tol, "{} from={:?} to={:?} t={:e}: got {:?}, normalised component lerp {:?}", what, rd(qa), rd(qb), x, r, want);
                        }
                    }
                }
                Ok(())
            };
            let n = stringify!($S);
            let (fc, scl) = ($clamp(f), $clamp(s));
            let fast = <Q as Lerp<S>>::lerp_unclamped(qa, qb, f);
            let prec = <Q as Lerp<S>>::lerp_unclamped_precise(qa, qb, f);
            judge(cx, &format!("<Quaternion<{}> as Lerp>::lerp_unclamped", n), fast, f)?;
            judge(cx, &format!("<Quaternion<{}> as Lerp>::lerp_unclamped_precise", n), prec, f)?;
            judge(cx, &format!("<Quaternion<{}> as Lerp>::lerp", n), <Q as Lerp<S>>::lerp(qa, qb, f), fc)?;
            judge(cx, &format!("<Quaternion<{}> as Lerp>::lerp_precise", n), <Q as Lerp<S>>::lerp_precise(qa, qb, f), fc)?;
            judge(cx, &format!("<&Quaternion<{}> as Lerp>::lerp_unclamped", n), <&Q as Lerp<S>>::lerp_unclamped(&qa, &qb, f), f)?;
            judge(cx, &format!("<&Quaternion<{}> as Lerp>::lerp_unclamped_precise", n), <&Q as Lerp<S>>::lerp_unclamped_precise(&qa, &qb, f), f)?;
            judge(cx, &format!("<&Quaternion<{}> as Lerp>::lerp", n), <&Q as Lerp<S>>::lerp(&qa, &qb, f), fc)?;
            judge(cx, &format!("<&Quaternion<{}> as Lerp>::lerp_precise", n), <&Q as Lerp<S>>::lerp_precise(&qa, &qb, f), fc)?;
            judge(cx, &format!("<Quaternion<{}> as Lerp>::lerp_unclamped_inclusive_range", n), <Q as Lerp<S>>::lerp_unclamped_inclusive_range(qa..=qb, f), f)?;
            judge(cx, &format!("<Quaternion<{}> as Lerp>::lerp_unclamped_precise_inclusive_range", n), <Q as Lerp<S>>::lerp_unclamped_precise_inclusive_range(qa..=qb, f), f)?;
            judge(cx, &format!("<Quaternion<{}> as Lerp>::lerp_inclusive_range", n), <Q as Lerp<S>>::lerp_inclusive_range(qa..=qb, f), fc)?;
            judge(cx, &format!("<Quaternion<{}> as Lerp>::lerp_precise_inclusive_range", n), <Q as Lerp<S>>::lerp_precise_inclusive_range(qa..=qb, f), fc)?;
            judge(cx, &format!("<&Quaternion<{}> as Lerp>::lerp_unclamped_inclusive_range", n), <&Q as Lerp<S>>::lerp_unclamped_inclusive_range(&qa..=&qb, f), f)?;
            judge(cx, &format!("<&Quaternion<{}> as Lerp>::lerp_unclamped_precise_inclusive_range", n), <&Q as Lerp<S>>::lerp_unclamped_precise_inclusive_range(&qa..=&qb, f), f)?;
            judge(cx, &format!("<&Quaternion<{}> as Lerp>::lerp_inclusive_range", n), <&Q as Lerp<S>>::lerp_inclusive_range(&qa..=&qb, f), fc)?;
            judge(cx, &format!("<&Quaternion<{}> as Lerp>::lerp_precise_inclusive_range", n), <&Q as Lerp<S>>::lerp_precise_inclusive_range(&qa..=&qb, f), fc)?;
            let tr: Transition<Q, IdentityProgressMapper, S> = Transition::with_mapper_and_progress(qa, qb, IdentityProgressMapper, f);
            judge(cx, &format!("Transition<Quaternion<{}>>::current_unclamped", n), tr.current_unclamped(), f)?;
            judge(cx, &format!("Transition<Quaternion<{}>>::current_unclamped_precise", n), tr.current_unclamped_precise(), f)?;
            judge(cx, &format!("Transition<Quaternion<{}>>::current", n), tr.current(), fc)?;
            judge(cx, &format!("Transition<Quaternion<{}>>::current_precise", n), tr.current_precise(), fc)?;
            judge(cx, &format!("Transition<Quaternion<{}>>::into_current_unclamped", n), tr.clone().into_current_unclamped(), f)?;
            judge(cx, &format!("Transition<Quaternion<{}>>::into_current_unclamped_precise", n), tr.clone().into_current_unclamped_precise(), f)?;
            judge(cx, &format!("Transition<Quaternion<{}>>::into_current", n), tr.clone().into_current(), fc)?;
            judge(cx, &format!("Transition<Quaternion<{}>>::into_current_precise", n), tr.clone().into_current_precise(), fc)?;
            // the result depends on the factor: two factors whose lerped directions differ give different results
            let pairs: [(&str, Q, Q, f64, f64); 4] = [
                ("lerp_unclamped", fast, <Q as Lerp<S>>::lerp_unclamped(qa, qb, s), f as f64, s as f64),
                ("lerp_unclamped_precise", prec, <Q as Lerp<S>>::lerp_unclamped_precise(qa, qb, s), f as f64, s as f64),
                ("lerp", <Q as Lerp<S>>::lerp(qa, qb, f), <Q as Lerp<S>>::lerp(qa, qb, s), fc as f64, scl as f64),
                ("&lerp_precise", <&Q as Lerp<S>>::lerp_precise(&qa, &qb, f), <&Q as Lerp<S>>::lerp_precise(&qa, &qb, s), fc as f64, scl as f64),
            ];
            for (name, gf, gs, x, y) in pairs {
                if let (Ok((wf, _, tf)), Ok((ws, _, ts))) = (dir(x, name.contains("precise")), dir(y, name.contains("precise"))) {
                    let sep = maxdiff4(&wf, &ws);
                    let slack = tf + ts;
                    if sep > 4.0 * slack {
                        cx.label("depends-on-factor asserted");
                        check!(cx, maxdiff4(&rd(gf), &rd(gs)) >= 0.5 * sep, "<Quaternion<{}> as Lerp>::{} from={:?} to={:?}: factors {:e} and {:e} give {:?} and {:?}, but the lerped directions {:?} and {:?} differ", n, name, rd(qa), rd(qb), x, y, gf, gs, wf, ws);
                    }
                }
            }
            Ok(())
        }
    };
}
qregime_cases!(f32, u32, clamp01_f32, slerp_pair_f32, nlerp_scaled_f32, 60, 12);
qregime_cases!(f64, u64, clamp01_f64, slerp_pair_f64, nlerp_scaled_f64, 500, 30);
