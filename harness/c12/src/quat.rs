//! Quaternions: nlerp (the `Lerp` impls), the `*_unnormalized` component lerps, slerp (inherent and
//! the `Slerp` trait impls), continuity across the near-parallel fallback.

use crate::check_within;
use crate::util::*;
use vek::ops::{Lerp, Slerp};
use vek::quaternion::repr_c::Quaternion;
use vkit::*;

/// Error budget of slerp / nlerp outputs in units of eps: the weights sin(x a)/sin(a) are bounded by
/// (pi/2)(1+|t|) and their sensitivity to the rounding of the computed dot product grows like |t|^3.
pub fn slerp_tol(eps: f64, t: f64) -> f64 {
    let g = 1.0 + t.abs();
    16.0 * eps * g * g * g
}

/// Unit rational quaternions and exact component lerp of the `*_unnormalized` forms; nlerp endpoints in
/// exact arithmetic (sqrt(1) = 1).
pub fn quat_rat(t: &mut Tape, cx: &mut Cx) -> CaseResult {
    let gen = |t: &mut Tape| -> [Rat; 4] {
        // stereographic image of a small rational point: an exactly unit quaternion
        let u = [<Rat as Dom>::small(t, 5), <Rat as Dom>::small(t, 5), <Rat as Dom>::small(t, 5)];
        let n2 = u[0] * u[0] + u[1] * u[1] + u[2] * u[2];
        let d = n2 + Rat::ONE;
        let two = Rat::int(2);
        let mut q = [two * u[0] / d, two * u[1] / d, two * u[2] / d, (n2 - Rat::ONE) / d];
        q.rotate_left(t.below(4));
        q
    };
    let unit = t.chance(160);
    let (a, b) = if unit {
        (gen(t), gen(t))
    } else {
        let mut a = [Rat::ZERO; 4];
        let mut b = [Rat::ZERO; 4];
        for i in 0..4 {
            a[i] = <Rat as Dom>::any(t, 9);
            b[i] = <Rat as Dom>::any(t, 9);
        }
        (a, b)
    };
    let f = factor_rat(t);
    let fc = clamp01_rat(f);
    let q = |v: &[Rat; 4]| Quaternion { x: v[0], y: v[1], z: v[2], w: v[3] };
    let rd = |v: Quaternion<Rat>| [v.x, v.y, v.z, v.w];
    let (qa, qb) = (q(&a), q(&b));
    sample!(cx, "Quaternion<Rat> from={:?} to={:?} factor={:?} (unit inputs: {})", a, b, f, unit);
    cx.set_nontrivial(a != b && f != Rat::ZERO && f != Rat::ONE);
    cx.label(if unit { "unit-rational-inputs" } else { "arbitrary-rational-inputs" });
    let at = |x: Rat| [a[0] + x * (b[0] - a[0]), a[1] + x * (b[1] - a[1]), a[2] + x * (b[2] - a[2]), a[3] + x * (b[3] - a[3])];
    check_eq!(cx, rd(Quaternion::lerp_unclamped_unnormalized(qa, qb, f)), at(f), "lerp_unclamped_unnormalized from={:?} to={:?} t={:?}", a, b, f);
    check_eq!(cx, rd(Quaternion::lerp_unclamped_precise_unnormalized(qa, qb, f)), at(f), "lerp_unclamped_precise_unnormalized from={:?} to={:?} t={:?}", a, b, f);
    check_eq!(cx, rd(Quaternion::lerp_unnormalized(qa, qb, f)), at(fc), "lerp_unnormalized from={:?} to={:?} t={:?}", a, b, f);
    check_eq!(cx, rd(Quaternion::lerp_precise_unnormalized(qa, qb, f)), at(fc), "lerp_precise_unnormalized from={:?} to={:?} t={:?}", a, b, f);
    check_eq!(cx, rd(Quaternion::lerp_unclamped_unnormalized(qa, qb, Rat::ZERO)), a, "lerp_unclamped_unnormalized at 0");
    check_eq!(cx, rd(Quaternion::lerp_unclamped_precise_unnormalized(qa, qb, Rat::ONE)), b, "lerp_unclamped_precise_unnormalized at 1");
    if unit {
        // nlerp at the ends in exact arithmetic: the component lerp has norm exactly 1 there
        type Q = Quaternion<Rat>;
        check_eq!(cx, rd(<Q as Lerp<Rat>>::lerp_unclamped(qa, qb, Rat::ZERO)), a, "nlerp lerp_unclamped at 0");
        check_eq!(cx, rd(<Q as Lerp<Rat>>::lerp_unclamped(qa, qb, Rat::ONE)), b, "nlerp lerp_unclamped at 1");
        check_eq!(cx, rd(<Q as Lerp<Rat>>::lerp_unclamped_precise(qa, qb, Rat::ZERO)), a, "nlerp lerp_unclamped_precise at 0");
        check_eq!(cx, rd(<Q as Lerp<Rat>>::lerp_unclamped_precise(qa, qb, Rat::ONE)), b, "nlerp lerp_unclamped_precise at 1");
        check_eq!(cx, rd(<Q as Lerp<Rat>>::lerp(qa, qb, Rat::int(-3))), a, "nlerp lerp at -3 (clamps to 0)");
        check_eq!(cx, rd(<Q as Lerp<Rat>>::lerp_precise(qa, qb, Rat::frac(7, 2))), b, "nlerp lerp_precise at 7/2 (clamps to 1)");
        check_eq!(cx, rd(<&Q as Lerp<Rat>>::lerp(&qa, &qb, Rat::int(-3))), a, "&nlerp lerp at -3");
        check_eq!(cx, rd(<&Q as Lerp<Rat>>::lerp_precise_inclusive_range(&qa..=&qb, Rat::frac(7, 2))), b, "&nlerp lerp_precise_inclusive_range at 7/2");
        check_eq!(cx, rd(<Q as Lerp<Rat>>::lerp_unclamped_inclusive_range(qa..=qb, Rat::ONE)), b, "nlerp lerp_unclamped_inclusive_range at 1");
        // identical ends: constant
        check_eq!(cx, rd(<Q as Lerp<Rat>>::lerp_unclamped(qa, qa, f)), a, "nlerp(q, q, t)");
    }
    Ok(())
}

macro_rules! quat_float_cases {
    ($S:ident, $clamp:ident, $nlerp:ident, $slerp:ident, $thresh:ident) => {
        /// nlerp and the unnormalized forms in floats.
        pub fn $nlerp(t: &mut Tape, cx: &mut Cx) -> CaseResult {
            type S = $S;
            type Q = Quaternion<S>;
            const EPS: f64 = $S::EPSILON as f64;
            let q = |v: &A4| Quaternion { x: v[0] as S, y: v[1] as S, z: v[2] as S, w: v[3] as S };
            let rd = |v: Q| -> A4 { [v.x as f64, v.y as f64, v.z as f64, v.w as f64] };
            let bits = |v: Q| [v.x.to_bits(), v.y.to_bits(), v.z.to_bits(), v.w.to_bits()];
            let a0 = gen_unit(t);
            let (mut b0, mut how) = gen_to(t, &a0);
            let unit = !t.chance(64);
            let (sa, mut sb) = if unit { (1.0, 1.0) } else { (t.range_f64(0.25, 4.0), t.range_f64(0.25, 4.0)) };
            // exactly equal endpoints (also non-unit ones): nothing to interpolate, but the result is still q/|q|
            if t.chance(20) {
                b0 = a0;
                sb = sa;
                how = "to == from exactly";
            }
            let (qa, qb) = (q(&scale4(&a0, sa)), q(&scale4(&b0, sb)));
            let (a, b) = (rd(qa), rd(qb));
            let f = factor_f64(t) as S;
            let ft = f as f64;
            let fc = $clamp(f);
            sample!(cx, "Quaternion<{}> nlerp from={:?} to={:?} ({}, unit inputs: {}) factor={:e}", stringify!($S), a, b, how, unit, f);
            cx.label(how);
            cx.label(if unit { "unit-inputs" } else { "non-unit-inputs" });
            cx.set_nontrivial(a != b && f != 0.0 && f != 1.0);
            let (na, nb) = (norm4(&a), norm4(&b));
            let comp_tol = |x: f64| 2.0 * EPS * (na + nb) * (1.0 + x.abs());
            // component lerp of the *_unnormalized forms
            for (name, got, x) in [
                ("lerp_unclamped_unnormalized", rd(Q::lerp_unclamped_unnormalized(qa, qb, f)), ft),
                ("lerp_unclamped_precise_unnormalized", rd(Q::lerp_unclamped_precise_unnormalized(qa, qb, f)), ft),
                ("lerp_unnormalized", rd(Q::lerp_unnormalized(qa, qb, f)), fc as f64),
                ("lerp_precise_unnormalized", rd(Q::lerp_precise_unnormalized(qa, qb, f)), fc as f64),
            ] {
                let want = lin4(&a, 1.0 - x, &b, x);
                check_within!(cx, maxdiff4(&got, &want), 0.0, comp_tol(x), "Quaternion<{}>::{} from={:?} to={:?} t={:e}: got {:?}, component lerp {:?}", stringify!($S), name, a, b, f, got, want);
            }
            // nlerp: unit, and parallel (same direction) to the component lerp
            let fast = <Q as Lerp<S>>::lerp_unclamped(qa, qb, f);
            let prec = <Q as Lerp<S>>::lerp_unclamped_precise(qa, qb, f);
            let cfast = <Q as Lerp<S>>::lerp(qa, qb, f);
            let cprec = <Q as Lerp<S>>::lerp_precise(qa, qb, f);
            for (name, got, x) in [("lerp_unclamped", rd(fast), ft), ("lerp_unclamped_precise", rd(prec), ft), ("lerp", rd(cfast), fc as f64), ("lerp_precise", rd(cprec), fc as f64)] {
                let l = lin4(&a, 1.0 - x, &b, x);
                let nl = norm4(&l);
                // the component lerp must be well away from 0 relative to its own rounding error,
                // otherwise its direction is not determined (e.g. the midpoint of q and -q)
                if nl < 1e-3 * (na + nb) {
                    cx.label("nlerp-degenerate(component lerp ~ 0, unasserted)");
                    continue;
                }
                check_within!(cx, norm4(&got), 1.0, 8.0 * EPS, "<Quaternion<{}> as Lerp>::{} from={:?} to={:?} t={:e}: result {:?} is not unit", stringify!($S), name, a, b, f, got);
                let want = scale4(&l, 1.0 / nl);
                check_within!(cx, maxdiff4(&got, &want), 0.0, 4.0 * comp_tol(x) / nl + 8.0 * EPS, "<Quaternion<{}> as Lerp>::{} from={:?} to={:?} t={:e}: got {:?}, normalized component lerp {:?}", stringify!($S), name, a, b, f, got, want);
            }
            // ends
            let (ua, ub) = (scale4(&a, 1.0 / na), scale4(&b, 1.0 / nb));
            check_within!(cx, maxdiff4(&rd(<Q as Lerp<S>>::lerp_unclamped(qa, qb, 0.0)), &ua), 0.0, 8.0 * EPS, "nlerp {} lerp_unclamped at 0 vs from/|from|, from={:?} to={:?}", stringify!($S), a, b);
            check_within!(cx, maxdiff4(&rd(<Q as Lerp<S>>::lerp_unclamped_precise(qa, qb, 0.0)), &ua), 0.0, 8.0 * EPS, "nlerp {} lerp_unclamped_precise at 0 vs from/|from|, from={:?} to={:?}", stringify!($S), a, b);
            check_within!(cx, maxdiff4(&rd(<Q as Lerp<S>>::lerp_unclamped(qa, qb, 1.0)), &ub), 0.0, 8.0 * EPS * (1.0 + na / nb), "nlerp {} lerp_unclamped at 1 vs to/|to|, from={:?} to={:?}", stringify!($S), a, b);
            check_within!(cx, maxdiff4(&rd(<Q as Lerp<S>>::lerp_unclamped_precise(qa, qb, 1.0)), &ub), 0.0, 8.0 * EPS, "nlerp {} lerp_unclamped_precise at 1 vs to/|to|, from={:?} to={:?}", stringify!($S), a, b);
            // clamped = unclamped at the clamped factor; & and range forms are the same function
            macro_rules! same {
                ($name:expr, $got:expr, $want:expr) => {
                    check_eq!(cx, bits($got), bits($want), "<Quaternion<{}> as Lerp> {} from={:?} to={:?} t={:e}", stringify!($S), $name, a, b, f);
                };
            }
            same!("lerp vs lerp_unclamped at clamp01(t)", cfast, <Q as Lerp<S>>::lerp_unclamped(qa, qb, fc));
            same!("lerp_precise vs lerp_unclamped_precise at clamp01(t)", cprec, <Q as Lerp<S>>::lerp_unclamped_precise(qa, qb, fc));
            same!("&lerp_unclamped", <&Q as Lerp<S>>::lerp_unclamped(&qa, &qb, f), fast);
            same!("&lerp_unclamped_precise", <&Q as Lerp<S>>::lerp_unclamped_precise(&qa, &qb, f), prec);
            same!("&lerp", <&Q as Lerp<S>>::lerp(&qa, &qb, f), cfast);
            same!("&lerp_precise", <&Q as Lerp<S>>::lerp_precise(&qa, &qb, f), cprec);
            same!("lerp_unclamped_inclusive_range", <Q as Lerp<S>>::lerp_unclamped_inclusive_range(qa..=qb, f), fast);
            same!("lerp_unclamped_precise_inclusive_range", <Q as Lerp<S>>::lerp_unclamped_precise_inclusive_range(qa..=qb, f), prec);
            same!("lerp_inclusive_range", <Q as Lerp<S>>::lerp_inclusive_range(qa..=qb, f), cfast);
            same!("lerp_precise_inclusive_range", <Q as Lerp<S>>::lerp_precise_inclusive_range(qa..=qb, f), cprec);
            same!("&lerp_unclamped_inclusive_range", <&Q as Lerp<S>>::lerp_unclamped_inclusive_range(&qa..=&qb, f), fast);
            same!("&lerp_unclamped_precise_inclusive_range", <&Q as Lerp<S>>::lerp_unclamped_precise_inclusive_range(&qa..=&qb, f), prec);
            same!("&lerp_inclusive_range", <&Q as Lerp<S>>::lerp_inclusive_range(&qa..=&qb, f), cfast);
            same!("&lerp_precise_inclusive_range", <&Q as Lerp<S>>::lerp_precise_inclusive_range(&qa..=&qb, f), cprec);
            Ok(())
        }

        /// slerp of unit quaternions.
        pub fn $slerp(t: &mut Tape, cx: &mut Cx) -> CaseResult {
            type S = $S;
            type Q = Quaternion<S>;
            const EPS: f64 = $S::EPSILON as f64;
            let q = |v: &A4| Quaternion { x: v[0] as S, y: v[1] as S, z: v[2] as S, w: v[3] as S };
            let rd = |v: Q| -> A4 { [v.x as f64, v.y as f64, v.z as f64, v.w as f64] };
            let bits = |v: Q| [v.x.to_bits(), v.y.to_bits(), v.z.to_bits(), v.w.to_bits()];
            let a0 = gen_unit(t);
            let (b0, how) = gen_to(t, &a0);
            let (qa, qb) = (q(&a0), q(&b0));
            let (a, b) = (rd(qa), rd(qb));
            let f = match t.below(4) {
                0 => t.range_f64(-2.0, 3.0),
                _ => factor_f64(t),
            } as S;
            let ft = f as f64;
            let fc = $clamp(f);
            let c = dot4(&a, &b);
            // the sign of a dot product this close to zero is decided by rounding: both arcs are "the shorter one"
            let ambiguous = c.abs() < 64.0 * EPS;
            let bb = if c < 0.0 { scale4(&b, -1.0) } else { b };
            let theta = angle4(&a, &bb);
            sample!(cx, "Quaternion<{}> slerp from={:?} to={:?} ({}; dot {:e}, shorter angle {:e}) factor={:e}", stringify!($S), a, b, how, c, theta, f);
            cx.label(how);
            cx.label(if ambiguous { "dot~0(arc choice ambiguous)" } else if c < 0.0 { "dot<0(sign flip)" } else { "dot>0" });
            cx.label(if theta < 1e-3 { "theta<1e-3" } else { "theta>=1e-3" });
            if c.abs() > 1.0 - EPS { cx.label("near-parallel-fallback-region"); }
            if f < 0.0 || f > 1.0 { cx.label("factor-outside-[0,1]"); }
            cx.set_nontrivial(theta >= 1e-3 && !ambiguous && f != 0.0 && f != 1.0);
            let r = Q::slerp_unclamped(qa, qb, f);
            let ra = rd(r);
            let tol = slerp_tol(EPS, ft);
            // stays on the unit sphere
            check_within!(cx, norm4(&ra), 1.0, tol, "Quaternion<{}>::slerp_unclamped from={:?} to={:?} t={:e}: result {:?} not unit", stringify!($S), a, b, f, ra);
            if !ambiguous {
                // the point at angle t*theta from `from` on the shorter arc (constant angular speed)
                let want = slerp_ref(&a, &bb, ft);
                check_within!(cx, maxdiff4(&ra, &want), 0.0, tol, "Quaternion<{}>::slerp_unclamped from={:?} to={:?} t={:e}: got {:?}, want {:?} (shorter arc, angle t*theta, theta={:e})", stringify!($S), a, b, f, ra, want, theta);
                if theta >= 1e-3 {
                    if ft.abs() * theta <= std::f64::consts::PI - 0.01 {
                        check_within!(cx, angle4(&a, &ra), ft.abs() * theta, 4.0 * tol, "Quaternion<{}> slerp: angle(from, result) vs |t|*theta, from={:?} to={:?} t={:e} theta={:e}", stringify!($S), a, b, f, theta);
                    }
                    if (1.0 - ft).abs() * theta <= std::f64::consts::PI - 0.01 {
                        check_within!(cx, angle4(&ra, &bb), (1.0 - ft).abs() * theta, 4.0 * tol, "Quaternion<{}> slerp: angle(result, +-to) vs |1-t|*theta, from={:?} to={:?} t={:e} theta={:e}", stringify!($S), a, b, f, theta);
                    }
                }
            }
            // both ends
            let r0 = rd(Q::slerp_unclamped(qa, qb, 0.0));
            check_within!(cx, maxdiff4(&r0, &a), 0.0, 8.0 * EPS, "Quaternion<{}>::slerp_unclamped(from,to,0) = {:?} vs from={:?} (to={:?})", stringify!($S), r0, a, b);
            let r1 = rd(Q::slerp_unclamped(qa, qb, 1.0));
            let d1 = if ambiguous { maxdiff4(&r1, &b).min(maxdiff4(&r1, &scale4(&b, -1.0))) } else { maxdiff4(&r1, &bb) };
            check_within!(cx, d1, 0.0, 8.0 * EPS, "Quaternion<{}>::slerp_unclamped(from,to,1) = {:?} vs the representative of to={:?} on from's side (from={:?})", stringify!($S), r1, b, a);
            // clamped form, Slerp trait (value and &) = inherent
            let cl = Q::slerp(qa, qb, f);
            check_eq!(cx, bits(cl), bits(Q::slerp_unclamped(qa, qb, fc)), "Quaternion<{}>::slerp(t) vs slerp_unclamped(clamp01 t), from={:?} to={:?} t={:e}", stringify!($S), a, b, f);
            check_eq!(cx, bits(<Q as Slerp<S>>::slerp_unclamped(qa, qb, f)), bits(r), "<Quaternion<{}> as Slerp>::slerp_unclamped vs inherent", stringify!($S));
            check_eq!(cx, bits(<Q as Slerp<S>>::slerp(qa, qb, f)), bits(cl), "<Quaternion<{}> as Slerp>::slerp vs inherent", stringify!($S));
            check_eq!(cx, bits(<&Q as Slerp<S>>::slerp_unclamped(&qa, &qb, f)), bits(r), "<&Quaternion<{}> as Slerp>::slerp_unclamped vs inherent", stringify!($S));
            check_eq!(cx, bits(<&Q as Slerp<S>>::slerp(&qa, &qb, f)), bits(cl), "<&Quaternion<{}> as Slerp>::slerp vs inherent", stringify!($S));
            Ok(())
        }

        /// Continuity across the near-parallel fallback (cos > 1 - eps switches to nlerp): two targets at
        /// angles just below and just above the switch give results that differ by no more than the
        /// targets do (+1e-6), and both are the arc point.
        pub fn $thresh(t: &mut Tape, cx: &mut Cx) -> CaseResult {
            type S = $S;
            type Q = Quaternion<S>;
            const EPS: f64 = $S::EPSILON as f64;
            let q = |v: &A4| Quaternion { x: v[0] as S, y: v[1] as S, z: v[2] as S, w: v[3] as S };
            let rd = |v: Q| -> A4 { [v.x as f64, v.y as f64, v.z as f64, v.w as f64] };
            let a0 = gen_unit(t);
            let e = gen_orth(t, &a0);
            let phi0 = (2.0 * EPS).sqrt();
            let pa = phi0 * t.range_f64(0.1, 0.95);
            let pb = phi0 * t.range_f64(1.1, 4.0);
            let neg = t.bool();
            let sg = if neg { -1.0 } else { 1.0 };
            let qa = q(&a0);
            let a = rd(qa);
            let ta = rd(q(&scale4(&lin4(&a0, pa.cos(), &e, pa.sin()), sg)));
            let tb = rd(q(&scale4(&lin4(&a0, pb.cos(), &e, pb.sin()), sg)));
            let f = if t.bool() { t.unit_f64() } else { factor_f64(t) } as S;
            let ft = f as f64;
            sample!(cx, "Quaternion<{}> slerp near the fallback switch: from={:?}, targets at angles {:e} and {:e} (switch at ~{:e}), negated: {}, factor={:e}", stringify!($S), a, pa, pb, phi0, neg, f);
            cx.set_nontrivial(f != 0.0 && f != 1.0);
            // which branch each target takes, estimated in the scalar type (label only)
            let dot_s = |x: &A4| ((a[0] as S) * (x[0] as S) + (a[1] as S) * (x[1] as S) + (a[2] as S) * (x[2] as S) + (a[3] as S) * (x[3] as S)).abs();
            let fb = |d: S| d > 1.0 - $S::EPSILON;
            match (fb(dot_s(&ta)), fb(dot_s(&tb))) {
                (true, false) => cx.label("straddles-switch(nlerp|sin formula)"),
                (true, true) => cx.label("both-fallback"),
                (false, false) => cx.label("both-sin-formula"),
                (false, true) => cx.label("inverted"),
            }
            if neg { cx.label("negated-target(sign flip + fallback)"); }
            let ra = rd(Q::slerp_unclamped(qa, q(&ta), f));
            let rb = rd(Q::slerp_unclamped(qa, q(&tb), f));
            let tol = slerp_tol(EPS, ft);
            check_within!(cx, norm4(&ra), 1.0, tol, "Quaternion<{}> slerp just inside the fallback not unit: from={:?} to={:?} t={:e} result {:?}", stringify!($S), a, ta, f, ra);
            check_within!(cx, norm4(&rb), 1.0, tol, "Quaternion<{}> slerp just outside the fallback not unit: from={:?} to={:?} t={:e} result {:?}", stringify!($S), a, tb, f, rb);
            let wa = slerp_ref(&a, &scale4(&ta, sg), ft);
            let wb = slerp_ref(&a, &scale4(&tb, sg), ft);
            check_within!(cx, maxdiff4(&ra, &wa), 0.0, tol, "Quaternion<{}> slerp just inside the fallback: from={:?} to={:?} t={:e}: got {:?}, want {:?}", stringify!($S), a, ta, f, ra, wa);
            check_within!(cx, maxdiff4(&rb, &wb), 0.0, tol, "Quaternion<{}> slerp just outside the fallback: from={:?} to={:?} t={:e}: got {:?}, want {:?}", stringify!($S), a, tb, f, rb, wb);
            if ft >= 0.0 && ft <= 1.0 {
                check_within!(cx, maxdiff4(&ra, &rb), 0.0, maxdiff4(&ta, &tb) + 1e-6, "Quaternion<{}> slerp discontinuous across the fallback switch: from={:?}, to={:?} -> {:?}, to={:?} -> {:?}, t={:e}", stringify!($S), a, ta, ra, tb, rb, f);
            }
            Ok(())
        }
    };
}
quat_float_cases!(f32, clamp01_f32, nlerp_f32, slerp_f32, thresh_f32);
quat_float_cases!(f64, clamp01_f64, nlerp_f64, slerp_f64, thresh_f64);

/// `Slerp<f32>` for `Quaternion<f64>` (factor converted with `Into`), value and &.
pub fn slerp_mixed(t: &mut Tape, cx: &mut Cx) -> CaseResult {
    type Q = Quaternion<f64>;
    let q = |v: &A4| Quaternion { x: v[0], y: v[1], z: v[2], w: v[3] };
    let bits = |v: Q| [v.x.to_bits(), v.y.to_bits(), v.z.to_bits(), v.w.to_bits()];
    let a = gen_unit(t);
    let (b, how) = gen_to(t, &a);
    let f = factor_f64(t) as f32;
    let (qa, qb) = (q(&a), q(&b));
    sample!(cx, "Quaternion<f64> with f32 factor: from={:?} to={:?} ({}) factor={:e}", a, b, how, f);
    cx.set_nontrivial(a != b && f != 0.0 && f != 1.0);
    let want = Q::slerp_unclamped(qa, qb, f as f64);
    let wantc = Q::slerp_unclamped(qa, qb, clamp01_f32(f) as f64);
    check_eq!(cx, bits(<Q as Slerp<f32>>::slerp_unclamped(qa, qb, f)), bits(want), "<Quaternion<f64> as Slerp<f32>>::slerp_unclamped vs inherent at f64::from(t)");
    check_eq!(cx, bits(<&Q as Slerp<f32>>::slerp_unclamped(&qa, &qb, f)), bits(want), "<&Quaternion<f64> as Slerp<f32>>::slerp_unclamped vs inherent at f64::from(t)");
    check_eq!(cx, bits(<Q as Slerp<f32>>::slerp(qa, qb, f)), bits(wantc), "<Quaternion<f64> as Slerp<f32>>::slerp vs inherent at clamp01(t)");
    check_eq!(cx, bits(<&Q as Slerp<f32>>::slerp(&qa, &qb, f)), bits(wantc), "<&Quaternion<f64> as Slerp<f32>>::slerp vs inherent at clamp01(t)");
    Ok(())
}
