//! Shared helpers of the C12 checks: factor generators, exact float reference (double-double),
//! plain-array quaternion math used as oracle (never calls vek).

use vkit::*;

pub fn clamp01_rat(x: Rat) -> Rat {
    if x < Rat::ZERO {
        Rat::ZERO
    } else if x > Rat::ONE {
        Rat::ONE
    } else {
        x
    }
}
pub fn clamp01_f64(x: f64) -> f64 {
    if x < 0.0 {
        0.0
    } else if x > 1.0 {
        1.0
    } else {
        x
    }
}
pub fn clamp01_f32(x: f32) -> f32 {
    if x < 0.0 {
        0.0
    } else if x > 1.0 {
        1.0
    } else {
        x
    }
}

/// A rational interpolation factor: endpoints, the middle, values outside [0,1], random fractions.
pub fn factor_rat(t: &mut Tape) -> Rat {
    match t.below(8) {
        0 => t.pick(&[Rat::ZERO, Rat::ONE]),
        1 => Rat::frac(1, 2),
        2 | 3 => {
            let (n, d) = t.pick(&[(-1i64, 1i64), (-1, 2), (3, 2), (2, 1), (-1, 4), (5, 4), (3, 1), (-2, 1), (7, 3), (-5, 3)]);
            Rat::frac(n, d)
        }
        _ => {
            let d = t.pick(&[2i64, 3, 4, 5, 7, 8, 16]);
            // mostly inside (0,1), sometimes outside
            let n = t.int(-d, 2 * d);
            Rat::frac(n, d)
        }
    }
}

/// A float interpolation factor (as f64; exactly representable in f32 when `dyadic` comes up).
pub fn factor_f64(t: &mut Tape) -> f64 {
    match t.below(8) {
        0 => t.pick(&[0.0, 1.0]),
        1 => 0.5,
        2 => t.int(-16, 32) as f64 / 16.0,
        3 => t.range_f64(-2.0, 3.0),
        4 => t.pick(&[-1.0, -0.5, 1.5, 2.0, -0.25, 1.25, 3.0, -2.0]),
        _ => t.unit_f64(),
    }
}

/// Count a comparison `|got - want| <= tol` and record the ratio for the evidence.
pub fn within(cx: &mut Cx, got: f64, want: f64, tol: f64) -> bool {
    cx.count();
    if got == want {
        return true;
    }
    let d = (got - want).abs();
    if !d.is_finite() {
        return false;
    }
    if tol > 0.0 {
        cx.note_err(d / tol);
    }
    d <= tol
}

#[macro_export]
macro_rules! check_within {
    ($cx:expr, $got:expr, $want:expr, $tol:expr, $($arg:tt)*) => {{
        let g: f64 = $got;
        let w: f64 = $want;
        let tl: f64 = $tol;
        if !$crate::util::within($cx, g, w, tl) {
            return Err(vkit::Fail::Violation(format!("{}: got {:e}, want {:e}, |diff| {:e} > tol {:e}", format!($($arg)*), g, w, (g - w).abs(), tl)));
        }
    }};
}

// ---------- exact reference for float lerp: from + t*(to-from) as an unevaluated sum hi+lo ----------

fn two_sum(a: f64, b: f64) -> (f64, f64) {
    let s = a + b;
    let bb = s - a;
    let e = (a - (s - bb)) + (b - bb);
    (s, e)
}
fn two_prod(a: f64, b: f64) -> (f64, f64) {
    let p = a * b;
    let e = a.mul_add(b, -p);
    (p, e)
}
/// from + t*(to-from) with an error of O(eps_f64^2) relative to (|from|+|to|)(1+|t|).
pub fn lerp_dd(from: f64, to: f64, t: f64) -> (f64, f64) {
    let (dh, dl) = two_sum(to, -from);
    let (ph, pl) = two_prod(t, dh);
    let pl = pl + t * dl;
    let (sh, sl) = two_sum(from, ph);
    (sh, sl + pl)
}
/// |got - (hi+lo)|
pub fn dd_err(got: f64, r: (f64, f64)) -> f64 {
    ((got - r.0) - r.1).abs()
}

// ---------- plain-array 4-vectors (quaternion oracle) ----------

pub type A4 = [f64; 4];

pub fn dot4(a: &A4, b: &A4) -> f64 {
    a[0] * b[0] + a[1] * b[1] + a[2] * b[2] + a[3] * b[3]
}
pub fn norm4(a: &A4) -> f64 {
    dot4(a, a).sqrt()
}
pub fn scale4(a: &A4, s: f64) -> A4 {
    [a[0] * s, a[1] * s, a[2] * s, a[3] * s]
}
pub fn add4(a: &A4, b: &A4) -> A4 {
    [a[0] + b[0], a[1] + b[1], a[2] + b[2], a[3] + b[3]]
}
pub fn sub4(a: &A4, b: &A4) -> A4 {
    [a[0] - b[0], a[1] - b[1], a[2] - b[2], a[3] - b[3]]
}
pub fn lin4(a: &A4, wa: f64, b: &A4, wb: f64) -> A4 {
    [a[0] * wa + b[0] * wb, a[1] * wa + b[1] * wb, a[2] * wa + b[2] * wb, a[3] * wa + b[3] * wb]
}
pub fn maxdiff4(a: &A4, b: &A4) -> f64 {
    let mut m = 0.0f64;
    for i in 0..4 {
        let d = (a[i] - b[i]).abs();
        if !(d <= m) {
            m = d; // NaN propagates as "not <="
        }
    }
    m
}
/// Angle between two (nearly) unit vectors in [0, pi], well conditioned everywhere.
pub fn angle4(a: &A4, b: &A4) -> f64 {
    let (na, nb) = (norm4(a), norm4(b));
    let (a, b) = (scale4(a, 1.0 / na), scale4(b, 1.0 / nb));
    2.0 * norm4(&sub4(&a, &b)).atan2(norm4(&add4(&a, &b)))
}
/// Reference slerp of (nearly) unit `from`, `to` with dot >= 0 assumed already arranged by the caller:
/// the point at angle t*theta from `from` on the great arc through `to`.
pub fn slerp_ref(from: &A4, to: &A4, t: f64) -> A4 {
    let theta = angle4(from, to);
    if theta < 1e-150 {
        let l = lin4(from, 1.0 - t, to, t);
        return scale4(&l, 1.0 / norm4(&l));
    }
    let s = theta.sin();
    lin4(from, ((1.0 - t) * theta).sin() / s, to, (t * theta).sin() / s)
}

/// A unit 4-vector: rational points of S^3 (stereographic images of small rational points, signed
/// axis permutations of Pythagorean quadruples) or normalized uniform samples.
pub fn gen_unit(t: &mut Tape) -> A4 {
    match t.below(4) {
        0 => {
            let mut u = [0.0f64; 3];
            for x in u.iter_mut() {
                *x = t.small_int(6) as f64 / t.pick(&[1.0, 1.0, 2.0, 3.0, 4.0]);
            }
            let n2 = u[0] * u[0] + u[1] * u[1] + u[2] * u[2];
            let d = n2 + 1.0;
            [2.0 * u[0] / d, 2.0 * u[1] / d, 2.0 * u[2] / d, (n2 - 1.0) / d]
        }
        1 => {
            let base: [A4; 6] = [
                [0.0, 0.0, 0.0, 1.0],
                [1.0, 0.0, 0.0, 0.0],
                [0.5, 0.5, 0.5, 0.5],
                [0.2, 0.4, 0.4, 0.8],
                [2.0 / 9.0, 4.0 / 9.0, 5.0 / 9.0, 6.0 / 9.0],
                [0.0, 0.6, 0.0, 0.8],
            ];
            let mut q = t.pick(&base);
            let rot = t.below(4);
            q.rotate_left(rot);
            let signs = t.u8();
            for i in 0..4 {
                if signs >> i & 1 == 1 {
                    q[i] = -q[i];
                }
            }
            q
        }
        _ => {
            let mut v = [0.0f64; 4];
            for x in v.iter_mut() {
                *x = t.range_f64(-1.0, 1.0);
            }
            let n = norm4(&v);
            if n < 0.05 {
                [0.0, 0.0, 0.0, 1.0]
            } else {
                scale4(&v, 1.0 / n)
            }
        }
    }
}

/// A unit vector orthogonal to `from`, in a tape-chosen direction.
pub fn gen_orth(t: &mut Tape, from: &A4) -> A4 {
    let fixed = [-from[1], from[0], -from[3], from[2]];
    if t.bool() {
        return fixed;
    }
    let g = gen_unit(t);
    let e = sub4(&g, &scale4(from, dot4(from, &g)));
    let n = norm4(&e);
    if n < 0.1 {
        fixed
    } else {
        scale4(&e, 1.0 / n)
    }
}

/// Second endpoint relative to `from`: identical, antipodal, tiny angle, nearly antipodal, nearly
/// orthogonal, or independent. Returns the vector and a label.
pub fn gen_to(t: &mut Tape, from: &A4) -> (A4, &'static str) {
    let sel = t.below(10);
    match sel {
        0 => (*from, "to==from"),
        1 => (scale4(from, -1.0), "to==-from"),
        2 | 3 | 4 => {
            let e = gen_orth(t, from);
            let phi = 10f64.powf(-t.range_f64(0.3, 9.0));
            let v = lin4(from, phi.cos(), &e, phi.sin());
            match sel {
                2 => (v, "small-angle"),
                3 => (scale4(&v, -1.0), "near-antipodal"),
                _ => {
                    // near orthogonal: angle pi/2 -+ phi
                    let s = if t.bool() { 1.0 } else { -1.0 };
                    let a = std::f64::consts::FRAC_PI_2 + s * phi;
                    (lin4(from, a.cos(), &e, a.sin()), "near-orthogonal")
                }
            }
        }
        5 => (gen_orth(t, from), "orthogonal"),
        _ => (gen_unit(t), "independent"),
    }
}
