//! `Transform` lerp (value and &) and `Transition` / `LinearTransition` accessors.
//!
//! `Probe` is an element type whose `Lerp` impls record *which* required method ran (fast / precise,
//! value / &), on which operands and with which factor, so that wiring (which member, which form, which
//! end first, which factor) is observable exactly.

use crate::check_within;
use crate::quat::slerp_tol;
use crate::util::*;
use num_traits::{One, Zero};
use std::fmt::Debug;
use vek::ops::{Clamp, Lerp, Slerp};
use vek::quaternion::repr_c::Quaternion;
use vek::transform::repr_c::Transform;
use vek::transition::{IdentityProgressMapper, LinearTransition, ProgressMapper, ProgressMapperFn, Transition};
use vek::vec::repr_c::Vec3;
use vkit::*;

#[derive(Clone, Copy, Debug, PartialEq)]
pub struct Rec<F> {
    pub precise: bool,
    pub by_ref: bool,
    pub from: u32,
    pub to: u32,
    pub factor: F,
}
#[derive(Clone, Copy, Debug, PartialEq, Default)]
pub struct Probe<F> {
    pub tag: u32,
    pub rec: Option<Rec<F>>,
}
impl<F> Probe<F> {
    pub fn new(tag: u32) -> Self {
        Probe { tag, rec: None }
    }
    fn out(precise: bool, by_ref: bool, from: u32, to: u32, factor: F) -> Self {
        Probe { tag: 0, rec: Some(Rec { precise, by_ref, from, to, factor }) }
    }
}
impl<F: Copy> Lerp<F> for Probe<F> {
    type Output = Probe<F>;
    fn lerp_unclamped(from: Self, to: Self, factor: F) -> Probe<F> {
        Probe::out(false, false, from.tag, to.tag, factor)
    }
    fn lerp_unclamped_precise(from: Self, to: Self, factor: F) -> Probe<F> {
        Probe::out(true, false, from.tag, to.tag, factor)
    }
}
impl<'a, F: Copy> Lerp<F> for &'a Probe<F> {
    type Output = Probe<F>;
    fn lerp_unclamped(from: Self, to: Self, factor: F) -> Probe<F> {
        Probe::out(false, true, from.tag, to.tag, factor)
    }
    fn lerp_unclamped_precise(from: Self, to: Self, factor: F) -> Probe<F> {
        Probe::out(true, true, from.tag, to.tag, factor)
    }
}

// ------------------------------------------------------------------------------------------------
// Transform
// ------------------------------------------------------------------------------------------------

macro_rules! transform_case {
    ($fname:ident, $S:ident, $clamp:ident) => {
        pub fn $fname(t: &mut Tape, cx: &mut Cx) -> CaseResult {
            type S = $S;
            type Q = Quaternion<S>;
            type T = Transform<S, S, S>;
            const EPS: f64 = $S::EPSILON as f64;
            let q = |v: &A4| Quaternion { x: v[0] as S, y: v[1] as S, z: v[2] as S, w: v[3] as S };
            let rq = |v: Q| -> A4 { [v.x as f64, v.y as f64, v.z as f64, v.w as f64] };
            let r3 = |v: Vec3<S>| [v.x as f64, v.y as f64, v.z as f64];
            let g3 = |t: &mut Tape| Vec3 { x: <S as Dom>::any(t, 20), y: <S as Dom>::any(t, 20), z: <S as Dom>::any(t, 20) };
            let a0 = gen_unit(t);
            let (b0, how) = gen_to(t, &a0);
            let a = Transform { position: g3(t), orientation: q(&a0), scale: g3(t) };
            let b = Transform { position: g3(t), orientation: q(&b0), scale: g3(t) };
            let f = factor_f64(t) as S;
            let ft = f as f64;
            let fc = $clamp(f);
            sample!(cx, "Transform<{}> a={:?} b={:?} ({}) factor={:e}", stringify!($S), a, b, how, f);
            cx.label(how);
            cx.set_nontrivial(a.position != b.position && a.scale != b.scale && a.position != a.scale && b.position != b.scale && a.orientation != b.orientation && f != 0.0 && f != 1.0);
            let fast = <T as Lerp<S>>::lerp_unclamped(a, b, f);
            let prec = <T as Lerp<S>>::lerp_unclamped_precise(a, b, f);
            let cfast = <T as Lerp<S>>::lerp(a, b, f);
            let cprec = <T as Lerp<S>>::lerp_precise(a, b, f);
            // = (lerp position, slerp orientation, lerp scale), the pieces called directly
            let pieces = |precise: bool, x: S| -> T {
                if precise {
                    Transform { position: <Vec3<S> as Lerp<S>>::lerp_unclamped_precise(a.position, b.position, x), orientation: Q::slerp_unclamped(a.orientation, b.orientation, x), scale: <Vec3<S> as Lerp<S>>::lerp_unclamped_precise(a.scale, b.scale, x) }
                } else {
                    Transform { position: <Vec3<S> as Lerp<S>>::lerp_unclamped(a.position, b.position, x), orientation: Q::slerp_unclamped(a.orientation, b.orientation, x), scale: <Vec3<S> as Lerp<S>>::lerp_unclamped(a.scale, b.scale, x) }
                }
            };
            check_eq!(cx, fast, pieces(false, f), "<Transform<{}> as Lerp>::lerp_unclamped vs (lerp position, slerp orientation, lerp scale); a={:?} b={:?} t={:e}", stringify!($S), a, b, f);
            check_eq!(cx, prec, pieces(true, f), "<Transform<{}> as Lerp>::lerp_unclamped_precise vs (lerp_precise position, slerp orientation, lerp_precise scale); a={:?} b={:?} t={:e}", stringify!($S), a, b, f);
            check_eq!(cx, cfast, pieces(false, fc), "<Transform<{}> as Lerp>::lerp vs pieces at clamp01(t); a={:?} b={:?} t={:e}", stringify!($S), a, b, f);
            check_eq!(cx, cprec, pieces(true, fc), "<Transform<{}> as Lerp>::lerp_precise vs pieces at clamp01(t); a={:?} b={:?} t={:e}", stringify!($S), a, b, f);
            // & forms and range forms
            check_eq!(cx, <&T as Lerp<S>>::lerp_unclamped(&a, &b, f), fast, "<&Transform<{}> as Lerp>::lerp_unclamped vs value form", stringify!($S));
            check_eq!(cx, <&T as Lerp<S>>::lerp_unclamped_precise(&a, &b, f), prec, "<&Transform<{}> as Lerp>::lerp_unclamped_precise vs value form", stringify!($S));
            check_eq!(cx, <&T as Lerp<S>>::lerp(&a, &b, f), cfast, "<&Transform<{}> as Lerp>::lerp vs value form", stringify!($S));
            check_eq!(cx, <&T as Lerp<S>>::lerp_precise(&a, &b, f), cprec, "<&Transform<{}> as Lerp>::lerp_precise vs value form", stringify!($S));
            check_eq!(cx, <T as Lerp<S>>::lerp_unclamped_inclusive_range(a..=b, f), fast, "<Transform<{}> as Lerp>::lerp_unclamped_inclusive_range", stringify!($S));
            check_eq!(cx, <T as Lerp<S>>::lerp_precise_inclusive_range(a..=b, f), cprec, "<Transform<{}> as Lerp>::lerp_precise_inclusive_range", stringify!($S));
            check_eq!(cx, <&T as Lerp<S>>::lerp_inclusive_range(&a..=&b, f), cfast, "<&Transform<{}> as Lerp>::lerp_inclusive_range", stringify!($S));
            check_eq!(cx, <&T as Lerp<S>>::lerp_unclamped_precise_inclusive_range(&a..=&b, f), prec, "<&Transform<{}> as Lerp>::lerp_unclamped_precise_inclusive_range", stringify!($S));
            // independent oracle: exact component lerp, reference slerp
            let (pa, pb, sa, sb) = (r3(a.position), r3(b.position), r3(a.scale), r3(b.scale));
            for (name, got, x) in [("lerp_unclamped", fast, ft), ("lerp_unclamped_precise", prec, ft), ("lerp", cfast, fc as f64), ("lerp_precise", cprec, fc as f64)] {
                let (gp, gs) = (r3(got.position), r3(got.scale));
                for i in 0..3 {
                    let tolp = 2.0 * EPS * (pa[i].abs() + pb[i].abs()) * (1.0 + x.abs()) + 1e-300;
                    check_within!(cx, dd_err(gp[i], lerp_dd(pa[i], pb[i], x)), 0.0, tolp, "Transform<{}> {} position lane {}: a={:?} b={:?} t={:e}", stringify!($S), name, i, a, b, x);
                    let tols = 2.0 * EPS * (sa[i].abs() + sb[i].abs()) * (1.0 + x.abs()) + 1e-300;
                    check_within!(cx, dd_err(gs[i], lerp_dd(sa[i], sb[i], x)), 0.0, tols, "Transform<{}> {} scale lane {}: a={:?} b={:?} t={:e}", stringify!($S), name, i, a, b, x);
                }
                let (oa, ob) = (rq(a.orientation), rq(b.orientation));
                let c = dot4(&oa, &ob);
                let go = rq(got.orientation);
                check_within!(cx, norm4(&go), 1.0, slerp_tol(EPS, x), "Transform<{}> {} orientation not unit: a={:?} b={:?} t={:e}", stringify!($S), name, a, b, x);
                if c.abs() >= 64.0 * EPS {
                    let obb = if c < 0.0 { scale4(&ob, -1.0) } else { ob };
                    let want = slerp_ref(&oa, &obb, x);
                    check_within!(cx, maxdiff4(&go, &want), 0.0, slerp_tol(EPS, x), "Transform<{}> {} orientation vs reference slerp: a={:?} b={:?} t={:e} got {:?} want {:?}", stringify!($S), name, a, b, x, go, want);
                }
            }
            // ends: position/scale exactly, orientation to rounding
            let z = <T as Lerp<S>>::lerp(a, b, 0.0);
            let zp = <&T as Lerp<S>>::lerp_precise(&a, &b, 0.0);
            let op = <T as Lerp<S>>::lerp_precise(a, b, 1.0);
            check!(cx, z.position == a.position && z.scale == a.scale && zp.position == a.position && zp.scale == a.scale, "Transform<{}> lerp at 0: position/scale differ from a: {:?} / {:?} vs {:?}", stringify!($S), z, zp, a);
            check!(cx, op.position == b.position && op.scale == b.scale, "Transform<{}> lerp_precise at 1: position/scale differ from b: {:?} vs {:?}", stringify!($S), op, b);
            check_within!(cx, maxdiff4(&rq(z.orientation), &rq(a.orientation)), 0.0, 8.0 * EPS, "Transform<{}> lerp at 0: orientation {:?} vs a's {:?}", stringify!($S), z.orientation, a.orientation);
            let ob = rq(b.orientation);
            let o1 = rq(op.orientation);
            check_within!(cx, maxdiff4(&o1, &ob).min(maxdiff4(&o1, &scale4(&ob, -1.0))), 0.0, 8.0 * EPS, "Transform<{}> lerp_precise at 1: orientation {:?} vs +-b's {:?}", stringify!($S), op.orientation, b.orientation);
            Ok(())
        }
    };
}
transform_case!(transform_f32, f32, clamp01_f32);
transform_case!(transform_f64, f64, clamp01_f64);

/// Transform over recording elements (position and scale lanes are `Probe`s), and a mixed
/// `Transform<i32, f64, i32>` with an f32 factor.
pub fn transform_probe(t: &mut Tape, cx: &mut Cx) -> CaseResult {
    type P = Probe<f32>;
    type T = Transform<P, f64, P>;
    let q = |v: &A4| Quaternion { x: v[0], y: v[1], z: v[2], w: v[3] };
    let a0 = gen_unit(t);
    let (b0, how) = gen_to(t, &a0);
    let base = t.below(100) as u32 * 100;
    let v3 = |k: u32| Vec3 { x: P::new(base + k), y: P::new(base + k + 1), z: P::new(base + k + 2) };
    let a = Transform { position: v3(1), orientation: q(&a0), scale: v3(4) };
    let b = Transform { position: v3(11), orientation: q(&b0), scale: v3(14) };
    let f = factor_f64(t) as f32;
    let fc = clamp01_f32(f);
    sample!(cx, "Transform<Probe,f64,Probe> tags base {} orientations {:?} -> {:?} ({}) factor={:e}", base, a0, b0, how, f);
    cx.set_nontrivial(f != 0.0 && f != 1.0 && a0 != b0);
    let expect = |precise: bool, by_ref: bool, x: f32| -> (Vec3<P>, Vec3<P>) {
        let e = |from: u32, to: u32| Probe { tag: 0, rec: Some(Rec { precise, by_ref, from: base + from, to: base + to, factor: x }) };
        (Vec3 { x: e(1, 11), y: e(2, 12), z: e(3, 13) }, Vec3 { x: e(4, 14), y: e(5, 15), z: e(6, 16) })
    };
    let bits = |v: Quaternion<f64>| [v.x.to_bits(), v.y.to_bits(), v.z.to_bits(), v.w.to_bits()];
    let mut one = |name: &str, got: T, precise: bool, by_ref: bool, x: f32| -> CaseResult {
        let (wp, ws) = expect(precise, by_ref, x);
        check_eq!(cx, got.position, wp, "Transform {}: position lanes must be the {} {} lerp of the two positions, lane by lane, at factor {:e}", name, if precise { "precise" } else { "fast" }, if by_ref { "&" } else { "value" }, x);
        check_eq!(cx, got.scale, ws, "Transform {}: scale lanes must be the {} {} lerp of the two scales, lane by lane, at factor {:e}", name, if precise { "precise" } else { "fast" }, if by_ref { "&" } else { "value" }, x);
        check_eq!(cx, bits(got.orientation), bits(Quaternion::<f64>::slerp_unclamped(a.orientation, b.orientation, x as f64)), "Transform {}: orientation must be slerp_unclamped of the orientations at f64::from({:e})", name, x);
        Ok(())
    };
    one("lerp_unclamped", <T as Lerp<f32>>::lerp_unclamped(a, b, f), false, false, f)?;
    one("lerp_unclamped_precise", <T as Lerp<f32>>::lerp_unclamped_precise(a, b, f), true, false, f)?;
    one("lerp", <T as Lerp<f32>>::lerp(a, b, f), false, false, fc)?;
    one("lerp_precise", <T as Lerp<f32>>::lerp_precise(a, b, f), true, false, fc)?;
    one("&lerp_unclamped", <&T as Lerp<f32>>::lerp_unclamped(&a, &b, f), false, true, f)?;
    one("&lerp_unclamped_precise", <&T as Lerp<f32>>::lerp_unclamped_precise(&a, &b, f), true, true, f)?;
    one("&lerp", <&T as Lerp<f32>>::lerp(&a, &b, f), false, true, fc)?;
    one("&lerp_precise", <&T as Lerp<f32>>::lerp_precise(&a, &b, f), true, true, fc)?;
    one("lerp_inclusive_range", <T as Lerp<f32>>::lerp_inclusive_range(a..=b, f), false, false, fc)?;
    one("&lerp_unclamped_precise_inclusive_range", <&T as Lerp<f32>>::lerp_unclamped_precise_inclusive_range(&a..=&b, f), true, true, f)?;
    // integer position/scale, f64 orientation, f32 factor (dyadic: exact)
    type M = Transform<i32, f64, i32>;
    let gi = |t: &mut Tape| Vec3 { x: t.int(-1000, 1000) as i32, y: t.int(-1000, 1000) as i32, z: t.int(-1000, 1000) as i32 };
    let ma: M = Transform { position: gi(t), orientation: q(&a0), scale: gi(t) };
    let mb: M = Transform { position: gi(t), orientation: q(&b0), scale: gi(t) };
    let k = t.int(-16, 32) as i32;
    let kf = k as f32 / 16.0;
    let want = |from: Vec3<i32>, to: Vec3<i32>, kk: i32| {
        let w = |p: i32, q: i32| crate::ints::round16(16 * p as i128 + kk as i128 * (q as i128 - p as i128)) as i32;
        Vec3 { x: w(from.x, to.x), y: w(from.y, to.y), z: w(from.z, to.z) }
    };
    for (name, got, kk) in [
        ("lerp_unclamped", <M as Lerp<f32>>::lerp_unclamped(ma, mb, kf), k),
        ("lerp_unclamped_precise", <M as Lerp<f32>>::lerp_unclamped_precise(ma, mb, kf), k),
        ("lerp", <M as Lerp<f32>>::lerp(ma, mb, kf), k.clamp(0, 16)),
        ("&lerp_precise", <&M as Lerp<f32>>::lerp_precise(&ma, &mb, kf), k.clamp(0, 16)),
    ] {
        check_eq!(cx, got.position, want(ma.position, mb.position, kk), "Transform<i32,f64,i32> {} position a={:?} b={:?} t={}", name, ma, mb, kf);
        check_eq!(cx, got.scale, want(ma.scale, mb.scale, kk), "Transform<i32,f64,i32> {} scale a={:?} b={:?} t={}", name, ma, mb, kf);
        let x = kk as f64 / 16.0;
        check_eq!(cx, bits(got.orientation), bits(<Quaternion<f64> as Slerp<f64>>::slerp_unclamped(ma.orientation, mb.orientation, x)), "Transform<i32,f64,i32> {} orientation a={:?} b={:?} t={}", name, ma, mb, kf);
    }
    Ok(())
}

// ------------------------------------------------------------------------------------------------
// Transition
// ------------------------------------------------------------------------------------------------

/// A user-defined progress mapper (not one of vek's): t -> 2t - 1/4.
#[derive(Clone, Copy, Debug, Default, PartialEq)]
pub struct Affine;
impl ProgressMapper<Rat> for Affine {
    fn map_progress(&self, p: Rat) -> Rat {
        Rat::int(2) * p - Rat::frac(1, 4)
    }
}
impl ProgressMapper<f32> for Affine {
    fn map_progress(&self, p: f32) -> f32 {
        2.0 * p - 0.25
    }
}
impl ProgressMapper<f64> for Affine {
    fn map_progress(&self, p: f64) -> f64 {
        2.0 * p - 0.25
    }
}
fn sq_rat(p: Rat) -> Rat {
    p * p
}
fn inv_rat(p: Rat) -> Rat {
    Rat::ONE - p
}
fn sq_f32(p: f32) -> f32 {
    p * p
}
fn inv_f32(p: f32) -> f32 {
    1.0 - p
}
fn sq_f64(p: f64) -> f64 {
    p * p
}
fn inv_f64(p: f64) -> f64 {
    1.0 - p
}

/// All eight accessors against the corresponding `Lerp` method at the mapped progress `mp`
/// (computed by the caller, not through the mapper object).
fn accessors<T, P, M>(cx: &mut Cx, what: &str, start: &T, end: &T, p: P, m: M, mp: P) -> CaseResult
where
    T: Clone + PartialEq + Debug + Lerp<P, Output = T>,
    for<'a> &'a T: Lerp<P, Output = T>,
    P: Copy + Debug + Clamp + Zero + One,
    M: ProgressMapper<P> + Clone,
{
    let tr: Transition<T, M, P> = Transition::with_mapper_and_progress(start.clone(), end.clone(), m.clone(), p);
    let s = || start.clone();
    let e = || end.clone();
    check_eq!(cx, tr.current(), <&T as Lerp<P>>::lerp(start, end, mp), "{}: current() vs Lerp::lerp(&start,&end, mapper(progress)) progress={:?} mapped={:?}", what, p, mp);
    check_eq!(cx, tr.current_unclamped(), <&T as Lerp<P>>::lerp_unclamped(start, end, mp), "{}: current_unclamped() vs Lerp::lerp_unclamped(&start,&end, mapper(progress)) progress={:?} mapped={:?}", what, p, mp);
    check_eq!(cx, tr.current_precise(), <&T as Lerp<P>>::lerp_precise(start, end, mp), "{}: current_precise() vs Lerp::lerp_precise(&start,&end, mapper(progress)) progress={:?} mapped={:?}", what, p, mp);
    check_eq!(cx, tr.current_unclamped_precise(), <&T as Lerp<P>>::lerp_unclamped_precise(start, end, mp), "{}: current_unclamped_precise() vs Lerp::lerp_unclamped_precise(&start,&end, mapper(progress)) progress={:?} mapped={:?}", what, p, mp);
    check_eq!(cx, tr.clone().into_current(), <T as Lerp<P>>::lerp(s(), e(), mp), "{}: into_current() vs Lerp::lerp(start,end, mapper(progress)) progress={:?} mapped={:?}", what, p, mp);
    check_eq!(cx, tr.clone().into_current_unclamped(), <T as Lerp<P>>::lerp_unclamped(s(), e(), mp), "{}: into_current_unclamped() vs Lerp::lerp_unclamped(start,end, mapper(progress)) progress={:?} mapped={:?}", what, p, mp);
    check_eq!(cx, tr.clone().into_current_precise(), <T as Lerp<P>>::lerp_precise(s(), e(), mp), "{}: into_current_precise() vs Lerp::lerp_precise(start,end, mapper(progress)) progress={:?} mapped={:?}", what, p, mp);
    check_eq!(cx, tr.clone().into_current_unclamped_precise(), <T as Lerp<P>>::lerp_unclamped_precise(s(), e(), mp), "{}: into_current_unclamped_precise() vs Lerp::lerp_unclamped_precise(start,end, mapper(progress)) progress={:?} mapped={:?}", what, p, mp);
    // the accessors by reference leave the transition untouched
    check!(cx, tr.start == *start && tr.end == *end, "{}: accessors by reference changed start/end", what);
    let r = tr.into_range();
    check!(cx, r.start == *start && r.end == *end, "{}: into_range() = {:?}..{:?}", what, r.start, r.end);
    Ok(())
}

/// The same, with the exact expected record spelled out for `Probe` elements.
fn probe_accessors<P, M>(cx: &mut Cx, what: &str, p: P, m: M, mp: P, mpc: P) -> CaseResult
where
    P: Copy + Debug + PartialEq + Clamp + Zero + One,
    M: ProgressMapper<P> + Clone,
{
    let (s, e) = (Probe::<P>::new(7), Probe::<P>::new(9));
    let tr: Transition<Probe<P>, M, P> = Transition::with_mapper_and_progress(s, e, m, p);
    let want = |precise: bool, by_ref: bool, factor: P| Probe { tag: 0, rec: Some(Rec { precise, by_ref, from: 7, to: 9, factor }) };
    check_eq!(cx, tr.current(), want(false, true, mpc), "{}: current() must be the fast & lerp of (start, end) at clamp01(mapper(progress)), progress={:?}", what, p);
    check_eq!(cx, tr.current_unclamped(), want(false, true, mp), "{}: current_unclamped() must be the fast & lerp of (start, end) at mapper(progress), progress={:?}", what, p);
    check_eq!(cx, tr.current_precise(), want(true, true, mpc), "{}: current_precise() must be the precise & lerp of (start, end) at clamp01(mapper(progress)), progress={:?}", what, p);
    check_eq!(cx, tr.current_unclamped_precise(), want(true, true, mp), "{}: current_unclamped_precise() must be the precise & lerp of (start, end) at mapper(progress), progress={:?}", what, p);
    check_eq!(cx, tr.clone().into_current(), want(false, false, mpc), "{}: into_current() must be the fast value lerp of (start, end) at clamp01(mapper(progress)), progress={:?}", what, p);
    check_eq!(cx, tr.clone().into_current_unclamped(), want(false, false, mp), "{}: into_current_unclamped() must be the fast value lerp of (start, end) at mapper(progress), progress={:?}", what, p);
    check_eq!(cx, tr.clone().into_current_precise(), want(true, false, mpc), "{}: into_current_precise() must be the precise value lerp of (start, end) at clamp01(mapper(progress)), progress={:?}", what, p);
    check_eq!(cx, tr.clone().into_current_unclamped_precise(), want(true, false, mp), "{}: into_current_unclamped_precise() must be the precise value lerp of (start, end) at mapper(progress), progress={:?}", what, p);
    Ok(())
}

/// Exact arithmetic: `Rat` progress; elements `Rat`, `Vec3<Rat>`, `Probe<Rat>`; constructors.
pub fn transition_rat(t: &mut Tape, cx: &mut Cx) -> CaseResult {
    let p = factor_rat(t);
    let (s, e) = (<Rat as Dom>::any(t, 30), <Rat as Dom>::any(t, 30));
    let g3 = |t: &mut Tape| Vec3 { x: <Rat as Dom>::any(t, 9), y: <Rat as Dom>::any(t, 9), z: <Rat as Dom>::any(t, 9) };
    let (vs, ve) = (g3(t), g3(t));
    sample!(cx, "Transition<_, _, Rat> progress={:?} Rat {:?}->{:?} Vec3 {:?}->{:?}", p, s, e, vs, ve);
    cx.set_nontrivial(s != e && vs != ve && p != Rat::ZERO && p != Rat::ONE);
    if p < Rat::ZERO || p > Rat::ONE {
        cx.label("progress-outside-[0,1]");
    }
    let sq: ProgressMapperFn<Rat> = ProgressMapperFn(sq_rat);
    let inv: ProgressMapperFn<Rat> = ProgressMapperFn::from(inv_rat as fn(Rat) -> Rat);
    let maps: [(&str, Rat); 4] = [("identity", p), ("t^2", p * p), ("1-t", Rat::ONE - p), ("2t-1/4", Rat::int(2) * p - Rat::frac(1, 4))];
    // mapper objects answer what they are documented to
    check_eq!(cx, IdentityProgressMapper.map_progress(p), p, "IdentityProgressMapper.map_progress");
    check_eq!(cx, sq.map_progress(p), p * p, "ProgressMapperFn(t^2).map_progress");
    check_eq!(cx, inv.map_progress(p), Rat::ONE - p, "ProgressMapperFn::from(1-t).map_progress");
    check_eq!(cx, ProgressMapperFn::<Rat>::default().map_progress(p), p, "ProgressMapperFn::default() is the identity");
    if maps.iter().any(|(_, m)| *m < Rat::ZERO || *m > Rat::ONE) {
        cx.label("mapped-progress-clamps");
    }
    // Rat
    accessors::<Rat, Rat, _>(cx, "Transition<Rat, Identity>", &s, &e, p, IdentityProgressMapper, maps[0].1)?;
    accessors::<Rat, Rat, _>(cx, "Transition<Rat, Fn(t^2)>", &s, &e, p, sq, maps[1].1)?;
    accessors::<Rat, Rat, _>(cx, "Transition<Rat, Fn(1-t)>", &s, &e, p, inv, maps[2].1)?;
    accessors::<Rat, Rat, _>(cx, "Transition<Rat, Affine>", &s, &e, p, Affine, maps[3].1)?;
    // and against the closed form
    let at = |x: Rat| s + x * (e - s);
    let tr = Transition::with_mapper_and_progress(s, e, sq, p);
    check_eq!(cx, tr.current_unclamped(), at(p * p), "Transition<Rat, t^2>.current_unclamped() vs start + t^2 (end-start)");
    check_eq!(cx, tr.current_precise(), at(clamp01_rat(p * p)), "Transition<Rat, t^2>.current_precise() vs start + clamp01(t^2) (end-start)");
    let tr = Transition::with_mapper_and_progress(s, e, inv, p);
    check_eq!(cx, tr.into_current(), at(clamp01_rat(Rat::ONE - p)), "Transition<Rat, 1-t>.into_current() vs start + clamp01(1-t) (end-start)");
    // Vec3<Rat>
    accessors::<Vec3<Rat>, Rat, _>(cx, "Transition<Vec3<Rat>, Identity>", &vs, &ve, p, IdentityProgressMapper, maps[0].1)?;
    accessors::<Vec3<Rat>, Rat, _>(cx, "Transition<Vec3<Rat>, Fn(t^2)>", &vs, &ve, p, sq, maps[1].1)?;
    accessors::<Vec3<Rat>, Rat, _>(cx, "Transition<Vec3<Rat>, Fn(1-t)>", &vs, &ve, p, inv, maps[2].1)?;
    accessors::<Vec3<Rat>, Rat, _>(cx, "Transition<Vec3<Rat>, Affine>", &vs, &ve, p, Affine, maps[3].1)?;
    // Probe: which Lerp method, which operands, which factor
    probe_accessors::<Rat, _>(cx, "Transition<Probe, Identity>", p, IdentityProgressMapper, maps[0].1, clamp01_rat(maps[0].1))?;
    probe_accessors(cx, "Transition<Probe, Fn(t^2)>", p, sq, maps[1].1, clamp01_rat(maps[1].1))?;
    probe_accessors(cx, "Transition<Probe, Fn(1-t)>", p, inv, maps[2].1, clamp01_rat(maps[2].1))?;
    probe_accessors(cx, "Transition<Probe, Affine>", p, Affine, maps[3].1, clamp01_rat(maps[3].1))?;
    // constructors
    let c: Transition<Rat, ProgressMapperFn<Rat>, Rat> = Transition::with_mapper(s, e, sq);
    check!(cx, c.start == s && c.end == e && c.progress == Rat::ZERO && c.progress_mapper.map_progress(Rat::int(3)) == Rat::int(9), "with_mapper: {:?}", c);
    let c: Transition<Rat, ProgressMapperFn<Rat>, Rat> = Transition::with_mapper_and_progress(s, e, inv, p);
    check!(cx, c.start == s && c.end == e && c.progress == p && c.progress_mapper.map_progress(Rat::int(3)) == Rat::int(-2), "with_mapper_and_progress: {:?}", c);
    let r = c.into_range();
    check!(cx, r.start == s && r.end == e, "into_range: {:?}", r);
    let c: Transition<Rat, IdentityProgressMapper, Rat> = Transition::from(s..e);
    check!(cx, c.start == s && c.end == e && c.progress == Rat::ZERO, "From<Range>: {:?}", c);
    check_eq!(cx, c.current(), s, "From<Range>(s..e).current() is the start (progress 0)");
    let c: Transition<Rat, ProgressMapperFn<Rat>, Rat> = Transition::from(s..e);
    check!(cx, c.start == s && c.end == e && c.progress == Rat::ZERO && c.progress_mapper.map_progress(p) == p, "From<Range> with ProgressMapperFn: default mapper is the identity: {:?}", c);
    let c: Transition<Vec3<Rat>, IdentityProgressMapper, Rat> = Transition::default();
    check!(cx, c.start == Vec3::<Rat>::default() && c.end == Vec3::<Rat>::default() && c.progress == Rat::ZERO, "Default: {:?}", c);
    let c: Transition<Rat, ProgressMapperFn<Rat>, Rat> = Default::default();
    check!(cx, c.start == Rat::ZERO && c.end == Rat::ZERO && c.progress == Rat::ZERO && c.progress_mapper.map_progress(p) == p, "Default with ProgressMapperFn: {:?}", c);
    let c: LinearTransition<Rat, Rat> = LinearTransition::new(s, e);
    check!(cx, c.start == s && c.end == e && c.progress == Rat::ZERO, "LinearTransition::new: {:?}", c);
    check_eq!(cx, c.current_unclamped_precise(), s, "LinearTransition::new(s,e).current_unclamped_precise() is the start");
    let c: LinearTransition<Rat, Rat> = LinearTransition::with_progress(s, e, p);
    check!(cx, c.start == s && c.end == e && c.progress == p, "LinearTransition::with_progress: {:?}", c);
    check_eq!(cx, c.current_unclamped(), at(p), "LinearTransition::with_progress(s,e,p).current_unclamped() vs s + p (e-s)");
    check_eq!(cx, c.current(), at(clamp01_rat(p)), "LinearTransition::with_progress(s,e,p).current() vs s + clamp01(p) (e-s)");
    let c: LinearTransition<Rat, Rat> = LinearTransition::with_progress(s, e, Rat::ONE);
    check_eq!(cx, c.into_current_precise(), e, "LinearTransition at progress 1 is the end");
    Ok(())
}

/// Float progress: elements f32, i32, Vec3<f32>, Quaternion<f32>, Transform<f32,f32,f32> (progress f32),
/// f64 and Probe<f64> (progress f64).
pub fn transition_float(t: &mut Tape, cx: &mut Cx) -> CaseResult {
    let p = factor_f64(t) as f32;
    let (s, e) = (<f32 as Dom>::any(t, 50), <f32 as Dom>::any(t, 50));
    let (is, ie) = (t.int(-30000, 30000) as i32, t.int(-30000, 30000) as i32);
    let g3 = |t: &mut Tape| Vec3 { x: <f32 as Dom>::any(t, 9), y: <f32 as Dom>::any(t, 9), z: <f32 as Dom>::any(t, 9) };
    let (vs, ve) = (g3(t), g3(t));
    let q = |v: &A4| Quaternion { x: v[0] as f32, y: v[1] as f32, z: v[2] as f32, w: v[3] as f32 };
    let a0 = gen_unit(t);
    let (b0, _) = gen_to(t, &a0);
    let (qs, qe) = (q(&a0), q(&b0));
    let (xs, xe) = (Transform { position: vs, orientation: qs, scale: g3(t) }, Transform { position: ve, orientation: qe, scale: g3(t) });
    sample!(cx, "Transition<_, _, f32> progress={:e} f32 {:e}->{:e} i32 {}->{} Vec3 {:?}->{:?} Quaternion {:?}->{:?}", p, s, e, is, ie, vs, ve, qs, qe);
    cx.set_nontrivial(s != e && is != ie && vs != ve && p != 0.0 && p != 1.0);
    if p < 0.0 || p > 1.0 {
        cx.label("progress-outside-[0,1]");
    }
    let sq: ProgressMapperFn<f32> = ProgressMapperFn(sq_f32);
    let inv: ProgressMapperFn<f32> = ProgressMapperFn(inv_f32);
    let mp = [p, p * p, 1.0 - p, 2.0 * p - 0.25];
    // the nlerp of antipodal quaternions at the midpoint is 0/0: NaN != NaN would be a false alarm
    let qmid_degenerate = |x: f32| {
        let l = lin4(&a0, 1.0 - x as f64, &b0, x as f64);
        norm4(&l) < 1e-3
    };
    macro_rules! all_maps {
        ($T:ty, $what:expr, $s:expr, $e:expr) => {
            accessors::<$T, f32, _>(cx, concat!($what, ", Identity"), $s, $e, p, IdentityProgressMapper, mp[0])?;
            accessors::<$T, f32, _>(cx, concat!($what, ", Fn(t^2)"), $s, $e, p, sq, mp[1])?;
            accessors::<$T, f32, _>(cx, concat!($what, ", Fn(1-t)"), $s, $e, p, inv, mp[2])?;
            accessors::<$T, f32, _>(cx, concat!($what, ", Affine"), $s, $e, p, Affine, mp[3])?;
        };
    }
    all_maps!(f32, "Transition<f32", &s, &e);
    all_maps!(i32, "Transition<i32", &is, &ie);
    all_maps!(Vec3<f32>, "Transition<Vec3<f32>", &vs, &ve);
    all_maps!(Transform<f32, f32, f32>, "Transition<Transform<f32,f32,f32>", &xs, &xe);
    if !mp.iter().any(|x| qmid_degenerate(*x) || qmid_degenerate(clamp01_f32(*x))) {
        all_maps!(Quaternion<f32>, "Transition<Quaternion<f32>", &qs, &qe);
    } else {
        cx.label("quaternion-nlerp-degenerate(skipped)");
    }
    // progress f64
    let pd = factor_f64(t);
    let (ds, de) = (<f64 as Dom>::any(t, 50), <f64 as Dom>::any(t, 50));
    let sqd: ProgressMapperFn<f64> = ProgressMapperFn(sq_f64);
    let invd: ProgressMapperFn<f64> = ProgressMapperFn(inv_f64);
    let mpd = [pd, pd * pd, 1.0 - pd, 2.0 * pd - 0.25];
    accessors::<f64, f64, _>(cx, "Transition<f64, Identity, f64>", &ds, &de, pd, IdentityProgressMapper, mpd[0])?;
    accessors::<f64, f64, _>(cx, "Transition<f64, Fn(t^2), f64>", &ds, &de, pd, sqd, mpd[1])?;
    accessors::<f64, f64, _>(cx, "Transition<f64, Fn(1-t), f64>", &ds, &de, pd, invd, mpd[2])?;
    accessors::<f64, f64, _>(cx, "Transition<f64, Affine, f64>", &ds, &de, pd, Affine, mpd[3])?;
    probe_accessors(cx, "Transition<Probe, Identity, f64>", pd, IdentityProgressMapper, mpd[0], clamp01_f64(mpd[0]))?;
    probe_accessors(cx, "Transition<Probe, Fn(t^2), f64>", pd, sqd, mpd[1], clamp01_f64(mpd[1]))?;
    probe_accessors(cx, "Transition<Probe, Fn(1-t), f64>", pd, invd, mpd[2], clamp01_f64(mpd[2]))?;
    probe_accessors(cx, "Transition<Probe, Affine, f64>", pd, Affine, mpd[3], clamp01_f64(mpd[3]))?;
    // closed form in floats: the linear transition of f64 at progress p is within rounding of s + p (e - s)
    let c: LinearTransition<f64, f64> = LinearTransition::with_progress(ds, de, pd);
    let tol = 2.0 * f64::EPSILON * (ds.abs() + de.abs()) * (1.0 + pd.abs()) + 1e-300;
    check_within!(cx, dd_err(c.current_unclamped(), lerp_dd(ds, de, pd)), 0.0, tol, "LinearTransition<f64>.current_unclamped() {:e}->{:e} at {:e}", ds, de, pd);
    check_within!(cx, dd_err(c.current_unclamped_precise(), lerp_dd(ds, de, pd)), 0.0, tol, "LinearTransition<f64>.current_unclamped_precise() {:e}->{:e} at {:e}", ds, de, pd);
    check_within!(cx, dd_err(c.current(), lerp_dd(ds, de, clamp01_f64(pd))), 0.0, tol, "LinearTransition<f64>.current() {:e}->{:e} at {:e}", ds, de, pd);
    check_within!(cx, dd_err(c.into_current_precise(), lerp_dd(ds, de, clamp01_f64(pd))), 0.0, tol, "LinearTransition<f64>.into_current_precise() {:e}->{:e} at {:e}", ds, de, pd);
    Ok(())
}
