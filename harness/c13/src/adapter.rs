//! The only module that touches vek: every method of `Aabr`/`Aabb`/`Rect`/`Rect3` wrapped as a function
//! on the oracle's array types. Values are built and read through the public fields only.

use crate::oracle::{Ob, Or, Orx, Sc};
use num_traits::AsPrimitive;
use vek::geom::repr_c::{Aabb, Aabr, Rect, Rect3};
use vek::vec::repr_c::{Extent2, Extent3, Vec2, Vec3};
use vkit::Dom;

pub trait Dim<const N: usize> {
    /// grid size of the exhaustive checks (corner coordinates 0..G-1, doubled)
    const G: u64;
    const BOX: &'static str;
    const RECT: &'static str;

    // ---- box ----
    fn is_valid<T: Sc>(b: Ob<T, N>) -> bool;
    fn make_valid<T: Sc>(b: Ob<T, N>) -> Ob<T, N>;
    fn made_valid<T: Sc>(b: Ob<T, N>) -> Ob<T, N>;
    fn new_empty<T: Sc>(p: [T; N]) -> Ob<T, N>;
    fn into_rect<T: Sc>(b: Ob<T, N>) -> Or<T, N>;
    fn rect_from<T: Sc>(b: Ob<T, N>) -> Or<T, N>;
    fn center<T: Sc>(b: Ob<T, N>) -> [T; N];
    fn size<T: Sc>(b: Ob<T, N>) -> [T; N];
    fn half_size<T: Sc>(b: Ob<T, N>) -> [T; N];
    fn union<T: Sc>(a: Ob<T, N>, b: Ob<T, N>) -> Ob<T, N>;
    fn intersection<T: Sc>(a: Ob<T, N>, b: Ob<T, N>) -> Ob<T, N>;
    fn expand_to_contain<T: Sc>(a: Ob<T, N>, b: Ob<T, N>) -> Ob<T, N>;
    fn intersect<T: Sc>(a: Ob<T, N>, b: Ob<T, N>) -> Ob<T, N>;
    fn expanded_to_contain_point<T: Sc>(a: Ob<T, N>, p: [T; N]) -> Ob<T, N>;
    fn expand_to_contain_point<T: Sc>(a: Ob<T, N>, p: [T; N]) -> Ob<T, N>;
    fn contains_point<T: Sc>(a: Ob<T, N>, p: [T; N]) -> bool;
    fn contains_box<T: Sc>(a: Ob<T, N>, b: Ob<T, N>) -> bool;
    fn collides_with_box<T: Sc>(a: Ob<T, N>, b: Ob<T, N>) -> bool;
    fn collision_vector_with_box<T: Sc>(a: Ob<T, N>, b: Ob<T, N>) -> [T; N];
    fn projected_point<T: Sc>(a: Ob<T, N>, p: [T; N]) -> [T; N] {
        Self::try_projected_point(a, p).expect("projected_point: the element type does not implement vek::ops::Clamp")
    }
    /// None when `projected_point` does not exist for the element type (no `Clamp` impl)
    fn try_projected_point<T: Sc>(a: Ob<T, N>, p: [T; N]) -> Option<[T; N]>;
    fn distance_to_point<S: Dom>(a: Ob<S, N>, p: [S; N]) -> S;
    /// split_at_<axis k>
    fn split<T: Sc>(a: Ob<T, N>, k: usize, sp: T) -> [Ob<T, N>; 2];
    fn map<T: Copy, U: Copy, F: FnMut(T) -> U>(a: Ob<T, N>, f: F) -> Ob<U, N>;
    fn as_<T: AsPrimitive<U>, U: 'static + Copy>(a: Ob<T, N>) -> Ob<U, N>;
    /// `Aabr::from(Aabb)` (3D only): [min, max] of the 2D box
    fn project<T: Sc>(a: Ob<T, N>) -> Option<[[T; 2]; 2]>;

    // ---- rectangle ----
    fn r_new<P: Copy, E: Copy>(pos: [P; N], ext: [E; N]) -> Orx<P, E, N>;
    fn r_from_tuple<P: Copy, E: Copy>(pos: [P; N], ext: [E; N]) -> Orx<P, E, N>;
    fn r_position<P: Copy, E: Copy>(r: Orx<P, E, N>) -> [P; N];
    fn r_extent<P: Copy, E: Copy>(r: Orx<P, E, N>) -> [E; N];
    fn r_position_extent<P: Copy, E: Copy>(r: Orx<P, E, N>) -> ([P; N], [E; N]);
    fn r_set_position<P: Copy, E: Copy>(r: Orx<P, E, N>, p: [P; N]) -> Orx<P, E, N>;
    fn r_set_extent<P: Copy, E: Copy>(r: Orx<P, E, N>, e: [E; N]) -> Orx<P, E, N>;
    fn r_map<P: Copy, E: Copy, DP: Copy, DE: Copy>(r: Orx<P, E, N>, pf: impl FnMut(P) -> DP, ef: impl FnMut(E) -> DE) -> Orx<DP, DE, N>;
    fn r_as_<P: AsPrimitive<DP>, E: AsPrimitive<DE>, DP: 'static + Copy, DE: 'static + Copy>(r: Orx<P, E, N>) -> Orx<DP, DE, N>;
    fn r_into_box<T: Sc>(r: Or<T, N>) -> Ob<T, N>;
    fn box_from_rect<T: Sc>(r: Or<T, N>) -> Ob<T, N>;
    fn r_contains_point<T: Sc>(r: Or<T, N>, p: [T; N]) -> bool;
    fn r_contains_rect<T: Sc>(r: Or<T, N>, s: Or<T, N>) -> bool;
    fn r_collides_with_rect<T: Sc>(r: Or<T, N>, s: Or<T, N>) -> bool;
    fn r_center<T: Sc>(r: Or<T, N>) -> [T; N];
    fn r_expanded_to_contain_point<T: Sc>(r: Or<T, N>, p: [T; N]) -> Or<T, N>;
    fn r_expand_to_contain_point<T: Sc>(r: Or<T, N>, p: [T; N]) -> Or<T, N>;
    fn r_union<T: Sc>(r: Or<T, N>, s: Or<T, N>) -> Or<T, N>;
    fn r_intersection<T: Sc>(r: Or<T, N>, s: Or<T, N>) -> Or<T, N>;
    fn r_expand_to_contain<T: Sc>(r: Or<T, N>, s: Or<T, N>) -> Or<T, N>;
    fn r_intersect<T: Sc>(r: Or<T, N>, s: Or<T, N>) -> Or<T, N>;
    fn r_collision_vector_with_rect<T: Sc>(r: Or<T, N>, s: Or<T, N>) -> [T; N];
    fn r_split<T: Sc>(r: Or<T, N>, k: usize, sp: T) -> [Or<T, N>; 2];
}

macro_rules! impl_dim {
    (
        $D:ident $N:expr, grid $G:expr, $Aab:ident $Rect:ident $Vec:ident $Ext:ident,
        axes ($(($i:tt $p:ident $e:ident $split:ident))+),
        $contains_aab:ident $collides_aab:ident $cv_aab:ident
        $contains_rect:ident $collides_rect:ident $cv_rect:ident
        $into_rect:ident $into_aab:ident $proj:ident,
        project |$pa:ident| $project:expr
    ) => {
        pub struct $D;
        impl $D {
            fn v<T: Copy>(a: [T; $N]) -> $Vec<T> {
                $Vec { $($p: a[$i]),+ }
            }
            fn va<T: Copy>(v: $Vec<T>) -> [T; $N] {
                [$(v.$p),+]
            }
            fn e<T: Copy>(a: [T; $N]) -> $Ext<T> {
                $Ext { $($e: a[$i]),+ }
            }
            fn ea<T: Copy>(v: $Ext<T>) -> [T; $N] {
                [$(v.$e),+]
            }
            fn b<T: Copy>(o: Ob<T, $N>) -> $Aab<T> {
                $Aab { min: Self::v(o.lo), max: Self::v(o.hi) }
            }
            fn ob<T: Copy>(b: $Aab<T>) -> Ob<T, $N> {
                Ob { lo: Self::va(b.min), hi: Self::va(b.max) }
            }
            fn r<P: Copy, E: Copy>(o: Orx<P, E, $N>) -> $Rect<P, E> {
                $Rect { $($p: o.pos[$i],)+ $($e: o.ext[$i]),+ }
            }
            fn or<P: Copy, E: Copy>(r: $Rect<P, E>) -> Orx<P, E, $N> {
                Orx { pos: [$(r.$p),+], ext: [$(r.$e),+] }
            }
        }
        impl Dim<$N> for $D {
            const G: u64 = $G;
            const BOX: &'static str = stringify!($Aab);
            const RECT: &'static str = stringify!($Rect);

            fn is_valid<T: Sc>(b: Ob<T, $N>) -> bool {
                Self::b(b).is_valid()
            }
            fn make_valid<T: Sc>(b: Ob<T, $N>) -> Ob<T, $N> {
                let mut x = Self::b(b);
                x.make_valid();
                Self::ob(x)
            }
            fn made_valid<T: Sc>(b: Ob<T, $N>) -> Ob<T, $N> {
                Self::ob(Self::b(b).made_valid())
            }
            fn new_empty<T: Sc>(p: [T; $N]) -> Ob<T, $N> {
                Self::ob($Aab::new_empty(Self::v(p)))
            }
            fn into_rect<T: Sc>(b: Ob<T, $N>) -> Or<T, $N> {
                Self::or(Self::b(b).$into_rect())
            }
            fn rect_from<T: Sc>(b: Ob<T, $N>) -> Or<T, $N> {
                Self::or($Rect::from(Self::b(b)))
            }
            fn center<T: Sc>(b: Ob<T, $N>) -> [T; $N] {
                Self::va(Self::b(b).center())
            }
            fn size<T: Sc>(b: Ob<T, $N>) -> [T; $N] {
                Self::ea(Self::b(b).size())
            }
            fn half_size<T: Sc>(b: Ob<T, $N>) -> [T; $N] {
                Self::ea(Self::b(b).half_size())
            }
            fn union<T: Sc>(a: Ob<T, $N>, b: Ob<T, $N>) -> Ob<T, $N> {
                Self::ob(Self::b(a).union(Self::b(b)))
            }
            fn intersection<T: Sc>(a: Ob<T, $N>, b: Ob<T, $N>) -> Ob<T, $N> {
                Self::ob(Self::b(a).intersection(Self::b(b)))
            }
            fn expand_to_contain<T: Sc>(a: Ob<T, $N>, b: Ob<T, $N>) -> Ob<T, $N> {
                let mut x = Self::b(a);
                x.expand_to_contain(Self::b(b));
                Self::ob(x)
            }
            fn intersect<T: Sc>(a: Ob<T, $N>, b: Ob<T, $N>) -> Ob<T, $N> {
                let mut x = Self::b(a);
                x.intersect(Self::b(b));
                Self::ob(x)
            }
            fn expanded_to_contain_point<T: Sc>(a: Ob<T, $N>, p: [T; $N]) -> Ob<T, $N> {
                Self::ob(Self::b(a).expanded_to_contain_point(Self::v(p)))
            }
            fn expand_to_contain_point<T: Sc>(a: Ob<T, $N>, p: [T; $N]) -> Ob<T, $N> {
                let mut x = Self::b(a);
                x.expand_to_contain_point(Self::v(p));
                Self::ob(x)
            }
            fn contains_point<T: Sc>(a: Ob<T, $N>, p: [T; $N]) -> bool {
                Self::b(a).contains_point(Self::v(p))
            }
            fn contains_box<T: Sc>(a: Ob<T, $N>, b: Ob<T, $N>) -> bool {
                Self::b(a).$contains_aab(Self::b(b))
            }
            fn collides_with_box<T: Sc>(a: Ob<T, $N>, b: Ob<T, $N>) -> bool {
                Self::b(a).$collides_aab(Self::b(b))
            }
            fn collision_vector_with_box<T: Sc>(a: Ob<T, $N>, b: Ob<T, $N>) -> [T; $N] {
                Self::va(Self::b(a).$cv_aab(Self::b(b)))
            }
            fn try_projected_point<T: Sc>(a: Ob<T, $N>, p: [T; $N]) -> Option<[T; $N]> {
                T::$proj(a, p)
            }
            fn distance_to_point<S: Dom>(a: Ob<S, $N>, p: [S; $N]) -> S {
                Self::b(a).distance_to_point(Self::v(p))
            }
            fn split<T: Sc>(a: Ob<T, $N>, k: usize, sp: T) -> [Ob<T, $N>; 2] {
                let x = Self::b(a);
                let s = match k {
                    $($i => x.$split(sp),)+
                    _ => unreachable!(),
                };
                [Self::ob(s[0]), Self::ob(s[1])]
            }
            fn map<T: Copy, U: Copy, F: FnMut(T) -> U>(a: Ob<T, $N>, f: F) -> Ob<U, $N> {
                Self::ob(Self::b(a).map(f))
            }
            fn as_<T: AsPrimitive<U>, U: 'static + Copy>(a: Ob<T, $N>) -> Ob<U, $N> {
                Self::ob(Self::b(a).as_::<U>())
            }
            fn project<T: Sc>($pa: Ob<T, $N>) -> Option<[[T; 2]; 2]> {
                $project
            }

            fn r_new<P: Copy, E: Copy>(pos: [P; $N], ext: [E; $N]) -> Orx<P, E, $N> {
                Self::or($Rect::new($(pos[$i],)+ $(ext[$i]),+))
            }
            fn r_from_tuple<P: Copy, E: Copy>(pos: [P; $N], ext: [E; $N]) -> Orx<P, E, $N> {
                Self::or($Rect::from((Self::v(pos), Self::e(ext))))
            }
            fn r_position<P: Copy, E: Copy>(r: Orx<P, E, $N>) -> [P; $N] {
                Self::va(Self::r(r).position())
            }
            fn r_extent<P: Copy, E: Copy>(r: Orx<P, E, $N>) -> [E; $N] {
                Self::ea(Self::r(r).extent())
            }
            fn r_position_extent<P: Copy, E: Copy>(r: Orx<P, E, $N>) -> ([P; $N], [E; $N]) {
                let (p, e) = Self::r(r).position_extent();
                (Self::va(p), Self::ea(e))
            }
            fn r_set_position<P: Copy, E: Copy>(r: Orx<P, E, $N>, p: [P; $N]) -> Orx<P, E, $N> {
                let mut x = Self::r(r);
                x.set_position(Self::v(p));
                Self::or(x)
            }
            fn r_set_extent<P: Copy, E: Copy>(r: Orx<P, E, $N>, e: [E; $N]) -> Orx<P, E, $N> {
                let mut x = Self::r(r);
                x.set_extent(Self::e(e));
                Self::or(x)
            }
            fn r_map<P: Copy, E: Copy, DP: Copy, DE: Copy>(r: Orx<P, E, $N>, pf: impl FnMut(P) -> DP, ef: impl FnMut(E) -> DE) -> Orx<DP, DE, $N> {
                Self::or(Self::r(r).map(pf, ef))
            }
            fn r_as_<P: AsPrimitive<DP>, E: AsPrimitive<DE>, DP: 'static + Copy, DE: 'static + Copy>(r: Orx<P, E, $N>) -> Orx<DP, DE, $N> {
                Self::or(Self::r(r).as_::<DP, DE>())
            }
            fn r_into_box<T: Sc>(r: Or<T, $N>) -> Ob<T, $N> {
                Self::ob(Self::r(r).$into_aab())
            }
            fn box_from_rect<T: Sc>(r: Or<T, $N>) -> Ob<T, $N> {
                Self::ob($Aab::from(Self::r(r)))
            }
            fn r_contains_point<T: Sc>(r: Or<T, $N>, p: [T; $N]) -> bool {
                Self::r(r).contains_point(Self::v(p))
            }
            fn r_contains_rect<T: Sc>(r: Or<T, $N>, s: Or<T, $N>) -> bool {
                Self::r(r).$contains_rect(Self::r(s))
            }
            fn r_collides_with_rect<T: Sc>(r: Or<T, $N>, s: Or<T, $N>) -> bool {
                Self::r(r).$collides_rect(Self::r(s))
            }
            fn r_center<T: Sc>(r: Or<T, $N>) -> [T; $N] {
                Self::va(Self::r(r).center())
            }
            fn r_expanded_to_contain_point<T: Sc>(r: Or<T, $N>, p: [T; $N]) -> Or<T, $N> {
                Self::or(Self::r(r).expanded_to_contain_point(Self::v(p)))
            }
            fn r_expand_to_contain_point<T: Sc>(r: Or<T, $N>, p: [T; $N]) -> Or<T, $N> {
                let mut x = Self::r(r);
                x.expand_to_contain_point(Self::v(p));
                Self::or(x)
            }
            fn r_union<T: Sc>(r: Or<T, $N>, s: Or<T, $N>) -> Or<T, $N> {
                Self::or(Self::r(r).union(Self::r(s)))
            }
            fn r_intersection<T: Sc>(r: Or<T, $N>, s: Or<T, $N>) -> Or<T, $N> {
                Self::or(Self::r(r).intersection(Self::r(s)))
            }
            fn r_expand_to_contain<T: Sc>(r: Or<T, $N>, s: Or<T, $N>) -> Or<T, $N> {
                let mut x = Self::r(r);
                x.expand_to_contain(Self::r(s));
                Self::or(x)
            }
            fn r_intersect<T: Sc>(r: Or<T, $N>, s: Or<T, $N>) -> Or<T, $N> {
                let mut x = Self::r(r);
                x.intersect(Self::r(s));
                Self::or(x)
            }
            fn r_collision_vector_with_rect<T: Sc>(r: Or<T, $N>, s: Or<T, $N>) -> [T; $N] {
                Self::va(Self::r(r).$cv_rect(Self::r(s)))
            }
            fn r_split<T: Sc>(r: Or<T, $N>, k: usize, sp: T) -> [Or<T, $N>; 2] {
                let x = Self::r(r);
                let s = match k {
                    $($i => x.$split(sp),)+
                    _ => unreachable!(),
                };
                [Self::or(s[0]), Self::or(s[1])]
            }
        }
    };
}

impl_dim! {
    D2 2, grid 4, Aabr Rect Vec2 Extent2,
    axes ((0 x w split_at_x) (1 y h split_at_y)),
    contains_aabr collides_with_aabr collision_vector_with_aabr
    contains_rect collides_with_rect collision_vector_with_rect
    into_rect into_aabr project2,
    project |_a| None
}
impl_dim! {
    D3 3, grid 3, Aabb Rect3 Vec3 Extent3,
    axes ((0 x w split_at_x) (1 y h split_at_y) (2 z d split_at_z)),
    contains_aabb collides_with_aabb collision_vector_with_aabb
    contains_rect3 collides_with_rect3 collision_vector_with_rect3
    into_rect3 into_aabb project3,
    project |a| {
        let r: Aabr<T> = Aabr::from(D3::b(a));
        Some([[r.min.x, r.min.y], [r.max.x, r.max.y]])
    }
}

/// `Aabr::projected_point` for an element type with vek's `Clamp`
pub fn proj2<T: Copy + vek::ops::Clamp>(a: Ob<T, 2>, p: [T; 2]) -> [T; 2] {
    D2::va(D2::b(a).projected_point(D2::v(p)))
}
/// `Aabb::projected_point` for an element type with vek's `Clamp`
pub fn proj3<T: Copy + vek::ops::Clamp>(a: Ob<T, 3>, p: [T; 3]) -> [T; 3] {
    D3::va(D3::b(a).projected_point(D3::v(p)))
}
