//! Check bodies that need no probe grid and no arithmetic on the coordinates: every predicate and every
//! selecting operation of the property judged by the closed-interval formula itself, on ANY scalar that can
//! be compared (IEEE special values, integers at the limits of their type, floats at the ends of the exponent
//! range). `arith_checks` adds the methods that compute (centre, size, half size, collision vector, box <->
//! rectangle) against an exact integer oracle in "units" (integers: the value itself; floats: value / 2^K).

use crate::adapter::Dim;
use crate::oracle::*;
use vkit::*;

/// Identifier under which the integer midpoint overflow is recorded when it is an accepted open finding.
pub const F_MID: &str = "F16-int-box-centre-overflow";

fn pt_nan<T: PartialOrd + Copy, const N: usize>(p: &[T; N]) -> bool {
    p.iter().any(|x| nan(*x))
}

fn sel_union<T: Sc, const N: usize>(a: &Ob<T, N>, b: &Ob<T, N>) -> Ob<T, N> {
    Ob { lo: std::array::from_fn(|k| pmin(a.lo[k], b.lo[k])), hi: std::array::from_fn(|k| pmax(a.hi[k], b.hi[k])) }
}
fn sel_inter<T: Sc, const N: usize>(a: &Ob<T, N>, b: &Ob<T, N>) -> Ob<T, N> {
    Ob { lo: std::array::from_fn(|k| pmax(a.lo[k], b.lo[k])), hi: std::array::from_fn(|k| pmin(a.hi[k], b.hi[k])) }
}

/// Everything that is decided by comparisons alone.
/// `a`, `b`: any boxes (valid, invalid, NaN bounds, infinite bounds, inside-out accumulators);
/// `pts`: any points (NaN / infinite coordinates allowed); `cuts`: (axis, position) candidates.
/// What is asserted where:
/// * any box, any point: contains_point = closed-interval membership (NaN belongs to no interval, a box with a
///   NaN bound or min > max has no point), is_valid <=> min <= max on every axis, new_empty, in-place == value form;
/// * make_valid: per axis without NaN the two bounds sorted, valid axes untouched;
/// * a set-denoting pair (each box valid, or the accumulator = empty set): union / intersection by selection,
///   intersection valid <=> common point, membership in the intersection <=> membership in both;
/// * contains_aab*(a, b) for valid (non-empty) b and ANY a: <=> both corners of b are points of a;
/// * collides_with_aab* for two boxes of positive extent: max(lo) < min(hi) on every axis, symmetric;
/// * valid box, point without NaN: expanded_to_contain_point (also from the accumulator), projected_point
///   (clamp formula, inside the box, identity on members); cut inside the bounds: split_at_*.
pub fn direct_checks<D: Dim<N>, T: Sc, const N: usize>(cx: &mut Cx, a: Ob<T, N>, b: Ob<T, N>, pts: &[[T; N]], cuts: &[(usize, T)]) -> CaseResult {
    for (x, name) in [(a, "a"), (b, "b")] {
        for p in pts {
            check_eq!(cx, D::contains_point(x, *p), x.has(p), "{}::contains_point({:?}) of {} = {:?}", D::BOX, p, name, x);
        }
        check_eq!(cx, D::is_valid(x), x.valid(), "{}::is_valid of {:?}", D::BOX, x);
        // make_valid / made_valid
        let g = D::made_valid(x);
        let g2 = D::make_valid(x);
        check!(cx, veq_box(&g, &g2), "{}::make_valid {:?} vs made_valid {:?} of {:?}", D::BOX, g2, g, x);
        for k in 0..N {
            let (l, h) = (x.lo[k], x.hi[k]);
            if nan(l) || nan(h) {
                // cannot be made valid; the two bounds must survive in some order
                check!(cx, (veq(g.lo[k], l) && veq(g.hi[k], h)) || (veq(g.lo[k], h) && veq(g.hi[k], l)), "{}::made_valid of {:?} = {:?}: axis {} lost a bound", D::BOX, x, g, k);
            } else {
                let (wl, wh) = if l > h { (h, l) } else { (l, h) };
                check!(cx, g.lo[k] == wl && g.hi[k] == wh, "{}::made_valid of {:?} = {:?}: axis {} want [{:?},{:?}]", D::BOX, x, g, k, wl, wh);
            }
        }
        if !x.has_nan() {
            check!(cx, D::is_valid(g) && g.valid(), "made_valid({:?}) = {:?} is not valid", x, g);
            for p in pts {
                // the repaired box contains exactly the points between the sorted bounds
                let w = (0..N).all(|k| pmin(x.lo[k], x.hi[k]) <= p[k] && p[k] <= pmax(x.lo[k], x.hi[k]));
                check_eq!(cx, D::contains_point(g, *p), w, "made_valid({:?}).contains_point({:?})", x, p);
            }
        }
    }
    for p in pts {
        let e = D::new_empty(*p);
        check!(cx, veq_arr(&e.lo, p) && veq_arr(&e.hi, p), "{}::new_empty({:?}) = {:?}", D::BOX, p, e);
        check_eq!(cx, D::contains_point(e, *p), !pt_nan(p), "new_empty({:?}).contains_point(itself)", p);
        check_eq!(cx, D::is_valid(e), !pt_nan(p), "new_empty({:?}).is_valid()", p);
        let g = D::expanded_to_contain_point(a, *p);
        let g2 = D::expand_to_contain_point(a, *p);
        check!(cx, veq_box(&g, &g2), "{}::expand_to_contain_point({:?}) of {:?} = {:?}, value form {:?}", D::BOX, p, a, g2, g);
    }
    {
        let (u, u2) = (D::union(a, b), D::expand_to_contain(a, b));
        check!(cx, veq_box(&u, &u2), "{}::expand_to_contain of {:?} {:?} = {:?}, value form {:?}", D::BOX, a, b, u2, u);
        let (x, x2) = (D::intersection(a, b), D::intersect(a, b));
        check!(cx, veq_box(&x, &x2), "{}::intersect of {:?} {:?} = {:?}, value form {:?}", D::BOX, a, b, x2, x);
    }

    let setlike = |x: &Ob<T, N>| x.valid() || x.accumulator();
    if setlike(&a) && setlike(&b) {
        for (x, y) in [(a, b), (b, a)] {
            let u = D::union(x, y);
            let want = sel_union(&x, &y);
            check!(cx, veq_box(&u, &want), "{}::union of {:?} {:?} = {:?}, want {:?}", D::BOX, x, y, u, want);
            if x.accumulator() && y.valid() && (0..N).all(|k| x.lo[k] >= y.lo[k] && x.hi[k] <= y.hi[k]) {
                cx.label("union with the inside-out accumulator");
                check!(cx, veq_box(&u, &y), "{}::union of the accumulator {:?} with {:?} = {:?}", D::BOX, x, y, u);
            }
            if x.valid() && y.valid() {
                check!(cx, D::is_valid(u), "union {:?} of valid boxes {:?} {:?} is not valid", u, x, y);
                for c in [x.lo, x.hi, y.lo, y.hi] {
                    check!(cx, D::contains_point(u, c), "union {:?} of {:?} {:?} misses the corner {:?}", u, x, y, c);
                }
            }
            let i = D::intersection(x, y);
            let want = sel_inter(&x, &y);
            check!(cx, veq_box(&i, &want), "{}::intersection of {:?} {:?} = {:?}, want {:?}", D::BOX, x, y, i, want);
            let common = x.valid() && y.valid() && (0..N).all(|k| pmax(x.lo[k], y.lo[k]) <= pmin(x.hi[k], y.hi[k]));
            check_eq!(cx, D::is_valid(i), common, "intersection {:?} of {:?} {:?}: validity vs. existence of a common point", i, x, y);
            for p in pts {
                check_eq!(cx, D::contains_point(i, *p), x.has(p) && y.has(p), "intersection({:?},{:?}).contains_point({:?})", x, y, p);
            }
        }
    }
    for (x, y) in [(a, b), (b, a)] {
        // contains: y non-empty, x anything (an invalid or NaN-bounded x has no point at all)
        if y.valid() {
            let want = x.has(&y.lo) && x.has(&y.hi);
            check_eq!(cx, D::contains_box(x, y), want, "{}::contains: {:?} contains {:?}", D::BOX, x, y);
            if !x.valid() {
                cx.label("contains_aab* of an empty (invalid / NaN-bounded) box");
            }
        }
        if x.positive() && y.positive() {
            let want = (0..N).all(|k| pmax(x.lo[k], y.lo[k]) < pmin(x.hi[k], y.hi[k]));
            check_eq!(cx, D::collides_with_box(x, y), want, "{}::collides: {:?} with {:?}", D::BOX, x, y);
        }
    }
    for x in [a, b] {
        if !setlike(&x) {
            continue;
        }
        for p in pts.iter().filter(|p| !pt_nan(p)) {
            let g = D::expanded_to_contain_point(x, *p);
            let want = Ob { lo: std::array::from_fn(|k| pmin(x.lo[k], p[k])), hi: std::array::from_fn(|k| pmax(x.hi[k], p[k])) };
            check!(cx, veq_box(&g, &want), "{}::expanded_to_contain_point({:?}) of {:?} = {:?}, want {:?}", D::BOX, p, x, g, want);
            check!(cx, D::contains_point(g, *p), "expanded box {:?} of {:?} does not contain {:?}", g, x, p);
            if x.accumulator() && (0..N).all(|k| x.lo[k] >= p[k] && x.hi[k] <= p[k]) {
                cx.label("expand the inside-out accumulator");
                check!(cx, veq_arr(&g.lo, p) && veq_arr(&g.hi, p), "accumulator {:?} expanded to contain {:?} = {:?}", x, p, g);
            }
            if x.valid() {
                check!(cx, D::contains_point(g, x.lo) && D::contains_point(g, x.hi), "expanded box {:?} lost a corner of {:?}", g, x);
            }
        }
        if !x.valid() {
            continue;
        }
        for p in pts.iter().filter(|p| !pt_nan(p)) {
            // (the method does not exist for element types without vek's `Clamp`: i128, u128)
            let Some(q) = D::try_projected_point(x, *p) else { break };
            let want: [T; N] = std::array::from_fn(|k| if p[k] < x.lo[k] { x.lo[k] } else if p[k] > x.hi[k] { x.hi[k] } else { p[k] });
            check!(cx, veq_arr(&q, &want), "{}::projected_point({:?}) of {:?} = {:?}, want {:?}", D::BOX, p, x, q, want);
            check!(cx, x.has(&q) && D::contains_point(x, q), "projected_point({:?}) of {:?} = {:?} is outside the box", p, x, q);
        }
        for &(k, sp) in cuts {
            if !(x.lo[k] <= sp && sp <= x.hi[k]) {
                continue;
            }
            let [low, high] = D::split(x, k, sp);
            let (mut wl, mut wh) = (x, x);
            wl.hi[k] = sp;
            wh.lo[k] = sp;
            check!(cx, veq_box(&low, &wl) && veq_box(&high, &wh), "{}::split axis {} at {:?} of {:?} = {:?} {:?}", D::BOX, k, sp, x, low, high);
            check!(cx, D::is_valid(low) && D::is_valid(high), "split axis {} at {:?} of {:?}: halves {:?} {:?} not valid", k, sp, x, low, high);
            check!(cx, veq_box(&D::union(low, high), &x), "split axis {} at {:?} of {:?}: union of the halves", k, sp, x);
            for p in pts {
                let w = x.has(p);
                check_eq!(cx, D::contains_point(low, *p), w && p[k] <= sp, "split axis {} at {:?} of {:?}: low half, membership of {:?}", k, sp, x, p);
                check_eq!(cx, D::contains_point(high, *p), w && p[k] >= sp, "split axis {} at {:?} of {:?}: high half, membership of {:?}", k, sp, x, p);
            }
        }
    }
    Ok(())
}

/// The integer type the exact oracle computes in: i128 for the element types of at most 64 bits and for the
/// scaled floats, the 192-bit `crate::wideint::W` for the 128-bit element types.
pub trait OInt: Copy + Ord + std::fmt::Debug + std::ops::Add<Output = Self> + std::ops::Sub<Output = Self> + 'static {
    fn floor_half(self) -> Self;
    fn ceil_half(self) -> Self;
}
impl OInt for i128 {
    fn floor_half(self) -> i128 {
        self.div_euclid(2)
    }
    fn ceil_half(self) -> i128 {
        -((-self).div_euclid(2))
    }
}

/// A box in units (exact integers).
pub type Ub<const N: usize> = Ob<i128, N>;

/// The computing methods against exact integer arithmetic. `mk(n)` is the scalar with the value of `n` units
/// (None: not representable in `T`); all coordinates of `ua`, `ub`, `upts` are representable by construction.
/// * a result that is not representable in `T` is not asserted (any implementation must overflow there);
/// * halving (centre, half size): floats are generated on even units so the half is exact; for integers the
///   property does not fix the rounding, floor and ceiling are both accepted;
/// * the centre of a box whose min + max is not representable is not asserted here (floats: the sum overflows to
///   infinity in the last binade; integers: subject of the `*-int-centre-near-limits` checks, together with the
///   collision vector, which goes through the centres).
pub fn arith_checks<D: Dim<N>, T: Sc, U: OInt, const N: usize>(cx: &mut Cx, ua: Ob<U, N>, ub: Ob<U, N>, upts: &[[U; N]], ucuts: &[(usize, U)], mk: &dyn Fn(U) -> Option<T>, cv_needs_centres: bool) -> CaseResult {
    let mkp = |p: &[U; N]| -> [T; N] { std::array::from_fn(|k| mk(p[k]).expect("generator: coordinate not representable")) };
    let mkb = |x: &Ob<U, N>| Ob { lo: mkp(&x.lo), hi: mkp(&x.hi) };
    let opt_arr = |v: [U; N]| -> Option<[T; N]> {
        let mut out = [T::zero(); N];
        for k in 0..N {
            out[k] = mk(v[k])?;
        }
        Some(out)
    };
    let ext_of = |x: &Ob<U, N>| -> [U; N] { std::array::from_fn(|k| x.hi[k] - x.lo[k]) };
    let sum_of = |x: &Ob<U, N>| -> [U; N] { std::array::from_fn(|k| x.hi[k] + x.lo[k]) };
    let half_ok = |got: T, twice: U| -> bool { Some(got) == mk(twice.floor_half()) || Some(got) == mk(twice.ceil_half()) };
    let (a, b) = (mkb(&ua), mkb(&ub));
    let pts: Vec<[T; N]> = upts.iter().map(|p| mkp(p)).collect();

    for (ux, x) in [(ua, a), (ub, b)] {
        let ext = ext_of(&ux);
        let sums_fit = opt_arr(sum_of(&ux)).is_some();
        // box -> rectangle: position = min, extent = max - min (any box whose extent is representable)
        if let Some(e) = opt_arr(ext) {
            let want = Or { pos: x.lo, ext: e };
            check_eq!(cx, D::rect_from(x), want, "{}::from({:?})", D::RECT, x);
            check_eq!(cx, D::into_rect(x), want, "{}::into_rect of {:?}", D::BOX, x);
            // rectangle -> box: min = position, max = position + extent; round trip
            check_eq!(cx, D::box_from_rect(want), x, "{}::from({:?})", D::BOX, want);
            check_eq!(cx, D::r_into_box(want), x, "{}::into box of {:?}", D::RECT, want);
            for p in &pts {
                check_eq!(cx, D::r_contains_point(want, *p), x.has(p), "{}::contains_point({:?}) of {:?}", D::RECT, p, want);
            }
            if ux.valid() {
                check_eq!(cx, D::size(x), e, "{}::size of {:?}", D::BOX, x);
                let h = D::half_size(x);
                for k in 0..N {
                    check!(cx, half_ok(h[k], ext[k]), "{}::half_size of {:?} = {:?}: axis {} want half of {:?}", D::BOX, x, h, k, ext[k]);
                }
                if sums_fit {
                    let c = D::r_center(want);
                    for k in 0..N {
                        check!(cx, half_ok(c[k], ux.lo[k] + ux.hi[k]), "{}::center of {:?} = {:?}", D::RECT, want, c);
                    }
                }
                for &(k, sp) in ucuts {
                    if ux.lo[k] <= sp && sp <= ux.hi[k] {
                        let spt = mk(sp).expect("generator: cut not representable");
                        let [rl, rh] = D::r_split(want, k, spt);
                        let (mut el, mut eh, mut ph) = (e, e, x.lo);
                        el[k] = mk(sp - ux.lo[k]).unwrap();
                        eh[k] = mk(ux.hi[k] - sp).unwrap();
                        ph[k] = spt;
                        check_eq!(cx, [rl, rh], [Or { pos: x.lo, ext: el }, Or { pos: ph, ext: eh }], "{}::split axis {} at {:?} of {:?}", D::RECT, k, spt, want);
                    }
                }
                for (up, p) in upts.iter().zip(&pts) {
                    let wl: [U; N] = std::array::from_fn(|k| ux.lo[k].min(up[k]));
                    let wh: [U; N] = std::array::from_fn(|k| ux.hi[k].max(up[k]));
                    if let Some(we) = opt_arr(std::array::from_fn(|k| wh[k] - wl[k])) {
                        let wr = Or { pos: mkp(&wl), ext: we };
                        check_eq!(cx, D::r_expanded_to_contain_point(want, *p), wr, "{}::expanded_to_contain_point({:?}) of {:?}", D::RECT, p, want);
                        check_eq!(cx, D::r_expand_to_contain_point(want, *p), wr, "{}::expand_to_contain_point({:?}) of {:?}", D::RECT, p, want);
                    }
                }
            }
        }
        if ux.valid() && sums_fit {
            let c = D::center(x);
            for k in 0..N {
                check!(cx, half_ok(c[k], ux.lo[k] + ux.hi[k]), "{}::center of {:?} = {:?}: axis {} want half of {:?}", D::BOX, x, c, k, ux.lo[k] + ux.hi[k]);
            }
            check!(cx, x.has(&c) && D::contains_point(x, c), "center {:?} not inside {:?}", c, x);
        }
    }
    if !(ua.valid() && ub.valid()) {
        return Ok(());
    }
    let (ea, eb) = (opt_arr(ext_of(&ua)), opt_arr(ext_of(&ub)));
    let rects = match (ea, eb) {
        (Some(ea), Some(eb)) => Some((Or { pos: a.lo, ext: ea }, Or { pos: b.lo, ext: eb })),
        _ => None,
    };
    // collision vector: on every axis one of the two touching translations. Integers: only when both centres are
    // computable (see `centre_limits`); floats: a centre that overflows to infinity may decide the side, the result
    // must still be one of the two translations
    if !cv_needs_centres || (opt_arr(sum_of(&ua)).is_some() && opt_arr(sum_of(&ub)).is_some()) {
        let cand: [[Option<T>; 2]; N] = std::array::from_fn(|k| [mk(ua.hi[k] - ub.lo[k]), mk(ua.lo[k] - ub.hi[k])]);
        if cand.iter().all(|c| c[0].is_some() && c[1].is_some()) {
            let v = D::collision_vector_with_box(a, b);
            for k in 0..N {
                check!(cx, Some(v[k]) == cand[k][0] || Some(v[k]) == cand[k][1], "collision_vector of {:?} with {:?} = {:?}: axis {} touches with {:?} or {:?} only", a, b, v, k, cand[k][0], cand[k][1]);
            }
            if let Some((ra, rb)) = rects {
                check_eq!(cx, D::r_collision_vector_with_rect(ra, rb), v, "{}::collision_vector of {:?} {:?} vs the box form", D::RECT, ra, rb);
            }
        }
    }
    if let Some((ra, rb)) = rects {
        let uu = Ob { lo: std::array::from_fn(|k| ua.lo[k].min(ub.lo[k])), hi: std::array::from_fn(|k| ua.hi[k].max(ub.hi[k])) };
        if let Some(e) = opt_arr(ext_of(&uu)) {
            let want = Or { pos: mkp(&uu.lo), ext: e };
            check_eq!(cx, D::r_union(ra, rb), want, "{}::union of {:?} {:?}", D::RECT, ra, rb);
            check_eq!(cx, D::r_expand_to_contain(ra, rb), want, "{}::expand_to_contain of {:?} {:?}", D::RECT, ra, rb);
        }
        let ui = Ob { lo: std::array::from_fn(|k| ua.lo[k].max(ub.lo[k])), hi: std::array::from_fn(|k| ua.hi[k].min(ub.hi[k])) };
        if let Some(e) = opt_arr(ext_of(&ui)) {
            let want = Or { pos: mkp(&ui.lo), ext: e };
            check_eq!(cx, D::r_intersection(ra, rb), want, "{}::intersection of {:?} {:?}", D::RECT, ra, rb);
            check_eq!(cx, D::r_intersect(ra, rb), want, "{}::intersect of {:?} {:?}", D::RECT, ra, rb);
        }
        check_eq!(cx, D::r_contains_rect(ra, rb), a.has(&b.lo) && a.has(&b.hi), "{}::contains: {:?} contains {:?}", D::RECT, ra, rb);
        if ua.positive() && ub.positive() {
            let want = (0..N).all(|k| ua.lo[k].max(ub.lo[k]) < ua.hi[k].min(ub.hi[k]));
            check_eq!(cx, D::r_collides_with_rect(ra, rb), want, "{}::collides: {:?} with {:?}", D::RECT, ra, rb);
        }
    }
    Ok(())
}
