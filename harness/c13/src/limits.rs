//! Magnitude regimes with exact oracles:
//! * integer boxes (i8 .. i64, u8 .. u64) with coordinates next to the limits of the type, "everything" and
//!   inside-out boxes, oracle in i128;
//! * float boxes (f32, f64) on an integer grid of mixed magnitudes (huge extent / tiny gap) scaled exactly by
//!   2^K over the whole exponent range (subnormal units up to the last binade in which every sum and
//!   difference of the case is still finite): every result is an exact integer multiple of the unit.

use crate::adapter::Dim;
use crate::direct::{arith_checks, direct_checks, Ub, F_MID};
use crate::oracle::*;
use crate::special::Fl;
use num_traits::{AsPrimitive, Bounded};
use vkit::regimes::int_edge;
use vkit::*;

pub trait IntT: Sc + Bounded + TryFrom<i128> + Into<i128> + AsPrimitive<i8> + AsPrimitive<u8> + AsPrimitive<i32> + AsPrimitive<u64> + AsPrimitive<i64> + AsPrimitive<f32> + AsPrimitive<f64> {
    const NAME: &'static str;
}
macro_rules! int_t {
    ($($T:ident)+) => {$(impl IntT for $T { const NAME: &'static str = stringify!($T); })+};
}
int_t!(i8 i16 i32 i64 u8 u16 u32 u64);

fn clampi(x: i128, min: i128, max: i128) -> i128 {
    x.clamp(min, max)
}

fn int_axis(t: &mut Tape, min: i128, max: i128) -> (i128, i128) {
    let c = |x: i128| clampi(x, min, max);
    let small = |t: &mut Tape| t.int(0, 6) as i128;
    match t.below(11) {
        0 => (min, max),
        1 => (max, min),
        2 => {
            let hi = max - t.below(3) as i128;
            (c(hi - small(t)), hi)
        }
        3 => {
            let lo = min + t.below(3) as i128;
            (lo, c(lo + small(t)))
        }
        4 => (c(min + small(t)), c(max - small(t))),
        5 => {
            let x = int_edge(t, min, max);
            (x, x)
        }
        6 => {
            let (x, y) = (int_edge(t, min, max), int_edge(t, min, max));
            (x.min(y), x.max(y))
        }
        7 => (int_edge(t, min, max), int_edge(t, min, max)),
        8 => (c(t.int(-3, 3) as i128), c(t.int(-3, 3) as i128 + 3)),
        9 => {
            // more than half of the range wide: min + max fits, max - min may not (signed)
            let lo = c(min / 2 - small(t) - 1);
            (lo, c(max / 2 + small(t) + 1))
        }
        _ => {
            let lo = int_edge(t, min, max);
            (lo, c(lo + small(t)))
        }
    }
}

fn int_related(t: &mut Tape, lo: i128, hi: i128, min: i128, max: i128) -> (i128, i128) {
    let c = |x: i128| clampi(x, min, max);
    match t.below(9) {
        0 => (lo, hi),
        1 => (c(lo + 1), c(hi + 1)),
        2 => (c(lo - 1), c(hi - 1)),
        3 if lo <= hi => (c(lo + 1).min(hi), c(hi - 1).max(lo)),
        4 => (hi, c(hi + t.int(0, 3) as i128)),
        5 => (c(lo - t.int(0, 3) as i128), lo),
        6 => (c(lo - 1), c(hi + 1)),
        // a small box in the middle of the range (deep inside a wide box)
        7 if t.bool() => {
            let m = min / 2 + max / 2;
            (c(m - t.int(0, 9) as i128), c(m + t.int(0, 9) as i128))
        }
        _ => int_axis(t, min, max),
    }
}

fn int_coord(t: &mut Tape, lo: i128, hi: i128, min: i128, max: i128) -> i128 {
    let c = |x: i128| clampi(x, min, max);
    match t.below(9) {
        0 => lo,
        1 => hi,
        2 => c(lo - 1),
        3 => c(hi + 1),
        4 => lo + (hi - lo) / 2,
        5 => min,
        6 => max,
        7 => c(lo + 1),
        _ => int_edge(t, min, max),
    }
}

struct IntCase<const N: usize> {
    a: Ub<N>,
    b: Ub<N>,
    pts: Vec<[i128; N]>,
    cuts: Vec<(usize, i128)>,
}

fn gen_int_case<const N: usize>(t: &mut Tape, min: i128, max: i128) -> IntCase<N> {
    let theme = t.below(6);
    let mut a = Ob { lo: [0i128; N], hi: [0i128; N] };
    let mut b = a;
    for k in 0..N {
        let (l, h) = if theme == 0 { (max, min) } else { int_axis(t, min, max) };
        a.lo[k] = l;
        a.hi[k] = h;
        let (l, h) = if theme == 0 { int_axis(t, min, max) } else { int_related(t, l, h, min, max) };
        b.lo[k] = l;
        b.hi[k] = h;
    }
    let mut pts = Vec::new();
    for i in 0..4 {
        let s = if i == 3 { b } else { a };
        pts.push(std::array::from_fn(|k| int_coord(t, s.lo[k], s.hi[k], min, max)));
    }
    let mut cuts = Vec::new();
    for k in 0..N {
        cuts.push((k, a.lo[k]));
        cuts.push((k, a.hi[k]));
        cuts.push((k, a.lo[k] + (a.hi[k] - a.lo[k]) / 2));
        cuts.push((k, pts[0][k]));
    }
    IntCase { a, b, pts, cuts }
}

fn int_typed<D: Dim<N>, T: IntT, const N: usize>(t: &mut Tape, cx: &mut Cx) -> CaseResult {
    let (min, max): (i128, i128) = (T::min_value().into(), T::max_value().into());
    let IntCase { a: ua, b: ub, pts: upts, cuts: ucuts } = gen_int_case::<N>(t, min, max);
    let mk = |n: i128| T::try_from(n).ok();
    let mkp = |p: &[i128; N]| -> [T; N] { std::array::from_fn(|k| mk(p[k]).unwrap()) };
    let (a, b) = (Ob { lo: mkp(&ua.lo), hi: mkp(&ua.hi) }, Ob { lo: mkp(&ub.lo), hi: mkp(&ub.hi) });
    let pts: Vec<[T; N]> = upts.iter().map(|p| mkp(p)).collect();
    let cuts: Vec<(usize, T)> = ucuts.iter().map(|(k, s)| (*k, mk(*s).unwrap())).collect();
    cx.label(T::NAME);
    let near = |x: i128| x - min <= 8 || max - x <= 8;
    let n_near = (0..N).filter(|k| near(ua.lo[*k]) || near(ua.hi[*k]) || near(ub.lo[*k]) || near(ub.hi[*k])).count();
    cx.set_nontrivial(n_near > 0);
    if ua.accumulator_i(min, max) {
        cx.label("inside-out accumulator box");
    }
    if (0..N).any(|k| ua.lo[k] <= ua.hi[k] && T::try_from(ua.hi[k] - ua.lo[k]).is_err()) {
        cx.label("extent not representable (signed, more than half of the range)");
    }
    if (0..N).any(|k| T::try_from(ua.hi[k] + ua.lo[k]).is_err()) {
        cx.label("min + max not representable");
    }
    sample!(cx, "{}<{}> a={:?} b={:?} points={:?}", D::BOX, T::NAME, a, b, pts);
    direct_checks::<D, T, N>(cx, a, b, &pts, &cuts)?;
    arith_checks::<D, T, i128, N>(cx, ua, ub, &upts, &ucuts, &mk, true)?;
    // element-wise casts next to the limits (`as`: wrapping between integers, rounding to floats)
    macro_rules! cast {
        ($U:ty) => {{
            let want = Ob::<$U, N> { lo: a.lo.map(|x| AsPrimitive::<$U>::as_(x)), hi: a.hi.map(|x| AsPrimitive::<$U>::as_(x)) };
            check_eq!(cx, D::as_::<T, $U>(a), want, "{}::as_::<{}> of {:?}", D::BOX, stringify!($U), a);
            let r = Or { pos: a.lo, ext: b.hi };
            let gr = D::r_as_::<T, T, $U, $U>(r);
            let wr = Or::<$U, N> { pos: want.lo, ext: b.hi.map(|x| AsPrimitive::<$U>::as_(x)) };
            check_eq!(cx, gr, wr, "{}::as_::<{}> of {:?}", D::RECT, stringify!($U), r);
        }};
    }
    cast!(i8);
    cast!(u8);
    cast!(i32);
    cast!(u64);
    cast!(i64);
    cast!(f32);
    cast!(f64);
    // map is element-wise also at the limits (identity and a type change)
    check_eq!(cx, D::map(a, |x: T| x), a, "{}::map(identity) of {:?}", D::BOX, a);
    let wide = D::map(a, |x: T| Into::<i128>::into(x));
    check_eq!(cx, wide, ua, "{}::map(widen) of {:?}", D::BOX, a);
    Ok(())
}

impl<const N: usize> Ob<i128, N> {
    fn accumulator_i(&self, min: i128, max: i128) -> bool {
        (0..N).all(|k| self.lo[k] == max && self.hi[k] == min)
    }
}

pub fn int_case<D: Dim<N>, const N: usize>(t: &mut Tape, cx: &mut Cx) -> CaseResult {
    match t.below(8) {
        0 => int_typed::<D, i8, N>(t, cx),
        1 => int_typed::<D, u8, N>(t, cx),
        2 => int_typed::<D, i16, N>(t, cx),
        3 => int_typed::<D, u16, N>(t, cx),
        4 => int_typed::<D, i32, N>(t, cx),
        5 => int_typed::<D, u32, N>(t, cx),
        6 => int_typed::<D, i64, N>(t, cx),
        _ => int_typed::<D, u64, N>(t, cx),
    }
}

// ---------------------------------------------------------------------------------------------
// centre / collision vector of integer boxes whose min + max is not representable
// ---------------------------------------------------------------------------------------------

fn centre_typed<D: Dim<N>, T: IntT, const N: usize>(t: &mut Tape, cx: &mut Cx) -> CaseResult {
    let (min, max): (i128, i128) = (T::min_value().into(), T::max_value().into());
    let c = |x: i128| clampi(x, min, max);
    let mut ua = Ob { lo: [0i128; N], hi: [0i128; N] };
    let mut ub = ua;
    for k in 0..N {
        // both bounds in the upper half of the range (or, signed, in the lower half): the sum leaves the type,
        // the centre does not
        let top = min == 0 || t.bool();
        let d = t.int(0, (max / 4).min(40) as i64) as i128;
        let e = t.int(0, (max / 4).min(24) as i64) as i128;
        let (l, h) = if t.chance(48) {
            // an axis next to the limits whose sum IS representable: asserted strictly
            if min == 0 { (d, max - e - d) } else { (min + d, max - e) }
        } else if top {
            (max - d - e, max - d)
        } else {
            (min + d, min + d + e)
        };
        ua.lo[k] = l;
        ua.hi[k] = h;
        let s = t.int(-3, 3) as i128;
        ub.lo[k] = c(l + s).min(c(h + s));
        ub.hi[k] = c(h + s).max(c(l + s));
    }
    let mk = |n: i128| T::try_from(n).ok();
    let mkp = |p: &[i128; N]| -> [T; N] { std::array::from_fn(|k| mk(p[k]).unwrap()) };
    let (a, b) = (Ob { lo: mkp(&ua.lo), hi: mkp(&ua.hi) }, Ob { lo: mkp(&ub.lo), hi: mkp(&ub.hi) });
    cx.label(T::NAME);
    let overflow = |x: &Ub<N>| (0..N).any(|k| mk(x.lo[k] + x.hi[k]).is_none());
    cx.set_nontrivial(overflow(&ua));
    sample!(cx, "{}<{}> a={:?} b={:?}", D::BOX, T::NAME, a, b);
    let half_ok = |got: T, twice: i128| Some(got) == mk(twice.div_euclid(2)) || Some(got) == mk(-((-twice).div_euclid(2)));
    // what a build without overflow checks returns on an axis whose sum leaves T: the wrapped sum, halved (truncating)
    let span = max - min + 1;
    let wrapped = |twice: i128| mk(((twice - min).rem_euclid(span) + min) / 2);
    // Ok(false): correct; Ok(true): exactly the recorded finding (panic 'attempt to add with overflow', or the wrapped
    // value, on a box with an axis whose min + max is not representable); Err: anything else
    let judge = |res: Result<[T; N], String>, ux: &Ub<N>| -> Result<bool, String> {
        match res {
            Ok(cn) => {
                let mut finding = false;
                for k in 0..N {
                    let twice = ux.lo[k] + ux.hi[k];
                    if half_ok(cn[k], twice) {
                        continue;
                    }
                    if mk(twice).is_none() && Some(cn[k]) == wrapped(twice) {
                        finding = true;
                    } else {
                        return Err(format!("{:?}", cn));
                    }
                }
                Ok(finding)
            }
            Err(m) if overflow(ux) && m.contains("attempt to add with overflow") => Ok(true),
            Err(m) => Err(format!("panic: {}", m)),
        }
    };
    for (ux, x) in [(ua, a), (ub, b)] {
        let want: Vec<i128> = (0..N).map(|k| (ux.lo[k] + ux.hi[k]).div_euclid(2)).collect();
        cx.count();
        match judge(catch(|| D::center(x)), &ux) {
            Ok(false) => {}
            Ok(true) if cx.known(F_MID) => {}
            Ok(true) => fail!("{}::<{}>::center of {:?} overflows (panic / wrapped value), want {:?}: the centre is representable, min + max is not", D::BOX, T::NAME, x, want),
            Err(got) => fail!("{}::<{}>::center of {:?} = {}, want {:?}", D::BOX, T::NAME, x, got, want),
        }
        // the rectangle form (when the extent is representable)
        if (0..N).all(|k| mk(ux.hi[k] - ux.lo[k]).is_some()) {
            let r = Or { pos: x.lo, ext: std::array::from_fn(|k| mk(ux.hi[k] - ux.lo[k]).unwrap()) };
            cx.count();
            match judge(catch(|| D::r_center(r)), &ux) {
                Ok(false) => {}
                Ok(true) if cx.known(F_MID) => {}
                Ok(true) => fail!("{}::<{}>::center of {:?} overflows (panic / wrapped value), want {:?}: the centre is representable, min + max is not", D::RECT, T::NAME, r, want),
                Err(got) => fail!("{}::<{}>::center of {:?} = {}, want {:?}", D::RECT, T::NAME, r, got, want),
            }
        }
    }
    // collision vector: both touching translations representable on every axis. The centres only choose the side, so
    // the wrapped outcome is still one of the two translations; the panicking outcome is the finding.
    let cand: [[Option<T>; 2]; N] = std::array::from_fn(|k| [mk(ua.hi[k] - ub.lo[k]), mk(ua.lo[k] - ub.hi[k])]);
    if cand.iter().all(|c| c[0].is_some() && c[1].is_some()) {
        cx.count();
        match catch(|| D::collision_vector_with_box(a, b)) {
            Ok(v) => {
                if !(0..N).all(|k| Some(v[k]) == cand[k][0] || Some(v[k]) == cand[k][1]) {
                    fail!("{}::<{}>::collision_vector of {:?} with {:?} = {:?}, want per axis one of {:?}", D::BOX, T::NAME, a, b, v, cand);
                }
            }
            Err(m) if (overflow(&ua) || overflow(&ub)) && m.contains("attempt to add with overflow") => {
                if !cx.known(F_MID) {
                    fail!("{}::<{}>::collision_vector of {:?} with {:?} panics ({}), want per axis one of {:?} (both representable; only min + max of a box is not)", D::BOX, T::NAME, a, b, m, cand);
                }
            }
            Err(m) => fail!("{}::<{}>::collision_vector of {:?} with {:?} panics: {}", D::BOX, T::NAME, a, b, m),
        }
        if (0..N).all(|k| mk(ua.hi[k] - ua.lo[k]).is_some() && mk(ub.hi[k] - ub.lo[k]).is_some()) {
            let ra = Or { pos: a.lo, ext: std::array::from_fn(|k| mk(ua.hi[k] - ua.lo[k]).unwrap()) };
            let rb = Or { pos: b.lo, ext: std::array::from_fn(|k| mk(ub.hi[k] - ub.lo[k]).unwrap()) };
            cx.count();
            match catch(|| D::r_collision_vector_with_rect(ra, rb)) {
                Ok(v) => {
                    if !(0..N).all(|k| Some(v[k]) == cand[k][0] || Some(v[k]) == cand[k][1]) {
                        fail!("{}::<{}>::collision_vector of {:?} with {:?} = {:?}, want per axis one of {:?}", D::RECT, T::NAME, ra, rb, v, cand);
                    }
                }
                Err(m) if (overflow(&ua) || overflow(&ub)) && m.contains("attempt to add with overflow") => {
                    if !cx.known(F_MID) {
                        fail!("{}::<{}>::collision_vector of {:?} with {:?} panics ({})", D::RECT, T::NAME, ra, rb, m);
                    }
                }
                Err(m) => fail!("{}::<{}>::collision_vector of {:?} with {:?} panics: {}", D::RECT, T::NAME, ra, rb, m),
            }
        }
    }
    Ok(())
}

pub fn centre_case<D: Dim<N>, const N: usize>(t: &mut Tape, cx: &mut Cx) -> CaseResult {
    match t.below(8) {
        0 => centre_typed::<D, i8, N>(t, cx),
        1 => centre_typed::<D, u8, N>(t, cx),
        2 => centre_typed::<D, i16, N>(t, cx),
        3 => centre_typed::<D, u16, N>(t, cx),
        4 => centre_typed::<D, i32, N>(t, cx),
        5 => centre_typed::<D, u32, N>(t, cx),
        6 => centre_typed::<D, i64, N>(t, cx),
        _ => centre_typed::<D, u64, N>(t, cx),
    }
}

// ---------------------------------------------------------------------------------------------
// floats: integer grid of mixed magnitudes, scaled exactly by 2^K
// ---------------------------------------------------------------------------------------------

pub trait Scaled: Fl {
    /// coordinates are even integers of magnitude <= 2^MAG units
    const MAG: u32;
    /// results (sums, differences) stay below 2^MANT units, where every integer is representable
    const MANT: u32;
    const KMIN: i32;
    const KMAX: i32;
    /// exponents of the wide-span regime: |e| <= WIDE
    const WIDE: i32;
    /// 2^MANT units = 2 * 2^(exponent of MAX): the scale of the top-binade regime
    const KTOP: i32;
    /// n * 2^k, exact for |n| <= 2^MANT and KMIN <= k <= KMAX
    fn units(n: i128, k: i32) -> Self;
}
fn ldexp64(n: i128, k: i32) -> f64 {
    let h = k / 2;
    (n as f64) * 2f64.powi(h) * 2f64.powi(k - h)
}
impl Scaled for f64 {
    const MAG: u32 = 50;
    const MANT: u32 = 53;
    const KMIN: i32 = -1074;
    const KMAX: i32 = 970;
    const WIDE: i32 = 1000;
    const KTOP: i32 = 971;
    fn units(n: i128, k: i32) -> f64 {
        ldexp64(n, k)
    }
}
impl Scaled for f32 {
    const MAG: u32 = 21;
    const MANT: u32 = 24;
    const KMIN: i32 = -149;
    const KMAX: i32 = 103;
    const WIDE: i32 = 120;
    const KTOP: i32 = 104;
    fn units(n: i128, k: i32) -> f32 {
        ldexp64(n, k) as f32
    }
}

/// an even integer of mixed magnitude, |n| <= 2^(mag-2)
fn mixed(t: &mut Tape, mag: u32) -> i128 {
    let m = t.int(0, 1023) as i128;
    let s = t.below((mag - 12) as usize) as u32;
    let v = (m << s) * 2;
    if t.bool() {
        -v
    } else {
        v
    }
}

const TOP: &str = "top binade: same-sign coordinates up to MAX (sums overflow, differences do not)";

fn scale_k<F: Scaled>(t: &mut Tape) -> (i32, &'static str) {
    let (lo, hi) = (F::KMIN, F::KMAX);
    let span = hi - lo;
    match t.below(9) {
        8 => (F::KTOP, TOP),
        0 | 1 | 2 => (-(F::MAG as i32) / 2, "moderate scale"),
        3 => (lo + t.below(4) as i32, "unit = smallest subnormal (+0..3)"),
        4 => (hi - t.below(4) as i32, "largest scale at which every sum stays finite (-0..3)"),
        5 => (lo + (t.u16() as i32 % (span / 4)), "tiny scale"),
        6 => (hi - (t.u16() as i32 % (span / 4)), "huge scale"),
        _ => (lo + span / 4 + (t.u16() as i32 % (span / 2)), "middle scale"),
    }
}

/// Pythagorean offsets with an integer length (first N components used).
const PY: [([i128; 3], i128); 10] = [([3, 4, 0], 5), ([4, 3, 0], 5), ([5, 12, 0], 13), ([8, 15, 0], 17), ([1, 2, 2], 3), ([2, 3, 6], 7), ([4, 4, 7], 9), ([1, 4, 8], 9), ([6, 2, 3], 7), ([2, 6, 9], 11)];

pub fn scaled_case<D: Dim<N>, F: Scaled, const N: usize>(t: &mut Tape, cx: &mut Cx) -> CaseResult {
    let (kexp, klabel) = scale_k::<F>(t);
    let mag = F::MAG;
    let mut ua = Ob { lo: [0i128; N], hi: [0i128; N] };
    let mut ub = ua;
    let mut gap_vs_extent = false;
    for k in 0..N {
        let lo = mixed(t, mag);
        let ext = if t.chance(32) { 0 } else { mixed(t, mag).abs() };
        ua.lo[k] = lo;
        ua.hi[k] = lo + ext;
        let tiny = 2 * t.int(0, 3) as i128;
        let (l, h) = match t.below(9) {
            0 => (ua.lo[k], ua.hi[k]),
            // apart / touching / overlapping by a few units, whatever the extent is
            1 => (ua.hi[k] + tiny, ua.hi[k] + tiny + mixed(t, mag).abs()),
            2 => (ua.hi[k] - tiny.min(ext), ua.hi[k] + mixed(t, mag).abs()),
            3 => (ua.lo[k] - tiny - mixed(t, mag).abs(), ua.lo[k] - tiny),
            // nested with a margin of a few units / containing by a few units
            4 => (ua.lo[k] + tiny.min(ext / 4 * 2), ua.hi[k] - tiny.min(ext / 4 * 2)),
            5 => (ua.lo[k] - tiny, ua.hi[k] + tiny),
            6 => (ua.lo[k] + tiny.min(ext / 4 * 2), ua.hi[k] + tiny),
            _ => {
                let l = mixed(t, mag);
                (l, l + mixed(t, mag).abs())
            }
        };
        ub.lo[k] = l;
        ub.hi[k] = h;
        gap_vs_extent |= ext >= 1 << (F::MAG / 2) && (l - ua.hi[k]).abs().min((h - ua.lo[k]).abs()).min((l - ua.lo[k]).abs()).min((h - ua.hi[k]).abs()) <= 6;
    }
    let mut upts: Vec<[i128; N]> = Vec::new();
    for i in 0..4 {
        let s = if i == 3 { ub } else { ua };
        upts.push(std::array::from_fn(|k| match t.below(8) {
            0 => s.lo[k],
            1 => s.hi[k],
            2 => s.lo[k] - 2,
            3 => s.hi[k] + 2,
            4 => s.lo[k] + (s.hi[k] - s.lo[k]) / 4 * 2,
            5 => s.lo[k] + 2 * ((s.hi[k] - s.lo[k]) >= 2) as i128,
            6 => 0,
            _ => mixed(t, mag),
        }));
    }
    let mut ucuts: Vec<(usize, i128)> = Vec::new();
    for k in 0..N {
        ucuts.push((k, ua.lo[k]));
        ucuts.push((k, ua.hi[k]));
        ucuts.push((k, ua.lo[k] + (ua.hi[k] - ua.lo[k]) / 4 * 2));
        ucuts.push((k, upts[0][k]));
    }
    if klabel == TOP {
        // move everything into the last binade(s) below MAX, all of one sign
        let shift = if t.bool() { 1i128 << (F::MANT - 1) } else { -(1i128 << (F::MANT - 1)) };
        for x in [&mut ua, &mut ub] {
            for k in 0..N {
                x.lo[k] += shift;
                x.hi[k] += shift;
            }
        }
        for p in upts.iter_mut() {
            for k in 0..N {
                p[k] += shift;
            }
        }
        for c in ucuts.iter_mut() {
            c.1 += shift;
        }
    }
    let limit = 1i128 << F::MANT;
    let mk = move |n: i128| {
        if n.abs() <= limit {
            let v = F::units(n, kexp);
            if num_traits::Float::is_finite(v) {
                return Some(v);
            }
        }
        None
    };
    let mkp = |p: &[i128; N]| -> [F; N] { std::array::from_fn(|k| mk(p[k]).unwrap()) };
    let (a, b) = (Ob { lo: mkp(&ua.lo), hi: mkp(&ua.hi) }, Ob { lo: mkp(&ub.lo), hi: mkp(&ub.hi) });
    let pts: Vec<[F; N]> = upts.iter().map(|p| mkp(p)).collect();
    let cuts: Vec<(usize, F)> = ucuts.iter().map(|(k, s)| (*k, mk(*s).unwrap())).collect();
    cx.label(klabel);
    if gap_vs_extent {
        cx.label("huge extent, gap / overlap of a few units");
    }
    cx.set_nontrivial(klabel != "moderate scale" || gap_vs_extent);
    sample!(cx, "{}<{}> unit 2^{}: a={:?} b={:?} points={:?} (in units: a={:?} b={:?})", D::BOX, <F as Dom>::NAME, kexp, a, b, pts, ua, ub);
    direct_checks::<D, F, N>(cx, a, b, &pts, &cuts)?;
    arith_checks::<D, F, i128, N>(cx, ua, ub, &upts, &ucuts, &mk, false)?;
    // distance_to_point with Pythagorean offsets: exact while the squares neither overflow nor underflow
    if (kexp + 16).abs() <= F::SQ - 16 && ua.valid() {
        // (the first four offsets are planar)
        let (off, hyp) = PY[t.below(if N == 2 { 4 } else { PY.len() })];
        {
            let s = 2 * t.int(1, 60) as i128;
            let up: [i128; N] = std::array::from_fn(|k| {
                if off[k] == 0 {
                    ua.lo[k] + (ua.hi[k] - ua.lo[k]) / 4 * 2
                } else if t.bool() {
                    ua.hi[k] + off[k] * s
                } else {
                    ua.lo[k] - off[k] * s
                }
            });
            let p = mkp(&up);
            let got = D::distance_to_point(a, p);
            let want = mk(hyp * s).unwrap();
            cx.label("distance_to_point: exact Pythagorean offset");
            check!(cx, got == want, "{}::distance_to_point({:?}) of {:?} = {:?}, want {:?} (unit 2^{}, offsets {:?} x {})", D::BOX, p, a, got, want, kexp, off, s);
            let inside: [i128; N] = std::array::from_fn(|k| ua.lo[k] + (ua.hi[k] - ua.lo[k]) / 4 * 2);
            let z = D::distance_to_point(a, mkp(&inside));
            check!(cx, z == F::of(0.0), "{}::distance_to_point of the member {:?} of {:?} = {:?}", D::BOX, inside, a, z);
            let _ = hyp;
        }
    }
    Ok(())
}

// ---------------------------------------------------------------------------------------------
// floats: coordinates of unrelated binary exponents, bounds one ulp apart
// ---------------------------------------------------------------------------------------------

fn wide_val<F: Scaled>(t: &mut Tape) -> F {
    if t.chance(12) {
        return F::of(0.0);
    }
    let m = 1.0 + t.int(0, 1023) as f64 / 1024.0;
    let e = match t.below(4) {
        0 => t.int(-8, 8) as i32,
        1 => t.int(-60, 60) as i32,
        _ => (t.u16() as i32 % (2 * F::WIDE + 1)) - F::WIDE,
    };
    let v = F::units(1, e.clamp(-F::WIDE, F::WIDE)) * F::of(m);
    if t.bool() {
        -v
    } else {
        v
    }
}
fn sorted<F: Scaled>(x: F, y: F) -> (F, F) {
    if x <= y {
        (x, y)
    } else {
        (y, x)
    }
}
fn fabs<F: Scaled>(x: F) -> F {
    num_traits::Float::abs(x)
}

/// Coordinates whose binary exponents are unrelated (spread far beyond the mantissa width) and bounds that are
/// neighbouring floats: predicates and selections are exact whatever the magnitudes are; the computing methods
/// are compared with a tolerance RELATIVE to the operands of the one subtraction / addition that defines them.
pub fn wide_case<D: Dim<N>, F: Scaled, const N: usize>(t: &mut Tape, cx: &mut Cx) -> CaseResult {
    let mut a = Ob { lo: [F::of(0.0); N], hi: [F::of(0.0); N] };
    let mut b = a;
    let mut adjacent = false;
    for k in 0..N {
        let lo: F = wide_val(t);
        let (lo, hi) = match t.below(6) {
            0 => (lo, lo),
            1 => (lo, lo.up()),
            2 => (lo, lo.up().up()),
            3 => sorted(lo, lo + fabs(wide_val::<F>(t))),
            _ => sorted(lo, wide_val(t)),
        };
        a.lo[k] = lo;
        a.hi[k] = hi;
        let w: F = fabs(wide_val::<F>(t));
        let (l, h) = match t.below(12) {
            0 => (lo, hi),
            1 => sorted(hi.up(), hi.up() + w),
            2 => sorted(hi, hi + w),
            3 => sorted(hi.down(), hi + w),
            4 => sorted(lo.down() - w, lo.down()),
            5 => sorted(lo - w, lo),
            6 => sorted(lo - w, lo.up()),
            7 => {
                if lo.up() <= hi.down() {
                    (lo.up(), hi.down())
                } else {
                    (lo, hi)
                }
            }
            8 => (lo.down(), hi.up()),
            9 => sorted(lo.up().min_f(hi), hi.up()),
            _ => sorted(wide_val(t), wide_val(t)),
        };
        adjacent |= l == hi.up() || l == hi.down() || h == lo.down() || h == lo.up() || l == lo.up() || l == lo.down() || h == hi.up() || h == hi.down() || hi == lo.up();
        b.lo[k] = l;
        b.hi[k] = h;
    }
    let mut pts: Vec<[F; N]> = Vec::new();
    for i in 0..4 {
        let s = if i == 3 { b } else { a };
        pts.push(std::array::from_fn(|k| match t.below(9) {
            0 => s.lo[k],
            1 => s.hi[k],
            2 => s.lo[k].down(),
            3 => s.hi[k].up(),
            4 => s.lo[k].up(),
            5 => s.hi[k].down(),
            6 => s.lo[k] / F::of(2.0) + s.hi[k] / F::of(2.0),
            7 => F::of(0.0),
            _ => wide_val(t),
        }));
    }
    let mut cuts: Vec<(usize, F)> = Vec::new();
    for k in 0..N {
        cuts.push((k, a.lo[k]));
        cuts.push((k, a.hi[k]));
        cuts.push((k, a.lo[k].up()));
        cuts.push((k, a.lo[k] / F::of(2.0) + a.hi[k] / F::of(2.0)));
        cuts.push((k, pts[0][k]));
    }
    let spread = (0..N).any(|k| {
        let ex: Vec<f64> = [a.lo[k], a.hi[k], b.lo[k], b.hi[k]].iter().filter(|x| **x != F::of(0.0)).map(|x| x.f().abs().log2()).collect();
        ex.iter().cloned().fold(f64::MIN, f64::max) - ex.iter().cloned().fold(f64::MAX, f64::min) >= F::MANT as f64
    });
    if spread {
        cx.label("exponent spread beyond the mantissa width");
    }
    if adjacent {
        cx.label("bounds one ulp apart");
    }
    cx.set_nontrivial(spread || adjacent);
    sample!(cx, "{}<{}> a={:?} b={:?} points={:?}", D::BOX, <F as Dom>::NAME, a, b, pts);
    direct_checks::<D, F, N>(cx, a, b, &pts, &cuts)?;
    crate::special::rect_checks::<D, F, N>(cx, a, b, &pts, &cuts)?;
    crate::special::distance_checks::<D, F, N>(cx, a, &pts)?;
    // computing methods, relative to the operands
    let eps = <F as Dom>::eps();
    // (+ two quanta of the subnormal range, where halving and cancellation round to the fixed grid)
    let quantum = <F as num_traits::Float>::min_positive_value().f() * eps;
    let near = |got: F, want: f64, x: F, y: F| (got.f() - want).abs() <= 2.0 * eps * x.f().abs().max(y.f().abs()) + 2.0 * quantum;
    for x in [a, b] {
        let (c, s, h) = (D::center(x), D::size(x), D::half_size(x));
        for k in 0..N {
            let (l, u) = (x.lo[k], x.hi[k]);
            cx.count();
            if !near(c[k], l.f() / 2.0 + u.f() / 2.0, l, u) {
                fail!("{}::center of {:?} = {:?}: axis {} is off by more than 2 ulp of the larger bound", D::BOX, x, c, k);
            }
            cx.count();
            if !near(s[k], u.f() - l.f(), l, u) || !near(h[k], u.f() / 2.0 - l.f() / 2.0, l, u) {
                fail!("{}::size / half_size of {:?} = {:?} / {:?}: axis {} is off by more than 2 ulp of the larger bound", D::BOX, x, s, h, k);
            }
        }
        check!(cx, x.has(&c), "center {:?} not inside {:?}", c, x);
    }
    for (x, y) in [(a, b), (b, a)] {
        let v = D::collision_vector_with_box(x, y);
        for k in 0..N {
            cx.count();
            if !(near(v[k], x.hi[k].f() - y.lo[k].f(), x.hi[k], y.lo[k]) || near(v[k], x.lo[k].f() - y.hi[k].f(), x.lo[k], y.hi[k])) {
                fail!("collision_vector of {:?} with {:?} = {:?}: axis {} is neither max - other.min nor min - other.max to within 2 ulp of those operands", x, y, v, k);
            }
        }
    }
    Ok(())
}
trait MinF {
    fn min_f(self, o: Self) -> Self;
}
impl<F: Scaled> MinF for F {
    fn min_f(self, o: F) -> F {
        if o < self {
            o
        } else {
            self
        }
    }
}
