fn main() {
    vkit::driver::main(c13::property())
}
