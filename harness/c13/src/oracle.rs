//! The oracle side: boxes and rectangles as plain arrays, closed-interval membership, hulls of point
//! sets, probe grids. Nothing in here calls vek (the `project2/3` hooks of `Sc` only route to the adapter for the
//! element types that implement vek's `Clamp`).

use std::fmt::Debug;
use std::ops::{Add, Div, Mul, Sub};
use num_traits::{One, Zero};
use vkit::Rat;

/// Scalars the generic checks are instantiated with.
pub trait Sc:
    Copy + PartialOrd + Debug + Add<Output = Self> + Sub<Output = Self> + Mul<Output = Self> + Div<Output = Self> + One + Zero + 'static
{
    const EXACT: bool;
    fn from_i(n: i32) -> Self;
    /// equality of arithmetic results: exact in exact domains, a few ulps of `scale` for floats
    fn close(a: Self, b: Self, scale: f64) -> bool;
    fn to_f(self) -> f64;
    /// the greatest value of the type (+inf or MAX): the `min` of an inside-out "accumulator" box
    fn is_top(self) -> bool {
        false
    }
    /// the least value of the type (-inf, -MAX or MIN): the `max` of an inside-out "accumulator" box
    fn is_bot(self) -> bool {
        false
    }
    /// `Aabr::projected_point` / `Aabb::projected_point` in this element type; None when the type does not
    /// implement vek's `Clamp` (i128, u128 and their `Wrapping`s), so that the method does not exist for it
    fn project2(_a: Ob<Self, 2>, _p: [Self; 2]) -> Option<[Self; 2]> {
        None
    }
    fn project3(_a: Ob<Self, 3>, _p: [Self; 3]) -> Option<[Self; 3]> {
        None
    }
}
/// the two projection hooks for an element type that implements `vek::ops::Clamp`
macro_rules! sc_project {
    () => {
        fn project2(a: Ob<Self, 2>, p: [Self; 2]) -> Option<[Self; 2]> {
            Some(crate::adapter::proj2(a, p))
        }
        fn project3(a: Ob<Self, 3>, p: [Self; 3]) -> Option<[Self; 3]> {
            Some(crate::adapter::proj3(a, p))
        }
    };
}
macro_rules! sc_int {
    ($($T:ident)+) => {$(
        impl Sc for $T {
            const EXACT: bool = true;
        sc_project!();
            fn from_i(n: i32) -> $T {
                n as $T
            }
            fn close(a: $T, b: $T, _: f64) -> bool {
                a == b
            }
            fn to_f(self) -> f64 {
                self as f64
            }
            fn is_top(self) -> bool {
                self == $T::MAX
            }
            fn is_bot(self) -> bool {
                self == $T::MIN
            }
        }
    )+};
}
sc_int!(i8 i16 i64 u8 u16 u32 u64);
impl Sc for f32 {
    const EXACT: bool = false;
        sc_project!();
    fn from_i(n: i32) -> f32 {
        n as f32
    }
    fn close(a: f32, b: f32, scale: f64) -> bool {
        a == b || ((a - b).abs() as f64) <= 8.0 * f32::EPSILON as f64 * scale.abs().max(1.0)
    }
    fn to_f(self) -> f64 {
        self as f64
    }
    fn is_top(self) -> bool {
        self == f32::INFINITY || self == f32::MAX
    }
    fn is_bot(self) -> bool {
        self == f32::NEG_INFINITY || self == -f32::MAX
    }
}
impl Sc for i32 {
    const EXACT: bool = true;
        sc_project!();
    fn from_i(n: i32) -> i32 {
        n
    }
    fn close(a: i32, b: i32, _: f64) -> bool {
        a == b
    }
    fn to_f(self) -> f64 {
        self as f64
    }
    fn is_top(self) -> bool {
        self == i32::MAX
    }
    fn is_bot(self) -> bool {
        self == i32::MIN
    }
}
impl Sc for Rat {
    const EXACT: bool = true;
        sc_project!();
    fn from_i(n: i32) -> Rat {
        Rat::int(n as i64)
    }
    fn close(a: Rat, b: Rat, _: f64) -> bool {
        a == b
    }
    fn to_f(self) -> f64 {
        self.to_f64_lossy()
    }
}
impl Sc for f64 {
    const EXACT: bool = false;
        sc_project!();
    fn from_i(n: i32) -> f64 {
        n as f64
    }
    fn close(a: f64, b: f64, scale: f64) -> bool {
        a == b || (a - b).abs() <= 8.0 * f64::EPSILON * scale.abs().max(1.0)
    }
    fn to_f(self) -> f64 {
        self
    }
    fn is_top(self) -> bool {
        self == f64::INFINITY || self == f64::MAX
    }
    fn is_bot(self) -> bool {
        self == f64::NEG_INFINITY || self == -f64::MAX
    }
}

/// true iff `x` is unordered with itself (a float NaN); never true for integers and rationals
pub fn nan<T: PartialOrd>(x: T) -> bool {
    x.partial_cmp(&x).is_none()
}
/// equal by value, or both NaN (+0.0 and -0.0 are equal: they denote the same point)
pub fn veq<T: PartialOrd + Copy>(a: T, b: T) -> bool {
    a == b || (nan(a) && nan(b))
}
pub fn veq_arr<T: PartialOrd + Copy, const N: usize>(a: &[T; N], b: &[T; N]) -> bool {
    (0..N).all(|k| veq(a[k], b[k]))
}
pub fn veq_box<T: PartialOrd + Copy, const N: usize>(a: &Ob<T, N>, b: &Ob<T, N>) -> bool {
    veq_arr(&a.lo, &b.lo) && veq_arr(&a.hi, &b.hi)
}
pub fn veq_rect<T: PartialOrd + Copy, const N: usize>(a: &Or<T, N>, b: &Or<T, N>) -> bool {
    veq_arr(&a.pos, &b.pos) && veq_arr(&a.ext, &b.ext)
}
pub fn pmin<T: PartialOrd>(a: T, b: T) -> T {
    if b < a {
        b
    } else {
        a
    }
}
pub fn pmax<T: PartialOrd>(a: T, b: T) -> T {
    if b > a {
        b
    } else {
        a
    }
}

/// A box as the pair of its corners (not necessarily valid).
#[derive(Clone, Copy, PartialEq, Debug)]
pub struct Ob<T, const N: usize> {
    pub lo: [T; N],
    pub hi: [T; N],
}
/// A rectangle as position and extent (possibly of different types).
#[derive(Clone, Copy, PartialEq, Debug)]
pub struct Orx<P, E, const N: usize> {
    pub pos: [P; N],
    pub ext: [E; N],
}
pub type Or<T, const N: usize> = Orx<T, T, N>;

impl<T: Copy + PartialOrd, const N: usize> Ob<T, N> {
    /// closed-interval membership on every axis
    pub fn has(&self, p: &[T; N]) -> bool {
        (0..N).all(|k| self.lo[k] <= p[k] && p[k] <= self.hi[k])
    }
    /// strictly inside on every axis
    pub fn has_strict(&self, p: &[T; N]) -> bool {
        (0..N).all(|k| self.lo[k] < p[k] && p[k] < self.hi[k])
    }
    pub fn valid(&self) -> bool {
        (0..N).all(|k| self.lo[k] <= self.hi[k])
    }
    pub fn positive(&self) -> bool {
        (0..N).all(|k| self.lo[k] < self.hi[k])
    }
    pub fn has_nan(&self) -> bool {
        (0..N).any(|k| nan(self.lo[k]) || nan(self.hi[k]))
    }
}
impl<T: Sc, const N: usize> Ob<T, N> {
    /// the inside-out "accumulator" box: min = greatest value, max = least value on every axis
    /// (the empty set, identity of `union` / `expanded_to_contain_point`)
    pub fn accumulator(&self) -> bool {
        (0..N).all(|k| self.lo[k].is_top() && self.hi[k].is_bot())
    }
}

/// Smallest box containing all the points (None for no points).
pub fn hull<T: Copy + PartialOrd, const N: usize>(it: impl Iterator<Item = [T; N]>) -> Option<Ob<T, N>> {
    let mut r: Option<Ob<T, N>> = None;
    for p in it {
        match &mut r {
            None => r = Some(Ob { lo: p, hi: p }),
            Some(o) => {
                for k in 0..N {
                    if p[k] < o.lo[k] {
                        o.lo[k] = p[k];
                    }
                    if p[k] > o.hi[k] {
                        o.hi[k] = p[k];
                    }
                }
            }
        }
    }
    r
}

/// Cartesian product of per-axis coordinate lists.
pub fn product<T: Copy, const N: usize>(axes: &[Vec<T>; N]) -> Vec<[T; N]> {
    let total: usize = axes.iter().map(|a| a.len()).product();
    let mut out = Vec::with_capacity(total);
    for i in 0..total {
        let mut i = i;
        let mut p = [axes[0][0]; N];
        for k in 0..N {
            p[k] = axes[k][i % axes[k].len()];
            i /= axes[k].len();
        }
        out.push(p);
    }
    out
}

/// Probe coordinates of one axis: the given coordinates (sorted, distinct), a point between any two
/// neighbours, one point below and one above.
/// The flag is false when two neighbouring coordinates have no representable point between them
/// (adjacent floats): the grid then cannot witness a common interior point and the case is discarded.
pub fn probe_axis<T: Sc>(vals: &[T]) -> (Vec<T>, bool) {
    let mut complete = true;
    let mut v: Vec<T> = Vec::new();
    for &x in vals {
        if !v.iter().any(|y| *y == x) {
            let pos = v.iter().position(|y| *y > x).unwrap_or(v.len());
            v.insert(pos, x);
        }
    }
    let two = T::from_i(2);
    let mut out = vec![v[0] - T::one()];
    for i in 0..v.len() {
        out.push(v[i]);
        if i + 1 < v.len() {
            let m = (v[i] + v[i + 1]) / two;
            if m > v[i] && m < v[i + 1] {
                out.push(m);
            } else {
                complete = false;
            }
        }
    }
    out.push(v[v.len() - 1] + T::one());
    (out, complete)
}

/// Relation of two valid boxes (for labels and the non-triviality rule only).
pub fn relation<T: Copy + PartialOrd, const N: usize>(a: &Ob<T, N>, b: &Ob<T, N>) -> &'static str {
    let mx = |x: T, y: T| if x >= y { x } else { y };
    let mn = |x: T, y: T| if x <= y { x } else { y };
    if a.lo == b.lo && a.hi == b.hi {
        return "identical";
    }
    let a_in_b = (0..N).all(|k| b.lo[k] <= a.lo[k] && a.hi[k] <= b.hi[k]);
    let b_in_a = (0..N).all(|k| a.lo[k] <= b.lo[k] && b.hi[k] <= a.hi[k]);
    if a_in_b || b_in_a {
        return "nested";
    }
    let open = (0..N).all(|k| mx(a.lo[k], b.lo[k]) < mn(a.hi[k], b.hi[k]));
    if open {
        return "overlap";
    }
    let closed = (0..N).all(|k| mx(a.lo[k], b.lo[k]) <= mn(a.hi[k], b.hi[k]));
    if closed {
        "touch"
    } else {
        "disjoint"
    }
}

/// Box number `i` of the grid {0..g-1}^N x {0..g-1}^N, coordinates doubled.
pub fn decode_box<const N: usize>(mut i: u64, g: u64) -> Ob<i32, N> {
    let mut lo = [0i32; N];
    let mut hi = [0i32; N];
    for k in 0..N {
        lo[k] = 2 * (i % g) as i32;
        i /= g;
    }
    for k in 0..N {
        hi[k] = 2 * (i % g) as i32;
        i /= g;
    }
    Ob { lo, hi }
}
