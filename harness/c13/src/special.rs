//! Float instantiations (f32, f64) on IEEE special values: NaN point coordinates and box bounds, infinite
//! coordinates and bounds (half-spaces, everything, inside-out accumulators), signed zeros, MAX, subnormals.

use crate::adapter::Dim;
use crate::direct::direct_checks;
use crate::oracle::*;
use num_traits::{AsPrimitive, Float};
use vkit::regimes::Special;
use vkit::*;

pub trait Fl: Sc + Dom + Float + Special + AsPrimitive<i32> + AsPrimitive<u8> + AsPrimitive<i64> + AsPrimitive<f32> + AsPrimitive<f64> {
    /// squares of values with a binary exponent in [-SQ, SQ] neither overflow nor lose bits to underflow
    const SQ: i32;
    fn of(x: f64) -> Self;
    /// the neighbouring representable values
    fn up(self) -> Self;
    fn down(self) -> Self;
}
impl Fl for f64 {
    const SQ: i32 = 500;
    fn of(x: f64) -> f64 {
        x
    }
    fn up(self) -> f64 {
        self.next_up()
    }
    fn down(self) -> f64 {
        self.next_down()
    }
}
impl Fl for f32 {
    const SQ: i32 = 60;
    fn of(x: f64) -> f32 {
        x as f32
    }
    fn up(self) -> f32 {
        self.next_up()
    }
    fn down(self) -> f32 {
        self.next_down()
    }
}

fn inf<F: Fl>() -> F {
    Float::infinity()
}
fn qnan<F: Fl>() -> F {
    Float::nan()
}
fn fmax<F: Fl>() -> F {
    Float::max_value()
}
fn is_inf<F: Fl>(x: F) -> bool {
    Float::is_infinite(x)
}
fn plain<F: Fl>(t: &mut Tape) -> F {
    if t.bool() {
        F::of(t.int(-4, 4) as f64)
    } else {
        F::of(t.int(-64, 64) as f64 / 8.0)
    }
}
fn pool<F: Fl>(t: &mut Tape) -> F {
    match t.below(4) {
        0 => F::specials()[t.below(15)],
        1 => t.pick(&[qnan::<F>(), inf(), -inf::<F>(), F::of(0.0), F::of(-0.0), fmax(), -fmax::<F>()]),
        _ => plain(t),
    }
}

/// One axis of a box from the special regimes; the label says which.
fn special_axis<F: Fl>(t: &mut Tape) -> (F, F) {
    let x: F = plain(t);
    let e: F = F::of(t.int(0, 24) as f64 / 4.0);
    let z = |t: &mut Tape| if t.bool() { F::of(-0.0) } else { F::of(0.0) };
    match t.below(13) {
        0 => (-inf::<F>(), x),
        1 => (x, inf()),
        2 => (-inf::<F>(), inf()),
        3 => t.pick(&[(inf::<F>(), -inf::<F>()), (fmax(), -fmax::<F>()), (inf(), -fmax::<F>())]),
        4 => (qnan(), x),
        5 => (x, qnan()),
        6 => (qnan(), qnan()),
        7 => (z(t), z(t)),
        8 => t.pick(&[(inf::<F>(), inf::<F>()), (-inf::<F>(), -inf::<F>())]),
        9 => {
            let mp: F = Float::min_positive_value();
            let sub = mp / F::of(4.0);
            t.pick(&[(-fmax::<F>(), fmax::<F>()), (fmax(), fmax()), (-fmax::<F>(), -fmax::<F>()), (F::of(0.0), mp), (-sub, sub), (fmax(), inf()), (-inf::<F>(), -fmax::<F>()), (-mp, F::of(0.0)), (F::of(1.0), F::of(1.0) + Float::epsilon())])
        }
        10 => (pool(t), pool(t)),
        11 => (z(t), x.abs_f()),
        _ => (x, x + e),
    }
}
trait AbsF {
    fn abs_f(self) -> Self;
}
impl<F: Fl> AbsF for F {
    fn abs_f(self) -> F {
        Float::abs(self)
    }
}
fn plain_axis<F: Fl>(t: &mut Tape) -> (F, F) {
    let x: F = plain(t);
    let e: F = F::of(t.int(0, 24) as f64 / 4.0);
    (x, x + e)
}
fn mid<F: Fl>(lo: F, hi: F) -> F {
    let m = lo / F::of(2.0) + hi / F::of(2.0);
    if m >= lo && m <= hi {
        m
    } else if !nan(lo) && !is_inf(lo) {
        lo
    } else if !nan(hi) && !is_inf(hi) {
        hi
    } else {
        F::of(0.0)
    }
}
fn inside_coord<F: Fl>(t: &mut Tape, lo: F, hi: F) -> F {
    match t.below(4) {
        0 => lo,
        1 => hi,
        _ => mid(lo, hi),
    }
}
fn any_coord<F: Fl>(t: &mut Tape, lo: F, hi: F) -> F {
    match t.below(10) {
        0 | 1 => inside_coord(t, lo, hi),
        2 | 3 => qnan(),
        4 => inf(),
        5 => -inf::<F>(),
        6 => t.pick(&[F::of(0.0), F::of(-0.0)]),
        7 => lo - F::of(1.0),
        8 => hi + F::of(1.0),
        _ => pool(t),
    }
}
/// an axis of the second box, related to the axis (lo, hi) of the first
fn related_axis<F: Fl>(t: &mut Tape, lo: F, hi: F, inside_only: bool) -> (F, F) {
    let finite = !nan(lo) && !nan(hi) && !is_inf(lo) && !is_inf(hi) && lo <= hi;
    let sel = if inside_only { t.below(2) } else { t.below(5) };
    match sel {
        0 => (lo, hi),
        1 => {
            if finite {
                let m = mid(lo, hi);
                t.pick(&[(lo, m), (m, hi), (m, m), (lo, lo)])
            } else if lo <= hi {
                // a bounded part of a half-space / of everything
                let x: F = if !is_inf(lo) { lo } else if !is_inf(hi) { hi - F::of(2.0) } else { plain(t) };
                (x, x + F::of(1.0))
            } else {
                plain_axis(t)
            }
        }
        2 => plain_axis(t),
        3 => {
            // touching / crossing one face
            let x: F = if !nan(hi) && !is_inf(hi) { hi } else { plain(t) };
            t.pick(&[(x, x + F::of(1.0)), (x - F::of(0.5), x + F::of(1.0)), (x, inf()), (-inf::<F>(), x)])
        }
        _ => special_axis(t),
    }
}

fn classify<F: Fl, const N: usize>(cx: &mut Cx, boxes: &[Ob<F, N>], pts: &[[F; N]]) -> bool {
    let mut special = false;
    let mut see = |cx: &mut Cx, x: F, bound: bool| {
        let mp: F = Float::min_positive_value();
        if nan(x) {
            cx.label(if bound { "NaN box bound" } else { "NaN point coordinate" });
            special = true;
        } else if is_inf(x) {
            cx.label(if bound { "infinite box bound" } else { "infinite point coordinate" });
            special = true;
        } else if x == F::of(0.0) && Float::is_sign_negative(x) {
            cx.label("negative zero");
            special = true;
        } else if Float::abs(x) == fmax::<F>() || (x != F::of(0.0) && Float::abs(x) <= mp) {
            cx.label("MAX / MIN_POSITIVE / subnormal");
            special = true;
        }
    };
    for b in boxes {
        for k in 0..N {
            see(cx, b.lo[k], true);
            see(cx, b.hi[k], true);
        }
        if b.accumulator() {
            cx.label("inside-out accumulator box");
        }
    }
    for p in pts {
        for k in 0..N {
            see(cx, p[k], false);
        }
    }
    special
}

fn rect_of<F: Fl, const N: usize>(x: &Ob<F, N>) -> Or<F, N> {
    Or { pos: x.lo, ext: std::array::from_fn(|k| x.hi[k] - x.lo[k]) }
}
fn box_of<F: Fl, const N: usize>(r: &Or<F, N>) -> Ob<F, N> {
    Ob { lo: r.pos, hi: std::array::from_fn(|k| r.pos[k] + r.ext[k]) }
}

/// Rectangles: the conversions are one IEEE operation per element (extent = max - min, max = position + extent),
/// every rectangle method is the box method on the converted value - judged by the closed-interval formulas
/// where the converted boxes denote sets, by vek's own box method (on the oracle-converted box) otherwise.
pub fn rect_checks<D: Dim<N>, F: Fl, const N: usize>(cx: &mut Cx, a: Ob<F, N>, b: Ob<F, N>, pts: &[[F; N]], cuts: &[(usize, F)]) -> CaseResult {
    for x in [a, b] {
        let want = rect_of(&x);
        let (g1, g2) = (D::rect_from(x), D::into_rect(x));
        check!(cx, veq_rect(&g1, &want) && veq_rect(&g2, &want), "{}::from({:?}) = {:?} / into_rect {:?}, want {:?}", D::RECT, x, g1, g2, want);
    }
    // the rectangle of `a`, and a rectangle with a free extent (taken from the max corner of b)
    let rs = [rect_of(&a), Or { pos: a.lo, ext: b.hi }, rect_of(&b)];
    for r in rs {
        let cb = box_of(&r);
        let (g1, g2) = (D::box_from_rect(r), D::r_into_box(r));
        check!(cx, veq_box(&g1, &cb) && veq_box(&g2, &cb), "{}::from({:?}) = {:?} / into {:?}, want {:?}", D::BOX, r, g1, g2, cb);
        for p in pts {
            check_eq!(cx, D::r_contains_point(r, *p), cb.has(p), "{}::contains_point({:?}) of {:?} (box {:?})", D::RECT, p, r, cb);
        }
        check!(cx, veq_arr(&D::r_center(r), &D::center(cb)), "{}::center of {:?} vs box {:?}", D::RECT, r, cb);
        for p in pts {
            let want = if cb.valid() && !p.iter().any(|x| nan(*x)) {
                rect_of(&Ob { lo: std::array::from_fn(|k| pmin(cb.lo[k], p[k])), hi: std::array::from_fn(|k| pmax(cb.hi[k], p[k])) })
            } else {
                rect_of(&D::expanded_to_contain_point(cb, *p))
            };
            let (g1, g2) = (D::r_expanded_to_contain_point(r, *p), D::r_expand_to_contain_point(r, *p));
            check!(cx, veq_rect(&g1, &want) && veq_rect(&g2, &want), "{}::expanded_to_contain_point({:?}) of {:?} = {:?} / in place {:?}, want {:?}", D::RECT, p, r, g1, g2, want);
        }
        if cb.valid() {
            for &(k, sp) in cuts {
                if cb.lo[k] <= sp && sp <= cb.hi[k] {
                    let (mut wl, mut wh) = (cb, cb);
                    wl.hi[k] = sp;
                    wh.lo[k] = sp;
                    let [gl, gh] = D::r_split(r, k, sp);
                    check!(cx, veq_rect(&gl, &rect_of(&wl)) && veq_rect(&gh, &rect_of(&wh)), "{}::split axis {} at {:?} of {:?} = {:?} {:?}", D::RECT, k, sp, r, gl, gh);
                }
            }
        }
    }
    for (r, s) in [(rs[0], rs[2]), (rs[2], rs[0]), (rs[1], rs[2]), (rs[2], rs[1]), (rs[0], rs[0])] {
        let (cr, cs) = (box_of(&r), box_of(&s));
        let want = if cs.valid() { cr.has(&cs.lo) && cr.has(&cs.hi) } else { D::contains_box(cr, cs) };
        check_eq!(cx, D::r_contains_rect(r, s), want, "{}::contains: {:?} contains {:?} (boxes {:?} {:?})", D::RECT, r, s, cr, cs);
        let want = if cr.positive() && cs.positive() { (0..N).all(|k| pmax(cr.lo[k], cs.lo[k]) < pmin(cr.hi[k], cs.hi[k])) } else { D::collides_with_box(cr, cs) };
        check_eq!(cx, D::r_collides_with_rect(r, s), want, "{}::collides: {:?} with {:?} (boxes {:?} {:?})", D::RECT, r, s, cr, cs);
        let (wu, wi) = if cr.valid() && cs.valid() {
            (
                Ob { lo: std::array::from_fn(|k| pmin(cr.lo[k], cs.lo[k])), hi: std::array::from_fn(|k| pmax(cr.hi[k], cs.hi[k])) },
                Ob { lo: std::array::from_fn(|k| pmax(cr.lo[k], cs.lo[k])), hi: std::array::from_fn(|k| pmin(cr.hi[k], cs.hi[k])) },
            )
        } else {
            (D::union(cr, cs), D::intersection(cr, cs))
        };
        let (g1, g2) = (D::r_union(r, s), D::r_expand_to_contain(r, s));
        check!(cx, veq_rect(&g1, &rect_of(&wu)) && veq_rect(&g2, &rect_of(&wu)), "{}::union of {:?} {:?} = {:?} / in place {:?}, want {:?}", D::RECT, r, s, g1, g2, rect_of(&wu));
        let (g1, g2) = (D::r_intersection(r, s), D::r_intersect(r, s));
        check!(cx, veq_rect(&g1, &rect_of(&wi)) && veq_rect(&g2, &rect_of(&wi)), "{}::intersection of {:?} {:?} = {:?} / in place {:?}, want {:?}", D::RECT, r, s, g1, g2, rect_of(&wi));
        let (g, w) = (D::r_collision_vector_with_rect(r, s), D::collision_vector_with_box(cr, cs));
        check!(cx, veq_arr(&g, &w), "{}::collision_vector of {:?} {:?} = {:?}, box form {:?}", D::RECT, r, s, g, w);
    }
    Ok(())
}

/// distance_to_point on special values: infinite when the point is infinitely far on some axis, zero for
/// members, sqrt of the squared excesses otherwise.
pub fn distance_checks<D: Dim<N>, F: Fl, const N: usize>(cx: &mut Cx, x: Ob<F, N>, pts: &[[F; N]]) -> CaseResult {
    if !x.valid() {
        return Ok(());
    }
    'pts: for p in pts {
        if p.iter().any(|c| nan(*c)) {
            continue;
        }
        let mut ex = [F::of(0.0); N];
        for k in 0..N {
            ex[k] = if p[k] < x.lo[k] {
                x.lo[k] - p[k]
            } else if p[k] > x.hi[k] {
                p[k] - x.hi[k]
            } else if is_inf(p[k]) {
                // an infinite coordinate that is a member (infinite bound): p - projection is inf - inf
                continue 'pts;
            } else {
                F::of(0.0)
            };
        }
        let got = D::distance_to_point(x, *p);
        if ex.iter().any(|e| is_inf(*e)) {
            cx.label("distance: infinitely far");
            check!(cx, got == inf::<F>(), "{}::distance_to_point({:?}) of {:?} = {:?}, want +inf", D::BOX, p, x, got);
        } else if ex.iter().all(|e| *e == F::of(0.0)) {
            check!(cx, got == F::of(0.0), "{}::distance_to_point({:?}) of {:?} = {:?}, want 0 (a member)", D::BOX, p, x, got);
        } else if ex.iter().all(|e| *e == F::of(0.0) || e.f().log2().abs() <= F::SQ as f64) {
            // (squares neither overflow nor underflow: outside of this range the result is not asserted)
            let s2: f64 = ex.iter().map(|e| e.f() * e.f()).sum();
            let want = s2.sqrt();
            let tol = 8.0 * <F as Dom>::eps() * want;
            cx.count();
            if !((got.f() - want).abs() <= tol) {
                fail!("{}::distance_to_point({:?}) of {:?} = {:?}, want {:e} (excesses {:?})", D::BOX, p, x, got, want, ex);
            }
        }
    }
    Ok(())
}

pub fn special_case<D: Dim<N>, F: Fl, const N: usize>(t: &mut Tape, cx: &mut Cx) -> CaseResult {
    let theme = t.below(8);
    let sp_axis = t.below(N);
    let mut a = Ob { lo: [F::of(0.0); N], hi: [F::of(0.0); N] };
    let mut b = a;
    for k in 0..N {
        let (l, h) = match theme {
            // one special axis, the others plain
            0 | 1 | 2 => if k == sp_axis { special_axis::<F>(t) } else { plain_axis::<F>(t) },
            // NaN point: plain box, sometimes with an infinite side
            3 | 4 => {
                if t.chance(48) {
                    let x: F = plain(t);
                    t.pick(&[(-inf::<F>(), x), (x, inf::<F>()), (-inf::<F>(), inf::<F>())])
                } else {
                    plain_axis::<F>(t)
                }
            }
            // accumulator
            5 => (F::of(0.0), F::of(0.0)),
            _ => special_axis::<F>(t),
        };
        a.lo[k] = l;
        a.hi[k] = h;
    }
    if theme == 5 {
        let (top, bot) = t.pick(&[(inf::<F>(), -inf::<F>()), (fmax::<F>(), -fmax::<F>())]);
        a = Ob { lo: [top; N], hi: [bot; N] };
    }
    for k in 0..N {
        let (l, h) = match theme {
            0 | 1 | 2 => related_axis(t, a.lo[k], a.hi[k], k != sp_axis),
            5 => if t.chance(40) { special_axis::<F>(t) } else { plain_axis::<F>(t) },
            _ => related_axis(t, a.lo[k], a.hi[k], false),
        };
        b.lo[k] = l;
        b.hi[k] = h;
    }
    let mut pts: Vec<[F; N]> = Vec::new();
    for i in 0..4 {
        let src = if i == 3 { b } else { a };
        let nan_axis = t.below(N);
        let p: [F; N] = std::array::from_fn(|k| match theme {
            0 | 1 | 2 => if k == sp_axis { any_coord(t, src.lo[k], src.hi[k]) } else { inside_coord(t, src.lo[k], src.hi[k]) },
            3 | 4 => if k == nan_axis || t.chance(32) { qnan() } else { inside_coord(t, src.lo[k], src.hi[k]) },
            _ => any_coord(t, src.lo[k], src.hi[k]),
        });
        pts.push(p);
    }
    let mut cuts: Vec<(usize, F)> = Vec::new();
    for k in 0..N {
        cuts.push((k, a.lo[k]));
        cuts.push((k, a.hi[k]));
        cuts.push((k, mid(a.lo[k], a.hi[k])));
        cuts.push((k, pts[0][k]));
    }
    let special = classify(cx, &[a, b], &pts);
    cx.set_nontrivial(special);
    cx.label(match theme {
        0 | 1 | 2 => "theme: one special axis, the others plain with the point inside",
        3 | 4 => "theme: NaN point coordinate, the other coordinates inside",
        5 => "theme: inside-out accumulator",
        _ => "theme: every axis special",
    });
    sample!(cx, "{}<{}> a={:?} b={:?} points={:?}", D::BOX, <F as Dom>::NAME, a, b, pts);
    direct_checks::<D, F, N>(cx, a, b, &pts, &cuts)?;
    rect_checks::<D, F, N>(cx, a, b, &pts, &cuts)?;
    distance_checks::<D, F, N>(cx, a, &pts)?;
    distance_checks::<D, F, N>(cx, b, &pts)?;
    // casts of special values (`as`: saturating, NaN -> 0)
    {
        macro_rules! cast {
            ($U:ty) => {{
                let want = Ob::<$U, N> { lo: a.lo.map(|x| AsPrimitive::<$U>::as_(x)), hi: a.hi.map(|x| AsPrimitive::<$U>::as_(x)) };
                let got = D::as_::<F, $U>(a);
                check!(cx, veq_box(&got, &want), "{}::as_::<{}> of {:?} = {:?}, want {:?}", D::BOX, stringify!($U), a, got, want);
                let r = Or { pos: a.lo, ext: a.hi };
                let gr = D::r_as_::<F, F, $U, $U>(r);
                check!(cx, veq_arr(&gr.pos, &want.lo) && veq_arr(&gr.ext, &want.hi), "{}::as_::<{}> of {:?} = {:?}", D::RECT, stringify!($U), r, gr);
            }};
        }
        cast!(i32);
        cast!(u8);
        cast!(i64);
        cast!(f32);
        cast!(f64);
    }
    Ok(())
}
