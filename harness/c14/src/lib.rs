//! C14 — Bezier evaluate, derivative, split and conversions obey the Bernstein identities.
//!
//! The four curve types (Quadratic/Cubic x 2D/3D, `vek::bezier::repr_c`) are driven through one
//! uniform trait (`Curve`, implemented by macro; control points are written and read through the
//! public fields) and judged against `oracle` (Bernstein sum, de Casteljau, power basis, hodograph,
//! subdivision) on plain arrays, in exact rationals and in f64/f32.

pub mod oracle;

use oracle as or;
use std::fmt::Debug;
use vek::bezier::repr_c::{CubicBezier2, CubicBezier3, QuadraticBezier2, QuadraticBezier3};
use vek::geom::repr_c::{LineSegment2, LineSegment3};
use vek::mat::repr_c::column_major as cm;
use vek::mat::repr_c::row_major as rm;
use vek::vec::repr_c::{Vec2, Vec3, Vec4};
use vkit::refmath as rf;
use vkit::vk::{self, MatN};
use vkit::*;

// ---------------------------------------------------------------------------------------------
// scalar domain extras
// ---------------------------------------------------------------------------------------------

/// What this crate needs on top of `vkit::Dom`.
pub trait XDom: Dom {
    /// Square root when the domain can represent it (`Rat`: only if rational) — never poisons.
    fn sqrt_exact(self) -> Option<Self>;
    /// A parameter in [0,1) from the tape: floats draw continuously, `Rat` a fraction n/64.
    fn unit(t: &mut Tape) -> Self;
}
impl XDom for Rat {
    fn sqrt_exact(self) -> Option<Rat> {
        self.exact_sqrt()
    }
    fn unit(t: &mut Tape) -> Rat {
        Rat::frac(t.int(0, 63), 64)
    }
}
impl XDom for f64 {
    fn sqrt_exact(self) -> Option<f64> {
        Some(self.sqrt())
    }
    fn unit(t: &mut Tape) -> f64 {
        t.unit_f64()
    }
}
impl XDom for f32 {
    fn sqrt_exact(self) -> Option<f32> {
        Some(self.sqrt())
    }
    fn unit(t: &mut Tape) -> f32 {
        t.unit_f64() as f32
    }
}

// ---------------------------------------------------------------------------------------------
// uniform access to the four vek curve types
// ---------------------------------------------------------------------------------------------

pub trait Curve<S: XDom, const N: usize, const D: usize>: Copy + Debug + PartialEq {
    const NAME: &'static str;
    /// Build from control points through the public fields.
    fn build(p: &[[S; D]; N]) -> Self;
    /// Read the control points through the public fields.
    fn read(&self) -> [[S; D]; N];
    fn v_evaluate(self, t: S) -> [S; D];
    fn v_derivative(self, t: S) -> [S; D];
    fn v_tangent(self, t: S) -> [S; D];
    fn v_split(self, t: S) -> [Self; 2];
    /// `matrix()` read through its public `rows` field.
    fn v_matrix() -> [[S; N]; N];
    /// `T * matrix()` computed with vek's own row-vector * matrix product, as the doc of `matrix()` spells it.
    fn v_matrix_weights(powers: &[S; N]) -> [S; N];
    fn v_reversed(self) -> Self;
    fn v_reverse(&mut self);
    fn v_flipped(self, axis: usize) -> Self;
    fn v_flip(&mut self, axis: usize);
    fn v_from_segment(a: &[S; D], b: &[S; D]) -> Self;
    fn v_from_range(a: &[S; D], b: &[S; D]) -> Self;
    /// into_vecN / into_tuple / into_array / From<VecN> / From<curve> for VecN keep the control-point order.
    fn v_containers(p: &[[S; D]; N], cx: &mut Cx) -> CaseResult;
}

macro_rules! impl_curve {
    ($Curve:ident, $name:expr, $N:expr, $D:expr, $VecD:ident, $mk:path, $rd:path, $Seg:ident,
     $VecN:ident, $mkn:path, $rdn:path, $into_vecn:ident,
     [$(($f:ident, $i:expr, $vx:ident)),+],
     [$(($ax:expr, $flipped:ident, $flip:ident)),+]) => {
        impl<S: XDom> Curve<S, $N, $D> for $Curve<S> {
            const NAME: &'static str = $name;
            fn build(p: &[[S; $D]; $N]) -> Self {
                $Curve { $($f: $mk(&p[$i])),+ }
            }
            fn read(&self) -> [[S; $D]; $N] {
                [$($rd(&self.$f)),+]
            }
            fn v_evaluate(self, t: S) -> [S; $D] {
                $rd(&self.evaluate(t))
            }
            fn v_derivative(self, t: S) -> [S; $D] {
                $rd(&self.evaluate_derivative(t))
            }
            fn v_tangent(self, t: S) -> [S; $D] {
                $rd(&self.normalized_tangent(t))
            }
            fn v_split(self, t: S) -> [Self; 2] {
                self.split(t)
            }
            fn v_matrix() -> [[S; $N]; $N] {
                <$Curve<S>>::matrix().to_arr()
            }
            fn v_matrix_weights(powers: &[S; $N]) -> [S; $N] {
                $rdn(&($mkn(powers) * <$Curve<S>>::matrix()))
            }
            fn v_reversed(self) -> Self {
                self.reversed()
            }
            fn v_reverse(&mut self) {
                self.reverse()
            }
            fn v_flipped(self, axis: usize) -> Self {
                match axis {
                    $($ax => self.$flipped(),)+
                    _ => unreachable!(),
                }
            }
            fn v_flip(&mut self, axis: usize) {
                match axis {
                    $($ax => self.$flip(),)+
                    _ => unreachable!(),
                }
            }
            fn v_from_segment(a: &[S; $D], b: &[S; $D]) -> Self {
                <$Curve<S> as From<$Seg<S>>>::from($Seg { start: $mk(a), end: $mk(b) })
            }
            fn v_from_range(a: &[S; $D], b: &[S; $D]) -> Self {
                <$Curve<S> as From<std::ops::Range<$VecD<S>>>>::from($mk(a)..$mk(b))
            }
            fn v_containers(p: &[[S; $D]; $N], cx: &mut Cx) -> CaseResult {
                let c = <Self as Curve<S, $N, $D>>::build(p);
                let v: $VecN<$VecD<S>> = c.$into_vecn();
                check_eq!(cx, [$($rd(&v.$vx)),+], *p, "{}::{}", $name, stringify!($into_vecn));
                let v: $VecN<$VecD<S>> = c.into();
                check_eq!(cx, [$($rd(&v.$vx)),+], *p, "From<{}> for {}", $name, stringify!($VecN));
                let ($($f),+) = c.into_tuple();
                check_eq!(cx, [$($rd(&$f)),+], *p, "{}::into_tuple", $name);
                let a = c.into_array();
                check_eq!(cx, a.len(), $N, "{}::into_array length", $name);
                check_eq!(cx, [$($rd(&a[$i])),+], *p, "{}::into_array", $name);
                let c2 = <$Curve<S>>::from($VecN { $($vx: $mk(&p[$i])),+ });
                check_eq!(cx, c2.read(), *p, "From<{}> for {}", stringify!($VecN), $name);
                let c3 = <$Curve<S>>::from($VecN::from(($($mk(&p[$i])),+)));
                check_eq!(cx, c3.read(), *p, "{} from tuple (via {})", $name, stringify!($VecN));
                let c4 = <$Curve<S>>::from($VecN::from([$($mk(&p[$i])),+]));
                check_eq!(cx, c4.read(), *p, "{} from array (via {})", $name, stringify!($VecN));
                Ok(())
            }
        }
    };
}

impl_curve!(QuadraticBezier2, "QuadraticBezier2", 3, 2, Vec2, vk::v2, vk::a2, LineSegment2, Vec3, vk::v3, vk::a3, into_vec3,
    [(start, 0, x), (ctrl, 1, y), (end, 2, z)],
    [(0, flipped_x, flip_x), (1, flipped_y, flip_y)]);
impl_curve!(QuadraticBezier3, "QuadraticBezier3", 3, 3, Vec3, vk::v3, vk::a3, LineSegment3, Vec3, vk::v3, vk::a3, into_vec3,
    [(start, 0, x), (ctrl, 1, y), (end, 2, z)],
    [(0, flipped_x, flip_x), (1, flipped_y, flip_y), (2, flipped_z, flip_z)]);
impl_curve!(CubicBezier2, "CubicBezier2", 4, 2, Vec2, vk::v2, vk::a2, LineSegment2, Vec4, vk::v4, vk::a4, into_vec4,
    [(start, 0, x), (ctrl0, 1, y), (ctrl1, 2, z), (end, 3, w)],
    [(0, flipped_x, flip_x), (1, flipped_y, flip_y)]);
impl_curve!(CubicBezier3, "CubicBezier3", 4, 3, Vec3, vk::v3, vk::a3, LineSegment3, Vec4, vk::v4, vk::a4, into_vec4,
    [(start, 0, x), (ctrl0, 1, y), (ctrl1, 2, z), (end, 3, w)],
    [(0, flipped_x, flip_x), (1, flipped_y, flip_y), (2, flipped_z, flip_z)]);

/// Degree elevation (quadratic -> cubic).
pub trait Quad<S: XDom, const D: usize>: Curve<S, 3, D> {
    type Cubic: Curve<S, 4, D>;
    fn v_into_cubic(self) -> Self::Cubic;
    fn v_cubic_from(self) -> Self::Cubic;
}
/// Circle approximations (cubic only).
pub trait Cubic<S: XDom, const D: usize>: Curve<S, 4, D> {
    fn v_quarter() -> Self;
    fn v_circle() -> [Self; 4];
}
macro_rules! impl_degree {
    ($Quad:ident, $Cubic:ident, $D:expr) => {
        impl<S: XDom> Quad<S, $D> for $Quad<S> {
            type Cubic = $Cubic<S>;
            fn v_into_cubic(self) -> $Cubic<S> {
                self.into_cubic()
            }
            fn v_cubic_from(self) -> $Cubic<S> {
                <$Cubic<S> as From<$Quad<S>>>::from(self)
            }
        }
        impl<S: XDom> Cubic<S, $D> for $Cubic<S> {
            fn v_quarter() -> Self {
                <$Cubic<S>>::unit_quarter_circle()
            }
            fn v_circle() -> [Self; 4] {
                <$Cubic<S>>::unit_circle()
            }
        }
    };
}
impl_degree!(QuadraticBezier2, CubicBezier2, 2);
impl_degree!(QuadraticBezier3, CubicBezier3, 3);

// ---------------------------------------------------------------------------------------------
// helpers
// ---------------------------------------------------------------------------------------------

macro_rules! check_pts {
    ($cx:expr, $S:ty, $got:expr, $want:expr, $scale:expr, $k:expr, $($arg:tt)*) => {{
        let (g, w) = ($got, $want);
        for i in 0..g.len() {
            check_vec!($cx, $S, g[i], w[i], $scale, $k, "{} [control point {}]", format!($($arg)*), i);
        }
    }};
}

pub mod regime;
pub mod translate;

/// Exactly 2^k in the domain (k may be negative; |k| must stay inside the normal range of the float type).
pub(crate) fn p2<S: Dom>(k: i32) -> S {
    let mut r = S::one();
    let mut left = k.unsigned_abs();
    while left > 0 {
        let step = left.min(60);
        r = r * if k > 0 { S::q(1i64 << step, 1) } else { S::q(1, 1i64 << step) };
        left -= step;
    }
    r
}

/// Multiply every coordinate by `f` (an exact power of two everywhere it is used).
pub(crate) fn mul_pt<S: Dom, const D: usize>(q: &[S; D], f: S) -> [S; D] {
    let mut r = *q;
    for x in r.iter_mut() {
        *x = *x * f;
    }
    r
}

pub(crate) fn map_pts<S: Dom, const N: usize, const D: usize, const E: usize>(p: &[[S; D]; N], f: impl Fn(&[S; D]) -> [S; E]) -> [[S; E]; N] {
    let mut r = [[S::zero(); E]; N];
    for i in 0..N {
        r[i] = f(&p[i]);
    }
    r
}

/// Control points: moderate general values; 1/16 of the cases are forced collinear and 1/16 closed
/// (end = start) so the degenerate classes are visited (and labelled).
fn gen_points<S: XDom, const N: usize, const D: usize>(t: &mut Tape, cx: &mut Cx) -> [[S; D]; N] {
    let mut p = [[S::zero(); D]; N];
    for i in 0..N {
        for j in 0..D {
            p[i][j] = S::any(t, 9);
        }
    }
    match t.below(16) {
        15 => {
            for i in 2..N {
                let k = S::small(t, 3);
                for j in 0..D {
                    p[i][j] = p[0][j] + k * (p[1][j] - p[0][j]);
                }
            }
            cx.label("forced-collinear");
        }
        14 => {
            p[N - 1] = p[0];
            cx.label("closed");
        }
        _ => {}
    }
    p
}

/// Parameter: special values {0, 1/2, 1}, proper fractions, continuous values in [0,1), and values outside [0,1].
fn gen_param<S: XDom>(t: &mut Tape) -> S {
    match t.below(8) {
        0 => {
            let (n, d) = t.pick(&[(0i64, 1i64), (1, 2), (1, 1)]);
            S::q(n, d)
        }
        1 | 2 | 3 => {
            let d = t.int(2, 16);
            let n = t.int(1, d - 1);
            S::q(n, d)
        }
        4 | 5 => S::unit(t),
        _ => S::any(t, 3),
    }
}

fn special<S: XDom>(t: S) -> bool {
    t == S::zero() || t == S::one() || t == S::q(1, 2)
}

fn classify_param<S: XDom>(cx: &mut Cx, t: S) {
    if special(t) {
        cx.label("t-special(0,1/2,1)");
    } else if t < S::zero() {
        cx.label("t<0");
    } else if t > S::one() {
        cx.label("t>1");
    } else {
        cx.label("t-inside");
    }
}

fn powi(x: f64, n: usize) -> f64 {
    x.powi(n as i32)
}

// ---------------------------------------------------------------------------------------------
// core case: evaluate / derivative / split / matrix / reverse / flips / segment / containers
// ---------------------------------------------------------------------------------------------

fn core_case<S: XDom, C: Curve<S, N, D>, const N: usize, const D: usize>(tp: &mut Tape, cx: &mut Cx) -> CaseResult {
    let p: [[S; D]; N] = gen_points(tp, cx);
    let t: S = gen_param(tp);
    let u: S = gen_param(tp);
    core_body::<S, C, N, D>(cx, &p, 0, t, u)
}

/// All core relations on the curve with control points `p * 2^k` (the unit of length scaled exactly by a
/// power of two). Every length vek returns is multiplied back by 2^-k (exact) and judged against the
/// oracle on the unit-scale points `p` (|coord| <= 9), so all tolerances are relative to the scaled magnitude.
pub(crate) fn core_body<S: XDom, C: Curve<S, N, D>, const N: usize, const D: usize>(cx: &mut Cx, p: &[[S; D]; N], k: i32, t: S, u: S) -> CaseResult {
    let n = N - 1;
    let p = *p;
    classify_param(cx, t);
    if u < S::zero() || u > S::one() {
        cx.label("u-outside");
    }
    let col = or::collinear(&p);
    if col {
        cx.label("collinear");
    }
    cx.set_nontrivial(!col && !special(t));
    sample!(cx, "{} {} P={:?} * 2^{} t={:?} u={:?}", S::NAME, C::NAME, p, k, t, u);

    let (up, inv) = (p2::<S>(k), p2::<S>(-k));
    let ps = map_pts(&p, |q| mul_pt(q, up)); // the control points vek sees
    let un = |v: [S; D]| mul_pt(&v, inv);
    let unp = |v: [[S; D]; N]| map_pts(&v, |q| mul_pt(q, inv));
    let c = C::build(&ps);
    check_eq!(cx, c.read(), ps, "field round trip");
    let pmax = or::pts_max(&p).max(1.0);
    let a = or::spread(t);
    let b = or::spread(u);
    let sc = pmax * powi(a, n);
    let tmax = t.f().abs().max(1.0);
    let sc_pow = 8.0 * pmax * powi(tmax, n) * N as f64; // power-basis forms: coefficients up to 8*pmax

    // --- the three oracles agree (exactly in Rat)
    let want = or::bernstein(&p, t);
    let dc = or::casteljau(&p, t);
    let coeffs = or::power_coeffs(&p);
    check_vec!(cx, S, dc, want, sc, 32, "oracle: de Casteljau vs Bernstein");
    check_vec!(cx, S, or::poly_eval(&coeffs, t), want, sc_pow, 64, "oracle: power basis vs Bernstein");

    // --- evaluate
    let got = un(c.v_evaluate(t));
    check_vec!(cx, S, got, want, sc, 32, "evaluate(t) vs Bernstein sum");
    check_vec!(cx, S, got, dc, sc, 32, "evaluate(t) vs de Casteljau");
    check_vec!(cx, S, un(c.v_evaluate(S::zero())), p[0], pmax, 4, "evaluate(0) = start");
    check_vec!(cx, S, un(c.v_evaluate(S::one())), p[n], pmax, 4, "evaluate(1) = end");

    // --- derivative: hodograph and d/dt of the power-basis polynomial
    let dsc = 2.0 * n as f64 * pmax * powi(a, n - 1);
    let dh = or::hodograph(&p, t);
    let dp = or::poly_deriv(&coeffs, t);
    check_vec!(cx, S, dh, dp, sc_pow * n as f64, 64, "oracle: hodograph vs power-basis derivative");
    let gd = un(c.v_derivative(t));
    check_vec!(cx, S, gd, dh, dsc, 32, "evaluate_derivative(t) vs hodograph");
    check_vec!(cx, S, gd, dp, sc_pow * n as f64, 64, "evaluate_derivative(t) vs d/dt of the power-basis polynomial");

    // --- split(t) -> [L, R]
    {
        let [l, r] = c.v_split(t);
        let (lp, rp) = (unp(l.read()), unp(r.read()));
        let (wl, wr) = or::subdivide(&p, t);
        check_pts!(cx, S, lp, wl, sc, 32, "split(t)[0] vs de Casteljau subdivision");
        check_pts!(cx, S, rp, wr, sc, 32, "split(t)[1] vs de Casteljau subdivision");
        check_vec!(cx, S, lp[n], want, sc, 32, "split(t)[0].end = C(t)");
        check_vec!(cx, S, rp[0], want, sc, 32, "split(t)[1].start = C(t)");
        check_vec!(cx, S, lp[n], rp[0], sc, 32, "split halves meet");
        check_vec!(cx, S, lp[0], p[0], pmax, 4, "split(t)[0].start = start");
        check_vec!(cx, S, rp[n], p[n], pmax, 4, "split(t)[1].end = end");
        // as functions of u (vek's evaluate on the halves vs the oracle on the original control points)
        let scu = n as f64 * pmax * powi(a * b, n);
        let one = S::one();
        let cl = or::bernstein(&p, t * u);
        let cr = or::bernstein(&p, t + (one - t) * u);
        check_vec!(cx, S, un(l.v_evaluate(u)), cl, scu, 64, "split(t)[0](u) = C(t*u)");
        check_vec!(cx, S, un(r.v_evaluate(u)), cr, scu, 64, "split(t)[1](u) = C(t+(1-t)u)");
        check_vec!(cx, S, or::bernstein(&lp, u), cl, scu, 64, "Bernstein(split(t)[0])(u) = C(t*u)");
        check_vec!(cx, S, or::bernstein(&rp, u), cr, scu, 64, "Bernstein(split(t)[1])(u) = C(t+(1-t)u)");
    }

    // --- matrix(): [1,t,..,t^n] * M dotted with the control points
    {
        let m = C::v_matrix();
        check_eq!(cx, m, or::bernstein_matrix::<S, N>(), "matrix() entries vs (-1)^(k-j) C(n,k) C(k,j)");
        let mut pw = [S::one(); N];
        for k in 1..N {
            pw[k] = pw[k - 1] * t;
        }
        let bw = or::bern_weights(n, t);
        for (what, w) in [("[1,t,..]*matrix() (reference product)", rf::vecmat(&pw, &m)), ("[1,t,..]*matrix() (vek product)", C::v_matrix_weights(&pw))] {
            let mut r = [S::zero(); D];
            for i in 0..N {
                check_close!(cx, S, w[i], bw[i], 8.0 * powi(tmax, n), 64, "{}: weight {} vs Bernstein weight", what, i);
                for j in 0..D {
                    r[j] = r[j] + w[i] * p[i][j];
                }
            }
            check_vec!(cx, S, r, want, sc_pow, 64, "dot({}, P) = C(t)", what);
            check_vec!(cx, S, r, got, sc_pow, 64, "dot({}, P) = evaluate(t)", what);
        }
    }

    // --- reversed / reverse
    {
        let r = c.v_reversed();
        let mut rp = ps;
        rp.reverse();
        check_eq!(cx, r.read(), rp, "reversed() control points");
        let mut m = c;
        m.v_reverse();
        check_eq!(cx, m.read(), rp, "reverse() in place: control points");
        check_eq!(cx, m, r, "reverse() in place = reversed()");
        check_eq!(cx, r.v_reversed(), c, "reversed().reversed()");
        m.v_reverse();
        check_eq!(cx, m, c, "reverse() twice in place");
        check_vec!(cx, S, un(r.v_evaluate(t)), or::bernstein(&p, S::one() - t), sc, 32, "reversed()(t) = C(1-t)");
    }

    // --- flips
    for ax in 0..D {
        let f = c.v_flipped(ax);
        let neg = |q: &[S; D]| {
            let mut q = *q;
            q[ax] = -q[ax];
            q
        };
        check_eq!(cx, f.read(), map_pts(&ps, neg), "flipped_{} control points", ["x", "y", "z"][ax]);
        let mut m = c;
        m.v_flip(ax);
        check_eq!(cx, m.read(), map_pts(&ps, neg), "flip_{} in place: control points", ["x", "y", "z"][ax]);
        check_eq!(cx, m, f, "flip_{} in place = flipped_{}", ["x", "y", "z"][ax], ["x", "y", "z"][ax]);
        m.v_flip(ax);
        check_eq!(cx, m, c, "flip_{} twice in place", ["x", "y", "z"][ax]);
        check_eq!(cx, f.v_flipped(ax), c, "flipped_{} twice", ["x", "y", "z"][ax]);
        check_vec!(cx, S, un(f.v_evaluate(t)), neg(&want), sc, 32, "flipped_{}()(t)", ["x", "y", "z"][ax]);
    }

    // --- From<LineSegment> / From<Range>: the straight line start + t (end - start)
    {
        let (s0, s1) = (p[0], p[n]);
        let sg = C::v_from_segment(&ps[0], &ps[n]);
        let rg = C::v_from_range(&ps[0], &ps[n]);
        check_eq!(cx, rg, sg, "From<Range> = From<LineSegment>");
        let mut wp = [[S::zero(); D]; N];
        for i in 0..N {
            for j in 0..D {
                wp[i][j] = s0[j] + S::q(i as i64, n as i64) * (s1[j] - s0[j]);
            }
        }
        check_pts!(cx, S, unp(sg.read()), wp, pmax, 16, "From<LineSegment> control points at i/n along the segment");
        check_eq!(cx, sg.read()[0], ps[0], "From<LineSegment> start");
        check_eq!(cx, sg.read()[n], ps[n], "From<LineSegment> end");
        let mut wl = [S::zero(); D];
        for j in 0..D {
            wl[j] = s0[j] + t * (s1[j] - s0[j]);
        }
        check_vec!(cx, S, un(sg.v_evaluate(t)), wl, 2.0 * sc, 32, "From<LineSegment>(t) = start + t (end - start)");
        let mut wd = [S::zero(); D];
        for j in 0..D {
            wd[j] = s1[j] - s0[j];
        }
        check_vec!(cx, S, un(sg.v_derivative(t)), wd, 2.0 * dsc, 32, "From<LineSegment> derivative = end - start");
    }

    // --- container conversions keep the order
    C::v_containers(&ps, cx)?;
    Ok(())
}

// ---------------------------------------------------------------------------------------------
// transforms: Mat * curve (every accepted shape, both layouts), 2D <-> 3D
// ---------------------------------------------------------------------------------------------

pub trait Tr<S: XDom, const N: usize, const D: usize>: Curve<S, N, D> {
    fn transforms(p: &[[S; D]; N], t: S, tp: &mut Tape, cx: &mut Cx) -> CaseResult;
}

macro_rules! impl_tr2 {
    ($Curve2:ident, $Curve3:ident, $N:expr) => {
        impl<S: XDom> Tr<S, $N, 2> for $Curve2<S> {
            fn transforms(p: &[[S; 2]; $N], t: S, tp: &mut Tape, cx: &mut Cx) -> CaseResult {
                const N: usize = $N;
                let n = N - 1;
                let c = <Self as Curve<S, N, 2>>::build(p);
                let a2: [[S; 2]; 2] = vk::gen_mat(tp, 5);
                let mut a3: [[S; 3]; 3] = vk::gen_mat(tp, 5);
                if tp.chance(64) {
                    a3[2] = [S::zero(), S::zero(), S::one()];
                    cx.label("affine-last-row");
                } else {
                    cx.label("general-last-row");
                }
                sample!(cx, "{} {} P={:?} t={:?} A2={:?} A3={:?}", S::NAME, <Self as Curve<S, N, 2>>::NAME, p, t, a2, a3);
                let pmax = or::pts_max(p).max(1.0);
                let an = powi(or::spread(t), n);
                let ct = or::bernstein(p, t);
                // 2x2: plain matrix * vector on every control point
                let sc2 = 2.0 * vk::mat_max(&a2).max(1.0) * pmax;
                let want_pts = map_pts(p, |q| rf::matvec(&a2, q));
                let want_ct = rf::matvec(&a2, &ct);
                for (what, got) in [("row-major Mat2", rm::Mat2::<S>::from_arr(&a2) * c), ("column-major Mat2", cm::Mat2::<S>::from_arr(&a2) * c)] {
                    check_pts!(cx, S, got.read(), want_pts, sc2, 16, "{} * curve: control points", what);
                    check_vec!(cx, S, got.v_evaluate(t), want_ct, sc2 * an, 32, "({} * curve)(t) = M * C(t)", what);
                }
                // 3x3: as a 2D point (w = 1), x and y of the product, no division (mul_point_2d)
                let apply = |q: &[S; 2]| {
                    let h = rf::matvec(&a3, &[q[0], q[1], S::one()]);
                    [h[0], h[1]]
                };
                let sc3 = 3.0 * vk::mat_max(&a3).max(1.0) * pmax;
                let want_pts = map_pts(p, apply);
                let want_ct = apply(&ct);
                for (what, got) in [("row-major Mat3", rm::Mat3::<S>::from_arr(&a3) * c), ("column-major Mat3", cm::Mat3::<S>::from_arr(&a3) * c)] {
                    check_pts!(cx, S, got.read(), want_pts, sc3, 16, "{} * curve: control points (as 2D points)", what);
                    check_vec!(cx, S, got.v_evaluate(t), want_ct, sc3 * an, 32, "({} * curve)(t) = M * (C(t),1)", what);
                }
                // into_3d: z = 0
                let c3: $Curve3<S> = c.into_3d();
                check_eq!(cx, c3.read(), map_pts(p, |q| [q[0], q[1], S::zero()]), "into_3d control points");
                check_eq!(cx, <$Curve3<S> as From<$Curve2<S>>>::from(c), c3, "From<2D curve> for 3D curve = into_3d");
                check_vec!(cx, S, c3.v_evaluate(t), [ct[0], ct[1], S::zero()], pmax * an, 32, "into_3d()(t) = (C(t), 0)");
                check_eq!(cx, c3.into_2d(), c, "into_3d().into_2d()");
                Ok(())
            }
        }
    };
}
macro_rules! impl_tr3 {
    ($Curve3:ident, $Curve2:ident, $N:expr) => {
        impl<S: XDom> Tr<S, $N, 3> for $Curve3<S> {
            fn transforms(p: &[[S; 3]; $N], t: S, tp: &mut Tape, cx: &mut Cx) -> CaseResult {
                const N: usize = $N;
                let n = N - 1;
                let c = <Self as Curve<S, N, 3>>::build(p);
                let a3: [[S; 3]; 3] = vk::gen_mat(tp, 5);
                let mut a4: [[S; 4]; 4] = vk::gen_mat(tp, 5);
                if tp.chance(64) {
                    a4[3] = [S::zero(), S::zero(), S::zero(), S::one()];
                    cx.label("affine-last-row");
                } else {
                    cx.label("general-last-row");
                }
                sample!(cx, "{} {} P={:?} t={:?} A3={:?} A4={:?}", S::NAME, <Self as Curve<S, N, 3>>::NAME, p, t, a3, a4);
                let pmax = or::pts_max(p).max(1.0);
                let an = powi(or::spread(t), n);
                let ct = or::bernstein(p, t);
                // 3x3: plain matrix * vector on every control point
                let sc3 = 3.0 * vk::mat_max(&a3).max(1.0) * pmax;
                let want_pts = map_pts(p, |q| rf::matvec(&a3, q));
                let want_ct = rf::matvec(&a3, &ct);
                for (what, got) in [("row-major Mat3", rm::Mat3::<S>::from_arr(&a3) * c), ("column-major Mat3", cm::Mat3::<S>::from_arr(&a3) * c)] {
                    check_pts!(cx, S, got.read(), want_pts, sc3, 16, "{} * curve: control points", what);
                    check_vec!(cx, S, got.v_evaluate(t), want_ct, sc3 * an, 32, "({} * curve)(t) = M * C(t)", what);
                }
                // 4x4: as a point (w = 1), x y z of the product, no division (mul_point)
                let apply = |q: &[S; 3]| {
                    let h = rf::matvec(&a4, &[q[0], q[1], q[2], S::one()]);
                    [h[0], h[1], h[2]]
                };
                let sc4 = 4.0 * vk::mat_max(&a4).max(1.0) * pmax;
                let want_pts = map_pts(p, apply);
                let want_ct = apply(&ct);
                for (what, got) in [("row-major Mat4", rm::Mat4::<S>::from_arr(&a4) * c), ("column-major Mat4", cm::Mat4::<S>::from_arr(&a4) * c)] {
                    check_pts!(cx, S, got.read(), want_pts, sc4, 16, "{} * curve: control points (as points)", what);
                    check_vec!(cx, S, got.v_evaluate(t), want_ct, sc4 * an, 32, "({} * curve)(t) = M * (C(t),1)", what);
                }
                // into_2d: z dropped
                let c2: $Curve2<S> = c.into_2d();
                check_eq!(cx, c2.read(), map_pts(p, |q| [q[0], q[1]]), "into_2d control points");
                check_eq!(cx, <$Curve2<S> as From<$Curve3<S>>>::from(c), c2, "From<3D curve> for 2D curve = into_2d");
                check_vec!(cx, S, c2.v_evaluate(t), [ct[0], ct[1]], pmax * an, 32, "into_2d()(t) = C(t).xy");
                check_eq!(cx, c2.into_3d().read(), map_pts(p, |q| [q[0], q[1], S::zero()]), "into_2d().into_3d() control points");
                Ok(())
            }
        }
    };
}
impl_tr2!(QuadraticBezier2, QuadraticBezier3, 3);
impl_tr2!(CubicBezier2, CubicBezier3, 4);
impl_tr3!(QuadraticBezier3, QuadraticBezier2, 3);
impl_tr3!(CubicBezier3, CubicBezier2, 4);

fn transform_case<S: XDom, C: Tr<S, N, D>, const N: usize, const D: usize>(tp: &mut Tape, cx: &mut Cx) -> CaseResult {
    let p: [[S; D]; N] = gen_points(tp, cx);
    let t: S = gen_param(tp);
    classify_param(cx, t);
    let col = or::collinear(&p);
    if col {
        cx.label("collinear");
    }
    cx.set_nontrivial(!col && !special(t));
    C::transforms(&p, t, tp, cx)
}

// ---------------------------------------------------------------------------------------------
// degree elevation
// ---------------------------------------------------------------------------------------------

fn elevate_case<S: XDom, Q: Quad<S, D>, const D: usize>(tp: &mut Tape, cx: &mut Cx) -> CaseResult {
    let p: [[S; D]; 3] = gen_points(tp, cx);
    let t: S = gen_param(tp);
    elevate_body::<S, Q, D>(cx, &p, 0, t)
}

/// Degree elevation of the curve with control points `p * 2^k`; lengths are scaled back exactly (see `core_body`).
pub(crate) fn elevate_body<S: XDom, Q: Quad<S, D>, const D: usize>(cx: &mut Cx, p: &[[S; D]; 3], k: i32, t: S) -> CaseResult {
    let p = *p;
    classify_param(cx, t);
    let col = or::collinear(&p);
    if col {
        cx.label("collinear");
    }
    cx.set_nontrivial(!col && !special(t));
    sample!(cx, "{} {} P={:?} * 2^{} t={:?}", S::NAME, Q::NAME, p, k, t);
    let (up, inv) = (p2::<S>(k), p2::<S>(-k));
    let ps = map_pts(&p, |q| mul_pt(q, up));
    let un = |v: [S; D]| mul_pt(&v, inv);
    let q = Q::build(&ps);
    let cu = q.v_into_cubic();
    check_eq!(cx, q.v_cubic_from(), cu, "From<Quadratic> for Cubic = into_cubic()");
    let pmax = or::pts_max(&p).max(1.0);
    let a = or::spread(t);
    let mut want = [[S::zero(); D]; 4];
    for j in 0..D {
        want[0][j] = p[0][j];
        want[1][j] = (p[0][j] + S::i(2) * p[1][j]) / S::i(3);
        want[2][j] = (S::i(2) * p[1][j] + p[2][j]) / S::i(3);
        want[3][j] = p[2][j];
    }
    check_eq!(cx, cu.read()[0], ps[0], "into_cubic start");
    check_eq!(cx, cu.read()[3], ps[2], "into_cubic end");
    let cp = map_pts(&cu.read(), |q| mul_pt(q, inv));
    check_pts!(cx, S, cp, want, pmax, 16, "into_cubic control points (P0, (P0+2P1)/3, (2P1+P2)/3, P2)");
    let wq = or::bernstein(&p, t);
    check_vec!(cx, S, un(cu.v_evaluate(t)), wq, pmax * powi(a, 3), 32, "into_cubic()(t) = C(t)");
    check_vec!(cx, S, or::bernstein(&cp, t), wq, pmax * powi(a, 3), 32, "Bernstein(into_cubic())(t) = C(t)");
    check_vec!(cx, S, un(cu.v_evaluate(t)), un(q.v_evaluate(t)), pmax * powi(a, 3), 32, "into_cubic().evaluate(t) = evaluate(t)");
    check_vec!(cx, S, un(cu.v_derivative(t)), or::hodograph(&p, t), 6.0 * pmax * powi(a, 2), 32, "into_cubic() derivative = C'(t)");
    Ok(())
}

// ---------------------------------------------------------------------------------------------
// normalized_tangent
// ---------------------------------------------------------------------------------------------

const PYTH2: [[i64; 3]; 6] = [[3, 4, 0], [5, 12, 0], [8, 15, 0], [1, 0, 0], [7, 24, 0], [20, 21, 0]];
const PYTH3: [[i64; 3]; 8] = [[1, 2, 2], [2, 3, 6], [1, 4, 8], [2, 6, 9], [3, 4, 0], [0, 0, 1], [4, 4, 7], [6, 6, 7]];

fn tangent_case<S: XDom, C: Curve<S, N, D>, const N: usize, const D: usize>(tp: &mut Tape, cx: &mut Cx) -> CaseResult {
    let mut p: [[S; D]; N] = gen_points(tp, cx);
    let mut t: S = gen_param(tp);
    tangent_fix(tp, cx, &mut p, &mut t);
    tangent_body::<S, C, N, D>(cx, &p, &[S::zero(); D], 0, t)
}

/// Exact domain only: move the last control point (and t away from 0) so that |C'(t)| is rational.
pub(crate) fn tangent_fix<S: XDom, const N: usize, const D: usize>(tp: &mut Tape, cx: &mut Cx, p: &mut [[S; D]; N], t: &mut S) {
    let n = N - 1;
    if S::EXACT {
        // Exact domain: move the last control point so that C'(t) is a vector of rational length
        // (C'(t) is affine in P_n with coefficient n t^(n-1)).
        if *t == S::zero() {
            *t = S::q(1, 4);
        }
        let t = *t;
        let base = if D == 2 { PYTH2[tp.below(PYTH2.len())] } else { PYTH3[tp.below(PYTH3.len())] };
        let rot = tp.below(D);
        let mut s = S::small(tp, 4);
        if s == S::zero() {
            s = S::q(1, 2);
        }
        let mut v = [S::zero(); D];
        for j in 0..D {
            let sign = if tp.bool() { -1 } else { 1 };
            v[j] = S::i(sign * base[(j + rot) % D]) * s;
        }
        let mut q2 = *p;
        q2[n] = q2[n - 1];
        let rest = or::hodograph(&q2, t);
        let mut coef = S::i(n as i64);
        for _ in 1..n {
            coef = coef * t;
        }
        for j in 0..D {
            p[n][j] = p[n - 1][j] + (v[j] - rest[j]) / coef;
        }
        cx.label("rational-length-derivative");
    }
}

/// normalized_tangent on the curve with control points `(p + off) * 2^k` (the tangent is a pure direction, so it
/// must depend neither on k nor on the common offset; the derivative is scaled back exactly). The caller guarantees
/// that `p + off` is exactly representable; all tolerances are relative to the shape `p`, not to the offset.
pub(crate) fn tangent_body<S: XDom, C: Curve<S, N, D>, const N: usize, const D: usize>(cx: &mut Cx, p: &[[S; D]; N], off: &[S; D], k: i32, t: S) -> CaseResult {
    let n = N - 1;
    let p = *p;
    classify_param(cx, t);
    let col = or::collinear(&p);
    if col {
        cx.label("collinear");
    }
    sample!(cx, "{} {} P=({:?} + {:?}) * 2^{} t={:?}", S::NAME, C::NAME, p, off, k, t);
    let (up, inv) = (p2::<S>(k), p2::<S>(-k));
    let c = C::build(&map_pts(&p, |q| {
        let mut q = *q;
        for j in 0..D {
            q[j] = q[j] + off[j];
        }
        mul_pt(&q, up)
    }));
    let d = or::hodograph(&p, t);
    let mut len2 = S::zero();
    for j in 0..D {
        len2 = len2 + d[j] * d[j];
    }
    let pmax = or::pts_max(&p).max(1.0);
    let dsc = 2.0 * n as f64 * pmax * powi(or::spread(t), n - 1);
    let len = match len2.sqrt_exact() {
        Some(l) if (S::EXACT && l != S::zero()) || l.f() > 1e-3 * dsc => l,
        _ => {
            // zero / ill-conditioned / irrational length: normalized_tangent is not called
            cx.label("tangent-skipped(degenerate)");
            cx.set_nontrivial(false);
            return Ok(());
        }
    };
    cx.set_nontrivial(!col && !special(t));
    let got = c.v_tangent(t);
    let mut want = [S::zero(); D];
    for j in 0..D {
        want[j] = d[j] / len;
    }
    let cond = dsc / len.f();
    check_vec!(cx, S, got, want, cond, 64, "normalized_tangent(t) = C'(t)/|C'(t)|");
    let mut g2 = S::zero();
    for j in 0..D {
        g2 = g2 + got[j] * got[j];
    }
    check_close!(cx, S, g2, S::one(), 1.0, 16, "|normalized_tangent(t)|^2 = 1");
    // parallel to (and along) vek's own derivative
    let vd = mul_pt(&c.v_derivative(t), inv);
    let mut dot = S::zero();
    for a in 0..D {
        dot = dot + got[a] * vd[a];
        for b in a + 1..D {
            check_close!(cx, S, got[a] * vd[b] - got[b] * vd[a], S::zero(), dsc * cond, 64, "normalized_tangent x evaluate_derivative = 0 (minor {},{})", a, b);
        }
    }
    check!(cx, dot > S::zero(), "normalized_tangent points along evaluate_derivative (dot = {:?})", dot);
    Ok(())
}

// ---------------------------------------------------------------------------------------------
// unit_quarter_circle / unit_circle on the 1025-point grid t = i/1024 (floats; sqrt(2) is irrational)
// ---------------------------------------------------------------------------------------------

const GRID: u64 = 1024;

fn circle_case<S: XDom, C: Cubic<S, D>, const D: usize>(idx: u64, cx: &mut Cx) -> CaseResult {
    let t = S::q(idx as i64, GRID as i64);
    cx.set_nontrivial(!special(t));
    cx.label(if idx == 0 || idx == GRID { "endpoint" } else { "interior" });
    let q = C::v_quarter();
    let p = q.read();
    sample!(cx, "{} {} unit_quarter_circle = {:?}, t = {:?}", S::NAME, C::NAME, p, t);
    let mut e0 = [S::zero(); D];
    let mut e1 = [S::zero(); D];
    e0[0] = S::one();
    e1[1] = S::one();
    check_eq!(cx, p[0], e0, "unit_quarter_circle().start = unit_x");
    check_eq!(cx, p[3], e1, "unit_quarter_circle().end = unit_y");
    check_vec!(cx, S, q.v_evaluate(S::zero()), e0, 1.0, 4, "unit_quarter_circle()(0) = (1,0)");
    check_vec!(cx, S, q.v_evaluate(S::one()), e1, 1.0, 4, "unit_quarter_circle()(1) = (0,1)");
    let pt = q.v_evaluate(t);
    let po = or::bernstein(&p, t);
    check_vec!(cx, S, pt, po, 2.0, 32, "unit_quarter_circle()(t) vs Bernstein sum of its control points");
    for (what, v) in [("evaluate", pt), ("Bernstein sum", po)] {
        let r = v.iter().fold(0.0f64, |s, x| s + x.f() * x.f()).sqrt();
        check!(cx, (r - 1.0).abs() <= 3e-4, "unit_quarter_circle: radius {} at t={:?} ({}) is not within 0.03% of 1", r, t, what);
    }
    for j in 2..D {
        check_eq!(cx, pt[j], S::zero(), "unit_quarter_circle()(t).z = 0");
    }
    // unit_circle(): (north-east, north-west, south-west, south-east) = the sign images of the quarter
    let cs = C::v_circle();
    check_eq!(cx, cs[0], q, "unit_circle()[0] = unit_quarter_circle()");
    let signs: [(i64, i64, &str); 4] = [(1, 1, "north-east"), (-1, 1, "north-west"), (-1, -1, "south-west"), (1, -1, "south-east")];
    for k in 0..4 {
        let (sx, sy, name) = signs[k];
        let img = |v: &[S; D]| {
            let mut v = *v;
            v[0] = S::i(sx) * v[0];
            v[1] = S::i(sy) * v[1];
            v
        };
        check_eq!(cx, cs[k].read(), map_pts(&p, img), "unit_circle()[{}] ({}) control points", k, name);
        let g = cs[k].v_evaluate(t);
        check_vec!(cx, S, g, img(&po), 2.0, 32, "unit_circle()[{}] ({})(t) = image of the quarter", k, name);
        let tol = 8.0 * S::eps();
        check!(cx, g[0].f() * sx as f64 >= -tol && g[1].f() * sy as f64 >= -tol, "unit_circle()[{}] at t={:?} = {:?} is not in the {} quadrant", k, t, g, name);
        let r = g.iter().fold(0.0f64, |s, x| s + x.f() * x.f()).sqrt();
        check!(cx, (r - 1.0).abs() <= 3e-4, "unit_circle()[{}]: radius {} at t={:?}", k, r, t);
    }
    Ok(())
}

// ---------------------------------------------------------------------------------------------

pub fn property() -> Property {
    let mut checks = Vec::new();
    macro_rules! tape {
        ($name:expr, $about:expr, $len:expr, $q:expr, $f:expr) => {
            checks.push(Check { name: $name, about: $about, kind: Kind::Tape { len: $len, quick: $q, thorough: $q * 50, f: $f } });
        };
    }
    macro_rules! per_curve {
        ($dom:ident, $S:ty) => {
            tape!(concat!("core-quad2-", stringify!($dom)), CORE, 128, 20_000, core_case::<$S, QuadraticBezier2<$S>, 3, 2>);
            tape!(concat!("core-quad3-", stringify!($dom)), CORE, 128, 20_000, core_case::<$S, QuadraticBezier3<$S>, 3, 3>);
            tape!(concat!("core-cubic2-", stringify!($dom)), CORE, 128, 20_000, core_case::<$S, CubicBezier2<$S>, 4, 2>);
            tape!(concat!("core-cubic3-", stringify!($dom)), CORE, 128, 20_000, core_case::<$S, CubicBezier3<$S>, 4, 3>);
            tape!(concat!("transform-quad2-", stringify!($dom)), TRANSFORM, 256, 20_000, transform_case::<$S, QuadraticBezier2<$S>, 3, 2>);
            tape!(concat!("transform-quad3-", stringify!($dom)), TRANSFORM, 256, 20_000, transform_case::<$S, QuadraticBezier3<$S>, 3, 3>);
            tape!(concat!("transform-cubic2-", stringify!($dom)), TRANSFORM, 256, 20_000, transform_case::<$S, CubicBezier2<$S>, 4, 2>);
            tape!(concat!("transform-cubic3-", stringify!($dom)), TRANSFORM, 256, 20_000, transform_case::<$S, CubicBezier3<$S>, 4, 3>);
            tape!(concat!("elevate-quad2-", stringify!($dom)), ELEVATE, 64, 20_000, elevate_case::<$S, QuadraticBezier2<$S>, 2>);
            tape!(concat!("elevate-quad3-", stringify!($dom)), ELEVATE, 96, 20_000, elevate_case::<$S, QuadraticBezier3<$S>, 3>);
            tape!(concat!("tangent-quad2-", stringify!($dom)), TANGENT, 128, 10_000, tangent_case::<$S, QuadraticBezier2<$S>, 3, 2>);
            tape!(concat!("tangent-quad3-", stringify!($dom)), TANGENT, 128, 10_000, tangent_case::<$S, QuadraticBezier3<$S>, 3, 3>);
            tape!(concat!("tangent-cubic2-", stringify!($dom)), TANGENT, 128, 10_000, tangent_case::<$S, CubicBezier2<$S>, 4, 2>);
            tape!(concat!("tangent-cubic3-", stringify!($dom)), TANGENT, 128, 10_000, tangent_case::<$S, CubicBezier3<$S>, 4, 3>);
        };
    }
    macro_rules! tape2 {
        ($name:expr, $about:expr, $len:expr, $q:expr, $th:expr, $f:expr) => {
            checks.push(Check { name: $name, about: $about, kind: Kind::Tape { len: $len, quick: $q, thorough: $th, f: $f } });
        };
    }
    macro_rules! per_curve_regime {
        ($dom:ident, $S:ty) => {
            tape2!(concat!("structured-quad2-", stringify!($dom)), STRUCTURED, 512, 6_000, 800_000, regime::structured_case::<$S, QuadraticBezier2<$S>, 3, 2>);
            tape2!(concat!("structured-quad3-", stringify!($dom)), STRUCTURED, 512, 6_000, 800_000, regime::structured_case::<$S, QuadraticBezier3<$S>, 3, 3>);
            tape2!(concat!("structured-cubic2-", stringify!($dom)), STRUCTURED, 512, 6_000, 800_000, regime::structured_case::<$S, CubicBezier2<$S>, 4, 2>);
            tape2!(concat!("structured-cubic3-", stringify!($dom)), STRUCTURED, 512, 6_000, 800_000, regime::structured_case::<$S, CubicBezier3<$S>, 4, 3>);
            tape2!(concat!("regime-core-quad2-", stringify!($dom)), REGIME_CORE, 192, 5_000, 600_000, regime::core_regime::<$S, QuadraticBezier2<$S>, 3, 2>);
            tape2!(concat!("regime-core-quad3-", stringify!($dom)), REGIME_CORE, 192, 5_000, 600_000, regime::core_regime::<$S, QuadraticBezier3<$S>, 3, 3>);
            tape2!(concat!("regime-core-cubic2-", stringify!($dom)), REGIME_CORE, 192, 5_000, 600_000, regime::core_regime::<$S, CubicBezier2<$S>, 4, 2>);
            tape2!(concat!("regime-core-cubic3-", stringify!($dom)), REGIME_CORE, 192, 5_000, 600_000, regime::core_regime::<$S, CubicBezier3<$S>, 4, 3>);
            tape2!(concat!("regime-elevate-quad2-", stringify!($dom)), REGIME_ELEVATE, 96, 2_000, 200_000, regime::elevate_regime::<$S, QuadraticBezier2<$S>, 2>);
            tape2!(concat!("regime-elevate-quad3-", stringify!($dom)), REGIME_ELEVATE, 128, 2_000, 200_000, regime::elevate_regime::<$S, QuadraticBezier3<$S>, 3>);
            tape2!(concat!("regime-tangent-quad2-", stringify!($dom)), REGIME_TANGENT, 160, 2_000, 200_000, regime::tangent_regime::<$S, QuadraticBezier2<$S>, 3, 2>);
            tape2!(concat!("regime-tangent-quad3-", stringify!($dom)), REGIME_TANGENT, 160, 2_000, 200_000, regime::tangent_regime::<$S, QuadraticBezier3<$S>, 3, 3>);
            tape2!(concat!("regime-tangent-cubic2-", stringify!($dom)), REGIME_TANGENT, 160, 2_000, 200_000, regime::tangent_regime::<$S, CubicBezier2<$S>, 4, 2>);
            tape2!(concat!("regime-tangent-cubic3-", stringify!($dom)), REGIME_TANGENT, 160, 2_000, 200_000, regime::tangent_regime::<$S, CubicBezier3<$S>, 4, 3>);
        };
    }
    const STRUCTURED: &str = "Mat * curve with STRUCTURED matrices, every accepted shape x layout: linear block identity / uniform scaling / diagonal / permutation / axis flips / signed permutation / single shear / identity + last column / identity +- 2^-e in one entry / zero / singular / general; translation zero / one axis / general; bottom row affine / (0,..,0,w) / one projective entry / general; points and translation scaled exactly by 2^k (also independently), linear block by 2^j; also matrices from vek's translation_2d/3d, scaling_2d/3d, shearing_x/y, identity, zero read back through their fields: control points and (M*c)(t) vs the point-wise definition on plain arrays, vs vek's own M applied to c.evaluate(t) (the bottom row never enters the oracle); 2D<->3D conversion of the same curves";
    const REGIME_CORE: &str = "all relations of the core check (evaluate, derivative, split, matrix(), reversed/reverse, flipped_*/flip_* and their in-place twins applied twice, From<LineSegment>/From<Range>, containers) on degenerate control polygons (point curve, doubled controls, palindromic, closed, evenly spaced on a line, on an axis / in a coordinate plane, {-1,0,1} coordinates, one control point 2^-e smaller), parameters exactly 0 / 1 / 1/2, +-2^-e, 1 +- 2^-e, +-2^e(1+f), u = t, and all lengths scaled exactly by 2^k (results scaled back exactly, tolerance relative to the scaled magnitude)";
    const REGIME_ELEVATE: &str = "into_cubic / From<Quadratic> on the same degenerate polygons, parameter regimes and 2^k length scales";
    const REGIME_TANGENT: &str = "normalized_tangent on the same degenerate polygons, parameter regimes and 2^k length scales (|k| limited so that |C'(t)|^2 stays in the normal float range): unit, along evaluate_derivative, independent of k";
    const TRANSLATED: &str = "small dyadic shape far from the origin: control points (offset + shape) * 2^k, shape integer |m| <= 16 lattice units, offset +-{1, 5/4, 3/2} * 2^(P-gap) lattice units per axis (one ulp of the offset = 2^-gap units, gap from 0), all exactly representable. Translation-invariant clauses relative to the SHAPE: evaluate_derivative = hodograph of the untranslated shape (curve, reversed, flipped_* / flip_*, 2D<->3D converted, pure-translation-matrix image; = vek's derivative of the untranslated curve), normalized_tangent; pure translation matrices (to the origin, from the origin, by lattice units; Mat3 on 2D / Mat4 on 3D, both layouts, fields and translation_2d/3d) give the exact control points; covariant clauses (evaluate, split, reversal, flips, From<LineSegment>, containers) relative to the offset through the core relations";
    const TRANSLATED_ELEVATE: &str = "into_cubic / From<Quadratic> on the same translated curves (covariant: relative to the offset)";
    const CORE: &str = "evaluate = Bernstein sum = de Casteljau (t also outside [0,1]), C(0)=start, C(1)=end; evaluate_derivative = hodograph = d/dt of the power-basis polynomial; split(t) = de Casteljau subdivision, L(u)=C(tu), R(u)=C(t+(1-t)u), halves meet at C(t); matrix() entries and dot([1,t,..]*M, P) = C(t); reversed/reverse: C(1-t); flipped_*/flip_*; From<LineSegment>/From<Range> = start + t(end-start); into_vecN/tuple/array and From<VecN> keep the order";
    const TRANSFORM: &str = "Mat * curve for every accepted shape in both layouts (2D: Mat2, Mat3 as 2D point; 3D: Mat3, Mat4 as point; last row unrestricted, w is dropped without division as mul_point documents): control points and (M*C)(t) = M applied to C(t); into_2d / into_3d and the From impls";
    const ELEVATE: &str = "into_cubic / From<Quadratic> for Cubic: control points (P0, (P0+2P1)/3, (2P1+P2)/3, P2), same point and same derivative for every t";
    const TANGENT: &str = "normalized_tangent(t) = C'(t)/|C'(t)| (unit, parallel to and along evaluate_derivative); Rat cases are constructed so that |C'(t)| is rational";
    const CIRCLE: &str = "unit_quarter_circle: start=(1,0), end=(0,1), |C(t)| within 3e-4 of 1 on the grid t=i/1024, z=0; unit_circle = (NE, NW, SW, SE) sign images, each in its quadrant";
    per_curve!(rat, Rat);
    per_curve!(f64, f64);
    per_curve!(f32, f32);
    per_curve_regime!(rat, Rat);
    per_curve_regime!(f64, f64);
    per_curve_regime!(f32, f32);
    macro_rules! per_curve_translated {
        ($dom:ident, $S:ty) => {
            tape2!(concat!("translated-quad2-", stringify!($dom)), TRANSLATED, 192, 4_000, 400_000, translate::translated_case::<$S, QuadraticBezier2<$S>, 3, 2>);
            tape2!(concat!("translated-quad3-", stringify!($dom)), TRANSLATED, 192, 4_000, 400_000, translate::translated_case::<$S, QuadraticBezier3<$S>, 3, 3>);
            tape2!(concat!("translated-cubic2-", stringify!($dom)), TRANSLATED, 192, 4_000, 400_000, translate::translated_case::<$S, CubicBezier2<$S>, 4, 2>);
            tape2!(concat!("translated-cubic3-", stringify!($dom)), TRANSLATED, 192, 4_000, 400_000, translate::translated_case::<$S, CubicBezier3<$S>, 4, 3>);
            tape2!(concat!("translated-elevate-quad2-", stringify!($dom)), TRANSLATED_ELEVATE, 96, 1_500, 150_000, translate::translated_elevate::<$S, QuadraticBezier2<$S>, 2>);
            tape2!(concat!("translated-elevate-quad3-", stringify!($dom)), TRANSLATED_ELEVATE, 96, 1_500, 150_000, translate::translated_elevate::<$S, QuadraticBezier3<$S>, 3>);
        };
    }
    per_curve_translated!(f64, f64);
    per_curve_translated!(f32, f32);
    macro_rules! circle {
        ($name:expr, $f:expr) => {
            checks.push(Check { name: $name, about: CIRCLE, kind: Kind::Index { total: GRID + 1, quick: GRID + 1, thorough: GRID + 1, f: $f } });
        };
    }
    circle!("circle-cubic2-f64", circle_case::<f64, CubicBezier2<f64>, 2>);
    circle!("circle-cubic3-f64", circle_case::<f64, CubicBezier3<f64>, 3>);
    circle!("circle-cubic2-f32", circle_case::<f32, CubicBezier2<f32>, 2>);
    circle!("circle-cubic3-f32", circle_case::<f32, CubicBezier3<f32>, 3>);
    Property {
        id: "C14",
        rule: "cases are byte tapes (uniform bytes, fixed seed) decoded to control points (|coord| <= 9, small fractions or continuous floats; 1/16 forced collinear, 1/16 closed), parameters t,u (1/8 special {0,1/2,1}, 3/8 proper fractions, 1/4 continuous in [0,1), 1/4 general in [-3,3]) and matrices (|entry| <= 5); a case is non-trivial when the control points are not collinear and t is not in {0,1/2,1} (tangent checks: additionally |C'(t)| is representable and not tiny); circle checks enumerate the grid t=i/1024; regime checks (structured-*, regime-*): matrices from 12 linear-block classes x {zero, one-axis, general} translation x {affine, (0,..,0,w), one projective entry, general} bottom row (structured-*: 1/4 of the cases on degenerate polygons, 1/4 with regime parameters; regime-*: always), degenerate control polygons from 12 classes, parameters from {exactly 0, 1, 1/2, +-2^-e, 1+-2^-e, +-2^e(1+f), ordinary}, unit of length 2^k with k = 0 in half of the cases and otherwise stratified up to |k| <= 600 (f64) / 48 (f32) / 12 (Rat) (tangent: 300 / 30 / 8); a structured case is non-trivial when additionally not both of its matrices are the identity; regime-core / regime-elevate, floats: 3/16 of the cases with a huge parameter |t| = 2^e (1+f), e from the ordinary limit up to the largest e with k + n(e+2) + 3n <= maxexp - 1 (half of them in the top eighth of that range), points shrunk to |P| < 1, u in [0,1]; translated-*: shape with integer coordinates |m| <= 16 lattice units, offset +-{1, 5/4, 3/2} * 2^(P-gap) per axis (1/8 zero, 1/8 a lower power of two), gap in 0..4 in half of the cases and 0..P-6 otherwise, |k| <= 300 (f64) / 30 (f32), t ordinary in 3/4 and from the parameter regimes in 1/4 of the cases, non-trivial = shape not collinear and t not in {0,1/2,1}; distinct = distinct consumed tape prefix / index per check",
        assumptions: &[
            "rustc and the proptest runner/shrinker are trusted",
            "c14::oracle (Bernstein sum, de Casteljau, subdivision, power basis, hodograph on plain arrays) and vkit::refmath are the oracle; they never call vek",
            "curves, vectors and matrices are built and read through their public fields (start/ctrl/ctrl0/ctrl1/end, x/y/z/w, rows/cols)",
            "exact rational arithmetic (Rat over i128) decides the polynomial identities; f64/f32 use error bounds k*eps*scale with scale = max|P| * (|t|+|1-t|)^n (sum of |Bernstein weights|)",
            "matrix(): the doc's `T = [1, t*t, t*t*t]` is read as the monomial vector [1, t, t^2(, t^3)] (the only reading under which the documented identity holds)",
            "Mat3*2D-curve / Mat4*3D-curve: documented as mul_point_2d / mul_point = `self * Vec::from_point(p)` with the last coordinate dropped (no perspective division), so arbitrary last rows are in scope",
            "flipped_z/flip_z negate z (their doc comments say `y`/`x`, copy-paste typos; the method name and the property statement are followed)",
            "unit_quarter_circle / unit_circle are checked in f64 and f32 only (sqrt(2) is irrational)",
            "regime checks: all lengths of a case are multiplied by an exact power of two before vek sees them and vek's results are multiplied back by the inverse power (both exact), then judged with the moderate-scale bound, so every tolerance is relative to the scaled magnitude; matrix products are normalised by the power of two that brings the bound D*max|linear|*max|P| + max|translation| (times (|t|+|1-t|)^n for curve points) into [1,2)",
            "regime checks: |k| of the unit of length is limited to 600 (f64) / 48 (f32) / 12 (Rat, i128 headroom) so that coordinate (<= 9*2^k) * matrix entry (<= 5*2^20) * (|t|+|1-t|)^n (<= 2^30, twice for split followed by evaluate) stays inside the normal float range; beyond that any implementation overflows or loses bits to subnormals. normalized_tangent squares lengths (vek documents normalized() as self / magnitude(), magnitude() as sqrt(dot)), so |k| <= 300 / 30 / 8 there",
            "regime parameters stop at |t|, |1-t| >= 2^-40 (f64) / 2^-16 (f32) / 2^-10 (Rat) and |t| < 2^13 / 2^9 / 2^7: closer to 0 or 1 a deviation is below the rounding error relative to max|P| that the tolerance model grants every implementation, so nothing could be asserted there",
            "translated curves: evaluate_derivative and normalized_tangent are asserted to 32 eps of n * max|P(i+1)-P(i)| * (|t|+|1-t|)^(n-1) (the sum of the magnitudes of the hodograph's terms), i.e. relative to the SHAPE, not to the distance from the origin: the derivative of a curve does not depend on where the curve is, differences of neighbouring control points are exact in this regime (Sterbenz; all points are on one lattice), and <= 5 roundings per term follow. A derivative obtained by differentiating evaluate() term by term multiplies the offset by weights that sum to zero and loses an ulp of the OFFSET (100% of the derivative when the shape is a few ulps wide); that is reported",
            "translated curves: clauses that are only translation-COVARIANT (evaluate, split, elevation, From<LineSegment>; reversal and flips are exact data moves) multiply the offset by Bernstein weights in every implementation, so they are asserted relative to the offset only (through the core relations); pure translation matrices applied to lattice points are asserted exactly (to 16 eps of the shape size): all products are by exactly 0 or 1 and the sum x + v is exactly representable, so every association order (fused or not) is exact",
            "huge parameters: asserted only where EVERY evaluation order stays in range, i.e. where the sum of the magnitudes of all terms |P| (|t|+|1-t|)^n — which bounds every partial product of weights (t^n, 3(1-t)^2 t, ..) and of weight * point, whatever is multiplied first — is finite with 3 bits per factor to spare for the oracles' own sums: |t| < 2^40 (1.1e12) for f32 cubics, 2^61 (2.3e18) for f32 quadratics, 2^338 (5.6e101) for f64 cubics, 2^508 for f64 quadratics (less by k/n for lengths scaled up by 2^k). Beyond that t^n itself overflows, so whether evaluate() returns the representable value or inf/NaN depends on whether a point or a weight is multiplied first, which neither the property nor the docs prescribe: NOT asserted (f32 cubic t ~ 1e13: t^3 = 1e39 > f32::MAX; f32 quadratic t = 3e19: t^2 = 9e38 > f32::MAX; f64 cubic t = 1e103: t^3 = 1e309 > f64::MAX)",
            "Mat3*2D-curve / Mat4*3D-curve with non-affine bottom rows ((0,..,0,w) with w in {0,-1,2,1/2}, one projective entry, general): still no division, as mul_point / mul_point_2d document; matrices built by vek's constructors are judged on the entries read back through the public fields (the constructors themselves belong to other properties)",
        ],
        checks,
        max_discard_frac: 0.2,
    }
}
