fn main() {
    vkit::driver::main(c14::property())
}
