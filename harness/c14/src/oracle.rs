//! Reference Bezier mathematics on plain arrays `[[S; D]; N]` (N control points of dimension D,
//! degree n = N-1). Written from the textbook definitions; nothing here calls into vek.

use vkit::Dom;

pub type Pts<S, const N: usize, const D: usize> = [[S; D]; N];

pub fn binom(n: usize, k: usize) -> i64 {
    // Pascal triangle up to n = 3 is all that is needed, keep it general anyway
    let mut r = 1i64;
    for i in 0..k {
        r = r * (n - i) as i64 / (i + 1) as i64;
    }
    r
}

fn pow<S: Dom>(x: S, k: usize) -> S {
    let mut r = S::one();
    for _ in 0..k {
        r = r * x;
    }
    r
}

/// Bernstein weights B_{n,i}(t) = C(n,i) t^i (1-t)^(n-i) for i = 0..=n (n <= 3); unused slots are 0.
pub fn bern_weights<S: Dom>(n: usize, t: S) -> [S; 4] {
    let mut w = [S::zero(); 4];
    let s = S::one() - t;
    for i in 0..=n {
        w[i] = S::i(binom(n, i)) * pow(t, i) * pow(s, n - i);
    }
    w
}

/// Bernstein sum of the control points.
pub fn bernstein<S: Dom, const N: usize, const D: usize>(p: &Pts<S, N, D>, t: S) -> [S; D] {
    let w = bern_weights(N - 1, t);
    let mut r = [S::zero(); D];
    for i in 0..N {
        for j in 0..D {
            r[j] = r[j] + w[i] * p[i][j];
        }
    }
    r
}

pub fn lerp_pt<S: Dom, const D: usize>(a: &[S; D], b: &[S; D], t: S) -> [S; D] {
    let mut r = [S::zero(); D];
    for j in 0..D {
        r[j] = (S::one() - t) * a[j] + t * b[j];
    }
    r
}

/// de Casteljau evaluation (repeated linear interpolation).
pub fn casteljau<S: Dom, const N: usize, const D: usize>(p: &Pts<S, N, D>, t: S) -> [S; D] {
    let mut w = *p;
    for k in 1..N {
        for i in 0..N - k {
            w[i] = lerp_pt(&w[i], &w[i + 1], t);
        }
    }
    w[0]
}

/// de Casteljau subdivision at t: control points of the restriction to [0,t] and to [t,1].
pub fn subdivide<S: Dom, const N: usize, const D: usize>(p: &Pts<S, N, D>, t: S) -> (Pts<S, N, D>, Pts<S, N, D>) {
    let mut w = *p;
    let mut l = *p;
    let mut r = *p;
    for k in 1..N {
        for i in 0..N - k {
            w[i] = lerp_pt(&w[i], &w[i + 1], t);
        }
        l[k] = w[0];
        r[N - 1 - k] = w[N - 1 - k];
    }
    (l, r)
}

/// Power-basis coefficients a_k (C(t) = sum a_k t^k): a_k = C(n,k) sum_{i<=k} (-1)^(k-i) C(k,i) P_i.
pub fn power_coeffs<S: Dom, const N: usize, const D: usize>(p: &Pts<S, N, D>) -> Pts<S, N, D> {
    let n = N - 1;
    let mut a = [[S::zero(); D]; N];
    for k in 0..N {
        for i in 0..=k {
            let sign = if (k - i) % 2 == 0 { 1 } else { -1 };
            let c = S::i(sign * binom(n, k) * binom(k, i));
            for j in 0..D {
                a[k][j] = a[k][j] + c * p[i][j];
            }
        }
    }
    a
}

pub fn poly_eval<S: Dom, const N: usize, const D: usize>(a: &Pts<S, N, D>, t: S) -> [S; D] {
    let mut r = [S::zero(); D];
    for k in 0..N {
        let tk = pow(t, k);
        for j in 0..D {
            r[j] = r[j] + a[k][j] * tk;
        }
    }
    r
}

/// d/dt of sum a_k t^k.
pub fn poly_deriv<S: Dom, const N: usize, const D: usize>(a: &Pts<S, N, D>, t: S) -> [S; D] {
    let mut r = [S::zero(); D];
    for k in 1..N {
        let tk = S::i(k as i64) * pow(t, k - 1);
        for j in 0..D {
            r[j] = r[j] + a[k][j] * tk;
        }
    }
    r
}

/// Hodograph: C'(t) = n * sum_{i<n} B_{n-1,i}(t) (P_{i+1} - P_i).
pub fn hodograph<S: Dom, const N: usize, const D: usize>(p: &Pts<S, N, D>, t: S) -> [S; D] {
    let n = N - 1;
    let w = bern_weights(n - 1, t);
    let mut r = [S::zero(); D];
    for i in 0..n {
        for j in 0..D {
            r[j] = r[j] + S::i(n as i64) * w[i] * (p[i + 1][j] - p[i][j]);
        }
    }
    r
}

/// The matrix M with [1,t,..,t^n] * M = Bernstein weights: M[k][j] = (-1)^(k-j) C(n,k) C(k,j) for j <= k.
pub fn bernstein_matrix<S: Dom, const N: usize>() -> [[S; N]; N] {
    let n = N - 1;
    let mut m = [[S::zero(); N]; N];
    for k in 0..N {
        for j in 0..=k {
            let sign = if (k - j) % 2 == 0 { 1 } else { -1 };
            m[k][j] = S::i(sign * binom(n, k) * binom(k, j));
        }
    }
    m
}

/// Are all control points on one line (rank of the difference vectors <= 1)?
pub fn collinear<S: Dom, const N: usize, const D: usize>(p: &Pts<S, N, D>) -> bool {
    let mut d = [[S::zero(); D]; N];
    for i in 1..N {
        for j in 0..D {
            d[i][j] = p[i][j] - p[0][j];
        }
    }
    for i in 1..N {
        for k in i + 1..N {
            for a in 0..D {
                for b in a + 1..D {
                    if d[i][a] * d[k][b] - d[i][b] * d[k][a] != S::zero() {
                        return false;
                    }
                }
            }
        }
    }
    true
}

pub fn pts_max<S: Dom, const N: usize, const D: usize>(p: &Pts<S, N, D>) -> f64 {
    let mut m = 0.0f64;
    for q in p {
        for x in q {
            m = m.max(x.f().abs());
        }
    }
    m
}

/// |t| + |1-t|: sum of |Bernstein weights| of degree n is this to the power n.
pub fn spread<S: Dom>(t: S) -> f64 {
    t.f().abs() + (1.0 - t.f()).abs()
}
