//! C14 regime checks: the same property judged where "moderate" random sampling never goes.
//!
//! * `structured-*`: `matrix * curve` for every accepted shape x layout x curve type with **structured**
//!   matrices — linear block exactly the identity / uniform scaling / diagonal / permutation / axis flips /
//!   signed permutation (quarter turns) / single shear / identity plus a last column (looks like a
//!   homogeneous translation of the next lower dimension) / identity plus 2^-e in one entry / zero / singular /
//!   general; translation column zero / one axis / general; bottom row affine / (0,..,0,w) / one projective
//!   entry / general — with the unit of length of points and translation scaled exactly by 2^k (also
//!   independently of each other) and the linear block scaled by 2^j. Judged against the point-wise
//!   definition on plain arrays (`vkit::refmath::matvec`), for the control points and for
//!   `(M*c).evaluate(t)` vs `M` applied to the oracle's `C(t)`; EXTRA: against vek's own
//!   `M * v` / `mul_point` / `mul_point_2d` of vek's own `c.evaluate(t)` (the oracle never reads the bottom row, so
//!   independence of the bottom row is part of the judgement), and matrices produced by vek's own
//!   constructors (`translation_2d/3d`, `scaling_2d/3d`, `shearing_x/y`, `identity`, `zero`) read back
//!   through their public fields.
//! * `regime-core-*`, `regime-elevate-*`, `regime-tangent-*`: every relation of the core checks (including
//!   the in-place twins `reverse` / `flip_*` against `reversed` / `flipped_*`) on degenerate control polygons
//!   (point curve, doubled control points, palindromic, closed, evenly spaced on a line, on an axis, in a
//!   coordinate plane, {-1,0,1} coordinates, one control point 2^-e smaller than the others), at degenerate
//!   parameters (exactly 0, 1, 1/2, +-2^-e, 1 +- 2^-e, +-2^e(1+f), u = t) and with all lengths scaled
//!   exactly by 2^k.
//!
//! Tolerances: results are multiplied back by an exact power of two so that the magnitude bound of the
//! compared quantity lies in [1,2), then `k * eps * bound` as in the moderate checks — i.e. always relative to
//! the scaled magnitude, never `max(1, .)` of something tiny.

use super::*;
use vkit::regimes::{scale_exp, scale_label};

// ---------------------------------------------------------------------------------------------
// generators
// ---------------------------------------------------------------------------------------------

/// (largest e of a 2^-e parameter / relative control-point shrink, largest e of a 2^e parameter)
fn param_exps<S: XDom>() -> (i64, i64) {
    match S::NAME {
        "f64" => (40, 12),
        "f32" => (16, 8),
        _ => (10, 6),
    }
}

/// Largest |k| of the unit-of-length exponent such that no intermediate of a correct implementation leaves the
/// normal range: coordinates <= 9 * 2^k, times (|t|+|1-t|)^3 <= 2^30 twice (split followed by evaluate),
/// times matrix entries <= 5 * 2^20. `squares`: the quantity is squared (normalized_tangent).
pub(crate) fn kmax<S: XDom>(squares: bool) -> i32 {
    match (S::NAME, squares) {
        ("f64", false) => 600,
        ("f64", true) => 300,
        ("f32", false) => 48,
        ("f32", true) => 30,
        (_, false) => 12,
        (_, true) => 8,
    }
}

/// A parameter from the regimes {ordinary, exactly 0 / 1 / 1/2, +-2^-e, 1 +- 2^-e, +-2^e (1+f)}.
pub(crate) fn gen_param_regime<S: XDom>(tp: &mut Tape) -> (S, &'static str) {
    let (tiny, big) = param_exps::<S>();
    match tp.below(16) {
        0 => (S::zero(), "t = 0"),
        1 => (S::one(), "t = 1"),
        2 => (S::q(1, 2), "t = 1/2"),
        3 | 4 | 5 => {
            let x = p2::<S>(-(tp.int(1, tiny) as i32));
            (if tp.chance(64) { -x } else { x }, "t = +-2^-e")
        }
        6 | 7 | 8 => {
            let d = p2::<S>(-(tp.int(1, tiny) as i32));
            (if tp.bool() { S::one() - d } else { S::one() + d }, "t = 1 +- 2^-e")
        }
        9 | 10 => {
            let x = p2::<S>(tp.int(2, big) as i32) * (S::one() + S::unit(tp));
            (if tp.bool() { -x } else { x }, "t = +-2^e (1+f)")
        }
        _ => (gen_param(tp), "t ordinary"),
    }
}

/// Control points (|coord| <= 9) with a degenerate / structured control polygon.
pub(crate) fn gen_points_regime<S: XDom, const N: usize, const D: usize>(tp: &mut Tape, cx: &mut Cx) -> [[S; D]; N] {
    let n = N - 1;
    let mut p = [[S::zero(); D]; N];
    for i in 0..N {
        for j in 0..D {
            p[i][j] = S::any(tp, 9);
        }
    }
    match tp.below(12) {
        0 => cx.label("polygon: general"),
        1 => {
            for i in 1..N {
                p[i] = p[0];
            }
            cx.label("polygon: point curve");
        }
        2 => {
            p[1] = p[0];
            cx.label("polygon: first control = start");
        }
        3 => {
            p[n - 1] = p[n];
            cx.label("polygon: last control = end");
        }
        4 => {
            if N == 4 {
                p[2] = p[1];
                cx.label("polygon: inner controls equal");
            } else {
                for j in 0..D {
                    p[1][j] = (p[0][j] + p[2][j]) / S::i(2);
                }
                cx.label("polygon: control = midpoint");
            }
        }
        5 => {
            for i in 0..N / 2 {
                p[n - i] = p[i];
            }
            cx.label("polygon: palindromic");
        }
        6 => {
            let j = tp.below(D);
            for i in 0..N {
                p[i][j] = S::zero();
            }
            cx.label("polygon: one coordinate zero");
        }
        7 => {
            let j = tp.below(D);
            for i in 0..N {
                for a in 0..D {
                    if a != j {
                        p[i][a] = S::zero();
                    }
                }
            }
            cx.label("polygon: on a coordinate axis");
        }
        8 => {
            for i in 0..N {
                for j in 0..D {
                    p[i][j] = S::i(tp.int(-1, 1));
                }
            }
            cx.label("polygon: coordinates in {-1,0,1}");
        }
        9 => {
            for i in 1..n {
                for j in 0..D {
                    p[i][j] = p[0][j] + S::q(i as i64, n as i64) * (p[n][j] - p[0][j]);
                }
            }
            cx.label("polygon: evenly spaced on a line");
        }
        10 => {
            let i = tp.below(N);
            let f = p2::<S>(-(tp.int(1, param_exps::<S>().0) as i32));
            p[i] = mul_pt(&p[i], f);
            cx.label("polygon: one control point 2^-e smaller");
        }
        _ => {
            p[n] = p[0];
            cx.label("polygon: closed");
        }
    }
    p
}

fn gen_scale<S: XDom>(tp: &mut Tape, cx: &mut Cx, squares: bool) -> i32 {
    let k = scale_exp(tp, kmax::<S>(squares));
    cx.label(scale_label(k));
    k
}

// ---------------------------------------------------------------------------------------------
// core / elevation / tangent in the regimes
// ---------------------------------------------------------------------------------------------

/// Largest e such that a parameter |t| < 2^(e+1) keeps EVERY evaluation order of a degree-n Bernstein form of
/// points |P| < 2^max(k,0) in range: the sum of the magnitudes of all terms, |P| (|t|+|1-t|)^n < 2^(k + n(e+2)),
/// bounds every partial product of weights (t^n, 3 u^2 t, ..) and of weight * point, whatever is multiplied first.
/// Required: k + n(e+2) <= maxexp - 1; two more bits per factor are left for the oracles' own sums. 0 for `Rat`.
pub(crate) fn huge_exp_max<S: XDom>(n: usize, k: i32) -> i64 {
    let maxexp = match S::NAME {
        "f64" => 1023,
        "f32" => 127,
        _ => return 0,
    };
    ((maxexp - 1 - k.max(0)) / n as i32 - 3) as i64
}

/// With probability 3/16 (floats only): replace (p, t, u) by a huge-parameter case: points shrunk to |P| < 1
/// (exactly, by 2^-4), |t| = 2^e (1+f) with e between the ordinary regime's limit and `huge_exp_max`, u in [0,1].
fn huge_param<S: XDom, const N: usize, const D: usize>(tp: &mut Tape, cx: &mut Cx, n: usize, k: i32, p: &mut [[S; D]; N], t: &mut S, u: &mut S) {
    let lo = param_exps::<S>().1 + 1;
    let hi = huge_exp_max::<S>(n, k);
    if S::EXACT || hi < lo || !tp.chance(48) {
        return;
    }
    *p = map_pts(p, |q| mul_pt(q, p2::<S>(-4)));
    // half of the cases in the top eighth of the exponent range (next to the overflow limit)
    let e = if tp.bool() { tp.int(hi - (hi - lo) / 8, hi) } else { tp.int(lo, hi) };
    let x = p2::<S>(e as i32) * (S::one() + S::unit(tp));
    *t = if tp.bool() { -x } else { x };
    *u = if tp.bool() { S::unit(tp) } else { S::q(tp.int(0, 8), 8) };
    cx.label("t huge: +-2^e (1+f), e up to the limit where (|t|+|1-t|)^n stays finite");
}

pub fn core_regime<S: XDom, C: Curve<S, N, D>, const N: usize, const D: usize>(tp: &mut Tape, cx: &mut Cx) -> CaseResult {
    let mut p: [[S; D]; N] = gen_points_regime(tp, cx);
    let (mut t, tl) = gen_param_regime::<S>(tp);
    let mut u = match tp.below(4) {
        0 => {
            cx.label("u = t");
            t
        }
        1 => gen_param_regime::<S>(tp).0,
        _ => gen_param(tp),
    };
    let k = gen_scale::<S>(tp, cx, false);
    let t0 = t;
    huge_param::<S, N, D>(tp, cx, N - 1, k, &mut p, &mut t, &mut u);
    if t == t0 {
        cx.label(tl);
    }
    core_body::<S, C, N, D>(cx, &p, k, t, u)
}

pub fn elevate_regime<S: XDom, Q: Quad<S, D>, const D: usize>(tp: &mut Tape, cx: &mut Cx) -> CaseResult {
    let mut p: [[S; D]; 3] = gen_points_regime(tp, cx);
    let (mut t, tl) = gen_param_regime::<S>(tp);
    let k = gen_scale::<S>(tp, cx, false);
    let (t0, mut u) = (t, S::zero());
    huge_param::<S, 3, D>(tp, cx, 3, k, &mut p, &mut t, &mut u); // the elevated curve is cubic
    if t == t0 {
        cx.label(tl);
    }
    elevate_body::<S, Q, D>(cx, &p, k, t)
}

pub fn tangent_regime<S: XDom, C: Curve<S, N, D>, const N: usize, const D: usize>(tp: &mut Tape, cx: &mut Cx) -> CaseResult {
    let mut p: [[S; D]; N] = gen_points_regime(tp, cx);
    let (mut t, tl) = gen_param_regime::<S>(tp);
    cx.label(tl);
    tangent_fix(tp, cx, &mut p, &mut t);
    let k = gen_scale::<S>(tp, cx, true);
    tangent_body::<S, C, N, D>(cx, &p, &[S::zero(); D], k, t)
}

// ---------------------------------------------------------------------------------------------
// structured matrices
// ---------------------------------------------------------------------------------------------

fn nonzero<S: XDom>(tp: &mut Tape, max: i64) -> S {
    let x = S::any(tp, max);
    if x == S::zero() {
        S::i(2)
    } else {
        x
    }
}

fn ident<S: XDom, const D: usize>() -> [[S; D]; D] {
    let mut a = [[S::zero(); D]; D];
    for i in 0..D {
        a[i][i] = S::one();
    }
    a
}

/// A permutation of 0..D that is not the identity (D >= 2).
fn perm<const D: usize>(tp: &mut Tape) -> [usize; D] {
    let mut s = [0usize; D];
    for i in 0..D {
        s[i] = i;
    }
    // Fisher-Yates from the tape; force a non-identity result by a final swap if needed
    for i in (1..D).rev() {
        let j = tp.below(i + 1);
        s.swap(i, j);
    }
    if (0..D).all(|i| s[i] == i) {
        s.swap(0, 1);
    }
    s
}

/// A D x D linear block from the structured classes (labelled).
pub(crate) fn gen_linear<S: XDom, const D: usize>(tp: &mut Tape, cx: &mut Cx) -> [[S; D]; D] {
    let mut a = ident::<S, D>();
    match tp.below(12) {
        0 => cx.label("linear: identity"),
        1 => {
            let s = nonzero::<S>(tp, 5);
            for i in 0..D {
                a[i][i] = s;
            }
            cx.label("linear: uniform scaling");
        }
        2 => {
            for i in 0..D {
                a[i][i] = S::any(tp, 5);
            }
            cx.label("linear: diagonal");
        }
        3 => {
            let s = perm::<D>(tp);
            a = [[S::zero(); D]; D];
            for i in 0..D {
                a[i][s[i]] = S::one();
            }
            cx.label("linear: permutation");
        }
        4 => {
            let mut any = false;
            for i in 0..D {
                if tp.bool() {
                    a[i][i] = -S::one();
                    any = true;
                }
            }
            if !any {
                a[D - 1][D - 1] = -S::one();
            }
            cx.label("linear: axis flips");
        }
        5 => {
            let s = perm::<D>(tp);
            a = [[S::zero(); D]; D];
            for i in 0..D {
                a[i][s[i]] = if tp.bool() { -S::one() } else { S::one() };
            }
            cx.label("linear: signed permutation");
        }
        6 => {
            let i = tp.below(D);
            let j = (i + 1 + tp.below(D - 1)) % D;
            a[i][j] = nonzero::<S>(tp, 5);
            cx.label("linear: single shear");
        }
        7 => {
            for i in 0..D - 1 {
                a[i][D - 1] = S::any(tp, 5);
            }
            cx.label("linear: identity + last column");
        }
        8 => {
            let (i, j) = (tp.below(D), tp.below(D));
            // visible as long as 2^-e * max|P| exceeds the tolerance 16 eps * D * max|P|
            let e = tp.int(1, match S::NAME { "f64" => 40, "f32" => 16, _ => 30 }) as i32;
            let d = p2::<S>(-e);
            a[i][j] = a[i][j] + if tp.bool() { -d } else { d };
            cx.label("linear: identity +- 2^-e in one entry");
        }
        9 => {
            a = [[S::zero(); D]; D];
            cx.label("linear: zero");
        }
        10 => {
            a = vk::gen_mat(tp, 5);
            let f = S::small(tp, 3);
            for j in 0..D {
                a[D - 1][j] = f * a[0][j];
            }
            cx.label("linear: singular");
        }
        _ => {
            a = vk::gen_mat(tp, 5);
            cx.label("linear: general");
        }
    }
    a
}

/// A homogeneous E x E matrix (E = D + 1): structured linear block, translation column from
/// {zero, one axis, general} times 2^kt, bottom row from {affine, (0,..,0,w), one projective entry, general}.
pub(crate) fn gen_homog<S: XDom, const D: usize, const E: usize>(tp: &mut Tape, cx: &mut Cx, kt: i32) -> [[S; E]; E] {
    assert!(E == D + 1);
    let l = gen_linear::<S, D>(tp, cx);
    let mut a = [[S::zero(); E]; E];
    for i in 0..D {
        for j in 0..D {
            a[i][j] = l[i][j];
        }
    }
    a[D][D] = S::one();
    let f = p2::<S>(kt);
    match tp.below(4) {
        0 => cx.label("translation: zero"),
        1 => {
            a[tp.below(D)][D] = nonzero::<S>(tp, 9) * f;
            cx.label("translation: one axis");
        }
        _ => {
            for i in 0..D {
                a[i][D] = S::any(tp, 9) * f;
            }
            cx.label("translation: general");
        }
    }
    match tp.below(8) {
        0 | 1 | 2 | 3 => cx.label("bottom row: affine"),
        4 => {
            a[D][D] = tp.pick(&[S::zero(), -S::one(), S::i(2), S::q(1, 2)]);
            cx.label("bottom row: (0,..,0,w)");
        }
        5 => {
            a[D][tp.below(D)] = nonzero::<S>(tp, 5);
            cx.label("bottom row: one projective entry");
        }
        _ => {
            for j in 0..E {
                a[D][j] = S::any(tp, 5);
            }
            cx.label("bottom row: general");
        }
    }
    a
}

fn is_identity<S: XDom, const E: usize>(a: &[[S; E]; E]) -> bool {
    *a == ident::<S, E>()
}

// ---------------------------------------------------------------------------------------------
// judging one product
// ---------------------------------------------------------------------------------------------

/// -floor(log2(m)) for a positive finite magnitude bound (0 for m = 0): multiplying by 2^that brings m into [1,2).
fn norm_exp(m: f64) -> i32 {
    if m > 0.0 && m.is_finite() {
        -(m.log2().floor() as i32)
    } else {
        0
    }
}

/// The point-wise definition: rows 0..D of `a * (q, 1)` (E = D+1), or `a * q` (E = D); no division.
fn apply<S: XDom, const D: usize, const E: usize>(a: &[[S; E]; E], q: &[S; D]) -> [S; D] {
    let mut h = [S::one(); E];
    h[..D].copy_from_slice(q);
    let r = rf::matvec(a, &h);
    let mut o = [S::zero(); D];
    o.copy_from_slice(&r[..D]);
    o
}

/// Judge `got = M * curve` (control points `ps`, already scaled) against the point-wise definition.
/// `vek_pt` is vek's own `M` applied to vek's own `curve.evaluate(t)` (EXTRA relation).
/// Magnitude bound of every term of a transformed point: mag = D * max|linear| * max|P| + max|translation|;
/// of a transformed curve point: mag * (|t|+|1-t|)^n. Operation count: <= E multiply-adds per coordinate
/// (k = 16 as in the moderate check) plus <= 3n+3 operations of the Bernstein sum (k = 32).
fn judge<S: XDom, C: Curve<S, N, D>, const N: usize, const D: usize, const E: usize>(cx: &mut Cx, what: &str, a: &[[S; E]; E], ps: &[[S; D]; N], t: S, got: C, vek_pt: [S; D]) -> CaseResult {
    let n = N - 1;
    let pmax = or::pts_max(ps);
    let mut lmax = 0.0f64;
    let mut tmax = 0.0f64;
    for i in 0..D {
        for j in 0..D {
            lmax = lmax.max(a[i][j].f().abs());
        }
        if E > D {
            tmax = tmax.max(a[i][D].f().abs());
        }
    }
    let mag = D as f64 * lmax * pmax + tmax;
    let an = powi(or::spread(t), n);
    let ct = or::bernstein(ps, t);
    let want_pts = map_pts(ps, |q| apply::<S, D, E>(a, q));
    let want_ct = apply::<S, D, E>(a, &ct);
    let f = p2::<S>(norm_exp(mag));
    let sc = mag * f.f();
    let gp = map_pts(&got.read(), |q| mul_pt(q, f));
    check_pts!(cx, S, gp, map_pts(&want_pts, |q| mul_pt(q, f)), sc, 16, "{} * curve: control points vs the point-wise definition", what);
    let f = p2::<S>(norm_exp(mag * an));
    let sc = mag * an * f.f();
    let ge = mul_pt(&got.v_evaluate(t), f);
    check_vec!(cx, S, ge, mul_pt(&want_ct, f), sc, 32, "({} * curve)(t) = M applied to C(t)", what);
    check_vec!(cx, S, ge, mul_pt(&or::bernstein(&want_pts, t), f), sc, 32, "({} * curve)(t) = Bernstein sum of the transformed control points", what);
    check_vec!(cx, S, ge, mul_pt(&vek_pt, f), sc, 32, "({} * curve).evaluate(t) = M applied (by vek) to curve.evaluate(t)", what);
    Ok(())
}

// ---------------------------------------------------------------------------------------------
// the case
// ---------------------------------------------------------------------------------------------

pub trait Sx<S: XDom, const N: usize, const D: usize>: Curve<S, N, D> {
    /// `ps`: control points already scaled by 2^kp; `kt`: exponent of the translation unit.
    fn structured(cx: &mut Cx, tp: &mut Tape, ps: &[[S; D]; N], kt: i32, kl: i32, t: S) -> CaseResult;
}

fn scale_mat<S: XDom, const D: usize, const E: usize>(a: &mut [[S; E]; E], kl: i32) {
    let f = p2::<S>(kl);
    for i in 0..D {
        for j in 0..D {
            a[i][j] = a[i][j] * f;
        }
    }
}

macro_rules! impl_sx {
    ($Curve:ident, $N:expr, $D:expr, $E:expr, $MatD:ident, $MatE:ident, $ad:path, $mul_point:ident, $Other:ident, $ctors:ident) => {
        impl<S: XDom> Sx<S, $N, $D> for $Curve<S> {
            fn structured(cx: &mut Cx, tp: &mut Tape, ps: &[[S; $D]; $N], kt: i32, kl: i32, t: S) -> CaseResult {
                const N: usize = $N;
                const D: usize = $D;
                const E: usize = $E;
                let c = <Self as Curve<S, N, D>>::build(ps);
                let mut ad: [[S; D]; D] = gen_linear::<S, D>(tp, cx);
                scale_mat::<S, D, D>(&mut ad, kl);
                let mut ae: [[S; E]; E] = gen_homog::<S, D, E>(tp, cx, kt);
                scale_mat::<S, D, E>(&mut ae, kl);
                sample!(cx, "{} {} P={:?} t={:?} A{}={:?} A{}={:?}", S::NAME, <Self as Curve<S, N, D>>::NAME, ps, t, D, ad, E, ae);
                let col = or::collinear(ps);
                if col {
                    cx.label("collinear");
                }
                cx.set_nontrivial(!col && !special(t) && !(is_identity(&ad) && is_identity(&ae)));
                let ev = c.evaluate(t);
                // D x D: plain matrix * vector
                {
                    let (r, k) = (rm::$MatD::<S>::from_arr(&ad), cm::$MatD::<S>::from_arr(&ad));
                    judge::<S, Self, N, D, D>(cx, concat!("row-major ", stringify!($MatD)), &ad, ps, t, r * c, $ad(&(r * ev)))?;
                    judge::<S, Self, N, D, D>(cx, concat!("column-major ", stringify!($MatD)), &ad, ps, t, k * c, $ad(&(k * ev)))?;
                }
                // E x E: as a point (w = 1), last coordinate dropped without division
                {
                    let (r, k) = (rm::$MatE::<S>::from_arr(&ae), cm::$MatE::<S>::from_arr(&ae));
                    judge::<S, Self, N, D, E>(cx, concat!("row-major ", stringify!($MatE)), &ae, ps, t, r * c, $ad(&r.$mul_point(ev)))?;
                    judge::<S, Self, N, D, E>(cx, concat!("column-major ", stringify!($MatE)), &ae, ps, t, k * c, $ad(&k.$mul_point(ev)))?;
                }
                // matrices produced by vek's own constructors, read back through the public fields
                $ctors!(cx, tp, ps, kt, t, c, ev);
                // 2D <-> 3D conversion of the scaled / degenerate control points
                let o: $Other<S> = c.into();
                let op = o.read();
                for i in 0..N {
                    for j in 0..D.min(op[i].len()) {
                        check_eq!(cx, op[i][j], ps[i][j], "2D<->3D conversion keeps x, y (control point {})", i);
                    }
                    for j in D..op[i].len() {
                        check_eq!(cx, op[i][j], S::zero(), "into_3d sets z = 0 (control point {})", i);
                    }
                }
                Ok(())
            }
        }
    };
}

macro_rules! ctors2 {
    ($cx:expr, $tp:expr, $ps:expr, $kt:expr, $t:expr, $c:expr, $ev:expr) => {{
        let f = p2::<S>($kt);
        let v: [S; 2] = [S::any($tp, 9) * f, S::any($tp, 9) * f];
        let d: [S; 2] = [S::any($tp, 5), S::any($tp, 5)];
        match $tp.below(6) {
            0 => {
                let (r, k) = (rm::Mat3::<S>::translation_2d(vk::v2(&v)), cm::Mat3::<S>::translation_2d(vk::v2(&v)));
                judge::<S, Self, N, 2, 3>($cx, "row-major Mat3::translation_2d(v)", &r.to_arr(), $ps, $t, r * $c, vk::a2(&r.mul_point_2d($ev)))?;
                judge::<S, Self, N, 2, 3>($cx, "column-major Mat3::translation_2d(v)", &k.to_arr(), $ps, $t, k * $c, vk::a2(&k.mul_point_2d($ev)))?;
            }
            1 => {
                let (r, k) = (rm::Mat2::<S>::scaling_2d(vk::v2(&d)), cm::Mat2::<S>::scaling_2d(vk::v2(&d)));
                judge::<S, Self, N, 2, 2>($cx, "row-major Mat2::scaling_2d(v)", &r.to_arr(), $ps, $t, r * $c, vk::a2(&(r * $ev)))?;
                judge::<S, Self, N, 2, 2>($cx, "column-major Mat2::scaling_2d(v)", &k.to_arr(), $ps, $t, k * $c, vk::a2(&(k * $ev)))?;
            }
            2 => {
                let (r, k) = if $tp.bool() { (rm::Mat2::<S>::shearing_x(d[0]), cm::Mat2::<S>::shearing_x(d[0])) } else { (rm::Mat2::<S>::shearing_y(d[0]), cm::Mat2::<S>::shearing_y(d[0])) };
                judge::<S, Self, N, 2, 2>($cx, "row-major Mat2::shearing_x/y(k)", &r.to_arr(), $ps, $t, r * $c, vk::a2(&(r * $ev)))?;
                judge::<S, Self, N, 2, 2>($cx, "column-major Mat2::shearing_x/y(k)", &k.to_arr(), $ps, $t, k * $c, vk::a2(&(k * $ev)))?;
            }
            3 => {
                let s = vk::v3(&[d[0], d[1], S::one()]);
                let (r, k) = (rm::Mat3::<S>::scaling_3d(s), cm::Mat3::<S>::scaling_3d(s));
                judge::<S, Self, N, 2, 3>($cx, "row-major Mat3::scaling_3d((x,y,1))", &r.to_arr(), $ps, $t, r * $c, vk::a2(&r.mul_point_2d($ev)))?;
                judge::<S, Self, N, 2, 3>($cx, "column-major Mat3::scaling_3d((x,y,1))", &k.to_arr(), $ps, $t, k * $c, vk::a2(&k.mul_point_2d($ev)))?;
            }
            4 => {
                let (r, k) = (rm::Mat3::<S>::identity(), cm::Mat3::<S>::identity());
                check_eq!($cx, (r * $c).read(), *$ps, "row-major Mat3::identity() * curve = curve");
                check_eq!($cx, (k * $c).read(), *$ps, "column-major Mat3::identity() * curve = curve");
                let (r, k) = (rm::Mat2::<S>::identity(), cm::Mat2::<S>::identity());
                check_eq!($cx, (r * $c).read(), *$ps, "row-major Mat2::identity() * curve = curve");
                check_eq!($cx, (k * $c).read(), *$ps, "column-major Mat2::identity() * curve = curve");
            }
            _ => {
                let (r, k) = (rm::Mat2::<S>::zero(), cm::Mat2::<S>::zero());
                judge::<S, Self, N, 2, 2>($cx, "row-major Mat2::zero()", &r.to_arr(), $ps, $t, r * $c, vk::a2(&(r * $ev)))?;
                judge::<S, Self, N, 2, 2>($cx, "column-major Mat2::zero()", &k.to_arr(), $ps, $t, k * $c, vk::a2(&(k * $ev)))?;
            }
        }
    }};
}

macro_rules! ctors3 {
    ($cx:expr, $tp:expr, $ps:expr, $kt:expr, $t:expr, $c:expr, $ev:expr) => {{
        let f = p2::<S>($kt);
        let v: [S; 3] = [S::any($tp, 9) * f, S::any($tp, 9) * f, S::any($tp, 9) * f];
        let d: [S; 3] = [S::any($tp, 5), S::any($tp, 5), S::any($tp, 5)];
        match $tp.below(6) {
            0 => {
                let (r, k) = (rm::Mat4::<S>::translation_3d(vk::v3(&v)), cm::Mat4::<S>::translation_3d(vk::v3(&v)));
                judge::<S, Self, N, 3, 4>($cx, "row-major Mat4::translation_3d(v)", &r.to_arr(), $ps, $t, r * $c, vk::a3(&r.mul_point($ev)))?;
                judge::<S, Self, N, 3, 4>($cx, "column-major Mat4::translation_3d(v)", &k.to_arr(), $ps, $t, k * $c, vk::a3(&k.mul_point($ev)))?;
            }
            1 => {
                let w = vk::v2(&[v[0], v[1]]);
                let (r, k) = (rm::Mat4::<S>::translation_2d(w), cm::Mat4::<S>::translation_2d(w));
                judge::<S, Self, N, 3, 4>($cx, "row-major Mat4::translation_2d(v)", &r.to_arr(), $ps, $t, r * $c, vk::a3(&r.mul_point($ev)))?;
                judge::<S, Self, N, 3, 4>($cx, "column-major Mat4::translation_2d(v)", &k.to_arr(), $ps, $t, k * $c, vk::a3(&k.mul_point($ev)))?;
            }
            2 => {
                let (r, k) = (rm::Mat4::<S>::scaling_3d(vk::v3(&d)), cm::Mat4::<S>::scaling_3d(vk::v3(&d)));
                judge::<S, Self, N, 3, 4>($cx, "row-major Mat4::scaling_3d(v)", &r.to_arr(), $ps, $t, r * $c, vk::a3(&r.mul_point($ev)))?;
                judge::<S, Self, N, 3, 4>($cx, "column-major Mat4::scaling_3d(v)", &k.to_arr(), $ps, $t, k * $c, vk::a3(&k.mul_point($ev)))?;
            }
            3 => {
                let (r, k) = (rm::Mat3::<S>::scaling_3d(vk::v3(&d)), cm::Mat3::<S>::scaling_3d(vk::v3(&d)));
                judge::<S, Self, N, 3, 3>($cx, "row-major Mat3::scaling_3d(v)", &r.to_arr(), $ps, $t, r * $c, vk::a3(&(r * $ev)))?;
                judge::<S, Self, N, 3, 3>($cx, "column-major Mat3::scaling_3d(v)", &k.to_arr(), $ps, $t, k * $c, vk::a3(&(k * $ev)))?;
            }
            4 => {
                let (r, k) = (rm::Mat4::<S>::identity(), cm::Mat4::<S>::identity());
                check_eq!($cx, (r * $c).read(), *$ps, "row-major Mat4::identity() * curve = curve");
                check_eq!($cx, (k * $c).read(), *$ps, "column-major Mat4::identity() * curve = curve");
                let (r, k) = (rm::Mat3::<S>::identity(), cm::Mat3::<S>::identity());
                check_eq!($cx, (r * $c).read(), *$ps, "row-major Mat3::identity() * curve = curve");
                check_eq!($cx, (k * $c).read(), *$ps, "column-major Mat3::identity() * curve = curve");
            }
            _ => {
                let (r, k) = (rm::Mat3::<S>::zero(), cm::Mat3::<S>::zero());
                judge::<S, Self, N, 3, 3>($cx, "row-major Mat3::zero()", &r.to_arr(), $ps, $t, r * $c, vk::a3(&(r * $ev)))?;
                judge::<S, Self, N, 3, 3>($cx, "column-major Mat3::zero()", &k.to_arr(), $ps, $t, k * $c, vk::a3(&(k * $ev)))?;
            }
        }
    }};
}

impl_sx!(QuadraticBezier2, 3, 2, 3, Mat2, Mat3, vk::a2, mul_point_2d, QuadraticBezier3, ctors2);
impl_sx!(CubicBezier2, 4, 2, 3, Mat2, Mat3, vk::a2, mul_point_2d, CubicBezier3, ctors2);
impl_sx!(QuadraticBezier3, 3, 3, 4, Mat3, Mat4, vk::a3, mul_point, QuadraticBezier2, ctors3);
impl_sx!(CubicBezier3, 4, 3, 4, Mat3, Mat4, vk::a3, mul_point, CubicBezier2, ctors3);

pub fn structured_case<S: XDom, C: Sx<S, N, D>, const N: usize, const D: usize>(tp: &mut Tape, cx: &mut Cx) -> CaseResult {
    // control polygon: ordinary in 3/4 of the cases (the matrix is the subject here), degenerate otherwise
    let p: [[S; D]; N] = if tp.chance(64) { gen_points_regime(tp, cx) } else { gen_points(tp, cx) };
    let (t, tl) = if tp.chance(64) { gen_param_regime::<S>(tp) } else { (gen_param(tp), "t ordinary") };
    cx.label(tl);
    classify_param(cx, t);
    // unit of length of the points (2^kp); the translation shares it, except in 1/4 of the scaled cases
    // where it has its own; in 1/8 of the cases the linear block is scaled by 2^kl as well
    let kmax = kmax::<S>(false);
    let kp = scale_exp(tp, kmax);
    cx.label(scale_label(kp));
    let kt = if tp.chance(64) {
        cx.label("translation unit independent of the point unit");
        scale_exp(tp, kmax)
    } else {
        kp
    };
    let kl = if tp.chance(32) {
        cx.label("linear block scaled by 2^j");
        scale_exp(tp, if S::EXACT { 12 } else { 20 })
    } else {
        0
    };
    let ps = map_pts(&p, |q| mul_pt(q, p2::<S>(kp)));
    C::structured(cx, tp, &ps, kt, kl, t)
}
