//! C14 on TRANSLATED curves: a small dyadic shape far from the origin.
//!
//! Control points are `(off + m) * 2^k` where `m` (the shape) has integer coordinates |m| <= 16 in *lattice units*
//! and `off` (the common offset, per axis) is `+-{1, 5/4, 3/2} * 2^(P-gap)` lattice units (P = 23 / 52 mantissa
//! bits; sometimes 0 or a lower power of two on an axis), so one ulp of the offset is 2^-gap lattice units
//! (gap = 0: the shape is a handful of ulps of the offset wide) and every `off + m` is exactly representable.
//!
//! * Translation-INVARIANT clauses are judged relative to the size of the SHAPE (never of the offset):
//!   `evaluate_derivative` (= hodograph of the untranslated shape; of the curve itself, its reversal, its flips,
//!   its 2D<->3D conversion, its image under a pure translation matrix; EXTRA: = vek's own derivative of the
//!   untranslated curve) and `normalized_tangent` (`tangent_body` with the offset). Differences of neighbouring
//!   control points are exact here, so a difference-based derivative — the only kind that is the derivative of
//!   the *curve* rather than of the rounded polynomial — is accurate to a few ulps of its own size; tolerance
//!   32 eps * n * max|P(i+1) - P(i)| * (|t|+|1-t|)^(n-1): <= 5 roundings per term, n terms, the same again in
//!   the oracle.
//! * Pure translation matrices (Mat3 on 2D, Mat4 on 3D, both layouts; from the public fields or vek's
//!   `translation_2d/3d`): to the origin (`v = -off`), away from it (curve at the origin, `v = off`) and by a few
//!   lattice units. Every product is by exactly 0 or 1 and `x + v` is exactly representable, so every
//!   association order gives the exact control points; asserted to 16 eps of the shape size.
//! * Translation-COVARIANT clauses (evaluate, split, reversal, flips, From<LineSegment>, containers, elevation)
//!   cannot be better than an ulp of the offset in any implementation (the Bernstein weights multiply the
//!   offset); they run through `core_body` / `elevate_body` on the translated points, relative to the offset.

use super::*;
use vkit::regimes::{scale_exp, scale_label};

fn mant_bits<S: XDom>() -> i32 {
    match S::NAME {
        "f64" => 52,
        "f32" => 23,
        _ => 20,
    }
}

pub struct Translated<S, const N: usize, const D: usize> {
    /// shape, lattice units (integers, |m| <= 16)
    pub m: [[S; D]; N],
    /// offset per axis, lattice units
    pub off: [S; D],
    /// off + m (exact)
    pub full: [[S; D]; N],
    pub k: i32,
}

pub fn gen_translated<S: XDom, const N: usize, const D: usize>(tp: &mut Tape, cx: &mut Cx) -> Translated<S, N, D> {
    let pbits = mant_bits::<S>();
    // |m| <= 2^4 and |off| <= 3/2 * 2^(P-gap): off + m (+ a shift of <= 8 units) stays below 2^(P-gap+1) <= 2^(P+1)
    // as long as P - gap >= 6
    let gap = if tp.bool() { tp.int(0, 4) } else { tp.int(0, (pbits - 6) as i64) } as i32;
    cx.label(match gap {
        0..=4 => "offset ulp = 2^-gap lattice units, gap 0..4",
        5..=12 => "gap 5..12",
        _ => "gap > 12",
    });
    let mut m = [[S::zero(); D]; N];
    for i in 0..N {
        for j in 0..D {
            m[i][j] = S::i(tp.int(-16, 16));
        }
    }
    if tp.chance(24) {
        let i = tp.below(N - 1);
        m[i + 1] = m[i];
        cx.label("shape: doubled control point");
    }
    let mut off = [S::zero(); D];
    for j in 0..D {
        let mant = S::i(tp.pick(&[4i64, 5, 6])) * p2::<S>(pbits - gap - 2);
        let mant = if tp.bool() { -mant } else { mant };
        off[j] = match tp.below(8) {
            0 => {
                cx.label("offset: zero on one axis");
                S::zero()
            }
            1 => {
                cx.label("offset: lower power of two on one axis");
                mant * p2::<S>(-(tp.int(1, (pbits - gap - 2) as i64) as i32))
            }
            _ => mant,
        };
    }
    let k = scale_exp(tp, regime::kmax::<S>(true));
    cx.label(scale_label(k));
    let full = map_pts(&m, |q| {
        let mut q = *q;
        for j in 0..D {
            q[j] = q[j] + off[j];
        }
        q
    });
    Translated { m, off, full, k }
}

fn neg_pt<S: XDom, const D: usize>(q: &[S; D]) -> [S; D] {
    let mut r = *q;
    for x in r.iter_mut() {
        *x = -*x;
    }
    r
}

/// n * max|P(i+1) - P(i)| * (|t|+|1-t|)^(n-1): the sum of the magnitudes of the terms of the hodograph.
fn deriv_scale<S: XDom, const N: usize, const D: usize>(m: &[[S; D]; N], t: S) -> f64 {
    let n = N - 1;
    let mut dmax = 0.0f64;
    for i in 0..n {
        for j in 0..D {
            dmax = dmax.max((m[i + 1][j] - m[i][j]).f().abs());
        }
    }
    n as f64 * dmax * powi(or::spread(t), n - 1)
}

pub trait Tl<S: XDom, const N: usize, const D: usize>: Curve<S, N, D> {
    /// pure translation matrices and 2D<->3D conversion (needs the concrete vek types)
    fn translations(cx: &mut Cx, tp: &mut Tape, tr: &Translated<S, N, D>, t: S) -> CaseResult;
}

macro_rules! impl_tl {
    ($Curve:ident, $N:expr, $D:expr, $E:expr, $MatE:ident, $vd:path, $ctor:ident, $Other:ident, $OD:expr) => {
        impl<S: XDom> Tl<S, $N, $D> for $Curve<S> {
            fn translations(cx: &mut Cx, tp: &mut Tape, tr: &Translated<S, $N, $D>, t: S) -> CaseResult {
                const N: usize = $N;
                const D: usize = $D;
                const E: usize = $E;
                const OD: usize = $OD;
                let (up, inv) = (p2::<S>(tr.k), p2::<S>(-tr.k));
                let want_d = or::hodograph(&tr.m, t);
                let dsc = deriv_scale(&tr.m, t);
                let mmax = or::pts_max(&tr.m);
                // 2D <-> 3D conversion: the derivative of the converted curve is the converted derivative
                {
                    let c = <Self as Curve<S, N, D>>::build(&map_pts(&tr.full, |q| mul_pt(q, up)));
                    let o: $Other<S> = c.into();
                    let od: [S; OD] = mul_pt(&o.v_derivative(t), inv);
                    let mut w = [S::zero(); OD];
                    for j in 0..D.min(OD) {
                        w[j] = want_d[j];
                    }
                    check_vec!(cx, S, od, w, dsc, 32, "translated curve: evaluate_derivative of the 2D<->3D converted curve = converted derivative of the shape");
                }
                // pure translations
                let (src, v, want): ([[S; D]; N], [S; D], [[S; D]; N]) = match tp.below(3) {
                    0 => {
                        cx.label("translation matrix: back to the origin (v = -offset)");
                        (tr.full, neg_pt(&tr.off), tr.m)
                    }
                    1 => {
                        cx.label("translation matrix: from the origin (v = offset)");
                        (tr.m, tr.off, tr.full)
                    }
                    _ => {
                        cx.label("translation matrix: by a few lattice units");
                        let mut v = [S::zero(); D];
                        for j in 0..D {
                            v[j] = S::i(tp.int(-8, 8));
                        }
                        let w = map_pts(&tr.full, |q| {
                            let mut q = *q;
                            for j in 0..D {
                                q[j] = q[j] + v[j];
                            }
                            q
                        });
                        (tr.full, v, w)
                    }
                };
                let c = <Self as Curve<S, N, D>>::build(&map_pts(&src, |q| mul_pt(q, up)));
                let vs = mul_pt(&v, up);
                let mut a = [[S::zero(); E]; E];
                for i in 0..E {
                    a[i][i] = S::one();
                }
                for i in 0..D {
                    a[i][D] = vs[i];
                }
                let (r, k) = if tp.bool() { (rm::$MatE::<S>::from_arr(&a), cm::$MatE::<S>::from_arr(&a)) } else { (rm::$MatE::<S>::$ctor($vd(&vs)), cm::$MatE::<S>::$ctor($vd(&vs))) };
                for (what, got) in [(concat!("row-major ", stringify!($MatE)), r * c), (concat!("column-major ", stringify!($MatE)), k * c)] {
                    let gp = map_pts(&got.read(), |q| mul_pt(q, inv));
                    for i in 0..N {
                        for j in 0..D {
                            // compare the deviation from the exact value in lattice units (the values themselves are offset-sized)
                            check_close!(cx, S, gp[i][j] - want[i][j], S::zero(), mmax, 16, "translated curve: {} pure translation * curve, control point {} coordinate {} (got {:?}, want exactly {:?})", what, i, j, gp[i][j], want[i][j]);
                        }
                    }
                    check_vec!(cx, S, mul_pt(&got.v_derivative(t), inv), want_d, dsc, 32, "translated curve: evaluate_derivative of ({} pure translation * curve) = derivative of the shape", what);
                }
                Ok(())
            }
        }
    };
}
impl_tl!(QuadraticBezier2, 3, 2, 3, Mat3, vk::v2, translation_2d, QuadraticBezier3, 3);
impl_tl!(CubicBezier2, 4, 2, 3, Mat3, vk::v2, translation_2d, CubicBezier3, 3);
impl_tl!(QuadraticBezier3, 3, 3, 4, Mat4, vk::v3, translation_3d, QuadraticBezier2, 2);
impl_tl!(CubicBezier3, 4, 3, 4, Mat4, vk::v3, translation_3d, CubicBezier2, 2);

fn gen_t<S: XDom>(tp: &mut Tape, cx: &mut Cx) -> S {
    if tp.chance(64) {
        let (t, tl) = regime::gen_param_regime::<S>(tp);
        cx.label(tl);
        t
    } else {
        cx.label("t ordinary");
        gen_param(tp)
    }
}

pub fn translated_case<S: XDom, C: Tl<S, N, D>, const N: usize, const D: usize>(tp: &mut Tape, cx: &mut Cx) -> CaseResult {
    let tr: Translated<S, N, D> = gen_translated(tp, cx);
    let t: S = gen_t(tp, cx);
    let u: S = gen_param(tp);
    sample!(cx, "{} {} shape={:?} offset={:?} (lattice units) * 2^{} t={:?} u={:?}", S::NAME, C::NAME, tr.m, tr.off, tr.k, t, u);
    for i in 0..N {
        for j in 0..D {
            check_eq!(cx, tr.full[i][j] - tr.off[j], tr.m[i][j], "harness: offset + shape is exactly representable");
        }
    }
    let (up, inv) = (p2::<S>(tr.k), p2::<S>(-tr.k));
    let un = |v: [S; D]| mul_pt(&v, inv);
    let c = C::build(&map_pts(&tr.full, |q| mul_pt(q, up)));
    let shape = C::build(&map_pts(&tr.m, |q| mul_pt(q, up)));
    // --- invariant clauses, relative to the size of the shape
    let dsc = deriv_scale(&tr.m, t);
    let want = or::hodograph(&tr.m, t);
    let gd = un(c.v_derivative(t));
    check_vec!(cx, S, gd, want, dsc, 32, "translated curve: evaluate_derivative(t) = hodograph of the untranslated shape");
    check_vec!(cx, S, gd, un(shape.v_derivative(t)), dsc, 32, "translated curve: evaluate_derivative(t) = evaluate_derivative(t) of the untranslated curve");
    check_vec!(cx, S, un(c.v_reversed().v_derivative(t)), neg_pt(&or::hodograph(&tr.m, S::one() - t)), dsc, 32, "translated curve: reversed().evaluate_derivative(t) = -C'(1-t) of the shape");
    for ax in 0..D {
        let mut w = want;
        w[ax] = -w[ax];
        check_vec!(cx, S, un(c.v_flipped(ax).v_derivative(t)), w, dsc, 32, "translated curve: flipped_{}().evaluate_derivative(t)", ["x", "y", "z"][ax]);
        let mut f = c;
        f.v_flip(ax);
        check_vec!(cx, S, un(f.v_derivative(t)), w, dsc, 32, "translated curve: evaluate_derivative(t) after flip_{} in place", ["x", "y", "z"][ax]);
    }
    C::translations(cx, tp, &tr, t)?;
    tangent_body::<S, C, N, D>(cx, &tr.m, &tr.off, tr.k, t)?;
    // --- covariant clauses, relative to the size of the offset
    core_body::<S, C, N, D>(cx, &tr.full, tr.k, t, u)?;
    cx.set_nontrivial(!or::collinear(&tr.m) && !special(t));
    Ok(())
}

pub fn translated_elevate<S: XDom, Q: Quad<S, D>, const D: usize>(tp: &mut Tape, cx: &mut Cx) -> CaseResult {
    let tr: Translated<S, 3, D> = gen_translated(tp, cx);
    let t: S = gen_t(tp, cx);
    elevate_body::<S, Q, D>(cx, &tr.full, tr.k, t)
}
