use vek::bezier::repr_c::*;
use vek::vec::repr_c::*;
use vkit::Rat;
fn main() {
    // F5
    let q = QuadraticBezier2 { start: Vec2::new(10.0f64, 20.0), ctrl: Vec2::new(30.0, 80.0), end: Vec2::new(50.0, 20.0) };
    println!("F5 aabr {:?}  x_bounds {:?} y_bounds {:?}", q.aabr(), q.x_bounds(), q.y_bounds());
    let r = |n: i64, d: i64| Rat::frac(n, d);
    // F6 exact
    let c = CubicBezier2 { start: Vec2::new(r(4, 1), r(0, 1)), ctrl0: Vec2::new(r(5, 2), r(0, 1)), ctrl1: Vec2::new(r(3, 2), r(0, 1)), end: Vec2::new(r(1, 1), r(0, 1)) };
    println!("F6 x_inflections {:?} min_x {:?} max_x {:?}", c.x_inflections(), c.min_x(), c.max_x());
    // F11: a quadratic elevated to a cubic in f32 / f64
    let q = QuadraticBezier2 { start: Vec2::new(1.0f32, 0.0), ctrl: Vec2::new(0.0, 0.0), end: Vec2::new(2.0, 0.0) };
    let c = q.into_cubic();
    println!("F11 f32 quad min_x {:?} (x={:?}); elevated {:?}: x_inflections {:?} min_x {:?} (x={:?})", q.min_x(), q.evaluate(q.min_x()).x, c, c.x_inflections(), c.min_x(), c.evaluate(c.min_x()).x);
    for (s, k, e) in [(0.1f64, 0.7, 0.2), (1.0, 0.0, 2.0), (0.3, -0.1, 0.9), (10.1, 3.3, 12.7), (0.1, -0.3, 0.2)] {
        let q = QuadraticBezier2 { start: Vec2::new(s, 0.0), ctrl: Vec2::new(k, 0.0), end: Vec2::new(e, 0.0) };
        let c = q.into_cubic();
        println!("F11 f64 quad ({},{},{}) min_x {:?} max_x {:?}; elevated x=({:?},{:?},{:?},{:?}) x_inflections {:?} min_x {:?} max_x {:?}", s, k, e, q.min_x(), q.max_x(), c.start.x, c.ctrl0.x, c.ctrl1.x, c.end.x, c.x_inflections(), c.min_x(), c.max_x());
    }
    let c = CubicBezier2 { start: Vec2::new(1.0f32, 0.0), ctrl0: Vec2::new(0.3333333, 0.0), ctrl1: Vec2::new(0.6666666, 0.0), end: Vec2::new(1.9999999, 0.0) };
    println!("F11 f32 shrunk: x_inflections {:?} min_x {:?}", c.x_inflections(), c.min_x());
    // tiny-scale curves: absolute epsilon
    let s = Rat::new(1, 1i128 << 60);
    let c = CubicBezier2 { start: Vec2::new(r(0, 1) * s, r(0, 1)), ctrl0: Vec2::new(r(-1, 1) * s, r(0, 1)), ctrl1: Vec2::new(r(-1, 1) * s, r(0, 1)), end: Vec2::new(r(0, 1) * s, r(0, 1)) };
    println!("tiny Rat cubic x = 2^-60*(0,-1,-1,0): x_inflections {:?} min_x {:?} (curve reaches {:?} at 1/2)", c.x_inflections(), c.min_x(), c.evaluate(r(1, 2)).x);
    let c = QuadraticBezier2 { start: Vec2::new(0.0f64, 0.0), ctrl: Vec2::new(-1e-17, 0.0), end: Vec2::new(0.0, 0.0) };
    println!("tiny f64 quad x = (0,-1e-17,0): x_inflection {:?} min_x {:?} (x={:?}; curve reaches {:?} at 0.5)", c.x_inflection(), c.min_x(), c.evaluate(c.min_x()).x, c.evaluate(0.5).x);
    // search leaves [0,1]
    let l = CubicBezier2 { start: Vec2::new(0.0f64, 0.0), ctrl0: Vec2::new(1.0, 0.0), ctrl1: Vec2::new(2.0, 0.0), end: Vec2::new(3.0, 0.0) };
    println!("search p=(-5,0): {:?}", l.binary_search_point_by_steps(Vec2::new(-5.0, 0.0), 4, 1e-3));
    println!("search p=(9,1): {:?}", l.binary_search_point_by_steps(Vec2::new(9.0, 1.0), 4, 1e-3));
    // length
    let r = std::panic::catch_unwind(|| l.length_by_discretization(65534));
    println!("length(65534) {:?}", r);
}
