//! Uniform view of the four vek Bézier types: control points go in and results come out as plain
//! arrays (`[S; 3]`, z = 0 for the 2D types), the axis is a run-time index.

use std::fmt::Debug;
use vek::bezier::repr_c::{CubicBezier2, CubicBezier3, QuadraticBezier2, QuadraticBezier3};
use vek::vec::repr_c::{Vec2, Vec3};
use vkit::Dom;

pub type P3<S> = [S; 3];

pub trait Roots<S> {
    fn roots(self) -> Vec<S>;
}
impl<S: Dom> Roots<S> for Option<S> {
    fn roots(self) -> Vec<S> {
        match self {
            Some(t) => vec![t],
            None => vec![],
        }
    }
}
impl<S: Dom> Roots<S> for Option<(S, Option<S>)> {
    fn roots(self) -> Vec<S> {
        match self {
            Some((a, Some(b))) => vec![a, b],
            Some((a, None)) => vec![a],
            None => vec![],
        }
    }
}

pub trait Cv<S: Dom>: Copy + Debug {
    /// polynomial degree (2 or 3); the curve has DEG+1 control points
    const DEG: usize;
    /// number of coordinates (2 or 3)
    const DIM: usize;
    const NAME: &'static str;
    fn build(cp: &[P3<S>]) -> Self;
    fn infl(self, ax: usize) -> Vec<S>;
    fn min_t(self, ax: usize) -> S;
    fn max_t(self, ax: usize) -> S;
    fn bounds(self, ax: usize) -> (S, S);
    /// (min, max) of `aabr()`, z padded with 0
    fn aabr(self) -> (P3<S>, P3<S>);
    /// (min, max) of `aabb()` (3D types only)
    fn aabb(self) -> Option<(P3<S>, P3<S>)>;
    fn eval(self, t: S) -> P3<S>;
    fn search_steps(self, p: P3<S>, steps: u16, eps: S) -> (S, P3<S>);
    /// `shape` is the kind of iterator the coarse pairs arrive in: 0 = exact size hint (a mapped Vec), 1 = filtered
    /// (size hint (0, Some(n))), 2 = `iter::from_fn` (size hint (0, None)), 3 = reversed order (exact)
    fn search(self, p: P3<S>, coarse: Vec<(S, P3<S>)>, h: S, eps: S, shape: usize) -> (S, P3<S>);
    fn length(self, steps: u16) -> S;
}

fn p2<S: Dom>(a: &P3<S>) -> Vec2<S> {
    Vec2 { x: a[0], y: a[1] }
}
fn p3<S: Dom>(a: &P3<S>) -> Vec3<S> {
    Vec3 { x: a[0], y: a[1], z: a[2] }
}
fn a2<S: Dom>(v: Vec2<S>) -> P3<S> {
    [v.x, v.y, S::zero()]
}
fn a3<S: Dom>(v: Vec3<S>) -> P3<S> {
    [v.x, v.y, v.z]
}

macro_rules! on_axis {
    (2, $s:expr, $ax:expr, $fx:ident, $fy:ident, $fz:ident) => {
        match $ax {
            0 => $s.$fx(),
            1 => $s.$fy(),
            _ => panic!("harness: axis {} on a 2D curve", $ax),
        }
    };
    (3, $s:expr, $ax:expr, $fx:ident, $fy:ident, $fz:ident) => {
        match $ax {
            0 => $s.$fx(),
            1 => $s.$fy(),
            2 => $s.$fz(),
            _ => panic!("harness: axis {}", $ax),
        }
    };
}

macro_rules! aabb_of {
    (2, $s:expr, $from:ident) => {
        None
    };
    (3, $s:expr, $from:ident) => {{
        let b = $s.aabb();
        Some(($from(b.min), $from(b.max)))
    }};
}

macro_rules! impl_cv {
    ($Ty:ident, $deg:expr, $dim:tt, $to:ident, $from:ident, |$cp:ident| $build:expr, $ix:ident, $iy:ident, $iz:ident) => {
        impl<S: Dom> Cv<S> for $Ty<S> {
            const DEG: usize = $deg;
            const DIM: usize = $dim;
            const NAME: &'static str = stringify!($Ty);
            fn build($cp: &[P3<S>]) -> Self {
                assert_eq!($cp.len(), $deg + 1, "harness: control point count");
                $build
            }
            fn infl(self, ax: usize) -> Vec<S> {
                on_axis!($dim, self, ax, $ix, $iy, $iz).roots()
            }
            fn min_t(self, ax: usize) -> S {
                on_axis!($dim, self, ax, min_x, min_y, min_z)
            }
            fn max_t(self, ax: usize) -> S {
                on_axis!($dim, self, ax, max_x, max_y, max_z)
            }
            fn bounds(self, ax: usize) -> (S, S) {
                on_axis!($dim, self, ax, x_bounds, y_bounds, z_bounds)
            }
            fn aabr(self) -> (P3<S>, P3<S>) {
                let b = $Ty::aabr(self);
                (a2(b.min), a2(b.max))
            }
            fn aabb(self) -> Option<(P3<S>, P3<S>)> {
                aabb_of!($dim, self, $from)
            }
            fn eval(self, t: S) -> P3<S> {
                $from(self.evaluate(t))
            }
            fn search_steps(self, p: P3<S>, steps: u16, eps: S) -> (S, P3<S>) {
                let (t, q) = self.binary_search_point_by_steps($to(&p), steps, eps);
                (t, $from(q))
            }
            fn search(self, p: P3<S>, coarse: Vec<(S, P3<S>)>, h: S, eps: S, shape: usize) -> (S, P3<S>) {
                let it = coarse.into_iter().map(|(t, q)| (t, $to(&q)));
                let (t, q) = match shape {
                    1 => self.binary_search_point($to(&p), it.filter(|_| true), h, eps),
                    2 => { let mut it = it; self.binary_search_point($to(&p), std::iter::from_fn(move || it.next()), h, eps) }
                    3 => self.binary_search_point($to(&p), it.rev(), h, eps),
                    _ => self.binary_search_point($to(&p), it, h, eps),
                };
                (t, $from(q))
            }
            fn length(self, steps: u16) -> S {
                self.length_by_discretization(steps)
            }
        }
    };
}

impl_cv!(QuadraticBezier2, 2, 2, p2, a2, |cp| QuadraticBezier2 { start: p2(&cp[0]), ctrl: p2(&cp[1]), end: p2(&cp[2]) }, x_inflection, y_inflection, z_inflection);
impl_cv!(QuadraticBezier3, 2, 3, p3, a3, |cp| QuadraticBezier3 { start: p3(&cp[0]), ctrl: p3(&cp[1]), end: p3(&cp[2]) }, x_inflection, y_inflection, z_inflection);
impl_cv!(CubicBezier2, 3, 2, p2, a2, |cp| CubicBezier2 { start: p2(&cp[0]), ctrl0: p2(&cp[1]), ctrl1: p2(&cp[2]), end: p2(&cp[3]) }, x_inflections, y_inflections, z_inflections);
impl_cv!(CubicBezier3, 3, 3, p3, a3, |cp| CubicBezier3 { start: p3(&cp[0]), ctrl0: p3(&cp[1]), ctrl1: p3(&cp[2]), end: p3(&cp[3]) }, x_inflections, y_inflections, z_inflections);
