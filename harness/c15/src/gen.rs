//! Branch families: one coordinate of a curve is built from a prescribed derivative
//! k(t-r1)(t-r2) / k(t-r) / constant with rational roots, integrated to control values.

use vkit::{Dom, Tape};

/// One generated coordinate.
pub struct Axis<S> {
    /// DEG+1 control values
    pub c: Vec<S>,
    /// real roots of the derivative by construction: (root, simple?) — all of them, inside or not
    pub roots: Vec<(S, bool)>,
    pub fam: &'static str,
}

fn inside(t: &mut Tape) -> (i64, i64) {
    match t.below(10) {
        6 => (1, 1024),
        7 => (1023, 1024),
        8 => (1, 2),
        9 => (1, 4096),
        _ => {
            let d = t.pick(&[2i64, 3, 4, 5, 8, 16]);
            (1 + t.below((d - 1) as usize) as i64, d)
        }
    }
}
fn outside(t: &mut Tape) -> (i64, i64) {
    match t.below(10) {
        6 => (-1, 1024),
        7 => (1025, 1024),
        8 => (-1, 2048),
        9 => (4097, 4096),
        _ => {
            let d = t.pick(&[1i64, 1, 2, 3, 4]);
            let n = 1 + t.below(12) as i64;
            if t.bool() {
                (-n, d)
            } else {
                (d + n, d) // 1 + n/d
            }
        }
    }
}
fn end(t: &mut Tape) -> (i64, i64) {
    if t.bool() {
        (1, 1)
    } else {
        (0, 1)
    }
}
fn anywhere(t: &mut Tape) -> (i64, i64) {
    match t.below(3) {
        0 => inside(t),
        1 => outside(t),
        _ => end(t),
    }
}
fn nonzero<S: Dom>(t: &mut Tape) -> S {
    let n = 1 + t.below(9) as i64;
    let d = t.pick(&[1i64, 1, 2, 3, 4]);
    if t.bool() {
        S::q(-n, d)
    } else {
        S::q(n, d)
    }
}
fn q<S: Dom>(r: (i64, i64)) -> S {
    S::q(r.0, r.1)
}

pub const CUBIC_FAMS: [&str; 16] = [
    "c:a=b=c=0",
    "c:a=b=0,c!=0",
    "c:linear,root-inside",
    "c:linear,root-outside",
    "c:linear,root-at-end",
    "c:negative-discriminant",
    "c:double-root-inside",
    "c:double-root-outside",
    "c:double-root-at-end",
    "c:two-roots-inside",
    "c:one-root-inside",
    "c:no-root-inside(same-side)",
    "c:no-root-inside(straddling)",
    "c:one-root-at-end,other-anywhere",
    "c:roots-at-0-and-1",
    "c:two-roots-inside(mirror:max-then-min/min-then-max)",
];
pub const QUAD_FAMS: [&str; 6] = [
    "q:constant",
    "q:zero-second-difference",
    "q:vertex-inside",
    "q:vertex-outside",
    "q:vertex-at-end",
    "q:vertex-near-end",
];

/// Cubic coordinate from derivative coefficients (A,B,C) and start value.
fn cubic_from<S: Dom>(p0: S, a: S, b: S, c: S) -> Vec<S> {
    let d0 = c / S::i(3);
    let d1 = d0 + b / S::i(6);
    let d2 = a / S::i(3) - d0 + S::i(2) * d1;
    let p1 = p0 + d0;
    let p2 = p1 + d1;
    let p3 = p2 + d2;
    vec![p0, p1, p2, p3]
}
/// Quadratic coordinate from derivative B t + C and start value.
fn quad_from<S: Dom>(p0: S, b: S, c: S) -> Vec<S> {
    let d0 = c / S::i(2);
    let d1 = d0 + b / S::i(2);
    let p1 = p0 + d0;
    vec![p0, p1, p1 + d1]
}

fn two_roots<S: Dom>(p0: S, k: S, r1: S, r2: S, fam: &'static str) -> Axis<S> {
    let a = k;
    let b = -(k * (r1 + r2));
    let c = k * r1 * r2;
    let roots = if r1 == r2 { vec![(r1, false)] } else { vec![(r1, true), (r2, true)] };
    Axis { c: cubic_from(p0, a, b, c), roots, fam }
}

pub fn cubic_axis<S: Dom>(t: &mut Tape, fam: usize) -> Axis<S> {
    let p0 = S::small(t, 9);
    let k: S = nonzero(t);
    let name = CUBIC_FAMS[fam];
    let z = S::zero();
    match fam {
        0 => Axis { c: cubic_from(p0, z, z, z), roots: vec![], fam: name },
        1 => Axis { c: cubic_from(p0, z, z, k), roots: vec![], fam: name },
        2 | 3 | 4 => {
            let r: S = q(match fam {
                2 => inside(t),
                3 => outside(t),
                _ => end(t),
            });
            Axis { c: cubic_from(p0, z, k, -(k * r)), roots: vec![(r, true)], fam: name }
        }
        5 => {
            let m: S = q(anywhere(t));
            let qq: S = S::q(1 + t.below(9) as i64, t.pick(&[1i64, 2, 4, 16, 64]));
            Axis { c: cubic_from(p0, k, -(S::i(2) * k * m), k * (m * m + qq)), roots: vec![], fam: name }
        }
        6 | 7 | 8 => {
            let r: S = q(match fam {
                6 => inside(t),
                7 => outside(t),
                _ => end(t),
            });
            two_roots(p0, k, r, r, name)
        }
        9 | 15 => {
            let r1: (i64, i64) = inside(t);
            let mut r2: (i64, i64) = inside(t);
            if r1.0 * r2.1 == r2.0 * r1.1 {
                // same root drawn twice: take the midpoint between it and 1
                r2 = (r1.0 + r1.1, 2 * r1.1);
            }
            two_roots(p0, k, q(r1), q(r2), name)
        }
        10 => two_roots(p0, k, q(inside(t)), q(outside(t)), name),
        11 => {
            // both on the same side
            let (n1, d1) = outside(t);
            let (n2, d2) = outside(t);
            let left = t.bool();
            let fix = |n: i64, d: i64| -> (i64, i64) {
                let is_left = n < 0;
                if is_left == left {
                    (n, d)
                } else if left {
                    (d - n, d) // 1+x -> -x
                } else {
                    (d - n, d) // -x -> 1+x
                }
            };
            let (a1, a2) = (fix(n1, d1), fix(n2, d2));
            let r1: S = q(a1);
            let mut r2: S = q(a2);
            if r1 == r2 {
                r2 = if left { r2 - S::one() } else { r2 + S::one() };
            }
            two_roots(p0, k, r1, r2, name)
        }
        12 => {
            let (n1, d1) = outside(t);
            let (n2, d2) = outside(t);
            let l = if n1 < 0 { (n1, d1) } else { (d1 - n1, d1) };
            let r = if n2 < 0 { (d2 - n2, d2) } else { (n2, d2) };
            two_roots(p0, k, q(l), q(r), name)
        }
        13 => {
            let e = end(t);
            let o = anywhere(t);
            if e.0 * o.1 == o.0 * e.1 {
                two_roots(p0, k, q(e), q(inside(t)), name)
            } else {
                two_roots(p0, k, q(e), q(o), name)
            }
        }
        14 => two_roots(p0, k, S::zero(), S::one(), name),
        _ => panic!("harness: cubic family {}", fam),
    }
}

pub fn quad_axis<S: Dom>(t: &mut Tape, fam: usize) -> Axis<S> {
    let p0 = S::small(t, 9);
    let k: S = nonzero(t);
    let name = QUAD_FAMS[fam];
    let z = S::zero();
    match fam {
        0 => Axis { c: quad_from(p0, z, z), roots: vec![], fam: name },
        1 => Axis { c: quad_from(p0, z, k), roots: vec![], fam: name },
        2 | 3 | 4 | 5 => {
            let r: S = q(match fam {
                2 => inside(t),
                3 => outside(t),
                4 => end(t),
                _ => t.pick(&[(1i64, 1024i64), (1023, 1024), (-1, 1024), (1025, 1024), (1, 4096), (4097, 4096), (-1, 2048)]),
            });
            Axis { c: quad_from(p0, k, -(k * r)), roots: vec![(r, true)], fam: name }
        }
        _ => panic!("harness: quadratic family {}", fam),
    }
}
