//! C15 — Bézier extrema, bounding boxes, closest-point search and length bound the curve.
//!
//! The vek functions judged here (`*_inflection(s)`, `min_*`, `max_*`, `*_bounds`, `aabr`, `aabb`,
//! `binary_search_point(_by_steps)`, `length_by_discretization`) are called on the real types with
//! `Rat` (exact), `f64` and `f32`; every oracle value is computed on plain arrays (`ora.rs`).

pub mod curves;
pub mod gen;
pub mod limits;
pub mod ora;
pub mod regime;

use curves::{Cv, P3};
use num_traits::Zero;
use ora::*;
use regime::{extrema_regime_case, length_regime_case, search_regime_case};
use vek::bezier::repr_c::{CubicBezier2, CubicBezier3, QuadraticBezier2, QuadraticBezier3};
use vkit::*;

pub const F5: &str = "F5-bezier-aabb-stores-parameters";
pub const F6: &str = "F6-cubic-linear-derivative-root-unclamped";
pub const F_LEN: &str = "F10-bezier-length-step-count-u16-overflow";
pub const F_CANCEL: &str = "F11-cubic-inflections-negligible-leading-coefficient-cancels";

const AXN: [&str; 3] = ["x", "y", "z"];

fn in01<S: Dom>(t: S) -> bool {
    S::zero() <= t && t <= S::one()
}

/// Exact signature of F6 on one coordinate of a cubic: recompute a, b, c with the expressions of
/// `*_inflections`, the derivative is linear by the code's own epsilon test, its root -c/b lies outside
/// [0,1] and `val` is exactly that root.
fn f6_signature<S: Dom>(c: &[S], val: S) -> bool {
    if c.len() != 4 {
        return false;
    }
    let (s, c0, c1, e) = (c[0], c[1], c[2], c[3]);
    let two = S::one() + S::one();
    let three = two + S::one();
    let six = three + three;
    let a = three * (e - three * c1 + three * c0 - s);
    let b = six * (c1 - two * c0 + s);
    let cc = three * (c0 - s);
    if !(a.abs() <= S::epsilon()) || b.abs() <= S::epsilon() {
        return false;
    }
    let root = -cc / b;
    !in01(root) && val == root
}

/// Exact signature of F11 on one coordinate of a cubic (floats only): with a, b, c recomputed by the
/// expressions of `*_inflections`, the code takes its quadratic-formula branch (|a| > epsilon) although the
/// leading coefficient is negligible: 0 < 4|ac| <= sqrt(epsilon) b^2, so that `-b +- sqrt(b^2-4ac)` cancels at
/// least half of the significand for one root (the one near -c/b).
fn cancel_signature<S: Dom>(c: &[S]) -> bool {
    if S::EXACT || c.len() != 4 {
        return false;
    }
    let (s, c0, c1, e) = (c[0], c[1], c[2], c[3]);
    let two = S::one() + S::one();
    let three = two + S::one();
    let six = three + three;
    let a = three * (e - three * c1 + three * c0 - s);
    let b = six * (c1 - two * c0 + s);
    let cc = three * (c0 - s);
    let (a, b, cc) = (a.f(), b.f(), cc.f());
    a.abs() > S::eps() && cc != 0.0 && 4.0 * (a * cc).abs() <= S::eps().sqrt() * b * b
}

/// What the oracle knows about one coordinate.
struct AxisTruth<O> {
    vmin: O,
    vmax: O,
    /// tolerance for comparing coordinate values (0 in the exact domain)
    tol: f64,
    /// the coordinate carries the F11 signature
    cancel: bool,
}

/// Judge `*_inflection(s)`, `min_*`, `max_*`, `*_bounds` on coordinate `ax`.
/// `known`: roots of the derivative known by construction (exact domain only).
fn judge_axis<S: Ora, C: Cv<S>>(cx: &mut Cx, cv: C, cp: &[P3<S>], ax: usize, known: Option<&[(S, bool)]>, grid: usize) -> Result<AxisTruth<S::O>, Fail> {
    let n = cp.len();
    let cs: Vec<S> = cp.iter().map(|p| p[ax]).collect();
    let c: Vec<S::O> = cs.iter().map(|x| x.up()).collect();
    let axn = AXN[ax];
    let scale = c.iter().fold(1.0f64, |m, x| m.max(x.f().abs()));
    let tol = 32.0 * S::eps() * scale;
    let cancel = cancel_signature(&cs);
    if cancel {
        cx.label("F11-signature:negligible-leading-coefficient");
    }
    // a failed predicate on a coordinate with the F11 signature is that finding (tolerated iff listed)
    macro_rules! axis_fail {
        ($skip:stmt; $($arg:tt)*) => {{
            if cancel {
                cx.label("F11-signature:predicate-failed");
                if cx.known(F_CANCEL) {
                    $skip
                }
                fail!("{} [coordinate has a negligible leading derivative coefficient: the quadratic formula cancels]", format!($($arg)*));
            }
            fail!($($arg)*);
        }};
    }
    // ---- oracle sample parameters: end points, grid, critical points
    let mut ts: Vec<S::O> = Vec::with_capacity(grid + 8);
    for i in 0..=grid {
        ts.push(<S::O>::q(i as i64, grid as i64));
    }
    let (da, db, dc) = dcoef(&c);
    let mut crit_o: Vec<S::O> = Vec::new();
    if let Some(k) = known {
        assert!(S::EXACT, "harness: known roots only in the exact domain");
        for (r, _) in k {
            let r = r.up();
            assert!(dbez1(&c, r).is_zero(), "harness: constructed root {:?} is not a zero of the derivative of {:?}", r, c);
            if in01(r) {
                ts.push(r);
            }
        }
    } else {
        for r in crit_f64(da.f(), db.f(), dc.f()) {
            // S::O is f64 here
            crit_o.push(<S::O as num_traits::NumCast>::from(r).unwrap());
            let r = r.max(0.0).min(1.0);
            ts.push(<S::O as num_traits::NumCast>::from(r).unwrap());
        }
    }
    let mut vmin = c[0];
    let mut vmax = c[0];
    for &t in &ts {
        let v = bez1(&c, t);
        if v < vmin {
            vmin = v;
        }
        if v > vmax {
            vmax = v;
        }
    }
    // the end control values are exact curve points
    for v in [c[0], c[n - 1]] {
        if v < vmin {
            vmin = v;
        }
        if v > vmax {
            vmax = v;
        }
    }
    // ---- inflections: inside [0,1], zero of the derivative
    let infl = cv.infl(ax);
    let dscale = (da.f().abs() + db.f().abs() + dc.f().abs()).max(1.0);
    for &r in &infl {
        if !in01(r) {
            if f6_signature(&cs, r) {
                cx.label("F6-signature:inflection-outside");
                if cx.known(F6) {
                    continue;
                }
                fail!("{} {}_inflections reports {:?}, outside [0,1] (root -c/b of a linear derivative returned without interval test) controls {:?}", C::NAME, axn, r, cs);
            }
            fail!("{} {}_inflection(s) reports {:?}, outside [0,1]; controls {:?}", C::NAME, axn, r, cs);
        }
        let d = dbez1(&c, r.up());
        // floats: a backward-stable root has residual ~ eps*(|A|+|B|+|C|); allow the conditioning of the
        // textbook formula on well-scaled input
        // plus the rounding of the coefficients themselves: A, B, C are differences of the stored controls, each
        // computed to within a few eps * max|control| (a curve far from the origin relative to its size -- found by
        // the fuzz campaign of the thorough tier: controls -99.99981, -99.999985, -100, -100 in f32)
        let cmax = c.iter().fold(0.0f64, |m, x| m.max(x.f().abs()));
        let dtol = 256.0 * S::eps() * dscale + 64.0 * S::eps() * cmax;
        let mut ok = eqv(cx, d, <S::O>::zero(), dtol);
        if !ok && !S::EXACT {
            // (ii) flat-region criterion: a true critical parameter within 1e-2 where the coordinate differs
            // from the one at the reported parameter by no more than the value tolerance
            let v = bez1(&c, r.up());
            for &ts_ in &crit_o {
                if (ts_.f() - r.f()).abs() <= 1e-2 && eqv(cx, bez1(&c, ts_), v, tol) {
                    ok = true;
                    cx.label("inflection-accepted-by-flat-region-criterion");
                }
            }
        }
        if !ok {
            axis_fail!(continue; "{} {}_inflection(s) reports {:?} where the derivative is {:?} (not a zero; tol {:.3e}); controls {:?}", C::NAME, axn, r, d, dtol, cs);
        }
    }
    if infl.len() == 2 {
        cx.label("two-inflections-reported");
    }
    // docs: "... an inflection point along the axis, if any": every simple root strictly inside (0,1)
    // known by construction must be reported (exact domain only)
    if let Some(k) = known {
        for (r, simple) in k {
            if *simple && S::zero() < *r && *r < S::one() {
                check!(cx, infl.contains(r), "{} {}_inflection(s) = {:?} misses the interior simple root {:?} of the derivative; controls {:?}", C::NAME, axn, infl, r, cs);
            }
        }
    }
    // ---- min / max / bounds
    let (bmin, bmax) = cv.bounds(ax);
    let cands: [(&str, S, bool); 4] = [("min", cv.min_t(ax), true), ("max", cv.max_t(ax), false), ("bounds.0", bmin, true), ("bounds.1", bmax, false)];
    for (what, t, is_min) in cands {
        if !in01(t) {
            if f6_signature(&cs, t) {
                cx.label("F6-signature:min/max-outside");
                if cx.known(F6) {
                    continue;
                }
                fail!("{} {}_{} returns parameter {:?}, outside [0,1] (unclamped root of a linear derivative); controls {:?}", C::NAME, axn, what, t, cs);
            }
            fail!("{} {}_{} returns parameter {:?}, outside [0,1]; controls {:?}", C::NAME, axn, what, t, cs);
        }
        let v = bez1(&c, t.up());
        if is_min {
            if !le(cx, v, vmin, tol) {
                axis_fail!(continue; "{} {}_{} returns t={:?} where the coordinate is {:?}, but the curve reaches {:?} on [0,1]; controls {:?}", C::NAME, axn, what, t, v, vmin, cs);
            }
        } else {
            if !le(cx, vmax, v, tol) {
                axis_fail!(continue; "{} {}_{} returns t={:?} where the coordinate is {:?}, but the curve reaches {:?} on [0,1]; controls {:?}", C::NAME, axn, what, t, v, vmax, cs);
            }
        }
        if S::zero() < t && t < S::one() {
            cx.label(if is_min { "min-interior" } else { "max-interior" });
        }
    }
    Ok(AxisTruth { vmin, vmax, tol, cancel })
}

/// Judge a box (min, max) over the first `dims` coordinates against the true per-axis extremes.
fn judge_box<S: Ora, C: Cv<S>>(cx: &mut Cx, cv: C, cp: &[P3<S>], what: &'static str, got: (P3<S>, P3<S>), dims: usize, truth: &[AxisTruth<S::O>]) -> CaseResult {
    let mut all_ok = true;
    for k in 0..dims {
        let tr = &truth[k];
        all_ok &= eqv(cx, got.0[k].up(), tr.vmin, tr.tol) && eqv(cx, got.1[k].up(), tr.vmax, tr.tol);
    }
    if all_ok {
        cx.label("box-correct");
        return Ok(());
    }
    // what the known-defective formula yields: the *parameters* returned by *_bounds()
    let mut pmin = [S::zero(); 3];
    let mut pmax = [S::zero(); 3];
    for k in 0..dims {
        let (a, b) = cv.bounds(k);
        pmin[k] = a;
        pmax[k] = b;
    }
    let is_param_box = (0..dims).all(|k| got.0[k] == pmin[k] && got.1[k] == pmax[k]);
    if is_param_box {
        cx.label("F5-signature:box-of-parameters");
        if cx.known(F5) {
            return Ok(());
        }
        fail!("{} {}() = {{min {:?}, max {:?}}} holds the parameters returned by *_bounds() instead of curve coordinates; want {{min {:?}, max {:?}}}; controls {:?}", C::NAME, what, &got.0[..dims], &got.1[..dims], truth[..dims].iter().map(|t| t.vmin).collect::<Vec<_>>(), truth[..dims].iter().map(|t| t.vmax).collect::<Vec<_>>(), cp);
    }
    // side by side; a side taken at an F6-tainted parameter is F6, anything else is new
    for k in 0..dims {
        let tr = &truth[k];
        let cs: Vec<S> = cp.iter().map(|p| p[k]).collect();
        let c: Vec<S::O> = cs.iter().map(|x| x.up()).collect();
        for (side, g, want, tp) in [("min", got.0[k], tr.vmin, pmin[k]), ("max", got.1[k], tr.vmax, pmax[k])] {
            if eqv(cx, g.up(), want, tr.tol) {
                continue;
            }
            if f6_signature(&cs, tp) && eqv(cx, g.up(), bez1(&c, tp.up()), tr.tol * 64.0) {
                cx.label("F6-signature:box-side-at-outside-parameter");
                if cx.known(F6) {
                    continue;
                }
                fail!("{} {}().{}.{} = {:?} is the coordinate at the out-of-range parameter {:?} (unclamped linear-derivative root); want {:?}; controls {:?}", C::NAME, what, side, AXN[k], g, tp, want, cs);
            }
            if tr.cancel && in01(tp) && eqv(cx, g.up(), bez1(&c, tp.up()), tr.tol) {
                cx.label("F11-signature:box-side-at-wrong-parameter");
                if cx.known(F_CANCEL) {
                    continue;
                }
                fail!("{} {}().{}.{} = {:?} is the coordinate at parameter {:?}; want {:?} [coordinate has a negligible leading derivative coefficient: the quadratic formula cancels]; controls {:?}", C::NAME, what, side, AXN[k], g, tp, want, cs);
            }
            // containment or touch?
            let inside_violation = if side == "min" { g.up() > want } else { g.up() < want };
            fail!("{} {}().{}.{} = {:?}, want {:?} ({}); controls {:?}", C::NAME, what, side, AXN[k], g, want, if inside_violation { "box does not contain the curve" } else { "box does not touch the curve" }, cp);
        }
    }
    Ok(())
}

fn judge_curve<S: Ora, C: Cv<S>>(cx: &mut Cx, cp: &[P3<S>], known: Option<&[Vec<(S, bool)>]>, grid: usize) -> CaseResult {
    let cv = C::build(cp);
    let mut truth = Vec::new();
    for ax in 0..C::DIM {
        truth.push(judge_axis::<S, C>(cx, cv, cp, ax, known.map(|k| &k[ax][..]), grid)?);
    }
    judge_box::<S, C>(cx, cv, cp, "aabr", cv.aabr(), 2, &truth)?;
    if let Some(b) = cv.aabb() {
        judge_box::<S, C>(cx, cv, cp, "aabb", b, 3, &truth)?;
    }
    Ok(())
}

/// Non-triviality from the derivative's real roots (f64): a simple root strictly inside (0,1), or a root
/// within 1e-3 of 0 or 1.
fn nontrivial_roots(roots: &[(f64, bool)]) -> (bool, bool) {
    let mut interior = false;
    let mut near = false;
    for &(r, simple) in roots {
        if simple && r > 0.0 && r < 1.0 {
            interior = true;
        }
        if r.abs() <= 1e-3 || (r - 1.0).abs() <= 1e-3 {
            near = true;
        }
    }
    (interior, near)
}

/// Curves whose every coordinate comes from a branch family.
fn families_case<S: Ora, C: Cv<S>>(t: &mut Tape, cx: &mut Cx) -> CaseResult {
    let mut cp = vec![[S::zero(); 3]; C::DEG + 1];
    let mut known: Vec<Vec<(S, bool)>> = Vec::new();
    let mut fams = Vec::new();
    let mut nt = false;
    for ax in 0..C::DIM {
        let a = if C::DEG == 3 {
            let f = t.below(gen::CUBIC_FAMS.len());
            gen::cubic_axis::<S>(t, f)
        } else {
            let f = t.below(gen::QUAD_FAMS.len());
            gen::quad_axis::<S>(t, f)
        };
        for i in 0..=C::DEG {
            cp[i][ax] = a.c[i];
        }
        cx.label(a.fam);
        fams.push(a.fam);
        let rf: Vec<(f64, bool)> = a.roots.iter().map(|(r, s)| (r.f(), *s)).collect();
        let (interior, near) = nontrivial_roots(&rf);
        if interior {
            cx.label("interior-extremum");
        }
        if near {
            cx.label("root-within-1e-3-of-an-end");
        }
        nt |= interior || near;
        // monotone / interior extremum not beating the end points (exact domain: decided on the values)
        let c: Vec<S::O> = a.c.iter().map(|x| x.up()).collect();
        let (lo, hi) = if c[0] <= c[C::DEG] { (c[0], c[C::DEG]) } else { (c[C::DEG], c[0]) };
        let mut any_interior_crit = false;
        for (r, _) in &a.roots {
            if S::zero() < *r && *r < S::one() {
                any_interior_crit = true;
                let v = bez1(&c, r.up());
                if lo <= v && v <= hi {
                    cx.label("interior-critical-point-not-beating-the-end-points");
                }
            }
        }
        if !any_interior_crit {
            cx.label("monotone");
        }
        known.push(a.roots);
    }
    cx.set_nontrivial(nt);
    sample!(cx, "{} {} families={:?} controls={:?}", S::NAME, C::NAME, fams, cp);
    if S::EXACT {
        judge_curve::<S, C>(cx, &cp, Some(&known), 32)
    } else {
        judge_curve::<S, C>(cx, &cp, None, 4096)
    }
}

/// Random float curves (irrational roots) against the dense grid.
fn random_case<S: Ora, C: Cv<S>>(t: &mut Tape, cx: &mut Cx) -> CaseResult {
    let mut cp = vec![[S::zero(); 3]; C::DEG + 1];
    let continuous = t.chance(192);
    let mag = t.pick(&[1i64, 10, 10, 100]);
    for p in cp.iter_mut() {
        for k in 0..C::DIM {
            p[k] = if continuous { S::q(0, 1) + <S as num_traits::NumCast>::from(t.range_f64(-(mag as f64), mag as f64)).unwrap() } else { S::any(t, 10) };
        }
    }
    // the unit of the control points is arbitrary: scale the whole curve exactly by 2^k in half of the cases
    if t.bool() {
        let kmax = if S::NAME == "f32" { 30 } else { 80 };
        let k = t.int(-kmax, kmax);
        let f: S = <S as num_traits::NumCast>::from((2.0f64).powi(k as i32)).unwrap();
        for p in cp.iter_mut() {
            for x in p.iter_mut() {
                *x = *x * f;
            }
        }
        cx.label(if k <= -20 { "scaled by 2^-20 or less" } else if k >= 20 { "scaled by 2^20 or more" } else { "scaled by 2^-19..2^19" });
    }
    let mut nt = false;
    for ax in 0..C::DIM {
        let c: Vec<f64> = cp.iter().map(|p| p[ax].f()).collect();
        let (a, b, cc) = dcoef(&c);
        let mut roots = Vec::new();
        if a != 0.0 {
            let disc = b * b - 4.0 * a * cc;
            if disc > 0.0 {
                for r in crit_f64(a, b, cc).into_iter().skip(2) {
                    roots.push((r, true));
                }
            }
        } else if b != 0.0 {
            roots.push((-cc / b, true));
        }
        let (interior, near) = nontrivial_roots(&roots);
        if interior {
            cx.label("interior-extremum");
        }
        if near {
            cx.label("root-within-1e-3-of-an-end");
        }
        if roots.iter().filter(|(r, _)| *r > 0.0 && *r < 1.0).count() == 2 {
            cx.label("two-roots-inside");
        }
        nt |= interior || near;
    }
    cx.set_nontrivial(nt);
    sample!(cx, "{} {} controls={:?}", S::NAME, C::NAME, cp);
    judge_curve::<S, C>(cx, &cp, None, 4096)
}

// -------------------------------------------------------------------------------------------------
// closest-point search

fn search_case<S: Ora, C: Cv<S>>(t: &mut Tape, cx: &mut Cx) -> CaseResult {
    let mut cp = vec![[S::zero(); 3]; C::DEG + 1];
    for p in cp.iter_mut() {
        for k in 0..C::DIM {
            p[k] = if S::EXACT { S::q(t.int(-12, 12), t.pick(&[1i64, 1, 2, 4])) } else { S::any(t, 10) };
        }
    }
    let cpo: Vec<[S::O; 3]> = cp.iter().map(up3::<S>).collect();
    let cv = C::build(&cp);
    // query: anywhere, near the curve, or far away
    let mut p = [S::zero(); 3];
    let mode = t.below(4);
    let base = if mode == 1 { cv.eval(S::q(t.below(9) as i64, 8)) } else { [S::zero(); 3] };
    for k in 0..C::DIM {
        p[k] = match mode {
            0 | 2 => if S::EXACT { S::q(t.int(-16, 16), t.pick(&[1i64, 2])) } else { S::any(t, 12) },
            1 => base[k] + S::q(t.int(-4, 4), 4),
            _ => S::q(t.int(-40, 40), 1),
        };
    }
    let po = up3::<S>(&p);
    let direct = t.chance(64);
    let eps: S = if S::EXACT {
        S::q(1, t.pick(&[2i64, 4, 8, 16, 32]))
    } else if t.chance(24) {
        // just above the documented limit
        S::epsilon() * S::i(2)
    } else {
        <S as num_traits::NumCast>::from(t.pick(&[0.3f64, 1e-2, 1e-3, 1e-4, 1e-6])).unwrap()
    };
    let sc = maxabs(&cp).max(maxabs(&[p])).max(1.0);
    let dtol = 16.0 * S::eps() * sc * sc * 12.0;
    // coarse samples (parameter computed in S as the docs describe: i/steps), judged in the oracle type
    let (tt, pt, coarse_t, label): (S, P3<S>, Vec<S>, &'static str) = if !direct {
        let steps: u16 = if S::EXACT { t.pick(&[1u16, 2, 3, 4, 5, 6, 8]) } else { 1 + t.below(32) as u16 };
        let coarse_t: Vec<S> = (0..steps).map(|i| <S as From<u16>>::from(i) / <S as From<u16>>::from(steps)).collect();
        sample!(cx, "{} {} controls={:?} p={:?} steps={} eps={:?}", S::NAME, C::NAME, cp, p, steps, eps);
        let (tt, pt) = cv.search_steps(p, steps, eps);
        (tt, pt, coarse_t, "by_steps")
    } else {
        let m = t.below(5);
        let coarse_t: Vec<S> = (0..m).map(|_| S::q(t.below(17) as i64, 16)).collect();
        let h: S = S::q(1, t.pick(&[2i64, 4, 8, 16]));
        let coarse: Vec<(S, P3<S>)> = coarse_t.iter().map(|&u| (u, cv.eval(u))).collect();
        sample!(cx, "{} {} controls={:?} p={:?} coarse={:?} h={:?} eps={:?}", S::NAME, C::NAME, cp, p, coarse_t, h, eps);
        let shape = t.below(4);
        cx.label(["coarse-iter-exact-hint", "coarse-iter-filtered", "coarse-iter-from_fn", "coarse-iter-reversed"][shape]);
        let (tt, pt) = cv.search(p, coarse, h, eps, shape);
        (tt, pt, coarse_t, if m == 0 { "direct,empty-coarse" } else { "direct" })
    };
    cx.label(label);
    // returned point is the curve point at the returned parameter
    let ev = cv.eval(tt);
    check_eq!(cx, pt, ev, "{} search: returned point is not evaluate(returned t={:?})", C::NAME, tt);
    let want_pt = bezn(&cpo, tt.up());
    let amp = (1.0 + tt.f().abs()).powi(3);
    for k in 0..C::DIM {
        check!(cx, eqv(cx, pt[k].up(), want_pt[k], 64.0 * S::eps() * sc * amp), "{} search: returned point {:?} is not the curve point {:?} at the returned t={:?}; controls {:?} p={:?}", C::NAME, pt, want_pt, tt, cp, p);
    }
    // no farther than any coarse sample and the end point
    let dret = dist2(&up3::<S>(&pt), &po);
    let mut best = dist2(&cpo[C::DEG], &po);
    check!(cx, le(cx, dret, best, dtol), "{} search returns t={:?} at squared distance {:?}, farther than the end point ({:?}); controls {:?} p={:?}", C::NAME, tt, dret, best, cp, p);
    for &u in &coarse_t {
        let d = dist2(&bezn(&cpo, u.up()), &po);
        check!(cx, le(cx, dret, d, dtol), "{} search returns t={:?} at squared distance {:?}, farther than the coarse sample t={:?} ({:?}); controls {:?} p={:?}", C::NAME, tt, dret, u, d, cp, p);
        if d < best {
            best = d;
        }
    }
    let improved = dret < best;
    if improved {
        cx.label("binary-phase-improved");
    }
    if !in01(tt) {
        cx.label("observation:returned-t-outside-[0,1]");
    }
    cx.set_nontrivial(improved || coarse_t.len() >= 2);
    Ok(())
}

// -------------------------------------------------------------------------------------------------
// length

fn mag<O: Dom>(a: &[O; 3], b: &[O; 3]) -> O {
    dist2(a, b).sqrt()
}

/// polyline through C(i/(s+1)), i = 0..=s+1 — the documented meaning of `step_count`
fn polyline<O: Dom>(cpo: &[[O; 3]], s: u32) -> O {
    let mut l = O::zero();
    let mut prev = cpo[0];
    for i in 1..=(s + 1) {
        let u = O::q(i as i64, 1) / O::q((s + 1) as i64, 1);
        let q = bezn(cpo, u);
        l = l + mag(&q, &prev);
        prev = q;
    }
    l
}

fn length_case<S: Ora, C: Cv<S>>(t: &mut Tape, cx: &mut Cx) -> CaseResult {
    let mut cp = vec![[S::zero(); 3]; C::DEG + 1];
    let shape = t.below(4);
    if S::EXACT {
        // axis-aligned: the curve lives on one coordinate line, so every segment length is rational
        let ax = t.below(C::DIM);
        // mostly families with a turning point inside, so that polygon > chord
        let f = if t.chance(160) {
            if C::DEG == 3 { t.pick(&[2usize, 9, 10, 13, 14, 15]) } else { 2 }
        } else {
            t.below(if C::DEG == 3 { gen::CUBIC_FAMS.len() } else { gen::QUAD_FAMS.len() })
        };
        let a = if C::DEG == 3 { gen::cubic_axis::<S>(t, f) } else { gen::quad_axis::<S>(t, f) };
        let others = [S::small(t, 9), S::small(t, 9), S::small(t, 9)];
        for i in 0..=C::DEG {
            for k in 0..C::DIM {
                cp[i][k] = if k == ax { a.c[i] } else { others[k] };
            }
        }
        cx.label("axis-aligned");
    } else if shape == 0 {
        // straight: control points on a line, monotone parameter => chord == polygon
        let mut o = [S::zero(); 3];
        let mut d = [S::zero(); 3];
        for k in 0..C::DIM {
            o[k] = S::any(t, 10);
            d[k] = S::any(t, 4);
        }
        let mut lam = S::zero();
        for i in 0..=C::DEG {
            for k in 0..C::DIM {
                cp[i][k] = o[k] + d[k] * lam;
            }
            lam = lam + S::q(1 + t.below(4) as i64, 2);
        }
        cx.label("straight");
    } else {
        for p in cp.iter_mut() {
            for k in 0..C::DIM {
                p[k] = S::any(t, 10);
            }
        }
        cx.label("general");
    }
    let s: u16 = match t.below(4) {
        0 => t.below(3) as u16,
        1 => t.below(16) as u16,
        2 => t.below(64) as u16,
        _ => t.below16(if S::EXACT { 24 } else { 400 }) as u16,
    };
    if s == 0 {
        cx.label("step_count=0");
    }
    let cv = C::build(&cp);
    let cpo: Vec<[S::O; 3]> = cp.iter().map(up3::<S>).collect();
    sample!(cx, "{} {} controls={:?} step_count={}", S::NAME, C::NAME, cp, s);
    let l1 = cv.length(s).up();
    let l2 = cv.length(2 * s + 1).up();
    let chord = mag(&cpo[0], &cpo[C::DEG]);
    let mut poly = <S::O>::zero();
    for i in 0..C::DEG {
        poly = poly + mag(&cpo[i], &cpo[i + 1]);
    }
    let sc = maxabs(&cp).max(1.0);
    let tol = |segs: u32| 4.0 * S::eps() * sc * (segs as f64 + 2.0);
    let n1 = s as u32 + 1;
    let n2 = 2 * s as u32 + 2;
    check!(cx, le(cx, chord, l1, tol(n1)), "{} length_by_discretization({}) = {:?} is shorter than the chord {:?}; controls {:?}", C::NAME, s, l1, chord, cp);
    check!(cx, le(cx, l1, poly, tol(n1)), "{} length_by_discretization({}) = {:?} exceeds the control polygon {:?}; controls {:?}", C::NAME, s, l1, poly, cp);
    check!(cx, le(cx, chord, l2, tol(n2)), "{} length_by_discretization({}) = {:?} is shorter than the chord {:?}; controls {:?}", C::NAME, 2 * s + 1, l2, chord, cp);
    check!(cx, le(cx, l2, poly, tol(n2)), "{} length_by_discretization({}) = {:?} exceeds the control polygon {:?}; controls {:?}", C::NAME, 2 * s + 1, l2, poly, cp);
    check!(cx, le(cx, l1, l2, tol(n2)), "{} length decreases under refinement by doubling: L({})={:?} ({} segments) > L({})={:?} ({} segments); controls {:?}", C::NAME, s, l1, n1, 2 * s + 1, l2, n2, cp);
    // docs: "subdividing it into step_count+1 segments"
    let w1 = polyline(&cpo, s as u32);
    check!(cx, eqv(cx, l1, w1, tol(n1)), "{} length_by_discretization({}) = {:?}, the polyline with {} segments has length {:?}; controls {:?}", C::NAME, s, l1, n1, w1, cp);
    let w2 = polyline(&cpo, 2 * s as u32 + 1);
    check!(cx, eqv(cx, l2, w2, tol(n2)), "{} length_by_discretization({}) = {:?}, the polyline with {} segments has length {:?}; controls {:?}", C::NAME, 2 * s + 1, l2, n2, w2, cp);
    let curved = if S::EXACT { chord < poly } else { poly.f() - chord.f() > 1e-3 * sc };
    if curved {
        cx.label("curved(polygon>chord)");
    }
    cx.set_nontrivial(curved);
    Ok(())
}

/// The whole `u16` range of `step_count` is admissible (no documented precondition): largest values.
fn length_limit_case(i: u64, cx: &mut Cx) -> CaseResult {
    let s: u16 = [65535u16, 65534, 65533, 32767, 32768][(i % 5) as usize];
    let ty = i / 5;
    cx.nontrivial();
    sample!(cx, "f64 type#{} step_count={}", ty, s);
    fn run<C: Cv<f64>>(cx: &mut Cx, s: u16) -> CaseResult {
        let cp: Vec<P3<f64>> = (0..=C::DEG).map(|i| [i as f64, (i * i) as f64 * 0.5, if C::DIM == 3 { 1.0 - i as f64 } else { 0.0 }]).collect();
        let cv = C::build(&cp);
        let chord = mag(&cp[0], &cp[C::DEG]);
        let mut poly = 0.0;
        for i in 0..C::DEG {
            poly += mag(&cp[i], &cp[i + 1]);
        }
        let r = vkit::catch(|| cv.length(s));
        let overflow_sig = s >= 65534
            && match &r {
                Err(m) => m.contains("overflow"),
                Ok(l) => *l == 0.0,
            };
        if overflow_sig {
            cx.label("F10-signature:step_count+2-overflows-u16");
            if cx.known(F_LEN) {
                return Ok(());
            }
            fail!("{} length_by_discretization({}) {} (the loop bound step_count+2 overflows u16); chord {:?}", C::NAME, s, match &r { Err(m) => format!("panics: {}", m), Ok(l) => format!("= {:?}", l) }, chord);
        }
        let l = match r {
            Ok(l) => l,
            Err(m) => fail!("{} length_by_discretization({}) panics: {}", C::NAME, s, m),
        };
        let tol = 16.0 * f64::EPSILON * 8.0 * (s as f64 + 3.0);
        check!(cx, le(cx, chord, l, tol), "{} length_by_discretization({}) = {:?} is shorter than the chord {:?}", C::NAME, s, l, chord);
        check!(cx, le(cx, l, poly, tol), "{} length_by_discretization({}) = {:?} exceeds the control polygon {:?}", C::NAME, s, l, poly);
        Ok(())
    }
    match ty {
        0 => run::<QuadraticBezier2<f64>>(cx, s),
        1 => run::<QuadraticBezier3<f64>>(cx, s),
        2 => run::<CubicBezier2<f64>>(cx, s),
        _ => run::<CubicBezier3<f64>>(cx, s),
    }
}

pub fn property() -> Property {
    let mut checks = Vec::new();
    macro_rules! tape {
        ($name:expr, $about:expr, $len:expr, $q:expr, $f:expr) => {
            checks.push(Check { name: $name, about: $about, kind: Kind::Tape { len: $len, quick: $q, thorough: $q * 50, f: $f } });
        };
    }
    macro_rules! per_type {
        ($prefix:literal, $suffix:literal, $about:expr, $len:expr, $q:expr, $case:ident, $S:ty) => {
            tape!(concat!($prefix, "-quad2-", $suffix), $about, $len, $q, $case::<$S, QuadraticBezier2<$S>>);
            tape!(concat!($prefix, "-quad3-", $suffix), $about, $len, $q, $case::<$S, QuadraticBezier3<$S>>);
            tape!(concat!($prefix, "-cubic2-", $suffix), $about, $len, $q, $case::<$S, CubicBezier2<$S>>);
            tape!(concat!($prefix, "-cubic3-", $suffix), $about, $len, $q, $case::<$S, CubicBezier3<$S>>);
        };
    }
    let fam = "every coordinate built from a branch family of the per-axis root finding (prescribed derivative with rational roots); *_inflection(s) in [0,1] and zeros of the derivative (+ interior simple roots reported), min_*/max_*/*_bounds in [0,1] and extreme over end points, all true critical points and a grid; aabr/aabb sides equal the true per-axis extremes";
    per_type!("extrema", "rat", fam, 96, 4_000, families_case, Rat);
    per_type!("extrema-families", "f64", fam, 96, 1_000, families_case, f64);
    per_type!("extrema-families", "f32", fam, 96, 1_000, families_case, f32);
    let rnd = "random float control points (irrational roots): same predicates against a 4097-point parameter grid plus f64 critical points, rounding-level slack";
    per_type!("extrema-random", "f64", rnd, 160, 2_500, random_case, f64);
    per_type!("extrema-random", "f32", rnd, 160, 2_500, random_case, f32);
    let se = "binary_search_point_by_steps / binary_search_point: returned point == curve point at the returned parameter; not farther from the query than every coarse sample (i/steps, i<steps, resp. the supplied ones) and the end point";
    per_type!("search", "rat", se, 64, 1_500, search_case, Rat);
    per_type!("search", "f64", se, 128, 1_500, search_case, f64);
    per_type!("search", "f32", se, 128, 1_500, search_case, f32);
    let le = "length_by_discretization(s): >= chord, <= control polygon, L(2s+1) >= L(s) (2s+2 segments refine s+1), == polyline with s+1 segments (docs)";
    per_type!("length", "rat", le, 48, 1_000, length_case, Rat);
    per_type!("length", "f64", le, 128, 1_000, length_case, f64);
    per_type!("length", "f32", le, 128, 1_000, length_case, f32);
    // ---- regimes (floats): see regime.rs
    macro_rules! per_type_r {
        ($prefix:literal, $suffix:literal, $about:expr, $len:expr, $q:expr, $case:ident, $S:ty) => {
            checks.push(Check { name: concat!($prefix, "-quad2-", $suffix), about: $about, kind: Kind::Tape { len: $len, quick: $q, thorough: $q * 100, f: $case::<$S, QuadraticBezier2<$S>> } });
            checks.push(Check { name: concat!($prefix, "-quad3-", $suffix), about: $about, kind: Kind::Tape { len: $len, quick: $q, thorough: $q * 100, f: $case::<$S, QuadraticBezier3<$S>> } });
            checks.push(Check { name: concat!($prefix, "-cubic2-", $suffix), about: $about, kind: Kind::Tape { len: $len, quick: $q, thorough: $q * 100, f: $case::<$S, CubicBezier2<$S>> } });
            checks.push(Check { name: concat!($prefix, "-cubic3-", $suffix), about: $about, kind: Kind::Tape { len: $len, quick: $q, thorough: $q * 100, f: $case::<$S, CubicBezier3<$S>> } });
        };
    }
    let rex = "control = off + shape * 2^k per axis, decomposition exact: unit of length from the smallest subnormal to max|control| = MAX/64 (also per axis), curves translated by +-{1,5/4,3/2,2-2^-10}*2^e with 1..MANT-3 bits between offset and extent; shapes: dyadic, shallow extremum, branch families, lower degree + 2^-j, small integers, continuous. *_inflection(s) in [0,1], zeros of the shape's derivative, well-conditioned interior simple roots reported (docs: 'if any'); min_*/max_*/*_bounds in [0,1] and extreme over end values, critical points and a 1025-point grid; aabr/aabb sides equal the true extremes; all within 32 eps max|control| + 16 quanta, in shape units";
    per_type_r!("regime-extrema", "f64", rex, 192, 4_000, extrema_regime_case, f64);
    per_type_r!("regime-extrema", "f32", rex, 192, 4_000, extrema_regime_case, f32);
    let rse = "closest-point search on placed curves (one unit 2^k for all axes such that squared differences stay normal, offsets per axis), query on / next to / anywhere / up to 2^14 diameters of the control polygon away: returned point == evaluate(returned t) == the shape's curve point there; not farther than the end point and every coarse sample, within the rounding of the squared distances (2 d^(1/2) E + E^2 + 8 eps d, E = evaluation error relative to max|control| per axis)";
    per_type_r!("regime-search", "f64", rse, 192, 1_500, search_regime_case, f64);
    per_type_r!("regime-search", "f32", rse, 192, 1_500, search_regime_case, f32);
    let rle = "length_by_discretization on placed curves (same placements as the search): >= chord, <= control polygon, L(2s+1) >= L(s), == polyline with s+1 segments, within 2 E per segment + 4 eps (segments+2) polygon";
    per_type_r!("regime-length", "f64", rle, 160, 1_000, length_regime_case, f64);
    per_type_r!("regime-length", "f32", rle, 160, 1_000, length_regime_case, f32);
    checks.push(Check {
        name: "regime-grid-f64",
        about: "deterministic grid: 12 shapes per degree (shallow extrema, bulges, two interior extrema, straight, repeated control values) x 18 unit exponents -1074..1015 / 84 translations (2^e, e in {-600,-20,8,23,40,600}, gap in {2,..,48}, both signs) x 4 curve types; same clauses as regime-extrema",
        kind: Kind::Index { total: regime::grid_total::<f64>(), quick: regime::grid_total::<f64>(), thorough: regime::grid_total::<f64>(), f: regime::grid_case::<f64> },
    });
    checks.push(Check {
        name: "regime-grid-f32",
        about: "deterministic grid: 12 shapes per degree x 15 unit exponents -149..119 / 84 translations (2^e, e in {-100,-10,8,16,30,100}, gap in {2,6,7,8,12,16,19}, both signs) x 4 curve types; same clauses as regime-extrema",
        kind: Kind::Index { total: regime::grid_total::<f32>(), quick: regime::grid_total::<f32>(), thorough: regime::grid_total::<f32>(), f: regime::grid_case::<f32> },
    });
    // ---- integer-typed parameters at their limits: see limits.rs
    macro_rules! limits {
        ($name:literal, $about:expr, $counts:expr, $case:ident, $S:ty) => {
            checks.push(Check { name: $name, about: $about, kind: Kind::Index { total: limits::total($counts), quick: 2 * 4 * $counts as u64, thorough: 16 * 4 * $counts as u64, f: limits::$case::<$S> } });
        };
    }
    let lss = "binary_search_point_by_steps with steps in {1,2,3,4,5,7,8,9,...,2^k-1,2^k,2^k+1,...,32766,32767,32768,32769,49152,65533,65534,65535} x 4 curve types on small curves, query within two diameters, epsilon from 0.3 down to 1/(16 steps): returns (watchdog), returned point == evaluate(returned t) == the oracle's curve point, not farther than the end point and EVERY sample i/steps, i < steps";
    limits!("limits-search-steps-f64", lss, limits::STEPS.len(), search_steps_case, f64);
    limits!("limits-search-steps-f32", lss, limits::STEPS.len(), search_steps_case, f32);
    let lsc = "binary_search_point with a coarse iterator of 0,1,2,3,4,5,255,256,257,16384,32767,32768,32769,65534,65535,65536,65537,70001 pairs (i/count, vek's own evaluate there; arbitrary parameters for <= 5) x 4 curve types: same clauses against every supplied pair and the end point";
    limits!("limits-search-coarse-count-f64", lsc, limits::COARSE_COUNTS.len(), search_coarse_case, f64);
    limits!("limits-search-coarse-count-f32", lsc, limits::COARSE_COUNTS.len(), search_coarse_case, f32);
    let lln = "length_by_discretization with step_count in {0,1,2,3,4,7,8,...,32766,32767,32768,32769,49152,65533,65534,65535} x 4 curve types on small curves (also straight ones): returns (watchdog), >= chord, <= control polygon, == polyline with step_count+1 segments, L(2s+1) >= L(s) while 2s+1 <= 65535";
    limits!("limits-length-step-count-f64", lln, limits::STEP_COUNTS.len(), length_case, f64);
    limits!("limits-length-step-count-f32", lln, limits::STEP_COUNTS.len(), length_case, f32);
    checks.push(Check {
        name: "length-step-count-limits",
        about: "length_by_discretization at step_count = 65535, 65534, 65533, 32767, 32768 on the four types: no documented precondition on step_count, the length bounds must hold",
        kind: Kind::Index { total: 20, quick: 20, thorough: 20, f: length_limit_case },
    });
    Property {
        id: "C15",
        rule: "extrema checks: a case is non-trivial when some coordinate has an interior extremum (simple root of its derivative strictly inside (0,1)) or a root of its derivative within 1e-3 of 0 or 1; search checks: the binary phase improved on the best coarse sample or there are >= 2 coarse samples; length checks: control polygon longer than the chord. regime-extrema / regime-grid: some coordinate has an interior extremum that beats both end values by more than 4x the value tolerance of its regime (so returning an end point, or the wrong critical point, is a detected failure); regime-search as search; regime-length: control polygon longer than the chord by more than 8x the tolerance. limits-*: as search / length (every case runs all clauses; every (curve type, count) pair gets the same number of cases). Cases are proptest byte tapes (fixed seed) or indices; distinct = distinct consumed tape prefix / index per check",
        assumptions: &[
            "rustc and the proptest runner/shrinker are trusted",
            "oracle = de Casteljau / Bernstein derivative on plain arrays (c15::ora), exact in Rat, f64 for f64 and f32 curves; it never calls vek's Bezier code (vek's evaluate is only used to state 'returned point == evaluate(returned t)')",
            "Rat curves are integrated from prescribed derivatives so all critical points are known exactly; Rat::epsilon() = 2^-52 and generated coefficients are either exactly 0 or far above it, so the code's epsilon tests coincide with exact zero tests",
            "float curves: the extreme of a coordinate is taken over a 4097-point grid, the end points and critical parameters from a stable f64 quadratic formula; tolerance 32 eps max|control| on values, 256 eps (|A|+|B|+|C|) on derivative residuals",
            "closed interval [0,1] accepted for reported inflection parameters; the search is not required to return a parameter in [0,1] (the statement is silent) — such returns are only counted (label)",
            "regime checks (floats only; regime.rs): every curve is control = off + shape * 2^k per axis with the decomposition recomputed exactly from the stored control values ((c - off) / 2^k: Sterbenz subtraction, power-of-two division), the oracle works in f64 on the shape (|shape| < 2^12) and all comparisons are made in shape units; value tolerance 32 eps_S max|control| + 16 subnormal quanta of S (+ 64 eps_f64 max|shape| for the oracle), derivative residual 256 eps_S (|A|+|B|+|C|) + 64 eps_S max|control| (forming A, B, C from translated control values perturbs the derivative polynomial by <= 36 eps max|control|); box sides 2x the value tolerance (one more evaluation)",
            "regime exclusions (what no implementation working in S can deliver): max|control| > MAX/64 (3*(e-3c1+3c0-s) and ctrl*3 inside evaluate reach 24 max|control|); for search and length the common unit 2^k is restricted so that squared coordinate differences neither overflow nor lose bits to underflow (vek's magnitude / distance_squared are documented as the plain sqrt / sum of squares): f64 k in [-454, 507-s-far], f32 k in [-35, 59-s-far] (s = exponent of the shape, far = exponent of the farthest query); offsets keep gap >= 1 bit above the shape and <= MANT-3 (below that the stored curve has < 2 bits of shape left); subnormal control values are included for the per-axis clauses (absolute error of evaluate there: half a quantum per product)",
            "regime checks additionally assert the documented 'inflection point along the axis, if any' in floats only for a simple root r of the shape's derivative in [1/16, 15/16] that provably survives the admitted perturbation: with D = |p'(r)| and s = 2 dtol / D, s <= 1/256, |A| s <= D/4 and (D / max|coef|)^2 > 16 eps (away from the code's double-root branch); a reported parameter within 2s of r is demanded",
            "regime-search asks for epsilon >= 1e-6 on translated curves (2 EPSILON only on untranslated ones): the property has no clause on running time, and on a translated curve the distance computed from points quantised to ulp(offset) is a staircase on which vek's binary phase (which keeps stepping by the current half interval while the distance decreases) was observed to take 4.35e9 steps (23 s): QuadraticBezier2<f64> x = -7.99167628880894e147 + (4,6,2)*2^438, y = (-6.875,-7.0625,-6.5)*2^438, p = (-7.991676288808937e147, 4.306074744756277e132), steps = 27, epsilon = 2 EPSILON; the result satisfied every clause",
            "limits-* (limits.rs): the three count parameters of the API (steps: u16, step_count: u16, number of pairs yielded by `coarse`) at 0/1 where legal, small values, 2^k-1, 2^k, 2^k+1, 2^15-2..2^15+1, 3*2^14, 2^16-3..2^16-1 (iterator also 2^16, 2^16+1, 70001), f64 and f32, on small dyadic curves at unit scale with the query within two control-polygon diameters and epsilon >= 1/(16 steps) (and > 4 EPSILON), so that the unchanged code needs milliseconds per call; the oracle evaluates EVERY coarse sample i/steps (parameter formed in S exactly as documented) in f64. steps = 0 is excluded as not legal (DESIGN 'Pre.': steps >= 1; the code computes the half interval 1/0 = inf and never leaves `while h >= epsilon`); step_count = 0 and an empty `coarse` are legal (docs) and included",
            "limits-*: each call under test runs on its own thread and the case waits at most 30 s for it (a panic - the harness is built with overflow checks - is a failure; no answer within 30 s is INCONCLUSIVE: the case is discarded and counted, and too many discards end the run with exit 2, never with a violation); this is the only use of a clock in the crate and cannot change the verdict of a call that returns; these are index checks, so a hanging input is executed at most twice (run + confirmation) and never shrunk. Length tolerance at large counts is the worst-case bound, linear in the number of segments: 2 E per segment + 4 eps (segments+2) polygon (f32 at 65536 segments: ~0.07 max|control|)",
            "Rat is not used in the regime checks: exact arithmetic is invariant under translation and scaling, and 2^k with |k| > 24 overflows the i128 rationals in the cubic terms",
        ],
        checks,
        max_discard_frac: 0.2,
    }
}
