//! C15 at the limits of its integer-typed parameters.
//!
//! The API of this property has three count parameters: `binary_search_point_by_steps(.., steps: u16, ..)`,
//! `length_by_discretization(step_count: u16)` and the number of pairs the `coarse` iterator of
//! `binary_search_point` yields (not bounded by a type). Each is driven through
//! 0 / 1 (where legal), small values, 2^k - 1, 2^k, 2^k + 1, 2^15 - 2 .. 2^15 + 1, 3 * 2^14, 2^16 - 3 .. 2^16 - 1
//! (the iterator also through 2^16, 2^16 + 1 and 70001) on small curves (|control| <= 8, dyadic), with **all**
//! clauses of the property: returned point == evaluate(returned t) == the oracle's curve point there; not farther
//! than the end point and **every** coarse sample i/steps (the oracle evaluates all of them in f64 — the same cost
//! as the call under test); length between chord and control polygon, equal to the polyline with step_count + 1
//! segments, and not decreasing from step_count to 2 step_count + 1 while that stays in u16.
//!
//! `steps = 0` is not a legal input (DESIGN "Pre.": steps >= 1; the unchanged code computes the half interval
//! 1/0 = inf and never leaves its loop), `step_count = 0` and an empty `coarse` are (docs).
//!
//! Cost and hangs: queries stay within two diameters of the control polygon and `epsilon` >= 1/(8 steps), so the
//! unchanged code leaves the binary phase after a handful of halvings and walks at most a few parameter units in
//! steps of 1/(2 steps). The harness is built with overflow checks, which turns narrow-integer arithmetic on the
//! counts into a panic (a failure). Should a call nevertheless not come back, a watchdog reports it after
//! `WATCHDOG_SECS` instead of stalling the tier: the call runs on its own thread, the case waits with a timeout
//! (these checks are index checks, so nothing is shrunk and a hanging input is executed at most twice).
//!
//! Cases are a pure function of the index: `pair = idx % (4 * #counts)` selects (curve type, count), the quotient
//! seeds the bytes of a `Tape` for curve, query and epsilon. The driver's sampled mode walks the index space with
//! a stride coprime to its size, so every (type, count) pair gets the same number of cases in every tier.

use crate::curves::{Cv, P3};
use crate::ora::*;
use crate::regime::{d2_err, eval_err, gen_metric_shape, place, polyline_u, seg, Fl, Placed};
use vek::bezier::repr_c::{CubicBezier2, CubicBezier3, QuadraticBezier2, QuadraticBezier3};
use vkit::tape::mix64;
use vkit::*;

pub const WATCHDOG_SECS: u64 = 30;
pub const VARIANTS: u64 = 64;

/// `steps` of `binary_search_point_by_steps` (>= 1)
pub const STEPS: [u16; 43] = [
    1, 2, 3, 4, 5, 7, 8, 9, 15, 16, 17, 31, 32, 33, 63, 64, 65, 127, 128, 129, 255, 256, 257, 511, 512, 513, 1023, 1024, 1025, 4095, 4096, 4097, 16383, 16384, 16385, 32766, 32767, 32768, 32769, 49152, 65533,
    65534, 65535,
];
/// `step_count` of `length_by_discretization`
pub const STEP_COUNTS: [u16; 28] = [0, 1, 2, 3, 4, 7, 8, 15, 16, 31, 32, 127, 128, 255, 256, 257, 4095, 4096, 16383, 16384, 32766, 32767, 32768, 32769, 49152, 65533, 65534, 65535];
/// number of pairs yielded by `coarse`
pub const COARSE_COUNTS: [u32; 18] = [0, 1, 2, 3, 4, 5, 255, 256, 257, 16384, 32767, 32768, 32769, 65534, 65535, 65536, 65537, 70001];

pub fn total(counts: usize) -> u64 {
    VARIANTS * 4 * counts as u64
}

/// Marker for "the call did not come back within the watchdog time": inconclusive (discarded and counted), never a violation.
const TIMEOUT: &str = "\u{0}watchdog-timeout";

/// Run `f` on its own thread; a panic is an `Err(message)`, no answer within `WATCHDOG_SECS` is `Err(TIMEOUT)`.
fn guarded<R: Send + 'static>(f: impl FnOnce() -> R + Send + 'static) -> Result<R, String> {
    let (tx, rx) = std::sync::mpsc::channel();
    std::thread::Builder::new()
        .stack_size(8 << 20)
        .spawn(move || {
            let r = std::panic::catch_unwind(std::panic::AssertUnwindSafe(f)).map_err(|e| {
                if let Some(s) = e.downcast_ref::<&str>() {
                    s.to_string()
                } else if let Some(s) = e.downcast_ref::<String>() {
                    s.clone()
                } else {
                    "<non-string panic>".to_string()
                }
            });
            let _ = tx.send(r);
        })
        .expect("harness: cannot spawn the guarded call");
    match rx.recv_timeout(std::time::Duration::from_secs(WATCHDOG_SECS)) {
        Ok(Ok(v)) => Ok(v),
        Ok(Err(m)) => Err(format!("panics: {}", m)),
        Err(_) => Err(TIMEOUT.to_string()),
    }
}

fn variant_bytes(salt: u64, idx: u64) -> Vec<u8> {
    let mut z = mix64(salt ^ idx.wrapping_mul(0x9E37_79B9_7F4A_7C15));
    (0..128)
        .map(|_| {
            z = mix64(z);
            (z >> 24) as u8
        })
        .collect()
}

fn count_label(n: u32) -> &'static str {
    if n >= 32768 {
        "count >= 2^15"
    } else if n >= 256 {
        "count 2^8 .. 2^15-1"
    } else {
        "count < 2^8"
    }
}

/// small curve at unit scale + its control-polygon diameter (1 for a point curve)
fn small_curve<S: Fl, C: Cv<S>>(t: &mut Tape, cx: &mut Cx) -> (Placed<S>, f64) {
    let n = C::DEG + 1;
    let shape = gen_metric_shape(t, n, C::DIM);
    let pl = place::<S>(&shape, [0.0; 3], [0; 3], C::DIM);
    let mut diam = 0.0f64;
    for i in 0..n {
        for j in 0..i {
            diam = diam.max(dist2(&pl.m[i], &pl.m[j]).sqrt());
        }
    }
    if diam == 0.0 {
        cx.label("point-curve");
        diam = 1.0;
    }
    (pl, diam)
}

/// query within two diameters of the curve: on it, next to it, around it
fn near_query<S: Fl>(t: &mut Tape, cx: &mut Cx, pl: &Placed<S>, dim: usize, diam: f64) -> (P3<S>, [f64; 3]) {
    let mode = t.below(3);
    cx.label(["query:on-the-curve", "query:next-to-the-curve", "query:around-the-curve"][mode]);
    let base = bezn(&pl.m, t.below(17) as f64 / 16.0);
    let mut p = [S::zero(); 3];
    let mut q = [0.0f64; 3];
    for ax in 0..dim {
        let w = match mode {
            0 => base[ax],
            1 => base[ax] + diam * crate::regime::p2(-(t.int(1, 12) as i32)) * t.pick(&[-1.0, 0.0, 1.0]),
            _ => base[ax] + diam * t.range_f64(-2.0, 2.0),
        };
        p[ax] = S::of(w);
        q[ax] = p[ax].f();
    }
    (p, q)
}

/// requested precision relative to the first half interval h0: none of / one / a few halvings of the binary phase
fn gen_eps<S: Fl>(t: &mut Tape, cx: &mut Cx, h0: f64) -> S {
    let e = match t.below(6) {
        0 => 0.3,
        1 => 1e-2,
        2 => 1e-4,
        3 => h0,
        4 => h0 / 4.0,
        _ => h0 / 8.0,
    };
    // the documented precondition epsilon > T::epsilon()
    let e = S::of(e.max(4.0 * S::eps()));
    if e.f() <= S::of(h0).f() {
        cx.label("binary-phase-entered(epsilon <= 1/(2 steps))");
    } else {
        cx.label("coarse-phase-only(epsilon > 1/(2 steps))");
    }
    e
}

/// The clauses on a search result, against the coarse parameters `coarse_u` (as f64) and the end point.
fn judge_search<S: Fl, C: Cv<S>>(cx: &mut Cx, what: &str, cv: C, pl: &Placed<S>, p: P3<S>, q: &[f64; 3], tt: S, pt: P3<S>, coarse_u: &mut dyn Iterator<Item = f64>) -> CaseResult {
    let ev = cv.eval(tt);
    check_eq!(cx, pt, ev, "{} {}: returned point is not evaluate(returned t={:?})", C::NAME, what, tt);
    check!(cx, tt.f().is_finite(), "{} {} returns the parameter {:?}; controls {:?} p={:?}", C::NAME, what, tt, pl.cp, p);
    let want_pt = bezn(&pl.m, tt.f());
    let e_ret = eval_err(pl, C::DIM, C::DEG, tt.f());
    let mut ptu = [0.0f64; 3];
    for ax in 0..C::DIM {
        ptu[ax] = pt[ax].f();
        check!(cx, eqv(cx, ptu[ax], want_pt[ax], 4.0 * e_ret), "{} {}: returned point {:?} is not the curve point {:?} at the returned t={:?} (tol {:.3e}); controls {:?} p={:?}", C::NAME, what, pt, want_pt, tt, 4.0 * e_ret, pl.cp, p);
    }
    let dret = dist2(&ptu, q);
    let dend = dist2(&pl.m[C::DEG], q);
    check!(cx, le(cx, dret, dend, d2_err::<S>(dret, 0.0) + d2_err::<S>(dend, 0.0)), "{} {} returns t={:?} at squared distance {:?}, farther than the end point ({:?}); controls {:?} p={:?}", C::NAME, what, tt, dret, dend, pl.cp, p);
    // every coarse sample: the smallest admissible bound and where it is attained
    let e_c = eval_err(pl, C::DIM, C::DEG, 0.5);
    let mut best = (f64::INFINITY, f64::NAN, f64::INFINITY);
    let mut nsamples = 0u64;
    for u in coarse_u {
        let d = dist2(&bezn(&pl.m, u), q);
        let bound = d + d2_err::<S>(d, e_c);
        if bound < best.0 {
            best = (bound, u, d);
        }
        nsamples += 1;
    }
    if nsamples > 0 {
        check!(cx, le(cx, dret, best.0, d2_err::<S>(dret, 0.0)), "{} {} returns t={:?} at squared distance {:?}, farther than the coarse sample t={:?} ({:?}; {} samples judged); controls {:?} p={:?}", C::NAME, what, tt, dret, best.1, best.2, nsamples, pl.cp, p);
    }
    let improved = dret < best.2.min(dend);
    if improved {
        cx.label("binary-phase-improved");
    }
    if !(0.0..=1.0).contains(&tt.f()) {
        cx.label("observation:returned-t-outside-[0,1]");
    }
    cx.set_nontrivial(improved || nsamples >= 2);
    Ok(())
}

fn run_search_steps<S: Fl + Send, C: Cv<S> + Send + 'static>(cx: &mut Cx, steps: u16, idx: u64) -> CaseResult {
    let bytes = variant_bytes(0x5EA2_C15, idx);
    let mut tape = Tape::new(&bytes);
    let t = &mut tape;
    let (pl, diam) = small_curve::<S, C>(t, cx);
    let cv = C::build(&pl.cp);
    let (p, q) = near_query::<S>(t, cx, &pl, C::DIM, diam);
    let eps: S = gen_eps::<S>(t, cx, 0.5 / steps as f64);
    cx.label(count_label(steps as u32));
    sample!(cx, "{} {} controls={:?} p={:?} steps={} eps={:?}", S::NAME, C::NAME, pl.cp, p, steps, eps);
    let (tt, pt) = match guarded(move || cv.search_steps(p, steps, eps)) {
        Ok(r) => r,
        Err(m) if m == TIMEOUT => discard!("watchdog: call did not return within 30 s (inconclusive)"),
        Err(m) => fail!("{} binary_search_point_by_steps(p, steps = {}, epsilon = {:?}) {}; controls {:?} p={:?}", C::NAME, steps, eps, m, pl.cp, p),
    };
    // the documented broad phase: i/steps for i < steps, computed in S
    let sf = <S as From<u16>>::from(steps);
    let mut us = (0..steps).map(|i| (<S as From<u16>>::from(i) / sf).f());
    judge_search::<S, C>(cx, "binary_search_point_by_steps", cv, &pl, p, &q, tt, pt, &mut us)
}

fn run_search_coarse<S: Fl + Send, C: Cv<S> + Send + 'static>(cx: &mut Cx, count: u32, idx: u64) -> CaseResult {
    let bytes = variant_bytes(0xC0A2_5EC1_5, idx);
    let mut tape = Tape::new(&bytes);
    let t = &mut tape;
    let (pl, diam) = small_curve::<S, C>(t, cx);
    let cv = C::build(&pl.cp);
    let (p, q) = near_query::<S>(t, cx, &pl, C::DIM, diam);
    let h0 = 0.5 / count.max(1) as f64;
    let eps: S = gen_eps::<S>(t, cx, h0);
    let h: S = S::of(h0);
    cx.label(count_label(count));
    if count == 0 {
        cx.label("empty-coarse");
    }
    // evenly spaced or (small counts) arbitrary parameters; the points are vek's own evaluate at them
    let arbitrary = count <= 5 && t.bool();
    let ts: Vec<S> = (0..count).map(|i| if arbitrary { S::q(t.below(17) as i64, 16) } else { S::of(i as f64 / count as f64) }).collect();
    let coarse: Vec<(S, P3<S>)> = ts.iter().map(|&u| (u, cv.eval(u))).collect();
    sample!(cx, "{} {} controls={:?} p={:?} coarse: {} pairs{} h={:?} eps={:?}", S::NAME, C::NAME, pl.cp, p, count, if arbitrary { format!(" {:?}", ts) } else { " i/count".to_string() }, h, eps);
    let shape = t.below(4);
    cx.label(["coarse-iter-exact-hint", "coarse-iter-filtered", "coarse-iter-from_fn", "coarse-iter-reversed"][shape]);
    let (tt, pt) = match guarded(move || cv.search(p, coarse, h, eps, shape)) {
        Ok(r) => r,
        Err(m) if m == TIMEOUT => discard!("watchdog: call did not return within 30 s (inconclusive)"),
        Err(m) => fail!("{} binary_search_point(p, coarse with {} pairs, half_interval = {:?}, epsilon = {:?}) {}; controls {:?} p={:?}", C::NAME, count, h, eps, m, pl.cp, p),
    };
    let mut us = ts.iter().map(|u| u.f());
    judge_search::<S, C>(cx, "binary_search_point", cv, &pl, p, &q, tt, pt, &mut us)
}

fn run_length<S: Fl + Send, C: Cv<S> + Send + 'static>(cx: &mut Cx, s: u16, idx: u64) -> CaseResult {
    let bytes = variant_bytes(0x1E27_C15, idx);
    let mut tape = Tape::new(&bytes);
    let t = &mut tape;
    let (mut pl, _) = small_curve::<S, C>(t, cx);
    if t.chance(40) {
        // straight, unevenly spaced: chord == polygon
        cx.label("straight");
        let (o, d) = (pl.m[0], pl.m[1]);
        let mut shape = pl.m.clone();
        let mut lam = 0.0;
        for pnt in shape.iter_mut() {
            for ax in 0..C::DIM {
                pnt[ax] = o[ax] + d[ax] * lam / 4.0;
            }
            lam += 1.0 + t.below(4) as f64;
        }
        pl = place::<S>(&shape, [0.0; 3], [0; 3], C::DIM);
    }
    let cv = C::build(&pl.cp);
    cx.label(count_label(s as u32));
    sample!(cx, "{} {} controls={:?} step_count={}", S::NAME, C::NAME, pl.cp, s);
    let call = |n: u16| -> Result<f64, Fail> {
        match guarded(move || cv.length(n)) {
            Ok(l) => Ok(l.f()),
            Err(m) if m == TIMEOUT => Err(Fail::Discard("watchdog: call did not return within 30 s (inconclusive)")),
            Err(m) => Err(Fail::Violation(format!("{} length_by_discretization({}) {}; controls {:?}", C::NAME, n, m, pl.cp))),
        }
    };
    let chord = seg(&pl.m[0], &pl.m[C::DEG]);
    let mut poly = 0.0;
    for i in 0..C::DEG {
        poly += seg(&pl.m[i], &pl.m[i + 1]);
    }
    // every segment end carries eval_err; sqrt and the running sum round relative to the length (worst case:
    // linear in the number of segments)
    let e = eval_err(&pl, C::DIM, C::DEG, 0.5);
    let tol = |segs: u32| segs as f64 * 2.0 * e + 4.0 * S::eps() * (segs as f64 + 2.0) * poly;
    let judge = |cx: &mut Cx, n: u16, l: f64| -> CaseResult {
        let segs = n as u32 + 1;
        check!(cx, le(cx, chord, l, tol(segs)), "{} length_by_discretization({}) = {:?} is shorter than the chord {:?}; controls {:?}", C::NAME, n, l, chord, pl.cp);
        check!(cx, le(cx, l, poly, tol(segs)), "{} length_by_discretization({}) = {:?} exceeds the control polygon {:?}; controls {:?}", C::NAME, n, l, poly, pl.cp);
        let w = polyline_u(&pl.m, n as u32);
        check!(cx, eqv(cx, l, w, tol(segs)), "{} length_by_discretization({}) = {:?}, the polyline with {} segments has length {:?} (tol {:.3e}); controls {:?}", C::NAME, n, l, segs, w, tol(segs), pl.cp);
        Ok(())
    };
    let l1 = call(s)?;
    judge(cx, s, l1)?;
    if s <= 32767 {
        cx.label("doubling-in-range");
        let n2 = 2 * s + 1;
        let l2 = call(n2)?;
        judge(cx, n2, l2)?;
        check!(cx, le(cx, l1, l2, tol(s as u32 + 1) + tol(n2 as u32 + 1)), "{} length decreases under refinement by doubling: L({})={:?} > L({})={:?}; controls {:?}", C::NAME, s, l1, n2, l2, pl.cp);
    }
    let curved = poly - chord > 1e-3 * poly && poly - chord > 8.0 * tol(s as u32 + 1);
    if curved {
        cx.label("curved(polygon>chord beyond the tolerance)");
    }
    cx.set_nontrivial(curved);
    Ok(())
}

macro_rules! dispatch {
    ($run:ident, $S:ty, $cx:expr, $ty:expr, $count:expr, $idx:expr) => {
        match $ty {
            0 => $run::<$S, QuadraticBezier2<$S>>($cx, $count, $idx),
            1 => $run::<$S, QuadraticBezier3<$S>>($cx, $count, $idx),
            2 => $run::<$S, CubicBezier2<$S>>($cx, $count, $idx),
            _ => $run::<$S, CubicBezier3<$S>>($cx, $count, $idx),
        }
    };
}

pub fn search_steps_case<S: Fl + Send>(idx: u64, cx: &mut Cx) -> CaseResult {
    let pair = idx % (4 * STEPS.len() as u64);
    dispatch!(run_search_steps, S, cx, pair % 4, STEPS[(pair / 4) as usize], idx)
}
pub fn search_coarse_case<S: Fl + Send>(idx: u64, cx: &mut Cx) -> CaseResult {
    let pair = idx % (4 * COARSE_COUNTS.len() as u64);
    dispatch!(run_search_coarse, S, cx, pair % 4, COARSE_COUNTS[(pair / 4) as usize], idx)
}
pub fn length_case<S: Fl + Send>(idx: u64, cx: &mut Cx) -> CaseResult {
    let pair = idx % (4 * STEP_COUNTS.len() as u64);
    dispatch!(run_length, S, cx, pair % 4, STEP_COUNTS[(pair / 4) as usize], idx)
}
