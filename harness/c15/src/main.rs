fn main() {
    vkit::driver::main(c15::property())
}
