//! Oracle arithmetic on plain arrays. Never calls vek's Bézier code.
//!
//! `Ora::O` is the type the oracle computes in: `Rat` for `Rat` (exact), `f64` for `f64` and `f32`.

use vkit::{Cx, Dom, Rat};

pub trait Ora: Dom {
    type O: Dom;
    fn up(self) -> Self::O;
}
impl Ora for Rat {
    type O = Rat;
    fn up(self) -> Rat {
        self
    }
}
impl Ora for f64 {
    type O = f64;
    fn up(self) -> f64 {
        self
    }
}
impl Ora for f32 {
    type O = f64;
    fn up(self) -> f64 {
        self as f64
    }
}

/// a <= b (exact domain) / a <= b + tol (floats); records the overshoot / tol ratio of accepted comparisons.
pub fn le<O: Dom>(cx: &mut Cx, a: O, b: O, tol: f64) -> bool {
    cx.count();
    if O::EXACT {
        a <= b
    } else {
        let d = a.f() - b.f();
        if !d.is_finite() {
            return false;
        }
        if d > 0.0 && d <= tol {
            cx.note_err(d / tol);
        }
        d <= tol
    }
}
/// a == b (exact domain) / |a-b| <= tol (floats)
pub fn eqv<O: Dom>(cx: &mut Cx, a: O, b: O, tol: f64) -> bool {
    cx.count();
    if O::EXACT {
        a == b
    } else {
        let d = (a.f() - b.f()).abs();
        if !d.is_finite() {
            return false;
        }
        if d > 0.0 && d <= tol {
            cx.note_err(d / tol);
        }
        d <= tol
    }
}

/// de Casteljau on one coordinate (2..=4 control values).
pub fn bez1<O: Dom>(c: &[O], t: O) -> O {
    let n = c.len();
    assert!(n >= 2 && n <= 4, "harness: bez1 arity");
    let mut w = [O::zero(); 4];
    w[..n].copy_from_slice(c);
    let u = O::one() - t;
    for r in 1..n {
        for i in 0..n - r {
            w[i] = w[i] * u + w[i + 1] * t;
        }
    }
    w[0]
}

/// Derivative of the coordinate polynomial at t: deg * Bézier of the forward differences.
pub fn dbez1<O: Dom>(c: &[O], t: O) -> O {
    let n = c.len();
    let mut d = [O::zero(); 3];
    for i in 0..n - 1 {
        d[i] = c[i + 1] - c[i];
    }
    O::i((n - 1) as i64) * bez1(&d[..n - 1], t)
}

/// Point of the curve with control points `cp` (each [O;3]) at t.
pub fn bezn<O: Dom>(cp: &[[O; 3]], t: O) -> [O; 3] {
    let mut r = [O::zero(); 3];
    for k in 0..3 {
        let mut c = [O::zero(); 4];
        for (i, p) in cp.iter().enumerate() {
            c[i] = p[k];
        }
        r[k] = bez1(&c[..cp.len()], t);
    }
    r
}

/// Power-basis coefficients (A, B, C) of the derivative A t^2 + B t + C of one coordinate
/// (A = 0 for a quadratic curve), from forward differences.
pub fn dcoef<O: Dom>(c: &[O]) -> (O, O, O) {
    let two = O::i(2);
    let three = O::i(3);
    let six = O::i(6);
    if c.len() == 4 {
        let (d0, d1, d2) = (c[1] - c[0], c[2] - c[1], c[3] - c[2]);
        (three * (d0 - two * d1 + d2), six * (d1 - d0), three * d0)
    } else {
        let (d0, d1) = (c[1] - c[0], c[2] - c[1]);
        (O::zero(), two * (d1 - d0), two * d0)
    }
}

/// Candidate critical parameters in f64 (numerically stable quadratic formula); every finite candidate is
/// returned, the caller clamps / filters. Used only to *add sample parameters* for the float oracle.
pub fn crit_f64(a: f64, b: f64, c: f64) -> Vec<f64> {
    let mut r = Vec::new();
    if b != 0.0 {
        r.push(-c / b);
    }
    if a != 0.0 {
        r.push(-b / (2.0 * a));
        let disc = b * b - 4.0 * a * c;
        if disc >= 0.0 {
            let s = disc.sqrt();
            let q = -0.5 * (b + if b >= 0.0 { s } else { -s });
            r.push(q / a);
            if q != 0.0 {
                r.push(c / q);
            }
        }
    }
    r.retain(|x| x.is_finite());
    r
}

pub fn dist2<O: Dom>(a: &[O; 3], b: &[O; 3]) -> O {
    let mut s = O::zero();
    for k in 0..3 {
        let d = a[k] - b[k];
        s = s + d * d;
    }
    s
}

pub fn up3<S: Ora>(p: &[S; 3]) -> [S::O; 3] {
    [p[0].up(), p[1].up(), p[2].up()]
}

pub fn maxabs<S: Dom>(cp: &[[S; 3]]) -> f64 {
    let mut m = 0.0f64;
    for p in cp {
        for x in p {
            m = m.max(x.f().abs());
        }
    }
    m
}
