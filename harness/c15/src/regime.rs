//! C15 regime checks: the same clauses judged where "moderate" sampling never goes.
//!
//! Every curve here is `control = off + m * 2^k` per axis, with the decomposition **exact**: `m` (the *shape*, a
//! handful of f64 values of moderate size) is recomputed from the control values actually handed to vek as
//! `(c - off) / 2^k` (Sterbenz subtraction, division by a power of two), so the oracle works on the small
//! well-scaled numbers `m` in f64 and never sees the magnitudes that make the arithmetic under test hard:
//!
//! * **scaled** (`off = 0`): the unit of length 2^k runs from the smallest subnormal (k = -1074 / -149: control
//!   values are a few quanta) through the whole normal range up to `max|control| <= MAX/64` (beyond that the third
//!   difference times 3 — up to 24 max|c| — and `ctrl*3` inside `evaluate` overflow in any working-precision
//!   implementation); independently per axis in a quarter of the cases;
//! * **translated** (`off = +-{1, 5/4, 3/2, 2-2^-10} * 2^e`, per axis): the curve is `gap` = 1 .. MANT-3 bits
//!   smaller than its distance from the origin (so the control values only keep MANT-1-gap bits of shape), at
//!   moderate e and next to both ends of the exponent range;
//! * **unit** (control run of the same machinery on moderate input).
//!
//! Tolerances are in shape units and always relative to the regime's own magnitudes — never `max(1, .)`:
//! `tol = 32 eps_S max|control| / 2^k  +  16 quantum_S / 2^k  +  64 eps_f64 max|m|`:
//! (i) `evaluate` and the decisions taken on its results are linear in the control values with Bernstein weights
//! summing to 1: <= 5 roundings of size eps max|c| per coordinate, the same again for the perturbed coefficients
//! (see `dtol`), (ii) gradual underflow: every product inside `evaluate` may lose half a quantum (<= 12 products),
//! (iii) the oracle's own f64 rounding. With `off = 0` the first term is 32 eps x the curve's own extent; with a
//! translation it is "a few ulps of the largest coordinate", which is what any implementation working in S can
//! deliver. What a correct implementation cannot deliver is excluded by construction (see `assumptions`).

use crate::curves::{Cv, P3};
use crate::gen;
use crate::ora::*;
use vkit::*;

/// Float parameters the placements need.
pub trait Fl: Ora<O = f64> {
    /// significand bits including the hidden one
    const MANT: i32;
    /// exponent of the smallest subnormal (the quantum of gradual underflow)
    const QEXP: i32;
    /// exponent of the smallest normal number
    const NEXP: i32;
    /// exponent of MAX's binade
    const XEXP: i32;
    fn of(x: f64) -> Self;
}
impl Fl for f64 {
    const MANT: i32 = 53;
    const QEXP: i32 = -1074;
    const NEXP: i32 = -1022;
    const XEXP: i32 = 1023;
    fn of(x: f64) -> f64 {
        x
    }
}
impl Fl for f32 {
    const MANT: i32 = 24;
    const QEXP: i32 = -149;
    const NEXP: i32 = -126;
    const XEXP: i32 = 127;
    fn of(x: f64) -> f32 {
        x as f32
    }
}

/// Exactly 2^k as f64 for every k the type has (subnormal powers included; `powi` may flush them).
pub fn p2(k: i32) -> f64 {
    assert!((-1074..=1023).contains(&k), "harness: p2({})", k);
    if k >= -1022 {
        f64::from_bits(((k + 1023) as u64) << 52)
    } else {
        f64::from_bits(1u64 << (k + 1074))
    }
}

/// Smallest s >= 0 with 2^s >= x.
pub fn ceil_log2(x: f64) -> i32 {
    let mut s = 0;
    while p2(s) < x {
        s += 1;
    }
    s
}

/// A curve placed in a regime, with its exact decomposition `cp = off + m * 2^k` per axis.
pub struct Placed<S> {
    pub cp: Vec<P3<S>>,
    pub m: Vec<[f64; 3]>,
    pub off: [f64; 3],
    pub k: [i32; 3],
}

impl<S: Fl> Placed<S> {
    pub fn unit(&self, ax: usize) -> f64 {
        p2(self.k[ax])
    }
    /// largest |control value| on the axis, in shape units
    pub fn maxc_u(&self, ax: usize) -> f64 {
        self.cp.iter().fold(0.0f64, |a, p| a.max(p[ax].f().abs())) / self.unit(ax)
    }
    /// quantum of gradual underflow of S in shape units (0 when far away)
    pub fn quantum_u(&self, ax: usize) -> f64 {
        p2(S::QEXP.max(-1074)) / self.unit(ax)
    }
    pub fn mmax(&self, ax: usize) -> f64 {
        self.m.iter().fold(0.0f64, |a, p| a.max(p[ax].abs()))
    }
    /// S value -> shape units on the axis
    pub fn to_shape(&self, ax: usize, x: S) -> f64 {
        (x.f() - self.off[ax]) / self.unit(ax)
    }
    /// value tolerance on the axis (module docs)
    pub fn tol(&self, ax: usize) -> f64 {
        32.0 * S::eps() * self.maxc_u(ax) + 16.0 * self.quantum_u(ax) + 64.0 * f64::EPSILON * self.mmax(ax)
    }
}

/// Round `off + shape * 2^k` into S and recover the exact shape of what was stored.
pub fn place<S: Fl>(shape: &[[f64; 3]], off: [f64; 3], k: [i32; 3], dim: usize) -> Placed<S> {
    let mut cp = vec![[S::zero(); 3]; shape.len()];
    let mut m = vec![[0.0f64; 3]; shape.len()];
    for i in 0..shape.len() {
        for ax in 0..dim {
            let u = p2(k[ax]);
            let c = S::of(off[ax] + shape[i][ax] * u);
            let back = (c.f() - off[ax]) / u;
            assert!(c.f().is_finite() && back * u + off[ax] == c.f(), "harness: placement of {:?} at off {:?} unit 2^{} is not exactly decomposable (stored {:?})", shape[i][ax], off[ax], k[ax], c);
            cp[i][ax] = c;
            m[i][ax] = back;
        }
    }
    Placed { cp, m, off, k }
}

// -------------------------------------------------------------------------------------------------
// shapes

fn neg_rev(t: &mut Tape, v: &mut Vec<f64>) {
    if t.bool() {
        v.reverse();
    }
    if t.bool() {
        for x in v.iter_mut() {
            *x = -*x;
        }
    }
}

/// One coordinate of a shape: `deg + 1` values, |value| < 2^12.
pub fn gen_shape_axis(t: &mut Tape, cx: &mut Cx, deg: usize) -> Vec<f64> {
    let n = deg + 1;
    match t.below(8) {
        0 | 1 => {
            cx.label("shape:dyadic/16");
            (0..n).map(|_| t.int(-128, 128) as f64 / 16.0).collect()
        }
        2 => {
            // monotone apart from one control value pushed 2^-j beyond an end value: the interior extremum beats
            // the end point by much less than the extent
            cx.label("shape:shallow-extremum");
            let len = t.int(1, 8) as f64;
            let d = p2(-(t.int(0, 10) as i32));
            let mut v = vec![0.0; n];
            v[n - 1] = len;
            for x in v.iter_mut().take(n - 1).skip(1) {
                *x = t.pick(&[0.0, 0.5, 1.0]) * len;
            }
            let j = 1 + t.below(n - 2);
            v[j] = if t.bool() { -d } else { len + d };
            let base = t.int(-4, 4) as f64;
            for x in v.iter_mut() {
                *x += base;
            }
            neg_rev(t, &mut v);
            v
        }
        3 => {
            cx.label("shape:branch-family");
            let a = if deg == 3 {
                let f = t.below(gen::CUBIC_FAMS.len());
                gen::cubic_axis::<f64>(t, f)
            } else {
                let f = t.below(gen::QUAD_FAMS.len());
                gen::quad_axis::<f64>(t, f)
            };
            a.c
        }
        4 => {
            // a curve of lower degree written in this degree, plus 2^-j on one control value: leading derivative
            // coefficient many orders below the others
            cx.label("shape:lower-degree+2^-j");
            let bump = p2(-(t.int(0, 44) as i32)) * if t.bool() { -1.0 } else { 1.0 };
            let mut v = if deg == 3 {
                let q: Vec<f64> = (0..3).map(|_| t.int(-32, 32) as f64 / 4.0).collect();
                vec![q[0], (q[0] + 2.0 * q[1]) / 3.0, (q[2] + 2.0 * q[1]) / 3.0, q[2]]
            } else {
                let (a, b) = (t.int(-32, 32) as f64 / 4.0, t.int(-32, 32) as f64 / 4.0);
                vec![a, (a + b) / 2.0, b]
            };
            let j = t.below(n);
            v[j] += bump;
            v
        }
        5 => {
            cx.label("shape:small-integers");
            (0..n).map(|_| t.int(-3, 3) as f64).collect()
        }
        _ => {
            cx.label("shape:continuous");
            (0..n).map(|_| t.range_f64(-16.0, 16.0)).collect()
        }
    }
}

fn shape_exp(shape: &[[f64; 3]], ax: usize) -> i32 {
    ceil_log2(shape.iter().fold(0.0f64, |a, p| a.max(p[ax].abs())))
}

// -------------------------------------------------------------------------------------------------
// placements

fn gap_label(gap: i32, mant: i32) -> &'static str {
    if gap <= mant / 3 {
        "translated:gap<=MANT/3"
    } else if gap <= 2 * mant / 3 {
        "translated:gap<=2MANT/3"
    } else {
        "translated:gap>2MANT/3"
    }
}

fn gen_offset<S: Fl>(t: &mut Tape, e: i32) -> f64 {
    let mant = t.pick(&[1.0f64, 1.0, 1.5, 1.25, 1.9990234375]);
    let o = mant * p2(e);
    if t.bool() {
        -o
    } else {
        o
    }
}

/// Placement for the per-axis clauses (extrema, boxes): the whole exponent range, units may differ per axis.
pub fn gen_place_extrema<S: Fl>(t: &mut Tape, cx: &mut Cx, shape: &[[f64; 3]], dim: usize) -> ([f64; 3], [i32; 3]) {
    let mut off = [0.0f64; 3];
    let mut k = [0i32; 3];
    let s: Vec<i32> = (0..3).map(|ax| shape_exp(shape, ax)).collect();
    match t.below(8) {
        0 => {
            cx.label("place:unit");
        }
        1 | 2 | 3 => {
            let per_axis = t.chance(64);
            if per_axis {
                cx.label("place:scaled,unit-differs-per-axis");
            }
            let kmax_all = (0..dim).map(|ax| S::XEXP - 6 - s[ax]).min().unwrap();
            let draw = |t: &mut Tape, cx: &mut Cx, kmax: i32| -> i32 {
                match t.below(8) {
                    0 | 1 | 2 => {
                        cx.label("place:scaled,subnormal-band");
                        t.int(S::QEXP as i64, (S::NEXP + 8) as i64) as i32
                    }
                    3 | 4 => {
                        cx.label("place:scaled,next-to-overflow");
                        t.int((kmax - if S::MANT == 24 { 24 } else { 48 }) as i64, kmax as i64) as i32
                    }
                    5 | 6 => {
                        cx.label("place:scaled,whole-range");
                        t.int(S::QEXP as i64, kmax as i64) as i32
                    }
                    _ => {
                        cx.label("place:scaled,moderate");
                        t.int(-30, 30) as i32
                    }
                }
            };
            let k0 = draw(t, cx, kmax_all);
            for ax in 0..dim {
                k[ax] = if per_axis { draw(t, cx, S::XEXP - 6 - s[ax]) } else { k0 };
            }
        }
        _ => {
            cx.label("place:translated");
            let k0 = t.int(-20, 20) as i32;
            for ax in 0..dim {
                if t.chance(48) {
                    k[ax] = k0;
                    continue;
                }
                let gap = t.int(1, (S::MANT - 3) as i64) as i32;
                cx.label(gap_label(gap, S::MANT));
                let e = match t.below(8) {
                    0 => {
                        cx.label("translated:offset-next-to-overflow");
                        t.int((S::XEXP - 8 - 20) as i64, (S::XEXP - 8) as i64) as i32
                    }
                    1 => {
                        cx.label("translated:shape-in-subnormal-band");
                        (S::QEXP + gap + s[ax] + t.int(0, 40) as i32).max(S::NEXP)
                    }
                    _ => {
                        if S::MANT == 24 {
                            t.int(-20, 32) as i32
                        } else {
                            t.int(-40, 64) as i32
                        }
                    }
                };
                k[ax] = e - gap - s[ax];
                off[ax] = gen_offset::<S>(t, e);
            }
        }
    }
    (off, k)
}

/// Range of the common unit exponent for the clauses that square coordinate differences (vek's `magnitude` /
/// `distance_squared` are the plain sqrt / sum of squares): differences up to 2^(s+far) must not overflow when
/// squared and summed, and a difference of one unit must keep MANT bits below it when squared.
fn metric_k_range<S: Fl>(s: i32, far: i32) -> (i32, i32) {
    ((S::NEXP + 2 * S::MANT) / 2 + 4, (S::XEXP - 4) / 2 - s - far - 2)
}

/// Placement for the metric clauses (search, length): one unit for all axes, offsets per axis.
pub fn gen_place_metric<S: Fl>(t: &mut Tape, cx: &mut Cx, shape: &[[f64; 3]], dim: usize, far: i32) -> ([f64; 3], [i32; 3]) {
    let mut off = [0.0f64; 3];
    let s = (0..dim).map(|ax| shape_exp(shape, ax)).max().unwrap();
    let (klo, khi) = metric_k_range::<S>(s, far);
    let band = if S::MANT == 24 { 12 } else { 60 };
    let k = match t.below(4) {
        0 => 0,
        1 => {
            cx.label("place:unit-next-to-underflow-of-squares");
            t.int(klo as i64, (klo + band) as i64) as i32
        }
        2 => {
            cx.label("place:unit-next-to-overflow-of-squares");
            t.int((khi - band) as i64, khi as i64) as i32
        }
        _ => t.int(klo as i64, khi as i64) as i32,
    };
    if t.chance(160) {
        cx.label("place:translated");
        for ax in 0..dim {
            if t.chance(48) {
                continue;
            }
            let gap = t.int(1, (S::MANT - 3) as i64) as i32;
            cx.label(gap_label(gap, S::MANT));
            off[ax] = gen_offset::<S>(t, k + s + gap);
        }
    } else if k == 0 {
        cx.label("place:unit");
    } else {
        cx.label("place:scaled");
    }
    (off, [k; 3])
}

// -------------------------------------------------------------------------------------------------
// judges (shape units)

const AXN: [&str; 3] = ["x", "y", "z"];

pub struct AxisR {
    pub vmin: f64,
    pub vmax: f64,
    pub tol: f64,
    /// an interior extremum beats both end values by more than 4 tol
    pub beats: bool,
}

fn in01f(t: f64) -> bool {
    (0.0..=1.0).contains(&t)
}

pub fn describe<S: Fl>(pl: &Placed<S>, ax: usize) -> String {
    format!(
        "controls {:?} = {:?} + {:?} * 2^{}",
        pl.cp.iter().map(|p| p[ax]).collect::<Vec<_>>(),
        pl.off[ax],
        pl.m.iter().map(|p| p[ax]).collect::<Vec<_>>(),
        pl.k[ax]
    )
}

/// `*_inflection(s)`, `min_*`, `max_*`, `*_bounds` on one axis of a placed curve.
pub fn judge_axis_r<S: Fl, C: Cv<S>>(cx: &mut Cx, cv: C, pl: &Placed<S>, ax: usize) -> Result<AxisR, Fail> {
    let n = pl.cp.len();
    let m: Vec<f64> = pl.m.iter().map(|p| p[ax]).collect();
    let axn = AXN[ax];
    let tol = pl.tol(ax);
    // ---- true extremes of the shape: end values, grid, critical parameters
    const GRID: usize = 1024;
    let (da, db, dc) = dcoef(&m);
    let crit = crit_f64(da, db, dc);
    let mut vmin = m[0].min(m[n - 1]);
    let mut vmax = m[0].max(m[n - 1]);
    let ends = (vmin, vmax);
    let mut see = |u: f64| {
        let v = bez1(&m, u);
        vmin = vmin.min(v);
        vmax = vmax.max(v);
    };
    for i in 0..=GRID {
        see(i as f64 / GRID as f64);
    }
    for &r in &crit {
        see(r.max(0.0).min(1.0));
    }
    let beats = ends.0 - vmin > 4.0 * tol || vmax - ends.1 > 4.0 * tol;
    if beats {
        cx.label("interior-extremum-beats-the-end-values-by>4tol");
    }
    // ---- reported inflections: in [0,1], zeros of the derivative
    // dtol: the formula's backward error 256 eps (|A|+|B|+|C|), plus the perturbation of the derivative polynomial
    // by forming A, B, C from translated control values in S (3(e-3c1+3c0-s), 6(c1-2c0+s): <= 36 eps max|c|)
    let dscale = da.abs() + db.abs() + dc.abs();
    let dtol = 256.0 * S::eps() * dscale + 64.0 * S::eps() * pl.maxc_u(ax) + 64.0 * f64::EPSILON * pl.mmax(ax);
    let infl = cv.infl(ax);
    for &r in &infl {
        check!(cx, S::zero() <= r && r <= S::one(), "{} {}_inflection(s) reports {:?}, outside [0,1]; {}", C::NAME, axn, r, describe(pl, ax));
        let d = dbez1(&m, r.f());
        let mut ok = eqv(cx, d, 0.0, dtol);
        if !ok {
            // flat region: a true critical parameter within 1e-2 where the coordinate is the same within tol
            let v = bez1(&m, r.f());
            for &c in &crit {
                if (c - r.f()).abs() <= 1e-2 && eqv(cx, bez1(&m, c), v, tol) {
                    ok = true;
                    cx.label("inflection-accepted-by-flat-region-criterion");
                }
            }
        }
        check!(cx, ok, "{} {}_inflection(s) reports {:?} where the derivative of the shape is {:?} (not a zero; tol {:.3e}, derivative coefficients {:?}); {}", C::NAME, axn, r, d, dtol, (da, db, dc), describe(pl, ax));
    }
    // ---- docs "... an inflection point along the axis, if any": a simple root of the derivative well inside
    // (0,1) that survives every perturbation of size dtol must be reported. D = |p'(r)| = |A| * (distance to the
    // other root); within s = 2 dtol / D of r the perturbed polynomial changes sign as soon as |A| s <= D/4, and
    // (D / max|coef|)^2 > 16 eps keeps the normalised discriminant away from the code's double-root branch.
    let cmax = da.abs().max(db.abs()).max(dc.abs());
    if cmax > 0.0 {
        let mut roots: Vec<f64> = Vec::new();
        if da != 0.0 {
            if db * db - 4.0 * da * dc > 0.0 {
                roots.extend(crit.iter().skip(2).cloned());
            }
        } else if db != 0.0 {
            roots.push(-dc / db);
        }
        for &r in &roots {
            if !(0.0625..=0.9375).contains(&r) {
                continue;
            }
            let d1 = (2.0 * da * r + db).abs();
            if !(d1 > 0.0) {
                continue;
            }
            let s = 2.0 * dtol / d1;
            let normd = d1 / cmax;
            if s <= 1.0 / 256.0 && da.abs() * s <= d1 / 4.0 && normd * normd > 16.0 * S::eps() {
                cx.label("well-conditioned-interior-root(must be reported)");
                let hit = infl.iter().any(|x| (x.f() - r).abs() <= 2.0 * s + 4.0 * S::eps());
                check!(cx, hit, "{} {}_inflection(s) = {:?} misses the interior simple root {:?} of the derivative (derivative coefficients of the shape {:?}, admissible shift {:.3e}); {}", C::NAME, axn, infl, r, (da, db, dc), 2.0 * s, describe(pl, ax));
            }
        }
    }
    // ---- min / max / bounds
    let (bmin, bmax) = cv.bounds(ax);
    for (what, t, is_min) in [("min", cv.min_t(ax), true), ("max", cv.max_t(ax), false), ("bounds.0", bmin, true), ("bounds.1", bmax, false)] {
        check!(cx, S::zero() <= t && t <= S::one(), "{} {}_{} returns parameter {:?}, outside [0,1]; {}", C::NAME, axn, what, t, describe(pl, ax));
        let v = bez1(&m, t.f());
        if is_min {
            check!(cx, le(cx, v, vmin, tol), "{} {}_{} returns t={:?} where the shape coordinate is {:?}, but the curve reaches {:?} on [0,1] (tol {:.3e}; i.e. missed by {:.3e} of the curve's extent on this axis); {}", C::NAME, axn, what, t, v, vmin, tol, (v - vmin) / (vmax - vmin), describe(pl, ax));
        } else {
            check!(cx, le(cx, vmax, v, tol), "{} {}_{} returns t={:?} where the shape coordinate is {:?}, but the curve reaches {:?} on [0,1] (tol {:.3e}; i.e. missed by {:.3e} of the curve's extent on this axis); {}", C::NAME, axn, what, t, v, vmax, tol, (vmax - v) / (vmax - vmin), describe(pl, ax));
        }
        if S::zero() < t && t < S::one() {
            cx.label(if is_min { "min-interior" } else { "max-interior" });
        }
    }
    Ok(AxisR { vmin, vmax, tol, beats })
}

/// A box over the first `dims` axes: each side equals the true extreme (contains + touches), within the
/// parameter tolerance plus one more evaluation.
pub fn judge_box_r<S: Fl>(cx: &mut Cx, name: &str, what: &str, got: (P3<S>, P3<S>), dims: usize, pl: &Placed<S>, truth: &[AxisR]) -> CaseResult {
    for k in 0..dims {
        let tr = &truth[k];
        for (side, g, want) in [("min", got.0[k], tr.vmin), ("max", got.1[k], tr.vmax)] {
            let gu = pl.to_shape(k, g);
            if !eqv(cx, gu, want, 2.0 * tr.tol) {
                let inside = if side == "min" { gu > want } else { gu < want };
                fail!("{} {}().{}.{} = {:?} (shape units {:?}), want {:?} +- {:.3e} ({}); {}", name, what, side, AXN[k], g, gu, want, 2.0 * tr.tol, if inside { "box does not contain the curve" } else if gu.is_finite() { "box does not touch the curve" } else { "not finite" }, describe(pl, k));
            }
        }
    }
    Ok(())
}

pub fn judge_placed<S: Fl, C: Cv<S>>(cx: &mut Cx, pl: &Placed<S>) -> CaseResult {
    let cv = C::build(&pl.cp);
    let mut truth = Vec::new();
    for ax in 0..C::DIM {
        truth.push(judge_axis_r::<S, C>(cx, cv, pl, ax)?);
    }
    judge_box_r::<S>(cx, C::NAME, "aabr", cv.aabr(), 2, pl, &truth)?;
    if let Some(b) = cv.aabb() {
        judge_box_r::<S>(cx, C::NAME, "aabb", b, 3, pl, &truth)?;
    }
    cx.set_nontrivial(truth.iter().any(|t| t.beats));
    Ok(())
}

// -------------------------------------------------------------------------------------------------
// cases

/// Random shapes in random placements: per-axis clauses and boxes.
pub fn extrema_regime_case<S: Fl, C: Cv<S>>(t: &mut Tape, cx: &mut Cx) -> CaseResult {
    let n = C::DEG + 1;
    let mut shape = vec![[0.0f64; 3]; n];
    for ax in 0..C::DIM {
        let a = gen_shape_axis(t, cx, C::DEG);
        for i in 0..n {
            shape[i][ax] = a[i];
        }
    }
    let (off, k) = gen_place_extrema::<S>(t, cx, &shape, C::DIM);
    let pl = place::<S>(&shape, off, k, C::DIM);
    sample!(cx, "{} {} controls={:?} = off {:?} + shape {:?} * 2^{:?}", S::NAME, C::NAME, pl.cp, &pl.off[..C::DIM], pl.m, &pl.k[..C::DIM]);
    judge_placed::<S, C>(cx, &pl)
}

const QUAD_SHAPES: [[f64; 3]; 12] = [
    [0.0, -0.0625, 1.0],
    [0.0, 1.0625, 1.0],
    [0.0, 1.0, 0.0],
    [0.0, -1.0, 0.0],
    [1.0, 0.0, 1.0],
    [0.0, 0.5, 1.0],
    [0.0, 2.0, 1.0],
    [3.0, -1.0, 2.0],
    [0.0, -0.015625, 1.0],
    [1.0, 1.015625, 0.0],
    [0.0, 0.0, 1.0],
    [-1.0, 3.0, -2.0],
];
const CUBIC_SHAPES: [[f64; 4]; 12] = [
    [0.0, 0.0, 3.0, 0.0],
    [0.0, -1.0, -1.0, 0.0],
    [0.0, 3.0, -2.0, 1.0],
    [0.0, 1.0, 2.0, 3.0],
    [0.0, 0.0, 0.0, 1.0],
    [0.0, -0.0625, 0.0, 1.0],
    [0.0, 1.0, 1.0, 0.0],
    [0.0, 2.0, 2.0, 0.0],
    [0.0, 0.5, 1.0625, 1.0],
    [0.0, -3.0, 3.0, 0.0],
    [1.0, 0.0, 0.0, 1.0],
    [2.0, 2.0, -1.0, 2.0],
];

/// (offset mantissa sign / exponent / gap) or a pure unit exponent
#[derive(Clone, Copy)]
enum GridPlace {
    Scaled(i32),
    Translated(i32, i32, bool),
}

fn grid_places<S: Fl>() -> Vec<GridPlace> {
    let mut v = Vec::new();
    let (ks, es, gaps): (&[i32], &[i32], &[i32]) = if S::MANT == 24 {
        (&[-149, -146, -140, -134, -128, -126, -122, -100, -60, -20, 0, 20, 60, 100, 119], &[-100, -10, 8, 16, 30, 100], &[2, 6, 7, 8, 12, 16, 19])
    } else {
        (&[-1074, -1070, -1060, -1045, -1030, -1024, -1022, -1018, -1000, -700, -300, -60, 0, 60, 300, 700, 1000, 1015], &[-600, -20, 8, 23, 40, 600], &[2, 8, 16, 23, 30, 40, 48])
    };
    for &k in ks {
        v.push(GridPlace::Scaled(k));
    }
    for &e in es {
        for &g in gaps {
            v.push(GridPlace::Translated(e, g, false));
            v.push(GridPlace::Translated(e, g, true));
        }
    }
    v
}

pub fn grid_total<S: Fl>() -> u64 {
    (4 * 12 * grid_places::<S>().len()) as u64
}

/// Deterministic grid: 12 hand-picked shapes per degree (shallow extrema, symmetric bulges, two interior extrema,
/// straight, repeated control values, the reviewers' examples) x every listed unit exponent / (offset exponent,
/// gap, sign) x the four curve types; axis `a` uses shape `i + 5a`, negated on y, reversed on z, offset sign
/// flipped on y.
pub fn grid_case<S: Fl>(idx: u64, cx: &mut Cx) -> CaseResult {
    use vek::bezier::repr_c::{CubicBezier2, CubicBezier3, QuadraticBezier2, QuadraticBezier3};
    let places = grid_places::<S>();
    let ty = (idx % 4) as usize;
    let si = ((idx / 4) % 12) as usize;
    let place_ = places[(idx / 48) as usize];
    fn run<S: Fl, C: Cv<S>>(cx: &mut Cx, si: usize, gp: GridPlace) -> CaseResult {
        let n = C::DEG + 1;
        let mut shape = vec![[0.0f64; 3]; n];
        for ax in 0..C::DIM {
            let j = (si + 5 * ax) % 12;
            for i in 0..n {
                let src = if ax == 2 { n - 1 - i } else { i };
                let v = if C::DEG == 3 { CUBIC_SHAPES[j][src] } else { QUAD_SHAPES[j][src] };
                shape[i][ax] = if ax == 1 { -v } else { v };
            }
        }
        let mut off = [0.0f64; 3];
        let mut k = [0i32; 3];
        match gp {
            GridPlace::Scaled(kk) => {
                k = [kk; 3];
                cx.label(if kk < S::NEXP + 8 { "grid:scaled,subnormal-band" } else if kk > S::XEXP - 40 { "grid:scaled,next-to-overflow" } else { "grid:scaled" });
            }
            GridPlace::Translated(e, g, neg) => {
                cx.label("grid:translated");
                for ax in 0..C::DIM {
                    k[ax] = e - g - shape_exp(&shape, ax);
                    off[ax] = if neg != (ax == 1) { -p2(e) } else { p2(e) };
                }
            }
        }
        let pl = place::<S>(&shape, off, k, C::DIM);
        sample!(cx, "{} {} controls={:?} = off {:?} + shape {:?} * 2^{:?}", S::NAME, C::NAME, pl.cp, &pl.off[..C::DIM], pl.m, &pl.k[..C::DIM]);
        judge_placed::<S, C>(cx, &pl)
    }
    match ty {
        0 => run::<S, QuadraticBezier2<S>>(cx, si, place_),
        1 => run::<S, QuadraticBezier3<S>>(cx, si, place_),
        2 => run::<S, CubicBezier2<S>>(cx, si, place_),
        _ => run::<S, CubicBezier3<S>>(cx, si, place_),
    }
}

// -------------------------------------------------------------------------------------------------
// closest-point search

/// error bound of a squared distance whose curve point carries the error `e` (all in shape units)
pub(crate) fn d2_err<S: Fl>(d: f64, e: f64) -> f64 {
    2.0 * d.sqrt() * e + e * e + 8.0 * S::eps() * d
}

/// Per-point evaluation error in shape units: <= 8 eps max|control| per axis (5 roundings inside `evaluate`,
/// rounded parameter), combined over the axes; times the amplification (|t|+|1-t|)^deg outside [0,1].
pub(crate) fn eval_err<S: Fl>(pl: &Placed<S>, dim: usize, deg: usize, t: f64) -> f64 {
    let mut s = 0.0;
    for ax in 0..dim {
        let e = 8.0 * S::eps() * pl.maxc_u(ax) + 8.0 * pl.quantum_u(ax) + 4.0 * deg as f64 * S::eps() * pl.mmax(ax);
        s += e * e;
    }
    s.sqrt() * (t.abs() + (1.0 - t).abs()).max(1.0).powi(deg as i32)
}

pub(crate) fn gen_metric_shape(t: &mut Tape, n: usize, dim: usize) -> Vec<[f64; 3]> {
    let mut shape = vec![[0.0f64; 3]; n];
    let ints = t.chance(64);
    for p in shape.iter_mut() {
        for x in p.iter_mut().take(dim) {
            *x = if ints { t.int(-4, 4) as f64 } else { t.int(-128, 128) as f64 / 16.0 };
        }
    }
    shape
}

pub fn search_regime_case<S: Fl, C: Cv<S>>(t: &mut Tape, cx: &mut Cx) -> CaseResult {
    let n = C::DEG + 1;
    let shape = gen_metric_shape(t, n, C::DIM);
    // farthest query: 2^13..2^14 diameters of the control polygon away. (The binary phase keeps stepping by the
    // current half interval while the distance decreases, so along a straight evenly spaced curve it walks
    // distance / speed / h steps: the distance is bounded relative to the curve's own size, not to its offset.)
    const FAR_J: i32 = 13;
    let (off, k) = gen_place_metric::<S>(t, cx, &shape, C::DIM, FAR_J + 3);
    let pl = place::<S>(&shape, off, k, C::DIM);
    let cv = C::build(&pl.cp);
    let u = p2(k[0]);
    let mut diam = 0.0f64;
    for i in 0..n {
        for j in 0..i {
            diam = diam.max(dist2(&pl.m[i], &pl.m[j]).sqrt());
        }
    }
    if diam == 0.0 {
        cx.label("point-curve");
        diam = 1.0;
    }
    // query in shape units: on the curve, next to it, anywhere, far away
    let mode = t.below(4);
    let base = bezn(&pl.m, t.below(9) as f64 / 8.0);
    let mut p = [S::zero(); 3];
    let mut q = [0.0f64; 3];
    for ax in 0..C::DIM {
        let w = match mode {
            0 => base[ax],
            1 => base[ax] + p2(-(t.int(0, 12) as i32)) * t.pick(&[-1.0, 0.0, 1.0]),
            2 => t.range_f64(-16.0, 16.0),
            _ => base[ax] + diam * p2(t.int(5, FAR_J as i64) as i32) * (1.0 + t.unit_f64()) * if t.bool() { -1.0 } else { 1.0 },
        };
        p[ax] = S::of(off[ax] + w * u);
        q[ax] = (p[ax].f() - off[ax]) / u;
    }
    cx.label(["query:on-the-curve", "query:next-to-the-curve", "query:anywhere", "query:far-away"][mode]);
    let direct = t.chance(64);
    // Requested parameter precision. On a translated curve the evaluated points are quantised to ulp(offset), so
    // the computed distance is a staircase: the binary phase can sit on a lucky stair through all coarse levels
    // and then walk a parameter distance ~1 in steps of the first half interval that stays on the stair
    // (observed: 4.35e9 steps = 23 s for QuadraticBezier2<f64> with epsilon = 2 EPSILON, see assumptions).
    // That is running time, not a clause of the property: translated cases ask for 1e-6 at the finest (<= ~1e6
    // steps), only untranslated ones go down to 2 EPSILON.
    let translated = off.iter().any(|o| *o != 0.0);
    let fine = t.chance(24);
    let eps: S = if fine && !translated { S::epsilon() * S::i(2) } else { S::of(t.pick(&[0.3f64, 1e-2, 1e-3, 1e-4, 1e-6])) };
    let (tt, pt, coarse_t): (S, P3<S>, Vec<S>) = if !direct {
        let steps: u16 = 1 + t.below(32) as u16;
        let coarse_t: Vec<S> = (0..steps).map(|i| <S as From<u16>>::from(i) / <S as From<u16>>::from(steps)).collect();
        sample!(cx, "{} {} controls={:?} = off {:?} + shape {:?} * 2^{} p={:?} steps={} eps={:?}", S::NAME, C::NAME, pl.cp, &off[..C::DIM], pl.m, k[0], p, steps, eps);
        let (tt, pt) = cv.search_steps(p, steps, eps);
        cx.label("by_steps");
        (tt, pt, coarse_t)
    } else {
        let mcount = t.below(5);
        let coarse_t: Vec<S> = (0..mcount).map(|_| S::q(t.below(17) as i64, 16)).collect();
        let h: S = S::q(1, t.pick(&[2i64, 4, 8, 16]));
        let coarse: Vec<(S, P3<S>)> = coarse_t.iter().map(|&u| (u, cv.eval(u))).collect();
        sample!(cx, "{} {} controls={:?} = off {:?} + shape {:?} * 2^{} p={:?} coarse={:?} h={:?} eps={:?}", S::NAME, C::NAME, pl.cp, &off[..C::DIM], pl.m, k[0], p, coarse_t, h, eps);
        let shape = t.below(4);
        cx.label(["coarse-iter-exact-hint", "coarse-iter-filtered", "coarse-iter-from_fn", "coarse-iter-reversed"][shape]);
        let (tt, pt) = cv.search(p, coarse, h, eps, shape);
        cx.label("direct");
        (tt, pt, coarse_t)
    };
    // returned point is the curve point at the returned parameter
    let ev = cv.eval(tt);
    check_eq!(cx, pt, ev, "{} search: returned point is not evaluate(returned t={:?})", C::NAME, tt);
    check!(cx, tt.f().is_finite(), "{} search returns the parameter {:?}; controls {:?} p={:?}", C::NAME, tt, pl.cp, p);
    let want_pt = bezn(&pl.m, tt.f());
    let e_ret = eval_err(&pl, C::DIM, C::DEG, tt.f());
    let mut ptu = [0.0f64; 3];
    for ax in 0..C::DIM {
        ptu[ax] = pl.to_shape(ax, pt[ax]);
        check!(cx, eqv(cx, ptu[ax], want_pt[ax], 4.0 * e_ret), "{} search: returned point {:?} (shape units {:?}) is not the curve point {:?} at the returned t={:?} (tol {:.3e}); controls {:?} p={:?}", C::NAME, pt, ptu, want_pt, tt, 4.0 * e_ret, pl.cp, p);
    }
    // no farther than the end point and any coarse sample. The code keeps the candidate with the smallest
    // *computed* squared distance; the returned point's computed distance is that of the very point returned
    // (only the subtraction and the sum of squares round: 8 eps d), a coarse sample's true curve point differs
    // from the evaluated one by eval_err.
    let dret = dist2(&ptu, &q);
    let e_c = eval_err(&pl, C::DIM, C::DEG, 0.5);
    let dend = dist2(&pl.m[C::DEG], &q);
    let mut best = dend;
    check!(cx, le(cx, dret, dend, d2_err::<S>(dret, 0.0) + d2_err::<S>(dend, 0.0)), "{} search returns t={:?} at squared distance {:?} (shape units), farther than the end point ({:?}); controls {:?} p={:?} (shape {:?}, query {:?})", C::NAME, tt, dret, dend, pl.cp, p, pl.m, q);
    for &uu in &coarse_t {
        let d = dist2(&bezn(&pl.m, uu.f()), &q);
        check!(cx, le(cx, dret, d, d2_err::<S>(dret, 0.0) + d2_err::<S>(d, e_c)), "{} search returns t={:?} at squared distance {:?} (shape units), farther than the coarse sample t={:?} ({:?}); controls {:?} p={:?} (shape {:?}, query {:?})", C::NAME, tt, dret, uu, d, pl.cp, p, pl.m, q);
        if d < best {
            best = d;
        }
    }
    let improved = dret < best;
    if improved {
        cx.label("binary-phase-improved");
    }
    if !in01f(tt.f()) {
        cx.label("observation:returned-t-outside-[0,1]");
    }
    cx.set_nontrivial(improved || coarse_t.len() >= 2);
    Ok(())
}

// -------------------------------------------------------------------------------------------------
// length

pub(crate) fn seg(a: &[f64; 3], b: &[f64; 3]) -> f64 {
    dist2(a, b).sqrt()
}

pub(crate) fn polyline_u(m: &[[f64; 3]], s: u32) -> f64 {
    let mut l = 0.0;
    let mut prev = m[0];
    for i in 1..=(s + 1) {
        let q = bezn(m, i as f64 / (s + 1) as f64);
        l += seg(&q, &prev);
        prev = q;
    }
    l
}

pub fn length_regime_case<S: Fl, C: Cv<S>>(t: &mut Tape, cx: &mut Cx) -> CaseResult {
    let n = C::DEG + 1;
    let mut shape = gen_metric_shape(t, n, C::DIM);
    if t.chance(48) {
        // straight, evenly or unevenly spaced: chord == polygon
        cx.label("straight");
        let (o, d) = (shape[0], shape[1]);
        let mut lam = 0.0;
        for p in shape.iter_mut() {
            for ax in 0..C::DIM {
                p[ax] = o[ax] + d[ax] * lam / 4.0;
            }
            lam += 1.0 + t.below(4) as f64;
        }
    }
    let (off, k) = gen_place_metric::<S>(t, cx, &shape, C::DIM, 2);
    let pl = place::<S>(&shape, off, k, C::DIM);
    let cv = C::build(&pl.cp);
    let u = p2(k[0]);
    let s: u16 = match t.below(4) {
        0 => t.below(3) as u16,
        1 => t.below(16) as u16,
        2 => t.below(64) as u16,
        _ => t.below16(400) as u16,
    };
    sample!(cx, "{} {} controls={:?} = off {:?} + shape {:?} * 2^{} step_count={}", S::NAME, C::NAME, pl.cp, &off[..C::DIM], pl.m, k[0], s);
    let l1 = cv.length(s).f() / u;
    let l2 = cv.length(2 * s + 1).f() / u;
    let chord = seg(&pl.m[0], &pl.m[C::DEG]);
    let mut poly = 0.0;
    for i in 0..C::DEG {
        poly += seg(&pl.m[i], &pl.m[i + 1]);
    }
    // every segment end carries eval_err; sqrt and the running sum round relative to the length
    let e = eval_err(&pl, C::DIM, C::DEG, 0.5);
    let tol = |segs: u32| segs as f64 * 2.0 * e + 4.0 * S::eps() * (segs as f64 + 2.0) * poly;
    let n1 = s as u32 + 1;
    let n2 = 2 * s as u32 + 2;
    check!(cx, le(cx, chord, l1, tol(n1)), "{} length_by_discretization({}) = {:?} shape units is shorter than the chord {:?}; controls {:?} (shape {:?})", C::NAME, s, l1, chord, pl.cp, pl.m);
    check!(cx, le(cx, l1, poly, tol(n1)), "{} length_by_discretization({}) = {:?} shape units exceeds the control polygon {:?}; controls {:?} (shape {:?})", C::NAME, s, l1, poly, pl.cp, pl.m);
    check!(cx, le(cx, chord, l2, tol(n2)), "{} length_by_discretization({}) = {:?} shape units is shorter than the chord {:?}; controls {:?} (shape {:?})", C::NAME, 2 * s + 1, l2, chord, pl.cp, pl.m);
    check!(cx, le(cx, l2, poly, tol(n2)), "{} length_by_discretization({}) = {:?} shape units exceeds the control polygon {:?}; controls {:?} (shape {:?})", C::NAME, 2 * s + 1, l2, poly, pl.cp, pl.m);
    check!(cx, le(cx, l1, l2, tol(n1) + tol(n2)), "{} length decreases under refinement by doubling: L({})={:?} > L({})={:?} (shape units); controls {:?} (shape {:?})", C::NAME, s, l1, 2 * s + 1, l2, pl.cp, pl.m);
    let w1 = polyline_u(&pl.m, s as u32);
    check!(cx, eqv(cx, l1, w1, tol(n1)), "{} length_by_discretization({}) = {:?} shape units, the polyline with {} segments has length {:?} (tol {:.3e}); controls {:?} (shape {:?})", C::NAME, s, l1, n1, w1, tol(n1), pl.cp, pl.m);
    let w2 = polyline_u(&pl.m, 2 * s as u32 + 1);
    check!(cx, eqv(cx, l2, w2, tol(n2)), "{} length_by_discretization({}) = {:?} shape units, the polyline with {} segments has length {:?} (tol {:.3e}); controls {:?} (shape {:?})", C::NAME, 2 * s + 1, l2, n2, w2, tol(n2), pl.cp, pl.m);
    let curved = poly - chord > 1e-3 * poly && poly - chord > 8.0 * tol(n2);
    if curved {
        cx.label("curved(polygon>chord beyond the tolerance)");
    }
    cx.set_nontrivial(curved);
    Ok(())
}
