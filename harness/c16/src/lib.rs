//! C16 — disks, spheres, segments, rays: containment, distance and hit queries are exact.
//!
//! Layout: `round.rs` (Disk / Sphere), `segment.rs` (LineSegment2/3), `ray.rs` (Ray::triangle_intersection);
//! `round_scale.rs` (scaled / overflowing / negative-radius disks and spheres, tiny and huge shapes) and
//! `ray_scale.rs` (ray-triangle with triangle size, direction length and distance scaled by powers of two),
//! `ray_edge.rs` (floats: crossings exactly on an edge / vertex, both windings and senses, exactly evaluable),
//! `round_near.rs` (points a relative 1e-6 .. 1e-15 from the sphere, diagonals / axes, exact i128 oracle),
//! `placed.rs` / `placed_ray.rs` (POSITION-RELATIVE regimes: figures small compared with their distance from the
//! origin -- offset + local integer figure on a dyadic grid, every coordinate exact -- and mixed placements).
//! All oracles work on plain arrays in the *oracle domain* `S::O` (`Rat` for `Rat`, `f64` for `f64`/`f32`)
//! and never call the vek function they judge.

use vkit::*;

/// Scalar domain together with the domain its oracle is evaluated in.
pub trait Lift: Dom {
    type O: Dom;
    fn lift(self) -> Self::O;
    /// Square root in the oracle domain when it can be given exactly (always for floats, i.e. correctly rounded).
    fn sqrt_exact(x: Self::O) -> Option<Self::O>;
}
impl Lift for Rat {
    type O = Rat;
    fn lift(self) -> Rat {
        self
    }
    fn sqrt_exact(x: Rat) -> Option<Rat> {
        x.exact_sqrt()
    }
}
impl Lift for f64 {
    type O = f64;
    fn lift(self) -> f64 {
        self
    }
    fn sqrt_exact(x: f64) -> Option<f64> {
        Some(x.sqrt())
    }
}
impl Lift for f32 {
    type O = f64;
    fn lift(self) -> f64 {
        self as f64
    }
    fn sqrt_exact(x: f64) -> Option<f64> {
        Some(x.sqrt())
    }
}

pub fn lift_v<S: Lift, const N: usize>(a: &[S; N]) -> [S::O; N] {
    let mut r = [<S::O as num_traits::Zero>::zero(); N];
    for i in 0..N {
        r[i] = a[i].lift();
    }
    r
}

/// `got` equals `want`: exactly in the exact domain, within `k * eps(S) * max(1, scale)` for floats
/// (both already lifted to the oracle domain).
pub fn near<S: Lift>(cx: &mut Cx, got: S::O, want: S::O, scale: f64, k: f64) -> bool {
    near_fl::<S>(cx, got, want, scale, k, 1.0)
}

/// `near` with an explicit floor of the scale: `k * eps(S) * max(floor, scale)`. `floor = 0` makes the
/// tolerance purely relative to the stated magnitude (configurations scaled by 2^k).
pub fn near_fl<S: Lift>(cx: &mut Cx, got: S::O, want: S::O, scale: f64, k: f64, floor: f64) -> bool {
    cx.count();
    if S::EXACT {
        got == want
    } else {
        let (x, y) = (got.f(), want.f());
        if x == y {
            return true;
        }
        let tol = k * S::eps() * scale.abs().max(floor);
        let d = (x - y).abs();
        if !d.is_finite() {
            return false;
        }
        cx.note_err(d / tol);
        d <= tol
    }
}

/// `a >= b`: exactly in the exact domain, `a >= b - k*eps(S)*max(1,scale)` for floats.
pub fn ge_tol<S: Lift>(cx: &mut Cx, a: S::O, b: S::O, scale: f64, k: f64) -> bool {
    ge_tol_fl::<S>(cx, a, b, scale, k, 1.0)
}
pub fn ge_tol_fl<S: Lift>(cx: &mut Cx, a: S::O, b: S::O, scale: f64, k: f64, floor: f64) -> bool {
    cx.count();
    if S::EXACT {
        a >= b
    } else {
        let tol = k * S::eps() * scale.abs().max(floor);
        let (x, y) = (a.f(), b.f());
        if !(x.is_finite() && y.is_finite()) {
            return false;
        }
        if y > x {
            cx.note_err((y - x) / tol);
        }
        x >= y - tol
    }
}

macro_rules! near {
    ($cx:expr, $S:ty, $got:expr, $want:expr, $scale:expr, $k:expr, $($arg:tt)*) => {{
        let g = $got;
        let w = $want;
        if !$crate::near::<$S>($cx, g, w, $scale as f64, $k as f64) {
            return Err(vkit::Fail::Violation(format!("{}: got {:?}, want {:?} (scale {:.3e}, k {})", format!($($arg)*), g, w, $scale as f64, $k as f64)));
        }
    }};
}
/// `near!` / `ge_tol!` with an explicit floor of the scale (first argument after the domain).
macro_rules! near_fl {
    ($cx:expr, $S:ty, $floor:expr, $got:expr, $want:expr, $scale:expr, $k:expr, $($arg:tt)*) => {{
        let g = $got;
        let w = $want;
        if !$crate::near_fl::<$S>($cx, g, w, $scale as f64, $k as f64, $floor as f64) {
            return Err(vkit::Fail::Violation(format!("{}: got {:?}, want {:?} (scale {:.3e}, k {}, floor {})", format!($($arg)*), g, w, $scale as f64, $k as f64, $floor as f64)));
        }
    }};
}
macro_rules! ge_tol_fl {
    ($cx:expr, $S:ty, $floor:expr, $a:expr, $b:expr, $scale:expr, $k:expr, $($arg:tt)*) => {{
        let a = $a;
        let b = $b;
        if !$crate::ge_tol_fl::<$S>($cx, a, b, $scale as f64, $k as f64, $floor as f64) {
            return Err(vkit::Fail::Violation(format!("{}: {:?} < {:?} (scale {:.3e}, k {}, floor {})", format!($($arg)*), a, b, $scale as f64, $k as f64, $floor as f64)));
        }
    }};
}
macro_rules! ge_tol {
    ($cx:expr, $S:ty, $a:expr, $b:expr, $scale:expr, $k:expr, $($arg:tt)*) => {{
        let a = $a;
        let b = $b;
        if !$crate::ge_tol::<$S>($cx, a, b, $scale as f64, $k as f64) {
            return Err(vkit::Fail::Violation(format!("{}: {:?} < {:?} (scale {:.3e}, k {})", format!($($arg)*), a, b, $scale as f64, $k as f64)));
        }
    }};
}

/// Primitive Pythagorean pairs / triples (components, hypotenuse): every vector has an integer length.
pub const PYTH2: [([i64; 3], i64); 6] = [([1, 0, 0], 1), ([3, 4, 0], 5), ([5, 12, 0], 13), ([8, 15, 0], 17), ([7, 24, 0], 25), ([20, 21, 0], 29)];
pub const PYTH3: [([i64; 3], i64); 12] = [
    ([1, 0, 0], 1),
    ([3, 4, 0], 5),
    ([1, 2, 2], 3),
    ([2, 3, 6], 7),
    ([1, 4, 8], 9),
    ([4, 4, 7], 9),
    ([2, 6, 9], 11),
    ([6, 6, 7], 11),
    ([3, 4, 12], 13),
    ([2, 10, 11], 15),
    ([5, 12, 0], 13),
    ([12, 15, 16], 25),
];

/// A Pythagorean vector of dimension N (2 or 3) with a tape-chosen permutation and signs, and its integer length.
pub fn pyth<const N: usize>(t: &mut Tape) -> ([i64; N], i64) {
    let (a, h) = if N == 2 { t.pick(&PYTH2) } else { t.pick(&PYTH3) };
    let rot = t.below(N);
    let mut w = [0i64; N];
    for i in 0..N {
        w[i] = a[(i + rot) % N];
    }
    if t.bool() {
        w.swap(0, 1);
    }
    for i in 0..N {
        if t.bool() {
            w[i] = -w[i];
        }
    }
    (w, h)
}

pub fn isqrt_floor(x: i64) -> i64 {
    debug_assert!(x >= 0);
    let mut r = (x as f64).sqrt() as i64;
    while r * r > x {
        r -= 1;
    }
    while (r + 1) * (r + 1) <= x {
        r += 1;
    }
    r
}

pub fn isqrt_floor128(x: i128) -> i128 {
    debug_assert!(x >= 0);
    let mut r = (x as f64).sqrt() as i128;
    while r * r > x {
        r -= 1;
    }
    while (r + 1) * (r + 1) <= x {
        r += 1;
    }
    r
}

pub fn sq_dist<O: Dom, const N: usize>(a: &[O; N], b: &[O; N]) -> O {
    let d = vkit::refmath::subv(a, b);
    vkit::refmath::dot(&d, &d)
}

pub fn nonzero_count<S: Dom, const N: usize>(a: &[S; N]) -> usize {
    a.iter().filter(|x| !x.is_zero()).count()
}

mod placed;
mod placed_ray;
mod ray;
mod ray_edge;
mod ray_scale;
mod round;
mod round_near;
mod round_scale;
mod segment;

pub fn property() -> Property {
    let mut checks = Vec::new();
    round::checks(&mut checks);
    segment::checks(&mut checks);
    ray::checks(&mut checks);
    round_scale::checks(&mut checks);
    ray_scale::checks(&mut checks);
    round_near::checks(&mut checks);
    ray_edge::checks(&mut checks);
    placed::checks(&mut checks);
    placed_ray::checks(&mut checks);
    Property {
        id: "C16",
        rule: "cases are byte tapes generated by proptest (uniform bytes, fixed seed) decoded by constructive generators into labelled classes (plus two exhaustive small integer grids); \
a disk/sphere case is non-trivial when the radius is within one grid step (resp. the chosen delta) of the distance — tangency, just inside, just outside — or the offset has >= 2 non-zero components; \
a shape case (bounds, measures) when the radius is neither 0 nor 1; a segment case when the segment is not axis-aligned or the foot of the perpendicular is at/next to an end or outside the segment; \
a ray case when the crossing is on/next to an edge or vertex, the triangle is degenerate, the ray is parallel to the plane, or the direction has >= 2 non-zero components; \
the *-scale-*, *-tiny-*, *-huge-* checks apply the same rules to the same arrangements multiplied exactly by powers of two (the scale regime is a label, not part of the rule); every ray-edge-* case counts (crossing exactly on an edge / vertex, or an exact control) unless it is labelled not exactly evaluable; a *-near-* case counts when |D2 - R^2| > 4 eps R^2 (asserted); every *-neg-* and *-shape-scale-* case counts (negative / special radius resp. radius far from 1 by construction); a *-placed-* case counts when |offset| / figure size >= 2^4 (or the placement is mixed: figure and query / ray origin at different offsets) and, for segments, start != end, for disks / spheres, the verdict is asserted; distinct = distinct consumed tape prefix per check",
        assumptions: &[
            "rustc and the proptest runner/shrinker are trusted",
            "oracles: integer / rational squared-distance comparison (no sqrt), Cramer solve through vkit::refmath::det (Leibniz), clamped-parameter closed form plus a 257-point sampling of the segment; none calls the vek function it judges",
            "exact rational arithmetic (Rat over i128); irrational sqrt / i128 overflow poison the case, which is discarded and counted; Rat distances are therefore checked on Pythagorean configurations",
            "f32/f64 containment and collision are decided exactly only on the integer grid |coord| <= 1000: differences, squares and their sum (<= 1.2e7 < 2^24) are exact, IEEE sqrt is correctly rounded and monotone, fl(sqrt(R^2)) = R and fl(sqrt(R^2+1)) > R for every integer R < 4096 (1/(2R+1) > ulp(R)/2), so `sqrt(d2) <= R` equals `d2 <= R^2`",
            "scaled integer grid (disk/sphere-scale-*): the same exactness argument holds for the grid times 2^k as long as every square and the sum d2 * 2^2k is a normal, finite number (f64: -500 <= k, d2 * 4^k < 2^1023; f32: -60 <= k, d2 * 4^k < 2^127; f64 additionally integer d2 < 2^48 and R < 2^25, where R (2R+1) < 2^53 keeps sqrt(R^2+1) more than half an ulp above R). Where d^2 may overflow, the documented formula `distance <= radius` sees an infinite distance: 'outside -> false' is still asserted, 'inside -> true' is NOT (any implementation that squares the coordinates loses it); squares that underflow (k below the stated bounds) are not generated",
            "negative radii (*-neg-*): the statement has no restriction on the radius and vek documents none, so it is read literally: no distance is <= a negative radius or a negative sum of radii, hence contains_point / collides_with_* are false (one negative radius with a non-negative sum: d <= r1 + r2); radius -0.0 is 0, radius +inf contains / collides with every finite shape, -inf with none; NaN radii are not generated. The collision vector is only called with radii >= 0 (tangency at a negative distance has no meaning); bounds and measures of negative radii are checked against the literal formulas only",
            "ray-scale-*: integer configurations, positions * 2^kt, direction * 2^kd (f64 |kt| <= 200, |kd| <= 100; f32 |kt| <= 30, |kd| <= 20; Rat kt in -28..12, |kd| <= 14; hit parameter up to 2^30 / 2^8 / 2^10 direction lengths): all of vek's intermediate products stay normal finite numbers, the oracle is an exact i128 Cramer solve. 'parallel' means a determinant that vanishes to within rounding RELATIVE to its factors: cases with |a| <= 2 eps * max|edge1_i| * max|(direction x edge2)_i| (a = edge1 . (direction x edge2) = det * 2^(2kt+kd); a scale-free ratio of the integer configuration; for rounded unit directions plus the forward error bound 32 eps * sum|terms| of the computed a) are not asserted; every other non-zero determinant is asserted as a proper crossing however small |a| is in absolute terms (an absolute threshold T::epsilon() made triangles smaller than ~sqrt(eps) invisible: finding F15, repaired). Floats: hit/miss is asserted when every barycentric coordinate is farther from 0 than its forward error bound 2 * 16 eps * (sum|numerator terms| + |u| sum|determinant terms|) / |det| + 4 eps |u|, the parameter within the same bound; crossings exactly on an edge are decided in Rat only (there also 2^-20 .. 2^-60 beside an edge)",
            "ray-edge-*: floats decide crossings exactly on the boundary only where no rounding can occur: integer inputs times 2^k, determinant +-2^m (unimodular columns times powers of two, so the reciprocal is exact), barycentric coordinates multiples of 1/4, integer hit parameter, and the largest sum of |terms| of every dot / cross product of the inputs below 2^24 (f32) / 2^53 (f64) -- checked per case, otherwise not asserted. Then every correct evaluation yields exact u, v, u+v, tau, and Some(tau) with origin + tau*direction == crossing is compared with ==. With determinant 3*2^m / 5*2^m (edges through v0 and vertex v0 only: the deciding numerators are exact zeros, the other coordinates are >= 1/4 from their bounds) the parameter is compared within 4 eps. |a| >= 16 T::epsilon() by construction",
            "*-near-*: integer coordinates (|coordinate| < 2^53 resp. 2^24, differences exact), exact i128 oracle D2 <= R^2; the documented formula sqrt(sum of squares) <= radius has relative error <= 2.5 u in the distance (3 roundings under the sqrt count half, the sqrt one; the radius and r1 + r2 are exact), so it is forced wherever |D2 - R^2| > 5 u R^2; the band |D2 - R^2| <= 4 eps R^2 = 8 u R^2 (relative 2 eps in the distance: 4.4e-16 f64, 2.4e-7 f32) is not asserted, everything else is",
            "tolerances of every scaled check are relative to the magnitudes at that scale (no floor of 1): seg*-tiny/huge 32..64 eps * max|coordinate| (squares: 4 max^2), shape-scale 4..6 eps * |result|, collision vector 8 eps * |off_i|/d * (r1+r2+d) * 2^k",
            "preconditions of the base checks: radii >= 0; distinct centres for the collision vector; segments are either exactly degenerate (start == end, for which the code returns start) or ordinary: the seg*-tiny checks scale the arrangements down to 2^-40 so that 0 < |end-start|^2 <= T::epsilon() is covered (the base seg* checks keep squared length >= 1/64); ray-triangle determinants of ray-rat / ray-f64 are exactly 0 or >= 1e-3 in magnitude (kept clear of any parallel-test threshold; Rat's epsilon is 2^-52) -- the ray-scale-* checks cover small determinants at every scale; seg*-huge scale up to 2^400 (f32 2^44, Rat 2^16) where |end-start|^2 and the dot products stay finite",
            "*-placed-*: every coordinate is an integer number of grid units 2^e (f32 |e| <= 20, f64 -60..40) below 2^24 / 2^53 in magnitude, hence exactly representable (verified per case, otherwise discarded: never happens by construction), and so are the differences vek forms first (p - start, end - start, centre - p, v1 - v0, origin - v0). Segments: with t = num/den exact (i128), A = sum |(p-start)_i (end-start)_i| and dt = (N+2) eps (A/den + |t|) (bound of the computed parameter: N products, N-1 sums, the same for |end-start|^2, one division), a point with t >= 1 + dt (t <= -dt), or with num >= den (num <= 0) when A < 2^mant and den < 2^mant make every operation exact, must project on END (START) with == (clamp gives exactly 1 / 0 and start + (end-start) * 1 is exact); otherwise coordinate i is within eps * max(|start_i|, |end_i|) + |d_i| (dt + eps (1 + dt)) + 4 eps_f64 |d_i| (oracle rounding) of the exact foot -- the derived bound is half of the first term -- and inside [min, max] of the two ends on that axis (monotone rounding, representable ends); distance_to_point within (4 eps + 4 eps_f64) * distance + the norm of the coordinate tolerances (0 for a decided clamp). What is NOT asserted: anything tighter than 1..2 ulps of the coordinates for a foot strictly inside. Disks / spheres: D2 < 2^22 (f32) / 2^48 (f64) exactly evaluable; `true` forced iff D2 <= R^2, `false` forced iff D2 > (R + ulp(R)/2)^2, nothing asserted in between (never met in the quick tier); radii grid integers or with <= 12 fraction bits, r1 + r2 exact; one far offset for the whole figure (a far point with a near centre needs a large radius: that is disk-int / *-near-*); bounds = the correctly rounded centre -+ radius (== the exact integer where representable, within half an ulp otherwise); collision vector within 8 eps |v_i|/d (r1+r2+d) of (v/d)(r1+r2-d) in LOCAL units (it depends on exact differences only). Rays: margins and tolerances of ray-scale-* evaluated on the local integer configuration (they do not involve the offset); far ray origins (up to 2^22 / 2^51 direction lengths) are asserted as far as those bounds allow, rounded unit directions only up to 2^24 direction lengths (i128 headroom of the oracle)",
            "the ray direction need not be normalised for the asserted statement (Some(t) with origin + t*direction the crossing point); a share of the cases uses exactly normalised (Pythagorean) directions",
            "float tolerances are k * eps(S) * scale with the k and scale stated at each comparison; max observed error/tolerance is recorded in the evidence",
        ],
        checks,
        max_discard_frac: 0.1,
    }
}
