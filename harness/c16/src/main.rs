fn main() {
    vkit::driver::main(c16::property())
}
