//! POSITION-RELATIVE regimes: figures that are small compared with their distance from the origin.
//!
//! The `*-scale-*`, `*-tiny-*`, `*-huge-*` checks multiply a whole arrangement by 2^k, which keeps the ratio
//! (feature size / distance from the origin) fixed; the `*-near-*` checks keep the centre within one radius of the
//! origin. Here every case is `offset + local figure`:
//!
//! * everything lives on a dyadic grid of unit 2^e (e from the tape): every coordinate is an INTEGER number of
//!   units with magnitude below 2^24 (f32) / 2^53 (f64), hence exactly representable (verified per case);
//! * the local figure (segment + query point, disk / sphere + point / second shape) is made of small integers
//!   (|coordinate| < 2^b), the offset is a vector of large integers of magnitude 2^(b + rho) -- an exact power of
//!   two, a full-mantissa odd number, or the top of a binade; all axes / one axis / staggered / diagonal;
//!   rho = log2(|offset| / figure size) runs from 0 to 22 (f32) / 50 (f64), up to the point where the unit is ONE
//!   ulp of the coordinates (a segment (1, 1) units long is then 1 ulp long and still a segment);
//! * mixed placements: figure at the origin with the query point far away, figure far away with the query at the
//!   origin, two unrelated far offsets, a query far along the normal of the segment.
//!
//! Oracle: the same query answered for the integers in exact i128 arithmetic (parametric minimisation num / den
//! for the segment, D2 <= R^2 for the shapes); no vek function is called by it.
//!
//! What is demanded (and why the unchanged tree delivers it for principled reasons): vek subtracts coordinates
//! first (`p - start`, `end - start`, `center - p`), and on this grid those differences are EXACT and small. From
//! there on the computation is the one of the local figure at the origin; only the final `start + (end-start)*t`
//! is rounded at the magnitude of the coordinates. So
//!
//! * segment, parameter t = num / den: the computed t has |t_c - t| <= dt := (N+2) eps (A / den + |t|), with
//!   A = sum |(p-start)_i (end-start)_i| (N products, N-1 additions, one division, |end-start|^2 likewise). When
//!   t >= 1 + dt (or every product and sum is exact, A < 2^mant and den < 2^mant, and num >= den) the clamp yields
//!   exactly 1 and `start + (end-start) * 1` is EXACTLY `end` (the difference is exact): demanded with ==.
//!   Likewise `start` for t <= -dt. Otherwise coordinate i must be within eps max(|start_i|, |end_i|) (1..2 ulps of
//!   the coordinates; the rounding of the final addition is half an ulp) + |d_i| (dt + eps (1 + dt)) of the exact
//!   foot, and inside [min(start_i, end_i), max(start_i, end_i)] (IEEE addition and multiplication are monotone
//!   and both ends are representable).
//! * `distance_to_point`: |p - projection| with relative error <= 4 eps (differences, N squares, N-1 sums, one
//!   correctly rounded sqrt: 3.5 u) plus the norm of the coordinate tolerances above; for a decided clamp that is
//!   4 eps * distance, however far from the origin everything is.
//! * disks / spheres: `center.distance(p)` squares exact differences; D2 < 2^22 (f32) / 2^48 (f64) keeps squares
//!   and sum exact, the sqrt is correctly rounded and monotone: D2 <= R^2 forces `true`; D2 > (R + ulp(R)/2)^2
//!   forces `false` (sqrt(D2) cannot round down to R; no tie is possible for integer D2); in between (possible only
//!   for radii that are not grid integers, or huge ones) the formula itself answers `true` and nothing is asserted.
//!   Radii are grid integers or grid integers plus a fraction of up to 12 bits (then centre +- radius is NOT
//!   exactly representable far from the origin: the bounds must be the correctly rounded centre -+ radius).
//!   r1 + r2 is exact by construction. A quarter of the cases has no offset but the centre at the origin and the
//!   point (second centre) as far away as D2 stays exact, or the reverse. The collision vector depends on exact differences only, so its tolerance
//!   is relative to the LOCAL size, 8 eps |v_i| / d * (r1 + r2 + d), not to the coordinates.

use crate::isqrt_floor128 as isqrt;
use vek::geom::repr_c::{Aabb, Aabr, Disk, LineSegment2, LineSegment3, Rect, Rect3, Sphere};
use vkit::regimes::pow2;
use vkit::vk;
use vkit::*;

pub(crate) type I = i128;

pub(crate) fn mant<S: Dom>() -> u32 {
    if S::NAME == "f32" {
        24
    } else {
        53
    }
}
/// Number of bits of |x|: |x| < 2^bits(x).
pub(crate) fn bits(x: I) -> u32 {
    128 - x.unsigned_abs().leading_zeros()
}
pub(crate) fn p2f(k: i32) -> f64 {
    pow2::<f64>(k)
}
/// `v * 2^e` in S, or None when that is not exact.
pub(crate) fn put<S: Dom>(v: I, e: i32) -> Option<S> {
    if bits(v) > mant::<S>() || bits(v) > 62 {
        return None;
    }
    let x = S::i(v as i64) * pow2::<S>(e);
    if x.f() == v as f64 * p2f(e) && x.f().is_finite() {
        Some(x)
    } else {
        None
    }
}
pub(crate) fn put_v<S: Dom, const N: usize>(v: &[I; N], e: i32) -> Option<[S; N]> {
    let mut r = [S::zero(); N];
    for i in 0..N {
        r[i] = put::<S>(v[i], e)?;
    }
    Some(r)
}
/// Integer in [-max, max], roughly uniform (any max < 2^62).
pub(crate) fn big_int(t: &mut Tape, max: I) -> I {
    if max <= 0 {
        return 0;
    }
    if max <= 120 {
        return t.int(-(max as i64), max as i64) as I;
    }
    (t.u64() % (2 * max as u64 + 1)) as I - max
}
/// Integer in [1, max] with a random sign.
pub(crate) fn big_nonzero(t: &mut Tape, max: I) -> I {
    let v = 1 + (t.u64() % (max.max(1) as u64)) as I;
    if t.bool() {
        -v
    } else {
        v
    }
}
pub(crate) fn max_abs<const N: usize>(vs: &[&[I; N]]) -> I {
    let mut m = 0;
    for v in vs {
        for x in v.iter() {
            m = m.max(x.abs());
        }
    }
    m
}
/// The unit of the grid: 2^e. Half of the cases e = 0 (integer coordinates), otherwise fractional / coarse units
/// (a segment 2^-7 long at 1e6, ...). Squares and triple products of all coordinates stay normal finite numbers.
pub(crate) fn grid_exp<S: Dom>(t: &mut Tape) -> i32 {
    if t.bool() {
        return 0;
    }
    if mant::<S>() == 24 {
        t.int(-20, 8) as i32
    } else {
        t.int(-60, 40) as i32
    }
}

pub(crate) struct Off<const N: usize> {
    pub o: [I; N],
    /// log2(|offset| / figure size): the offset has magnitude 2^(b + rho) .. 2^(b + rho + 1)
    pub rho: u32,
}

/// An offset for a local figure whose coordinates are all < 2^b in magnitude, such that |offset_i| + 2^b <= 2^budget
/// (budget = mantissa bits, or one less when differences between two placements must stay exact).
pub(crate) fn gen_offset<const N: usize>(t: &mut Tape, cx: &mut Cx, budget: u32, b: u32, f32_: bool) -> Option<Off<N>> {
    if b + 1 > budget {
        return None;
    }
    let rmax: u32 = if f32_ { 22 } else { 50 };
    let hi = rmax.min(budget - 1 - b) as i64;
    let rho = match t.below(4) {
        0 => t.int(0, hi),
        1 | 2 => t.int(hi / 2, hi),
        _ => hi - (t.below(4) as i64).min(hi),
    } as u32;
    let m = b + rho; // 2^m <= |offset| < 2^(m+1) <= 2^budget, and |offset| + 2^b <= 2^(m+1)
    let kind = t.below(4);
    let val = |t: &mut Tape, m: u32| -> I {
        let lo: I = 1 << m;
        // largest admissible magnitude: keeps |offset| + 2^b <= 2^(m+1)
        let top: I = ((1 as I) << (m + 1)) - (1 << (b + 1));
        if top <= lo {
            return lo;
        }
        match kind {
            0 => lo,
            1 | 2 => {
                // full mantissa: every bit down to the grid unit in use, odd (top is even, so the result is < top)
                let r = (t.u64() as I) % (top - lo);
                (lo + r) | 1
            }
            _ => top,
        }
    };
    let mut o = [0 as I; N];
    let pat = t.below(8);
    match pat {
        0 | 1 | 2 => {
            for i in 0..N {
                o[i] = val(t, m);
            }
            cx.label("offset: every axis far (independent values)");
        }
        3 => {
            let v = val(t, m);
            for i in 0..N {
                o[i] = v;
            }
            cx.label("offset: diagonal (equal on every axis)");
        }
        4 => {
            o[t.below(N)] = val(t, m);
            cx.label("offset: one axis far, the others 0");
        }
        5 => {
            let a = t.below(N);
            for i in 0..N {
                o[i] = if i == a { val(t, m) } else { big_int(t, (1 << b) - 1) };
            }
            cx.label("offset: one axis far, the others of the figure's size");
        }
        _ => {
            // staggered magnitudes: 2^m, 2^(m - rho/2), ...
            let a = t.below(N);
            for i in 0..N {
                let k = (i + N - a) % N;
                let mi = m - ((rho / 2) * k as u32).min(rho);
                o[i] = val(t, mi);
            }
            cx.label("offset: staggered magnitudes per axis");
        }
    }
    for i in 0..N {
        if t.bool() {
            o[i] = -o[i];
        }
    }
    cx.label(match kind {
        0 => "offset value: exact power of two (the figure straddles the binade boundary)",
        1 | 2 => "offset value: full mantissa (odd number of grid units)",
        _ => "offset value: top of the binade",
    });
    cx.label(rho_label(rho, f32_));
    Some(Off { o, rho })
}

pub(crate) fn rho_label(rho: u32, f32_: bool) -> &'static str {
    if f32_ {
        match rho {
            0..=3 => "|offset| / figure size: 2^0..2^3",
            4..=9 => "|offset| / figure size: 2^4..2^9",
            10..=15 => "|offset| / figure size: 2^10..2^15",
            16..=19 => "|offset| / figure size: 2^16..2^19",
            _ => "|offset| / figure size: 2^20..2^22",
        }
    } else {
        match rho {
            0..=7 => "|offset| / figure size: 2^0..2^7",
            8..=19 => "|offset| / figure size: 2^8..2^19",
            20..=31 => "|offset| / figure size: 2^20..2^31",
            32..=43 => "|offset| / figure size: 2^32..2^43",
            _ => "|offset| / figure size: 2^44..2^50",
        }
    }
}

/// Label: how many ulps of the largest coordinate the figure (largest extent `size` units) spans.
pub(crate) fn span_label(size: I, maxcoord: I, mant: u32) -> &'static str {
    if maxcoord == 0 || size == 0 {
        return "figure size: n/a";
    }
    // ulp(maxcoord) = 2^(bits(maxcoord) - mant) units
    let sh = bits(maxcoord) as i32 - mant as i32;
    let ulps = size as f64 * p2f(-sh);
    if ulps <= 8.0 {
        "figure spans <= 8 ulps of the coordinates"
    } else if ulps <= 1024.0 {
        "figure spans 9 .. 1024 ulps of the coordinates"
    } else if ulps <= 1048576.0 {
        "figure spans 2^10 .. 2^20 ulps of the coordinates"
    } else {
        "figure spans > 2^20 ulps of the coordinates"
    }
}

fn to_f<const N: usize>(a: &[I; N]) -> [f64; N] {
    let mut r = [0.0; N];
    for i in 0..N {
        r[i] = a[i] as f64;
    }
    r
}

// ---------------------------------------------------------------------------------------------
// 1. LineSegment2 / LineSegment3
// ---------------------------------------------------------------------------------------------

fn perp_of<const N: usize>(t: &mut Tape, d: &[I; N]) -> [I; N] {
    let mut n = [0 as I; N];
    if N == 2 {
        n[0] = -d[1];
        n[1] = d[0];
        return n;
    }
    let cross = |a: &[I; N], w: [I; 3]| -> [I; N] {
        let mut r = [0 as I; N];
        r[0] = a[1] * w[2] - a[2] * w[1];
        r[1] = a[2] * w[0] - a[0] * w[2];
        r[2] = a[0] * w[1] - a[1] * w[0];
        r
    };
    let w = [t.int(-2, 2) as I, t.int(-2, 2) as I, t.int(-2, 2) as I];
    let r = cross(d, w);
    if r.iter().any(|x| *x != 0) {
        return r;
    }
    let r = cross(d, [1, 0, 0]);
    if r.iter().any(|x| *x != 0) {
        return r;
    }
    cross(d, [0, 1, 0])
}

macro_rules! seg_placed_case {
    ($fname:ident, $N:expr, $Seg:ident, $mk:path, $un:path) => {
        fn $fname<S: Dom>(t: &mut Tape, cx: &mut Cx) -> CaseResult {
            const N: usize = $N;
            let mant = mant::<S>();
            let f32_ = mant == 24;
            let eps = S::eps();
            // ---- the local figure: start sl, end el = sl + den * dp, query pl (integers)
            let tier = t.below(4);
            let dmax: I = match tier {
                0 => t.int(1, 2) as I,
                1 => 8,
                2 => 64,
                _ => {
                    if f32_ {
                        1000
                    } else {
                        1 << 20
                    }
                }
            };
            let mut sl = [0 as I; N];
            for i in 0..N {
                sl[i] = big_int(t, dmax);
            }
            let kind = t.below(16);
            // rational feet a / den need end - start = den * dp
            let den: I = if matches!(kind, 2..=8) && dmax >= 2 { t.pick(&[2i64, 3, 4, 8]).min(dmax as i64) as I } else { 1 };
            let dpmax = (dmax / den).max(1);
            let mut dp = [0 as I; N];
            let degenerate = t.chance(10);
            if !degenerate {
                if t.below(4) == 0 {
                    dp[t.below(N)] = big_nonzero(t, dpmax);
                    cx.label("axis-aligned segment");
                } else {
                    for i in 0..N {
                        dp[i] = big_int(t, dpmax);
                    }
                    if dp.iter().all(|x| *x == 0) {
                        dp[0] = 1;
                    }
                }
            }
            let mut d = [0 as I; N];
            let mut el = sl;
            for i in 0..N {
                d[i] = den * dp[i];
                el[i] = sl[i] + d[i];
            }
            let nrm = perp_of::<N>(t, &dp);
            let m_perp = t.small_int(3) as I;
            let pm = t.below(8); // placement
            let far_normal = pm == 7 && !degenerate && t.bool();
            let mut along = [0 as I; N]; // p - start without the normal part
            match kind {
                0 | 1 => {
                    // t = j exactly
                    let j = t.pick(&[-2i64, -1, 0, 1, 2, 3]) as I;
                    for i in 0..N {
                        along[i] = j * d[i];
                    }
                }
                2..=6 => {
                    // t = a / den: mostly strictly inside, otherwise at / one step outside an end
                    let a = if den >= 2 && t.chance(192) { t.int(1, den as i64 - 1) } else { t.pick(&[-1i64, 0, den as i64, den as i64 + 1]) } as I;
                    for i in 0..N {
                        along[i] = a * dp[i];
                    }
                }
                7 | 8 => {
                    // on the segment
                    let a = t.int(0, den as i64) as I;
                    for i in 0..N {
                        along[i] = a * dp[i];
                    }
                }
                9 | 10 => {
                    // one grid step around an end
                    let at_end = t.bool();
                    for i in 0..N {
                        along[i] = (if at_end { d[i] } else { 0 }) + t.int(-1, 1) as I;
                    }
                }
                11..=13 => {
                    // inside the segment's box (foot mostly inside)
                    for i in 0..N {
                        along[i] = if d[i] == 0 { t.int(-1, 1) as I } else { d[i].signum() * ((t.u64() as I) % (d[i].abs() + 1)) };
                    }
                }
                _ => {
                    for i in 0..N {
                        along[i] = big_int(t, 2 * dmax);
                    }
                }
            }
            let with_normal = matches!(kind, 0..=6);
            let mut pl = sl;
            for i in 0..N {
                pl[i] = sl[i] + along[i] + if with_normal && !far_normal { m_perp * nrm[i] } else { 0 };
            }
            // ---- placement
            let e = grid_exp::<S>(t);
            let (ss_i, es_i, ps_i): ([I; N], [I; N], [I; N]);
            let rho: u32;
            let add = |a: &[I; N], o: &[I; N]| -> [I; N] {
                let mut r = *a;
                for i in 0..N {
                    r[i] = a[i] + o[i];
                }
                r
            };
            if far_normal {
                // the figure far away (budget mant - 2) and the query 2^k normals away from it
                let b = bits(max_abs(&[&sl, &el, &pl]));
                let off = match gen_offset::<N>(t, cx, mant - 2, b, f32_) {
                    Some(o) => o,
                    None => discard!("figure too large for the grid"),
                };
                let nb = bits(max_abs(&[&nrm]));
                if nb == 0 || nb + 1 > mant - 3 {
                    discard!("no usable normal");
                }
                let kmax = (mant - 3 - nb) as i64;
                let k = if t.bool() { t.int(kmax / 2, kmax) } else { t.int(0, kmax) } as u32;
                let big = (1 as I) << k;
                let sg = if t.bool() { -1 } else { 1 };
                let mut p2 = pl;
                for i in 0..N {
                    p2[i] = pl[i] + sg * big * nrm[i];
                }
                ss_i = add(&sl, &off.o);
                es_i = add(&el, &off.o);
                ps_i = add(&p2, &off.o);
                rho = off.rho;
                cx.label("placement: query 2^k normals away from a far segment (foot as constructed)");
            } else {
                match pm {
                    0..=4 => {
                        let b = bits(max_abs(&[&sl, &el, &pl]));
                        let off = match gen_offset::<N>(t, cx, mant, b, f32_) {
                            Some(o) => o,
                            None => discard!("figure too large for the grid"),
                        };
                        ss_i = add(&sl, &off.o);
                        es_i = add(&el, &off.o);
                        ps_i = add(&pl, &off.o);
                        rho = off.rho;
                        cx.label("placement: segment and query share the far offset");
                    }
                    5 => {
                        let b = bits(max_abs(&[&sl, &el, &pl]));
                        let off = match gen_offset::<N>(t, cx, mant - 1, b, f32_) {
                            Some(o) => o,
                            None => discard!("figure too large for the grid"),
                        };
                        ss_i = sl;
                        es_i = el;
                        ps_i = add(&pl, &off.o);
                        rho = off.rho;
                        cx.label("placement: segment at the origin, query far away");
                    }
                    6 => {
                        let b = bits(max_abs(&[&sl, &el, &pl]));
                        let off = match gen_offset::<N>(t, cx, mant - 1, b, f32_) {
                            Some(o) => o,
                            None => discard!("figure too large for the grid"),
                        };
                        ss_i = add(&sl, &off.o);
                        es_i = add(&el, &off.o);
                        ps_i = pl;
                        rho = off.rho;
                        cx.label("placement: segment far away, query at the origin");
                    }
                    _ => {
                        let b = bits(max_abs(&[&sl, &el, &pl]));
                        let (o1, o2) = match (gen_offset::<N>(t, cx, mant - 1, b, f32_), gen_offset::<N>(t, cx, mant - 1, b, f32_)) {
                            (Some(a), Some(b)) => (a, b),
                            _ => discard!("figure too large for the grid"),
                        };
                        ss_i = add(&sl, &o1.o);
                        es_i = add(&el, &o1.o);
                        ps_i = add(&pl, &o2.o);
                        rho = o1.rho.min(o2.rho);
                        cx.label("placement: segment and query at two unrelated far offsets");
                    }
                }
            }
            // ---- exactness of the inputs and of the differences vek forms first
            let (ss, es, ps): ([S; N], [S; N], [S; N]) = match (put_v::<S, N>(&ss_i, e), put_v::<S, N>(&es_i, e), put_v::<S, N>(&ps_i, e)) {
                (Some(a), Some(b), Some(c)) => (a, b, c),
                _ => discard!("a coordinate is not exactly representable"),
            };
            let mut dv = [0 as I; N];
            let mut w = [0 as I; N];
            for i in 0..N {
                dv[i] = es_i[i] - ss_i[i];
                w[i] = ps_i[i] - ss_i[i];
                if bits(w[i]) > mant || bits(dv[i]) > mant {
                    discard!("a coordinate difference is not exactly representable");
                }
            }
            sample!(cx, "{} {} (units of 2^{}): start={:?} end={:?} p={:?}; start={:?} end={:?} p={:?}", S::NAME, stringify!($Seg), e, ss_i, es_i, ps_i, ss, es, ps);
            // ---- exact oracle
            let den2: I = dv.iter().map(|x| x * x).sum();
            let num: I = (0..N).map(|i| w[i] * dv[i]).sum();
            let a_abs: I = (0..N).map(|i| (w[i] * dv[i]).abs()).sum();
            let size = max_abs(&[&dv]);
            let maxc = max_abs(&[&ss_i, &es_i]);
            cx.label(span_label(size, maxc, mant));
            cx.set_nontrivial(den2 != 0 && (rho >= 4 || pm >= 5));
            let seg = $Seg::<S> { start: $mk(&ss), end: $mk(&es) };
            let got_s: [S; N] = $un(&seg.projected_point($mk(&ps)));
            let got_d = seg.distance_to_point($mk(&ps));
            let unit = p2f(-e);
            let mut g = [0.0f64; N];
            for i in 0..N {
                g[i] = got_s[i].f() * unit;
            }
            let gd = got_d.f() * unit;
            let e64 = f64::EPSILON;
            if den2 == 0 {
                cx.label("degenerate (start == end)");
                check_eq!(cx, got_s, ss, "{}::projected_point on a degenerate segment is start (start={:?} p={:?}, units of 2^{})", stringify!($Seg), ss_i, ps_i, e);
                let d2: I = w.iter().map(|x| x * x).sum();
                let dist = (d2 as f64).sqrt();
                let tol = 4.0 * eps * dist + 4.0 * e64 * dist;
                cx.count();
                if !((gd - dist).abs() <= tol) {
                    fail!("{}::distance_to_point of a degenerate segment: got {:e}, want |p - start| = {:e} (units of 2^{}; start={:?} p={:?})", stringify!($Seg), gd, dist, e, ss_i, ps_i);
                }
                return Ok(());
            }
            let tq = num as f64 / den2 as f64;
            let dt = (N as f64 + 2.0) * eps * (a_abs as f64 / den2 as f64 + tq.abs());
            let lim: I = 1 << mant;
            let exact_eval = a_abs < lim && den2 < lim;
            if exact_eval {
                cx.label("every product and sum of the parameter is exact");
            }
            let beyond_end = if exact_eval { num >= den2 } else { tq >= 1.0 + dt };
            let before_start = if exact_eval { num <= 0 } else { tq <= -dt };
            cx.label(if num < 0 {
                "foot before the start (t < 0)"
            } else if num == 0 {
                "foot at the start (t = 0)"
            } else if num < den2 {
                "foot inside (0 < t < 1)"
            } else if num == den2 {
                "foot at the end (t = 1)"
            } else {
                "foot after the end (t > 1)"
            });
            if a_abs > 0 && (num.abs() as f64) < a_abs as f64 * 1e-3 {
                cx.label("parameter numerator cancels (|num| < 1e-3 sum |terms|)");
            }
            let (sf, ef, df, wf) = (to_f(&ss_i), to_f(&es_i), to_f(&dv), to_f(&w));
            let what = format!("(units of 2^{}) start={:?} end={:?} p={:?}, t = {}/{}", e, ss_i, es_i, ps_i, num, den2);
            // the result is a point of the segment's box, whatever t came out
            for i in 0..N {
                cx.count();
                if !(g[i] >= sf[i].min(ef[i]) && g[i] <= sf[i].max(ef[i])) {
                    fail!("{}::projected_point[{}] = {:?} lies outside [start, end] on that axis: {}", stringify!($Seg), i, got_s[i], what);
                }
            }
            let mut tol_v = [0.0f64; N];
            let wl: [f64; N]; // want - start
            if beyond_end || before_start {
                cx.label(if beyond_end { "clamp decided: the END, exactly" } else { "clamp decided: the START, exactly" });
                let want = if beyond_end { &es } else { &ss };
                check_eq!(cx, got_s, *want, "{}::projected_point of a point {} is that end point exactly: {}", stringify!($Seg), if beyond_end { "beyond the end" } else { "before the start" }, what);
                wl = if beyond_end { df } else { [0.0; N] };
            } else {
                cx.label("foot within rounding of [0, 1]: coordinates within eps max|coordinate| + local error");
                let tc = tq.clamp(0.0, 1.0);
                let mut x = [0.0; N];
                for i in 0..N {
                    x[i] = df[i] * tc;
                    let mi = sf[i].abs().max(ef[i].abs());
                    tol_v[i] = eps * mi + df[i].abs() * (dt + eps * (1.0 + dt)) + 4.0 * e64 * df[i].abs();
                    let err = ((g[i] - sf[i]) - x[i]).abs();
                    cx.count();
                    if tol_v[i] > 0.0 {
                        cx.note_err(err / tol_v[i]);
                    }
                    if !(err <= tol_v[i]) {
                        fail!("{}::projected_point[{}] = {:?}: {:e} units from the exact foot start + t (end-start), tolerance {:e} units (dt = {:e}): {}", stringify!($Seg), i, got_s[i], err, tol_v[i], dt, what);
                    }
                }
                wl = x;
            }
            // distance_to_point = |p - nearest point|
            let dist = if beyond_end || before_start {
                let d2: I = (0..N).map(|i| (w[i] - if beyond_end { dv[i] } else { 0 }).pow(2)).sum();
                (d2 as f64).sqrt()
            } else {
                (0..N).map(|i| (wf[i] - wl[i]).powi(2)).sum::<f64>().sqrt()
            };
            let tn = tol_v.iter().map(|x| x * x).sum::<f64>().sqrt();
            let tol_d = tn + 4.0 * eps * dist + 4.0 * e64 * dist + 8.0 * e64 * (size as f64);
            let err = (gd - dist).abs();
            cx.count();
            if tol_d > 0.0 {
                cx.note_err(err / tol_d);
            }
            if !(err <= tol_d) {
                fail!("{}::distance_to_point = {:?} = {:e} units, want {:e} units, off by {:e} > {:e}: {}", stringify!($Seg), got_d, gd, dist, err, tol_d, what);
            }
            if dist == 0.0 {
                cx.label("p on the segment (distance 0)");
            }
            Ok(())
        }
    };
}
seg_placed_case!(seg2_placed, 2, LineSegment2, vk::v2, vk::a2);
seg_placed_case!(seg3_placed, 3, LineSegment3, vk::v3, vk::a3);

// ---------------------------------------------------------------------------------------------
// 2. Disk / Sphere
// ---------------------------------------------------------------------------------------------

fn rect2_parts<S: Copy>(r: Rect<S, S>) -> ([S; 2], [S; 2]) {
    ([r.x, r.y], [r.w, r.h])
}
fn rect3_parts<S: Copy>(r: Rect3<S, S>) -> ([S; 3], [S; 3]) {
    ([r.x, r.y, r.z], [r.w, r.h, r.d])
}
fn aabr_parts<S: Copy>(b: Aabr<S>) -> ([S; 2], [S; 2]) {
    (vk::a2(&b.min), vk::a2(&b.max))
}
fn aabb_parts<S: Copy>(b: Aabb<S>) -> ([S; 3], [S; 3]) {
    (vk::a3(&b.min), vk::a3(&b.max))
}

#[derive(PartialEq, Clone, Copy, Debug)]
enum Verdict {
    True,
    False,
    Band,
}

/// `sqrt(d2) <= k / 2^q` as the documented formula must answer it when d2 (an integer < 2^mant) is computed exactly
/// and the sqrt is correctly rounded: True iff d2 <= R^2; False iff d2 > (R + ulp(R)/2)^2; else Band.
fn verdict(d2: I, k: I, q: u32, mant: u32) -> Verdict {
    if k == 0 {
        return if d2 == 0 { Verdict::True } else { Verdict::False };
    }
    // d2 * 4^q <= k^2
    if (d2 << (2 * q)) <= k * k {
        return Verdict::True;
    }
    // H = 2 * (k aligned to mant bits) + 1 in units of 2^-(q + mant - nb + 1)
    let nb = bits(k);
    let sh = mant - nb; // k < 2^mant
    let h: I = ((k << sh) << 1) + 1;
    let j = 2 * (q + sh + 1); // d2 * 2^j > h^2 ?
    let h2 = h * h; // < 2^(2 mant + 2) <= 2^108
    let floor = if j >= 127 { 0 } else { h2 >> j };
    // integer d2 > h2 / 2^j  <=>  d2 >= floor + 1 (h2 is odd, so h2 / 2^j is never an integer for j >= 1)
    if d2 >= floor + 1 {
        Verdict::False
    } else {
        Verdict::Band
    }
}

const PY2: [[I; 3]; 5] = [[3, 4, 5], [5, 12, 13], [8, 15, 17], [7, 24, 25], [20, 21, 29]];
const PY3: [[I; 4]; 8] = [[1, 2, 2, 3], [2, 3, 6, 7], [1, 4, 8, 9], [4, 4, 7, 9], [2, 6, 9, 11], [6, 6, 7, 11], [3, 4, 12, 13], [2, 10, 11, 15]];

macro_rules! round_placed_case {
    ($fname:ident, $N:expr, $Shape:ident, $mk:path, $un:path, $collides:ident, $cv:ident, $rect:ident, $rect_parts:path, $aab:ident, $aab_parts:path) => {
        fn $fname<S: Dom>(t: &mut Tape, cx: &mut Cx) -> CaseResult {
            const N: usize = $N;
            let mant = mant::<S>();
            let f32_ = mant == 24;
            let eps = S::eps();
            // ---- the local figure: centre cl, point / second centre pl = cl + off, radius k / 2^q
            let tier = t.below(4);
            let l: I = match tier {
                0 => 4,
                1 => 32,
                2 => 256,
                _ => {
                    if f32_ {
                        1000
                    } else {
                        1 << 21
                    }
                }
            };
            let mut cl = [0 as I; N];
            for i in 0..N {
                cl[i] = big_int(t, l);
            }
            let mut off = [0 as I; N];
            match t.below(8) {
                0 => cx.label("concentric (d = 0)"),
                1 | 2 | 3 => {
                    // Pythagorean offset (integer distance), if one fits
                    let mut v = [0 as I; N];
                    let m;
                    if N == 2 {
                        let p = t.pick(&PY2);
                        v[0] = p[0];
                        v[1] = p[1];
                        m = p[1];
                    } else {
                        let p = t.pick(&PY3);
                        for i in 0..N {
                            v[i] = p[i];
                        }
                        m = p[2];
                    }
                    if m <= l {
                        let kmax = l / m;
                        let k = 1 + (t.u32() as I) % kmax;
                        let rot = t.below(N);
                        for i in 0..N {
                            off[i] = v[(i + rot) % N] * k * if t.bool() { -1 } else { 1 };
                        }
                        cx.label("offset between the centres: pythagorean (integer distance)");
                    } else {
                        off[t.below(N)] = big_nonzero(t, l);
                        cx.label("offset between the centres: axis-aligned");
                    }
                }
                4 => {
                    off[t.below(N)] = big_nonzero(t, l);
                    cx.label("offset between the centres: axis-aligned");
                }
                _ => {
                    for i in 0..N {
                        off[i] = big_int(t, l);
                    }
                    cx.label("offset between the centres: generic");
                }
            }
            // mixed placements: the centre at the origin and the point far away (as far as D2 stays exact), or the reverse
            let pm = t.below(8);
            if pm >= 6 {
                for i in 0..N {
                    let j = t.int(-2, 2) as I;
                    cl[i] = if pm == 6 { j } else { j - off[i] };
                }
            }
            let mut pl = cl;
            for i in 0..N {
                pl[i] = cl[i] + off[i];
            }
            let d2: I = off.iter().map(|x| x * x).sum();
            let fl = isqrt(d2);
            let r_int: I = match t.below(8) {
                0 | 4 | 7 => fl,
                1 => fl + 1,
                2 => (fl - 1).max(0),
                3 => 0,
                5 => big_int(t, 2 * l).abs(),
                _ => (fl + t.int(-3, 3) as I).max(0),
            };
            // radius k / 2^q: a grid integer (q = 0) or a grid integer plus a fraction (then centre +- radius rounds)
            let qmax = 12u32.min((mant - 2).saturating_sub(bits(r_int + 1)));
            let (k, q): (I, u32) = if t.below(3) == 0 && qmax >= 1 {
                let q = t.int(1, qmax as i64) as u32;
                let j = 1 + (t.u32() as I) % ((1 << q) - 1).max(1);
                let j = if t.bool() && r_int > 0 { -j } else { j };
                cx.label("radius: grid integer plus a fraction (centre +- radius inexact far from the origin)");
                ((r_int << q) + j, q)
            } else {
                cx.label("radius: grid integer");
                (r_int, 0)
            };
            let k1: I = match t.below(4) {
                0 => 0,
                1 => k,
                _ => (t.u64() as I) % (k + 1),
            };
            let k2 = k - k1;
            // ---- placement: one far offset for the whole figure
            let b = bits(max_abs(&[&cl, &pl]));
            let e = grid_exp::<S>(t);
            let offv = if pm >= 6 {
                cx.label(if pm == 6 { "placement: centre at the origin, point / second centre far away (no offset)" } else { "placement: point / second centre at the origin, centre far away (no offset)" });
                Off { o: [0 as I; N], rho: 0 }
            } else {
                match gen_offset::<N>(t, cx, mant, b, f32_) {
                    Some(o) => o,
                    None => discard!("figure too large for the grid"),
                }
            };
            let mut ci = cl;
            let mut pi = pl;
            for i in 0..N {
                ci[i] = cl[i] + offv.o[i];
                pi[i] = pl[i] + offv.o[i];
            }
            let eq = e - q as i32;
            let (cs, ps, rs, r1s, r2s): ([S; N], [S; N], S, S, S) = match (put_v::<S, N>(&ci, e), put_v::<S, N>(&pi, e), put::<S>(k, eq), put::<S>(k1, eq), put::<S>(k2, eq)) {
                (Some(a), Some(b), Some(c), Some(d), Some(f)) => (a, b, c, d, f),
                _ => discard!("a coordinate or radius is not exactly representable"),
            };
            if r1s + r2s != rs {
                fail!("harness: r1 + r2 != r");
            }
            // the exactness domain of the squared distance (see the module comment)
            let d2lim: I = if f32_ { 1 << 22 } else { 1 << 48 };
            if d2 >= d2lim {
                fail!("harness: squared distance {} outside the exactly evaluable range", d2);
            }
            sample!(cx, "{} {} (units of 2^{}): c={:?} p={:?} r={}/2^{} (r1={}, r2={}) d2={}", S::NAME, stringify!($Shape), e, ci, pi, k, q, k1, k2, d2);
            let v = verdict(d2, k, q, mant);
            let k2r = k * k;
            let d2s = d2 << (2 * q);
            cx.label(match v {
                Verdict::Band => "between R and R + ulp(R)/2 (the formula answers true; not asserted)",
                _ if d2s == k2r => "tangent (d == r exactly)",
                Verdict::True => {
                    if (k >> q) - fl <= 1 {
                        "just inside (floor(r) <= floor(d) + 1)"
                    } else {
                        "inside"
                    }
                }
                Verdict::False => {
                    if fl - (k >> q) <= 1 {
                        "just outside (floor(r) >= floor(d) - 1)"
                    } else {
                        "outside"
                    }
                }
            });
            if k == 0 {
                cx.label("zero radius");
            }
            cx.label(span_label(max_abs(&[&off]).max((k >> q) as I), max_abs(&[&ci, &pi]), mant));
            cx.set_nontrivial((offv.rho >= 4 || (pm >= 6 && tier >= 2)) && v != Verdict::Band);
            let what = format!("(units of 2^{}) c={:?} p={:?} r={}/2^{} r1={}/2^{} r2={}/2^{} D2={}", e, ci, pi, k, q, k1, q, k2, q, d2);
            let shape = $Shape::<S, S>::new($mk(&cs), rs);
            let a = $Shape::<S, S>::new($mk(&cs), r1s);
            let bb = $Shape::<S, S>::new($mk(&ps), r2s);
            if v != Verdict::Band {
                let want = v == Verdict::True;
                check_eq!(cx, shape.contains_point($mk(&ps)), want, "{}::contains_point {}", stringify!($Shape), what);
                check_eq!(cx, a.$collides(bb), want, "{}: a.collides(b) {}", stringify!($Shape), what);
                check_eq!(cx, bb.$collides(a), want, "{}: b.collides(a) {}", stringify!($Shape), what);
            }
            check!(cx, shape.contains_point($mk(&cs)), "{}: contains its own centre {}", stringify!($Shape), what);
            check!(cx, a.$collides(a), "{}: collides with itself {}", stringify!($Shape), what);
            check!(cx, bb.$collides(bb), "{}: collides with itself (second shape) {}", stringify!($Shape), what);
            // ---- bounds: centre -+ radius per axis, correctly rounded (one IEEE operation; exact when representable)
            let two = S::i(2);
            let (pos, ext) = $rect_parts(shape.$rect());
            let (mn, mx) = $aab_parts(shape.$aab());
            check_eq!(cx, shape.diameter(), two * rs, "{}::diameter {}", stringify!($Shape), what);
            let mut inexact = false;
            for i in 0..N {
                check_eq!(cx, pos[i], cs[i] - rs, "{}::{} position[{}] = centre - r {}", stringify!($Shape), stringify!($rect), i, what);
                check_eq!(cx, ext[i], two * rs, "{}::{} extent[{}] = 2r {}", stringify!($Shape), stringify!($rect), i, what);
                check_eq!(cx, mn[i], cs[i] - rs, "{}::{} min[{}] = centre - r {}", stringify!($Shape), stringify!($aab), i, what);
                check_eq!(cx, mx[i], cs[i] + rs, "{}::{} max[{}] = centre + r {}", stringify!($Shape), stringify!($aab), i, what);
                // against the integers, wherever centre -+ radius is a representable number
                for (sg, gotx) in [(-1 as I, mn[i]), (1, mx[i])] {
                    let exact: I = (ci[i] << q) + sg * k;
                    match put::<S>(exact, eq) {
                        Some(x) => check_eq!(cx, gotx, x, "{}::{} bound[{}] (sign {}) vs the exact integer {} / 2^{} {}", stringify!($Shape), stringify!($aab), i, sg, exact, q, what),
                        None => {
                            inexact = true;
                            // correctly rounded: within half an ulp of the exact value
                            let ex = exact as f64 * p2f(-(q as i32));
                            let err = (gotx.f() * p2f(-e) - ex).abs();
                            cx.count();
                            if !(err <= 0.5 * eps * ex.abs() + 4.0 * f64::EPSILON * ex.abs()) {
                                fail!("{}::{} bound[{}] (sign {}) = {:?} is not centre -+ radius = {} / 2^{} rounded {}", stringify!($Shape), stringify!($aab), i, sg, gotx, exact, q, what);
                            }
                        }
                    }
                }
            }
            if inexact {
                cx.label("bounds: centre +- radius not representable (rounded once)");
            }
            // ---- collision vector: exact differences only, so the tolerance is relative to the local size
            if d2 != 0 {
                cx.label("collision vector checked");
                let d = (d2 as f64).sqrt();
                let rsum = k as f64 * p2f(-(q as i32));
                for (who, x, y, sgn) in [("a.cv(b)", a, bb, 1.0), ("b.cv(a)", bb, a, -1.0)] {
                    let cvv: [S; N] = $un(&x.$cv(y));
                    for i in 0..N {
                        let vi = sgn * off[i] as f64;
                        let want = vi / d * (rsum - d);
                        let got = cvv[i].f() * p2f(-e);
                        let tol = 8.0 * eps * vi.abs() / d * (rsum + d);
                        let err = (got - want).abs();
                        cx.count();
                        if tol > 0.0 {
                            cx.note_err(err / tol);
                        }
                        if !(err <= tol) {
                            fail!("{}: {}[{}] = {:?} = {:e} units, want (centre difference / d) (r1 + r2 - d) = {:e} units, off by {:e} > {:e} {}", stringify!($Shape), who, i, cvv[i], got, want, err, tol, what);
                        }
                    }
                }
                cx.label(if d2s < k2r {
                    "cv: overlapping (d < r1+r2)"
                } else if d2s > k2r {
                    "cv: apart (d > r1+r2)"
                } else {
                    "cv: already tangent (cv = 0)"
                });
            }
            Ok(())
        }
    };
}
round_placed_case!(disk_placed, 2, Disk, vk::v2, vk::a2, collides_with_disk, collision_vector_with_disk, rect, rect2_parts, aabr, aabr_parts);
round_placed_case!(sphere_placed, 3, Sphere, vk::v3, vk::a3, collides_with_sphere, collision_vector_with_sphere, rect3, rect3_parts, aabb, aabb_parts);

pub fn checks(checks: &mut Vec<Check>) {
    macro_rules! tape {
        ($name:expr, $about:expr, $len:expr, $q:expr, $th:expr, $f:expr) => {
            checks.push(Check { name: $name, about: $about, kind: Kind::Tape { len: $len, quick: $q, thorough: $th, f: $f } });
        };
    }
    let seg = "segments that are small compared with their distance from the origin (offset + local integer figure on a dyadic grid, every coordinate exact; |offset| / size up to 2^22 (f32) / 2^50 (f64), down to segments 1 ulp long; offsets: powers of two, full mantissa, top of the binade; per-axis patterns) and mixed placements (segment at the origin / query far, segment far / query at the origin, two far offsets, query 2^k normals away) vs the exact i128 parametric minimisation: a point decidedly beyond an end projects on that END exactly, a foot inside is within eps max|coordinate| (1..2 ulps) + local error and inside the segment's box, distance_to_point = |p - nearest| to 4 eps relative (+ the foot's tolerance)";
    tape!("seg2-placed-f64", seg, 160, 12_000, 600_000, seg2_placed::<f64>);
    tape!("seg2-placed-f32", seg, 160, 12_000, 600_000, seg2_placed::<f32>);
    tape!("seg3-placed-f64", seg, 192, 12_000, 600_000, seg3_placed::<f64>);
    tape!("seg3-placed-f32", seg, 192, 12_000, 600_000, seg3_placed::<f32>);
    let rnd = "disks / spheres that are small compared with their distance from the origin (offset + local integer figure, every coordinate exact, squared distances exactly representable; radii grid integers or with a fraction of up to 12 bits): contains_point / collides_with_* (both orders, radius split exactly) decided exactly by D2 <= R^2 (not asserted only strictly between R and R + ulp(R)/2), own centre / itself, diameter, rect / aab bounds = correctly rounded centre -+ radius (exact integers where representable), collision vector = (difference / d)(r1 + r2 - d) to 8 eps relative to the LOCAL size";
    tape!("disk-placed-f64", rnd, 128, 12_000, 600_000, disk_placed::<f64>);
    tape!("disk-placed-f32", rnd, 128, 12_000, 600_000, disk_placed::<f32>);
    tape!("sphere-placed-f64", rnd, 160, 12_000, 600_000, sphere_placed::<f64>);
    tape!("sphere-placed-f32", rnd, 160, 12_000, 600_000, sphere_placed::<f32>);
}
