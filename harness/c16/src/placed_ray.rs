//! Ray::triangle_intersection, POSITION-RELATIVE regimes (see `placed.rs` for the grid): a ray origin and a
//! triangle that are small / close to each other compared with their distance from the world origin, and the
//! mixed placements (triangle at the origin with the ray origin far away, ray origin at the world origin with the
//! triangle far away, both).
//!
//! Every position is an integer number of grid units 2^e below 2^24 (f32) / 2^53 (f64), hence exact; the edges
//! v1 - v0, v2 - v0 and origin - v0 that vek forms first are therefore exact, and what follows is the computation
//! for the local integer configuration. The oracle is the exact integer Cramer solve of `ray_scale.rs`
//! (u E1 + v E2 - tau D = O - V0 on i128); the float margins are the forward error bounds derived there
//! (gamma = 16 eps per triple product, relative to the sum of the absolute values of its terms): hit / miss is
//! asserted when every barycentric coordinate is farther from 0 than its bound, the parameter and the crossing
//! point within the same bound. For a ray and a triangle that share the far offset these bounds do not depend on
//! the offset at all (the margins stay ~1e-6 (f32) of the triangle); for a far ray origin the bound grows with
//! |origin - v0| / |edge| as it must (labelled when it leaves nothing to assert).

use crate::placed::{bits, gen_offset, grid_exp, mant, max_abs, p2f, put_v, I};
use vek::geom::repr_c::Ray;
use vkit::refmath as rf;
use vkit::regimes::pow2;
use vkit::vk;
use vkit::*;

type V = [I; 3];

fn det3(c0: &V, c1: &V, c2: &V) -> I {
    rf::det(&[[c0[0], c1[0], c2[0]], [c0[1], c1[1], c2[1]], [c0[2], c1[2], c2[2]]])
}
fn fv(a: &V) -> [f64; 3] {
    [a[0] as f64, a[1] as f64, a[2] as f64]
}
/// sum of the absolute values of the six terms of a . (b x c)
fn abs_triple(a: &V, b: &V, c: &V) -> f64 {
    let (a, b, c) = (fv(a), fv(b), fv(c));
    let mut s = 0.0;
    for i in 0..3 {
        let (j, k) = ((i + 1) % 3, (i + 2) % 3);
        s += a[i].abs() * ((b[j] * c[k]).abs() + (b[k] * c[j]).abs());
    }
    s
}
fn rnd_v(t: &mut Tape, max: i64) -> V {
    [t.int(-max, max) as I, t.int(-max, max) as I, t.int(-max, max) as I]
}
fn is_zero(a: &V) -> bool {
    a.iter().all(|x| *x == 0)
}
fn nz(a: &V) -> usize {
    a.iter().filter(|x| **x != 0).count()
}
fn addv(a: &V, b: &V) -> V {
    [a[0] + b[0], a[1] + b[1], a[2] + b[2]]
}

fn ray_placed_case<S: Dom>(t: &mut Tape, cx: &mut Cx) -> CaseResult {
    let mant = mant::<S>();
    let f32_ = mant == 24;
    let class = match t.below(16) {
        // floats do not assert crossings exactly on an edge / vertex: spend those classes on just inside / near miss
        2 => 9,
        3 => 8,
        4 => 0,
        5 => 6,
        c => c,
    };
    // ---- local sizes
    let tier = t.below(3);
    let (nmax, v0max, emax, cmax, tmax): (i64, i64, i64, i64, i64) = match tier {
        0 => (4, 2, 1, 1, 2),
        1 => (8, 8, 5, 6, 12),
        _ => (8, 500, 60, 20, 60),
    };
    cx.label(match tier {
        0 => "local figure: tiny (edges of 3..4 units)",
        1 => "local figure: small (edges up to 40 units)",
        _ => "local figure: medium (edges up to 480 units)",
    });
    let n = t.int(3, nmax) as I;
    let v0 = rnd_v(t, v0max);
    let mut e1 = rnd_v(t, emax);
    let mut e2 = rnd_v(t, emax);
    if is_zero(&e1) {
        e1[0] = 1;
    }
    if is_zero(&e2) {
        e2[1] = 1;
    }
    if class == 12 {
        match t.below(4) {
            0 => {
                let c = t.pick(&[1i64, -2, 3, -1]) as I;
                e2 = [c * e1[0], c * e1[1], c * e1[2]];
            }
            1 => e2 = [0; 3],
            2 => e1 = [0; 3],
            _ => {
                e1 = [0; 3];
                e2 = [0; 3];
            }
        }
    }
    let nrm = rf::cross(&e1, &e2);
    if class != 12 && is_zero(&nrm) {
        // make it a proper triangle instead of discarding
        e2 = if e1[0] == 0 && e1[1] == 0 { [1, 0, 0] } else { [-e1[1], e1[0], 0] };
    }
    let nrm = rf::cross(&e1, &e2);
    let a = t.int(1, n as i64 - 2) as I;
    let b = t.int(1, (n - 1 - a) as i64) as I;
    let k1 = t.int(1, n as i64 - 2) as I;
    let (ua, vb): (I, I) = match class {
        6 | 7 => t.pick(&[(-a, b), (a, -b), (-a, -b), (a, n - a + b), (n + a, b), (a, n + b), (n + a, -a - b), (-a - b, n + a), (n + a, -b)]),
        8 => t.pick(&[(-1, k1), (k1, -1), (k1 + 1, n - k1), (k1, n - k1 + 1), (n + 1, -2), (-1, n), (n, -1), (-1, -1), (n + 1, 0), (0, n + 1)]),
        9 => t.pick(&[(1, k1), (k1, 1), (k1, n - k1 - 1), (1, 1), (n - 2, 1), (1, n - 2)]),
        _ => (a, b),
    };
    let mut pt = v0;
    for i in 0..3 {
        pt[i] = v0[i] + ua * e1[i] + vb * e2[i];
    }
    let (ee1, ee2): (V, V) = ([n * e1[0], n * e1[1], n * e1[2]], [n * e2[0], n * e2[1], n * e2[2]]);
    // ---- direction
    let parallel = class == 10 || class == 11;
    let dkind = if parallel { 0 } else { t.below(4) };
    let mut c: V = if parallel {
        let (ca, cb) = t.pick(&[(1i64, 0i64), (0, 1), (1, 1), (1, -1), (2, -1), (1, 3)]);
        let mut d = [0; 3];
        for i in 0..3 {
            d[i] = ca as I * e1[i] + cb as I * e2[i];
        }
        d
    } else {
        match dkind {
            0 | 2 => rnd_v(t, cmax),
            1 => {
                let mut d = [0; 3];
                d[t.below(3)] = if t.bool() { 1 } else { -1 };
                d
            }
            _ => {
                if tier == 0 {
                    rnd_v(t, 1)
                } else {
                    let (tri, _) = crate::pyth::<3>(t);
                    [tri[0] as I, tri[1] as I, tri[2] as I]
                }
            }
        }
    };
    if !parallel && class != 12 && class != 15 && rf::dot(&c, &nrm) == 0 {
        c = nrm;
    }
    if is_zero(&c) {
        c = [0, 0, 1];
    }
    // ---- hit parameter in units of C; placement decides how far the origin is
    let tt0: I = match class {
        13 => -(t.int(1, tmax) as I),
        14 => 0,
        _ => {
            let x = t.int(1, tmax) as I;
            if t.chance(48) {
                -x
            } else {
                x
            }
        }
    };
    let pm = t.below(8);
    let origin_of = |tt: I| -> V {
        let mut o = pt;
        for i in 0..3 {
            o[i] = pt[i] - tt * c[i];
        }
        o
    };
    let v1 = addv(&v0, &ee1);
    let v2 = addv(&v0, &ee2);
    // the far shift of the origin along the direction (mixed placements)
    let budget_far = if pm >= 5 { mant - 2 } else { mant - 6 };
    let mut far: u32 = match pm {
        0..=4 => {
            if t.chance(48) {
                t.int(1, 3) as u32
            } else {
                0
            }
        }
        _ => {
            let hi = if pm == 7 { (mant - 2) / 2 } else { mant - 2 } as i64;
            if t.bool() {
                t.int(hi / 2, hi) as u32
            } else {
                t.int(1, hi) as u32
            }
        }
    };
    if tt0 == 0 || class == 15 {
        far = 0;
    }
    while far > 0 && bits(max_abs(&[&origin_of(tt0 << far), &v0, &v1, &v2])) > budget_far {
        far -= 1;
    }
    // rounded unit directions carry 61 fractional bits: keep the exact solve inside i128
    let allow_rounded = far <= 24;
    let tt = tt0 << far;
    let mut o = origin_of(tt);
    if class == 11 {
        let k = t.int(1, 4) as I;
        for i in 0..3 {
            o[i] += k * nrm[i];
        }
    }
    if class == 15 {
        o = addv(&v0, &rnd_v(t, 4 * emax * nmax));
    }
    // ---- placement
    let e = grid_exp::<S>(t);
    let b_loc = bits(max_abs(&[&o, &v0, &v1, &v2]));
    let off: V;
    let rho: u32;
    match pm {
        0..=4 | 7 => {
            let g = match gen_offset::<3>(t, cx, mant, b_loc, f32_) {
                Some(g) => g,
                None => discard!("figure too large for the grid"),
            };
            off = g.o;
            rho = g.rho;
            cx.label(if pm == 7 { "placement: far offset AND ray origin far from the triangle" } else { "placement: ray origin and triangle share the far offset" });
        }
        5 => {
            off = [0; 3];
            rho = 0;
            cx.label("placement: triangle at the world origin, ray origin far away");
        }
        _ => {
            // the ray origin at (or a few units from) the world origin, the triangle far away
            let j = rnd_v(t, 2);
            off = [j[0] - o[0], j[1] - o[1], j[2] - o[2]];
            rho = 0;
            cx.label("placement: ray origin at the world origin, triangle far away");
        }
    }
    if far > 0 {
        cx.label(if far >= 30 {
            "ray origin 2^30.. direction lengths from the triangle"
        } else if far >= 12 {
            "ray origin 2^12..2^29 direction lengths from the triangle"
        } else {
            "ray origin 2^1..2^11 direction lengths from the triangle"
        });
    }
    let (oi, v0i, v1i, v2i) = (addv(&o, &off), addv(&v0, &off), addv(&v1, &off), addv(&v2, &off));
    let (o_s, v0_s, v1_s, v2_s): ([S; 3], [S; 3], [S; 3], [S; 3]) = match (put_v::<S, 3>(&oi, e), put_v::<S, 3>(&v0i, e), put_v::<S, 3>(&v1i, e), put_v::<S, 3>(&v2i, e)) {
        (Some(a), Some(b), Some(c), Some(d)) => (a, b, c, d),
        _ => discard!("a coordinate is not exactly representable"),
    };
    let s = rf::subv(&o, &v0);
    if bits(max_abs(&[&s, &ee1, &ee2])) > mant {
        discard!("a coordinate difference is not exactly representable");
    }
    // ---- direction in S: integer vector times 2^kd, or the rounded unit vector
    let kd: i32 = if t.bool() { 0 } else { t.int(-8, 8) as i32 };
    let p_d = pow2::<S>(kd);
    let (d_s, dd, kdir, exact_dir): ([S; 3], V, i32, bool) = if !parallel && (dkind == 2 || dkind == 3) && class != 15 && allow_rounded && tier != 0 && c.iter().all(|x| x.abs() <= 64) {
        let l = S::i((c[0] * c[0] + c[1] * c[1] + c[2] * c[2]) as i64).sqrt();
        let u = [S::i(c[0] as i64) / l, S::i(c[1] as i64) / l, S::i(c[2] as i64) / l];
        let mut dd = [0 as I; 3];
        for i in 0..3 {
            let x = u[i].f() * p2f(61);
            if x.fract() != 0.0 || x.abs() >= 9.3e18 {
                fail!("harness: rounded direction component {:?} is not a multiple of 2^-61", u[i]);
            }
            dd[i] = x as I;
        }
        cx.label("unit direction (rounded)");
        ([u[0] * p_d, u[1] * p_d, u[2] * p_d], dd, kd - 61, false)
    } else {
        if nz(&c) == 1 && c.iter().all(|x| x.abs() <= 1) {
            cx.label("unit direction (exact)");
        }
        ([S::i(c[0] as i64) * p_d, S::i(c[1] as i64) * p_d, S::i(c[2] as i64) * p_d], c, kd, true)
    };
    sample!(cx, "{} class={} (units of 2^{}) o={:?} tri=[{:?}, {:?}, {:?}] d={:?}; local O={:?} V0={:?} E1={:?} E2={:?} C={:?} offset={:?} far={} kd={}, constructed u={}/{} v={}/{} T={}", S::NAME, class, e, oi, v0i, v1i, v2i, d_s, o, v0, ee1, ee2, c, off, far, kd, ua, n, vb, n, tt);

    // ---- exact integer oracle: u E1 + v E2 - tau D = s
    let nd: V = [-dd[0], -dd[1], -dd[2]];
    let det = det3(&ee1, &ee2, &nd);
    let un = det3(&s, &ee2, &nd);
    let vn = det3(&ee1, &s, &nd);
    let tn = det3(&ee1, &ee2, &s);
    let constructed = class <= 14 && !parallel && class != 12;
    if constructed && exact_dir {
        if det == 0 {
            fail!("harness: constructed non-parallel case has determinant 0");
        }
        if un * n != ua * det || vn * n != vb * det || tn != tt * det {
            fail!("harness: oracle ({}, {}, {})/{} differs from the construction u={}/{} v={}/{} T={}", un, vn, tn, det, ua, n, vb, n, tt);
        }
    }
    cx.label(match class {
        0 | 1 => "constructed: interior hit",
        6 | 7 => "constructed: miss",
        8 => "constructed: near miss (1/n outside)",
        9 => "constructed: just inside (1/n)",
        10 => "constructed: parallel, in the plane",
        11 => "constructed: parallel, off the plane",
        12 => "constructed: degenerate triangle",
        13 => "constructed: hit behind the origin",
        14 => "constructed: origin on the triangle (tau = 0)",
        _ => "unconstructed: random ray",
    });
    cx.set_nontrivial(rho >= 4 || far >= 4);
    let what = format!("(units of 2^{}) o={:?} tri=[{:?}, {:?}, {:?}] direction={:?}", e, oi, v0i, v1i, v2i, d_s);

    let ray = Ray::<S>::new(vk::v3(&o_s), vk::v3(&d_s));
    let got: Option<S> = ray.triangle_intersection([vk::v3(&v0_s), vk::v3(&v1_s), vk::v3(&v2_s)]);

    if det == 0 {
        cx.label("oracle: determinant 0 -> None");
        if exact_dir {
            check!(cx, got.is_none(), "ray parallel to the plane / degenerate triangle (determinant 0) but got {:?}: {}", got, what);
        }
        return Ok(());
    }
    // the parallel band is relative to the factors of the determinant (see ray_scale.rs)
    let ea = 2 * e + kdir;
    let adet = (det as f64).abs();
    let ad = abs_triple(&ee1, &dd, &ee2);
    let gamma = 16.0 * S::eps();
    let eps_t = S::eps();
    let hh: V = [dd[1] * ee2[2] - dd[2] * ee2[1], dd[2] * ee2[0] - dd[0] * ee2[2], dd[0] * ee2[1] - dd[1] * ee2[0]];
    let m1 = ee1.iter().map(|x| x.abs()).max().unwrap() as f64;
    let mh = hh.iter().map(|x| x.abs()).max().unwrap() as f64;
    let rel = adet / (m1 * mh);
    let below = if exact_dir { rel <= 2.0 * eps_t } else { rel <= 2.0 * eps_t + 2.0 * gamma * ad / (m1 * mh) };
    if below {
        cx.label("|a| <= 2 eps max|edge1| max|direction x edge2|: parallel to within rounding (not asserted)");
        return Ok(());
    }
    let sg = det.signum();
    let (un, vn, tn, dn) = (un * sg, vn * sg, tn * sg, det * sg);
    let wn = dn - un - vn;
    let (uf, vf, wf, tf) = (un as f64 / dn as f64, vn as f64 / dn as f64, wn as f64 / dn as f64, tn as f64 / dn as f64);
    let at = abs_triple(&ee2, &s, &ee1);
    if 4.0 * gamma * ad > adet {
        cx.label("float: ill-conditioned determinant (not asserted)");
        return Ok(());
    }
    let au = abs_triple(&s, &dd, &ee2);
    let av = abs_triple(&dd, &s, &ee1);
    let mu = 2.0 * gamma * (au + uf.abs() * ad) / adet + 4.0 * S::eps() * uf.abs();
    let mv = 2.0 * gamma * (av + vf.abs() * ad) / adet + 4.0 * S::eps() * vf.abs();
    let mw = mu + mv + 4.0 * S::eps() * (1.0 + uf.abs() + vf.abs());
    let inside = uf > mu && vf > mv && wf > mw;
    let outside = uf < -mu || vf < -mv || wf < -mw;
    if !inside && !outside {
        cx.label(if far > 0 { "float: crossing within rounding of an edge, far origin (not asserted)" } else { "float: crossing within rounding of an edge (not asserted)" });
        return Ok(());
    }
    if !inside {
        cx.label("oracle: miss -> None");
        check!(cx, got.is_none(), "the line misses the triangle (u={} v={} 1-u-v={}, margins {:e} {:e} {:e}) but got {:?}: {}", uf, vf, wf, mu, mv, mw, got, what);
        return Ok(());
    }
    cx.label(if tn < 0 { "oracle: hit, tau < 0 (line, behind the origin)" } else if tn == 0 { "oracle: hit, tau = 0" } else { "oracle: hit, tau > 0" });
    let g = match got {
        Some(g) => g,
        None => fail!("the line crosses the triangle at u={} v={} tau={} (margins {:e} {:e} {:e}; det {}, a = det * 2^{}) but got None: {}", uf, vf, tf, mu, mv, mw, det, ea, what),
    };
    cx.count();
    // in the integer units: g_u = g * 2^(kdir - e) against tau = tn / dn
    let gu = g.f() * p2f((kdir - e).clamp(-1000, 1000));
    let tol_t = 2.0 * gamma * (at + tf.abs() * ad) / adet + 4.0 * S::eps() * tf.abs();
    let err = (gu - tf).abs();
    if tol_t > 0.0 {
        cx.note_err(err / tol_t);
    }
    if !(err <= tol_t) {
        fail!("returned parameter {:?} (= {:e} in the units of the integer solve) differs from tau = {}/{} = {:e} by {:e} > {:e}: {}", g, gu, tn, dn, tf, err, tol_t, what);
    }
    // origin + t * direction is the crossing point V0 + u E1 + v E2, in local grid units
    for i in 0..3 {
        cx.count();
        let crossing = (v0[i] * dn + un * ee1[i] + vn * ee2[i]) as f64 / dn as f64;
        let along = gu * dd[i] as f64;
        let have = o[i] as f64 + along;
        let tol = (dd[i] as f64).abs() * tol_t + 4.0 * S::eps() * ((o[i] as f64).abs() + along.abs() + crossing.abs());
        let err = (have - crossing).abs();
        if tol > 0.0 {
            cx.note_err(err / tol);
        }
        if !(err <= tol) {
            fail!("origin + t*direction [{}] = {:e} differs from the crossing point {:e} by {:e} > {:e} (local grid units): {}", i, have, crossing, err, tol, what);
        }
    }
    Ok(())
}

pub fn checks(checks: &mut Vec<Check>) {
    let about = "Ray::triangle_intersection with the ray origin and the triangle far from the world origin (offset + local integer configuration on a dyadic grid, every coordinate exact; |offset| / size up to 2^22 (f32) / 2^50 (f64)) and the mixed placements (triangle at the origin / ray origin up to 2^22 (2^51) direction lengths away, ray origin at the world origin / triangle far away) vs the exact integer Cramer solve of the local configuration: None iff determinant 0 or outside the triangle, hit / miss asserted whenever every barycentric coordinate clears its forward error bound (derived from exact differences: independent of the offset), parameter and crossing point within the same bound";
    checks.push(Check { name: "ray-placed-f64", about, kind: Kind::Tape { len: 160, quick: 16_000, thorough: 800_000, f: ray_placed_case::<f64> } });
    checks.push(Check { name: "ray-placed-f32", about, kind: Kind::Tape { len: 160, quick: 16_000, thorough: 800_000, f: ray_placed_case::<f32> } });
}
