//! Ray::triangle_intersection against a Cramer-rule solve of  o + tau d = v0 + u e1 + v e2.
//!
//! vek's doc comment: "If the returned value is Some(x) where x < EPSILON, then you should assume there was a
//! line intersection, NOT a ray intersection" — i.e. hits behind the origin are reported with a negative
//! parameter, which is what the property statement ("the ray's line") says. Expected: None when the
//! determinant is 0, else Some(tau) exactly when u >= 0, v >= 0, u + v <= 1.

use crate::{lift_v, nonzero_count, pyth, Lift};
use num_traits::Zero;
use vek::geom::repr_c::Ray;
use vkit::refmath as rf;
use vkit::vk;
use vkit::*;

/// Coordinates on the quarter grid (so determinants of differences are multiples of 1/64).
fn grid<S: Dom>(t: &mut Tape, max: i64) -> S {
    if t.bool() {
        S::i(t.small_int(max))
    } else {
        S::q(t.int(-4 * max, 4 * max), 4)
    }
}
fn grid_v<S: Dom>(t: &mut Tape, max: i64) -> [S; 3] {
    [grid(t, max), grid(t, max), grid(t, max)]
}

fn det3<O: Dom>(c0: &[O; 3], c1: &[O; 3], c2: &[O; 3]) -> O {
    // matrix with the given *columns*
    let m = [[c0[0], c1[0], c2[0]], [c0[1], c1[1], c2[1]], [c0[2], c1[2], c2[2]]];
    rf::det(&m)
}

fn ray_case<S: Lift>(t: &mut Tape, cx: &mut Cx) -> CaseResult {
    let class = t.below(16);
    let v0: [S; 3] = grid_v(t, 6);
    let mut e1: [S; 3] = grid_v(t, 6);
    let mut e2: [S; 3] = grid_v(t, 6);
    if nonzero_count(&e1) == 0 {
        e1[0] = S::one();
    }
    if nonzero_count(&e2) == 0 {
        e2[1] = S::one();
    }
    if class == 12 {
        // degenerate triangle: zero area
        match t.below(4) {
            0 => e2 = rf::scale(&e1, t.pick(&[S::i(1), S::i(-2), S::q(1, 2), S::i(3)])),
            1 => e2 = [S::zero(); 3],
            2 => e1 = [S::zero(); 3],
            _ => {
                e1 = [S::zero(); 3];
                e2 = [S::zero(); 3];
            }
        }
    }
    let nrm = rf::cross(&e1, &e2);
    let flat = nonzero_count(&nrm) == 0;
    if class != 12 && flat {
        // e2 happened to be parallel to e1: make the triangle proper
        discard!("random triangle is degenerate");
    }
    // barycentric coordinates of the crossing point
    let n = t.int(3, 8);
    let a = t.int(1, n - 2);
    let b = t.int(1, n - 1 - a);
    let (fa, fb) = (S::q(a, n), S::q(b, n));
    // distance of the near-miss / just-inside classes from the edge: 1/64, and (exact domain only) down to
    // 2^-60, i.e. far below T::epsilon() = 2^-52 -- the closed triangle has no tolerance band
    let h = if S::EXACT && (class == 8 || class == 9) {
        let e = t.pick(&[6i64, 6, 20, 45, 60]);
        if e > 6 {
            cx.label("edge distance 2^-20 .. 2^-60 (below epsilon)");
        }
        S::q(1, 1i64 << e)
    } else {
        S::q(1, 64)
    };
    let half = S::q(1, 2);
    let one = S::one();
    let zero = S::zero();
    let (u, v): (S, S) = match class {
        2 => (zero, S::q(a, n)),
        3 => (S::q(a, n), zero),
        4 => (S::q(a, n), S::q(n - a, n)),
        5 => t.pick(&[(zero, zero), (one, zero), (zero, one)]),
        6 | 7 => t.pick(&[(-fa, fb), (fa, -fb), (-fa, -fb), (fa, one - fa + fb), (one + fa, fb), (fa, one + fb), (one + fa, -fa - fb), (-fa - fb, one + fa), (one + fa, -fb)]),
        8 => t.pick(&[(-h, half), (half, -h), (half + h, half), (half, half + h), (one + h, -h - h), (-h, one), (one, -h), (-h, -h), (one + h, zero), (zero, one + h)]),
        9 => t.pick(&[(h, half), (half, h), (half - h, half), (h, h), (one - h - h, h), (h, one - h - h)]),
        _ => (fa, fb),
    };
    let mut pt = v0;
    for i in 0..3 {
        pt[i] = v0[i] + u * e1[i] + v * e2[i];
    }
    // direction
    let parallel = class == 10 || class == 11;
    let mut d: [S; 3] = if parallel {
        let (ca, cb) = t.pick(&[(one, zero), (zero, one), (one, one), (one, -one), (S::i(2), S::q(-1, 2)), (S::q(1, 4), S::i(3))]);
        let mut d = [zero; 3];
        for i in 0..3 {
            d[i] = ca * e1[i] + cb * e2[i];
        }
        d
    } else {
        match t.below(4) {
            0 | 1 => grid_v(t, 4),
            2 => {
                // exactly normalised direction
                let (tri, hyp) = pyth::<3>(t);
                cx.label("unit direction (exact)");
                [S::q(tri[0], hyp), S::q(tri[1], hyp), S::q(tri[2], hyp)]
            }
            _ => {
                let mut d = [zero; 3];
                d[t.below(3)] = if t.bool() { one } else { -one };
                cx.label("unit direction (exact)");
                d
            }
        }
    };
    if !parallel && class != 12 && class != 15 {
        // the constructed direction must cross the plane: fall back to the plane normal otherwise
        if rf::dot(&d, &nrm).is_zero() {
            d = nrm;
        }
    }
    if !S::EXACT && !parallel && t.bool() && nonzero_count(&d) > 0 {
        // floats: approximately normalised direction, as the doc expects
        let l = (d[0] * d[0] + d[1] * d[1] + d[2] * d[2]).sqrt();
        d = [d[0] / l, d[1] / l, d[2] / l];
        cx.label("unit direction (rounded)");
    }
    let tau: S = match class {
        13 => -S::q(t.int(1, 40), t.pick(&[1i64, 2, 4, 8])),
        14 => zero,
        _ => {
            let x = S::q(t.int(1, 40), t.pick(&[1i64, 2, 4, 8]));
            if t.chance(48) {
                -x
            } else {
                x
            }
        }
    };
    let mut o = pt;
    for i in 0..3 {
        o[i] = pt[i] - tau * d[i];
    }
    if class == 11 {
        // lift the origin off the plane
        let k = S::q(t.int(1, 8), 2);
        for i in 0..3 {
            o[i] = o[i] + k * nrm[i];
        }
    }
    if class == 15 {
        o = grid_v(t, 8);
        d = grid_v(t, 4);
    }
    let v1 = rf::addv(&v0, &e1);
    let v2 = rf::addv(&v0, &e2);
    sample!(cx, "{} class={} o={:?} d={:?} tri=[{:?}, {:?}, {:?}] (constructed u={:?} v={:?} tau={:?})", S::NAME, class, o, d, v0, v1, v2, u, v, tau);

    // ---- oracle: Cramer's rule on  u e1 + v e2 - tau d = o - v0, from the actual inputs
    let (oo, dd, w0, w1, w2) = (lift_v::<S, 3>(&o), lift_v::<S, 3>(&d), lift_v::<S, 3>(&v0), lift_v::<S, 3>(&v1), lift_v::<S, 3>(&v2));
    let zo = <S::O as Zero>::zero();
    let oneo = <S::O as Dom>::i(1);
    let f1 = rf::subv(&w1, &w0);
    let f2 = rf::subv(&w2, &w0);
    let s = rf::subv(&oo, &w0);
    let nd = [-dd[0], -dd[1], -dd[2]];
    let det = det3(&f1, &f2, &nd);
    // magnitudes for the float decision margins
    let mm = vk::vec_max(&f1).max(vk::vec_max(&f2)).max(vk::vec_max(&dd)).max(vk::vec_max(&s)).max(1e-3);
    let big = 6.0 * mm * mm * mm;
    let adet = det.f().abs();
    let det_zero = if S::EXACT { det.is_zero() } else { adet <= 1e-9 * big };
    if !det_zero && adet < 1e-3 {
        // vek compares the determinant with T::epsilon(): keep "non-parallel" unambiguous
        if S::EXACT {
            discard!("determinant in (0, 1e-3)");
        }
        cx.label("float: tiny determinant (not asserted)");
        return Ok(());
    }
    let seg_label = match class {
        0 | 1 => "constructed: interior hit",
        2 => "constructed: on edge u = 0",
        3 => "constructed: on edge v = 0",
        4 => "constructed: on edge u + v = 1",
        5 => "constructed: on a vertex",
        6 | 7 => "constructed: miss",
        8 => "constructed: near miss (1/64 .. 2^-60 outside)",
        9 => "constructed: just inside (1/64 .. 2^-60)",
        10 => "constructed: parallel, in the plane",
        11 => "constructed: parallel, off the plane",
        12 => "constructed: degenerate triangle",
        13 => "constructed: hit behind the origin",
        14 => "constructed: origin on the triangle (tau = 0)",
        _ => "unconstructed: random ray",
    };
    cx.label(seg_label);
    cx.set_nontrivial(matches!(class, 2 | 3 | 4 | 5 | 8 | 9 | 10 | 11 | 12) || nonzero_count(&d) >= 2);

    let ray = Ray::<S>::new(vk::v3(&o), vk::v3(&d));
    let got: Option<S> = ray.triangle_intersection([vk::v3(&v0), vk::v3(&v1), vk::v3(&v2)]);

    if det_zero {
        cx.label("oracle: determinant 0 -> None");
        if S::EXACT && !(parallel || class == 12 || class == 15) {
            fail!("harness: constructed non-parallel case has determinant 0");
        }
        if !S::EXACT {
            // floats: asserted only when vek's own determinant is computed without rounding, i.e. the
            // direction and the vertices are multiples of 1/16 of magnitude <= 256 (all products and sums
            // of e1 . (d x e2) then fit in 41 bits). With inexact inputs the determinant of an exactly
            // degenerate configuration is rounding noise, which vek compares with the machine epsilon.
            let dyadic = |x: f64| (x * 16.0).fract() == 0.0 && x.abs() <= 256.0;
            let exact_inputs = [&dd, &w0, &w1, &w2].iter().all(|a| a.iter().all(|x| dyadic(x.f())));
            if !(adet == 0.0) || !exact_inputs {
                cx.label("float: determinant ~ 0 with inexact inputs (not asserted)");
                return Ok(());
            }
        }
        check!(cx, got.is_none(), "ray parallel to the plane / degenerate triangle (determinant 0) but got {:?}", got);
        return Ok(());
    }
    let uo = det3(&s, &f2, &nd) / det;
    let vo = det3(&f1, &s, &nd) / det;
    let to = det3(&f1, &f2, &s) / det;
    if S::EXACT && class <= 14 && !parallel && class != 12 {
        // harness self-check: the solve recovers the constructed coordinates
        if uo != u.lift() || vo != v.lift() || to != tau.lift() {
            fail!("harness: oracle ({:?},{:?},{:?}) differs from the construction ({:?},{:?},{:?})", uo, vo, to, u, v, tau);
        }
    }
    let wo = oneo - uo - vo;
    // floats: relative error of the three coordinates is bounded by ~ c*eps*big/|det|
    let margin = if S::EXACT { 0.0 } else { 256.0 * S::eps() * (big / adet) * (1.0 + uo.f().abs().max(vo.f().abs())) + 1e-12 };
    let inside = uo.f() >= margin && vo.f() >= margin && wo.f() >= margin;
    let outside = uo.f() < -margin || vo.f() < -margin || wo.f() < -margin;
    let want_hit = if S::EXACT { uo >= zo && vo >= zo && wo >= zo } else { inside };
    if !S::EXACT && !inside && !outside {
        cx.label("float: crossing within rounding of an edge (not asserted)");
        return Ok(());
    }
    if S::EXACT {
        let on_edge = want_hit && (uo.is_zero() || vo.is_zero() || wo.is_zero());
        if on_edge {
            cx.label("oracle: hit exactly on the boundary");
        }
    }
    if want_hit {
        cx.label(if to < zo { "oracle: hit, tau < 0 (line, behind the origin)" } else if to.is_zero() { "oracle: hit, tau = 0" } else { "oracle: hit, tau > 0" });
        let g = match got {
            Some(g) => g.lift(),
            None => fail!("the line crosses the triangle at u={:?} v={:?} tau={:?} (det {:?}) but got None", uo, vo, to, det),
        };
        // k = 64, scale = (1 + |tau|) * big/|det|
        let sc = (1.0 + to.f().abs()) * (big / adet).max(1.0);
        near!(cx, S, g, to, sc, 64, "returned parameter vs Cramer tau");
        // origin + t*direction is the crossing point v0 + u e1 + v e2
        let cross_pt = rf::addv(&w0, &rf::addv(&rf::scale(&f1, uo), &rf::scale(&f2, vo)));
        let cm = 1.0 + vk::vec_max(&oo).max(vk::vec_max(&w0)).max(vk::vec_max(&w1)).max(vk::vec_max(&w2));
        for i in 0..3 {
            near!(cx, S, oo[i] + g * dd[i], cross_pt[i], sc * cm, 64, "origin + t*direction [{}] vs crossing point", i);
        }
    } else {
        cx.label("oracle: miss -> None");
        check!(cx, got.is_none(), "the line misses the triangle (u={:?} v={:?} 1-u-v={:?}, det {:?}) but got {:?}", uo, vo, wo, det, got);
    }
    Ok(())
}

pub fn checks(checks: &mut Vec<Check>) {
    let about = "Ray::triangle_intersection vs Cramer solve of o + tau d = v0 + u e1 + v e2: None iff determinant 0 or (u,v) outside the closed triangle, else Some(tau) (negative for hits behind the origin) with o + tau d the crossing point; constructed classes: interior, each edge, each vertex, miss, near miss, just inside, parallel in/off plane, degenerate triangle, behind the origin, tau = 0";
    checks.push(Check { name: "ray-rat", about, kind: Kind::Tape { len: 96, quick: 40_000, thorough: 1_500_000, f: ray_case::<Rat> } });
    checks.push(Check { name: "ray-f64", about, kind: Kind::Tape { len: 128, quick: 30_000, thorough: 1_000_000, f: ray_case::<f64> } });
}
