//! Ray::triangle_intersection with the crossing point EXACTLY on the boundary of the triangle, in floats.
//!
//! The statement counts the closed triangle: a line that crosses an edge or a vertex non-parallelly is a hit.
//! In floating point that is decidable exactly when every intermediate of the computation is exactly
//! representable, which this module arranges by construction:
//!   * the three columns (E1, E2, D) are a unimodular integer matrix (identity + a few integer shears, entries
//!     <= 8) whose columns are multiplied by powers of two, so the determinant a = E1 . (D x E2) is +-2^m and its
//!     reciprocal is exact; positions are integers, the barycentric coordinates of the crossing are multiples of
//!     1/4 and E1, E2 are multiples of 4, the hit parameter is an integer; everything is then multiplied exactly
//!     by 2^kt (positions) and 2^kd (direction);
//!   * the case computes the largest sum of absolute values of the terms of every dot / cross product vek (or any
//!     other formula made of sums and products of the inputs) can form and asserts only when it is below 2^24
//!     (f32) / 2^53 (f64), i.e. when no rounding can occur anywhere.
//! Then u, v, u + v and the parameter are exact dyadic numbers, a zero coordinate is computed as an exact zero
//! (-0.0 when the reciprocal of the determinant is negative: both windings of the triangle and both senses of
//! the direction are generated, so that is half of the cases), u + v = 1 is exactly 1, and the only correct
//! answer is Some(tau) with origin + tau * direction == crossing point, all compared with `==`.
//!
//! A share of the cases (edges v0-v1, v0-v2 and the vertex v0 only, where the deciding numerators are exact
//! zeros and the other coordinates are >= 1/4 away from their bounds) uses a determinant 3 * 2^m or 5 * 2^m,
//! whose reciprocal is rounded: the verdict is still forced, the parameter is compared within 4 eps.
//!
//! Rat has no signed zero; it runs the same cases as the control.

use crate::Lift;
use vek::geom::repr_c::Ray;
use vkit::refmath as rf;
use vkit::regimes::pow2;
use vkit::vk;
use vkit::*;

type I = i128;
type V = [I; 3];

fn det3(c0: &V, c1: &V, c2: &V) -> I {
    rf::det(&[[c0[0], c1[0], c2[0]], [c0[1], c1[1], c2[1]], [c0[2], c1[2], c2[2]]])
}
fn vmax(a: &V) -> I {
    a.iter().map(|x| x.abs()).max().unwrap()
}
/// componentwise upper bound of |a x b| when |a_i| <= a_i, |b_i| <= b_i (entries are absolute values)
fn abs_cross(a: &V, b: &V) -> V {
    let mut r = [0; 3];
    for i in 0..3 {
        let (j, k) = ((i + 1) % 3, (i + 2) % 3);
        r[i] = a[j] * b[k] + a[k] * b[j];
    }
    r
}
fn abs_dot(a: &V, b: &V) -> I {
    a[0] * b[0] + a[1] * b[1] + a[2] * b[2]
}
fn absv(a: &V) -> V {
    [a[0].abs(), a[1].abs(), a[2].abs()]
}

fn ray_edge_case<S: Lift>(t: &mut Tape, cx: &mut Cx) -> CaseResult {
    // ---- unimodular columns
    let rot = t.below(3);
    let mut col: [V; 3] = [[0; 3]; 3];
    for i in 0..3 {
        col[i][(i + rot) % 3] = if t.bool() { 1 } else { -1 };
    }
    let shears = t.int(0, 4);
    for _ in 0..shears {
        let i = t.below(3);
        let j = (i + 1 + t.below(2)) % 3;
        let k = t.pick(&[1i64, -1, 2, -2]) as I;
        let mut c = col[i];
        for r in 0..3 {
            c[r] += k * col[j][r];
        }
        if vmax(&c) <= 8 {
            col[i] = c;
        }
    }
    // ---- column factors: E1, E2 multiples of 4 (barycentric grid 1/4), all powers of two; optionally one odd factor
    let class = t.below(10);
    let general_ok = matches!(class, 0 | 1 | 3);
    let odd: I = if general_ok && t.chance(96) { t.pick(&[3i64, 5]) as I } else { 1 };
    let odd_col = t.below(3);
    let f1 = (4 << t.below(3)) as I;
    let f2 = (4 << t.below(3)) as I;
    let f3 = (1 << t.below(3)) as I;
    let mul = |v: &V, k: I| -> V { [v[0] * k, v[1] * k, v[2] * k] };
    let e1 = mul(&col[0], f1 * if odd_col == 0 { odd } else { 1 });
    let e2 = mul(&col[1], f2 * if odd_col == 1 { odd } else { 1 });
    let sense: I = if t.bool() { -1 } else { 1 };
    let d = mul(&col[2], sense * f3 * if odd_col == 2 { odd } else { 1 });
    let v0: V = [t.small_int(8) as I, t.small_int(8) as I, t.small_int(8) as I];
    // ---- the crossing point, barycentric coordinates in units of 1/4
    let k = t.int(1, 3) as I;
    let (ku, kv, label, hit): (I, I, &'static str, bool) = match class {
        0 => (k, 0, "on edge v0-v1 (v = 0)", true),
        1 => (0, k, "on edge v0-v2 (u = 0)", true),
        2 | 8 => (k, 4 - k, "on edge v1-v2 (u + v = 1)", true),
        3 => (0, 0, "at vertex v0", true),
        4 => (4, 0, "at vertex v1 (u = 1, v = 0)", true),
        5 => (0, 4, "at vertex v2 (u = 0, v = 1)", true),
        6 => (1, t.int(1, 2) as I, "control: interior (exact)", true),
        7 => t.pick(&[(-1 as I, 2 as I, "control: 1/4 outside edge v0-v2 (exact)", false), (2, -1, "control: 1/4 outside edge v0-v1 (exact)", false), (2, 3, "control: 1/4 outside edge v1-v2 (exact)", false), (5, -1, "control: 1/4 beyond vertex v1 (exact)", false)]),
        _ => (k, 4 - k, "on edge v1-v2 (u + v = 1)", true),
    };
    cx.label(label);
    let mut pt = v0;
    for i in 0..3 {
        pt[i] = v0[i] + ku * (e1[i] / 4) + kv * (e2[i] / 4);
    }
    // ---- hit parameter (integer, both signs, several distances) and origin
    let tau: I = {
        let m = t.pick(&[0i64, 1, 1, 2, 3, 5, 8, 16, 64]) as I;
        if t.chance(80) {
            -m
        } else {
            m
        }
    };
    let mut o = pt;
    for i in 0..3 {
        o[i] = pt[i] - tau * d[i];
    }
    let v1 = rf::addv(&v0, &e1);
    let v2 = rf::addv(&v0, &e2);
    let swap = t.bool();
    cx.label(if swap { "winding: [v0, v2, v1]" } else { "winding: [v0, v1, v2]" });
    cx.label(if sense < 0 { "direction sense: reversed" } else { "direction sense: as constructed" });
    // what vek sees: tri = [w0, w1, w2], edge1 = w1 - w0, edge2 = w2 - w0
    let (w1, w2, g1, g2) = if swap { (v2, v1, e2, e1) } else { (v1, v2, e1, e2) };
    let nd: V = [-d[0], -d[1], -d[2]];
    let det = det3(&g1, &g2, &nd); // = edge1 . (d x edge2), vek's a in integer units
    if det == 0 {
        fail!("harness: unimodular construction produced determinant 0");
    }
    let pow2_det = det.abs().count_ones() == 1;
    if pow2_det != (odd == 1) {
        fail!("harness: determinant {} is not the constructed +-{} * 2^m", det, odd);
    }
    // harness self-check: exact integer Cramer solve recovers the constructed coordinates (in vek's labelling)
    let s = rf::subv(&o, &v0);
    let (un, vn, tn) = (det3(&s, &g2, &nd), det3(&g1, &s, &nd), det3(&g1, &g2, &s));
    let (cu, cv) = if swap { (kv, ku) } else { (ku, kv) };
    if un * 4 != cu * det || vn * 4 != cv * det || tn != tau * det {
        fail!("harness: solve ({}, {}, {})/{} differs from the construction u={}/4 v={}/4 tau={}", un, vn, tn, det, cu, cv, tau);
    }
    cx.label(if det < 0 { "determinant < 0 (negative reciprocal)" } else { "determinant > 0" });
    if det < 0 && hit && (un == 0 || vn == 0) {
        cx.label("exact zero coordinate times a negative reciprocal (-0.0 in floats)");
    }
    cx.label(if pow2_det { "determinant +-2^m (everything exact)" } else { "determinant +-3 * 2^m or +-5 * 2^m (rounded reciprocal)" });
    cx.label(if tau == 0 { "tau = 0" } else if tau < 0 { "tau < 0 (behind the origin)" } else { "tau > 0" });
    // ---- exact evaluability: no sum of absolute values of the terms of any product reaches the mantissa
    let (ad, a1, a2, asv) = (absv(&d), absv(&g1), absv(&g2), absv(&s));
    let h = abs_cross(&ad, &a2);
    let q = abs_cross(&asv, &a1);
    let mut big = abs_dot(&a1, &h).max(abs_dot(&asv, &h)).max(abs_dot(&ad, &q)).max(abs_dot(&a2, &q));
    for x in [&o, &v0, &w1, &w2, &pt] {
        big = big.max(vmax(x));
    }
    big = big.max(vmax(&h)).max(vmax(&q)).max(vmax(&asv) + (tau.abs() * vmax(&ad)));
    let mant: u32 = match S::NAME {
        "f32" => 24,
        "f64" => 53,
        _ => 120,
    };
    if big >= (1 as I) << mant {
        cx.label("not exactly evaluable in this type (not asserted)");
        return Ok(());
    }
    // ---- scales: a = det * 2^(2 kt + kd) stays >= 16 T::epsilon(); products stay far inside the exponent range
    let (kt_lo, kt_hi): (i64, i64) = match S::NAME {
        "f32" => (-9, 30),
        "f64" => (-24, 200),
        _ => (-20, 10),
    };
    let kt = if t.bool() { 0 } else { t.int(kt_lo, kt_hi) as i32 };
    let kd = if t.bool() { 0 } else { t.int(-4, 4) as i32 };
    cx.label(if kt == 0 && kd == 0 { "unit scale" } else if kt < 0 { "positions * 2^-k" } else { "positions * 2^+k / direction * 2^k" });
    let (p_t, p_d) = (pow2::<S>(kt), pow2::<S>(kd));
    let sc = |x: &V, p: S| -> [S; 3] { [S::i(x[0] as i64) * p, S::i(x[1] as i64) * p, S::i(x[2] as i64) * p] };
    let (o_s, d_s, w0_s, w1_s, w2_s, pt_s) = (sc(&o, p_t), sc(&d, p_d), sc(&v0, p_t), sc(&w1, p_t), sc(&w2, p_t), sc(&pt, p_t));
    sample!(cx, "{} {} o={:?} d={:?} tri=[{:?}, {:?}, {:?}] crossing={:?} (integers O={:?} D={:?} V0={:?} E1={:?} E2={:?}, det={}, u={}/4 v={}/4 tau={}, kt={} kd={})", S::NAME, label, o_s, d_s, w0_s, w1_s, w2_s, pt_s, o, d, v0, g1, g2, det, cu, cv, tau, kt, kd);
    cx.set_nontrivial(true);
    let ray = Ray::<S>::new(vk::v3(&o_s), vk::v3(&d_s));
    let got: Option<S> = ray.triangle_intersection([vk::v3(&w0_s), vk::v3(&w1_s), vk::v3(&w2_s)]);
    if !hit {
        check!(cx, got.is_none(), "{}: the line misses the closed triangle (u={}/4 v={}/4, det {}) but got {:?}", label, cu, cv, det, got);
        return Ok(());
    }
    let g = match got {
        Some(g) => g,
        None => fail!("{}: the line crosses the closed triangle exactly there (u={}/4 v={}/4 in vek's labelling, u+v={}/4, det {}, tau {}) but got None", label, cu, cv, cu + cv, det, tau),
    };
    let want = S::i(tau as i64) * pow2::<S>(kt - kd);
    if pow2_det || S::EXACT {
        check!(cx, g == want, "{}: returned parameter {:?}, exact value {:?}", label, g, want);
        for i in 0..3 {
            check!(cx, o_s[i] + g * d_s[i] == pt_s[i], "{}: origin + t*direction [{}] = {:?}, crossing point {:?}", label, i, o_s[i] + g * d_s[i], pt_s[i]);
        }
    } else {
        // t = fl(fl(1/a) * numerator), numerator exact: two roundings
        cx.count();
        let (gf, wf) = (g.f(), want.f());
        let tol = 4.0 * S::eps() * wf.abs();
        if tol > 0.0 {
            cx.note_err((gf - wf).abs() / tol);
        }
        if !((gf - wf).abs() <= tol) {
            fail!("{}: returned parameter {:?}, want {:?} within 4 eps", label, g, want);
        }
    }
    Ok(())
}

pub fn checks(checks: &mut Vec<Check>) {
    let about = "Ray::triangle_intersection with the crossing exactly on edge v0-v1, v0-v2, v1-v2 or at a vertex, both windings, both direction senses (negative determinant: exact zero coordinates become -0.0), several hit distances incl. 0 and negative, scaled by 2^k; integer / dyadic inputs with determinant +-2^m and every intermediate below the mantissa, so the closed-triangle answer Some(tau) with origin + tau*direction == crossing is compared exactly; exact interior / 1/4-outside controls; Rat = control without signed zero";
    checks.push(Check { name: "ray-edge-rat", about, kind: Kind::Tape { len: 64, quick: 5_000, thorough: 300_000, f: ray_edge_case::<Rat> } });
    checks.push(Check { name: "ray-edge-f64", about, kind: Kind::Tape { len: 64, quick: 15_000, thorough: 1_000_000, f: ray_edge_case::<f64> } });
    checks.push(Check { name: "ray-edge-f32", about, kind: Kind::Tape { len: 64, quick: 15_000, thorough: 1_000_000, f: ray_edge_case::<f32> } });
}
