//! Ray::triangle_intersection on configurations scaled *exactly* by powers of two: triangle size (and every
//! position) by 2^kt, direction length by 2^kd, hit distance by 2^j ("far origin").
//!
//! The statement is scale-free: whether the ray's line crosses the triangle does not depend on the unit of
//! length or on the length of the direction, and the returned parameter scales by 2^(kt-kd). vek's only
//! scale-dependent step WAS the parallel-ray guard, which compared the determinant
//! a = edge1 . (direction x edge2) with the *absolute* threshold T::epsilon() (finding F15, repaired: the guard is
//! now relative to max|edge1_i| * max|h_i|). Every case of this module is an
//! integer configuration (positions O, V0, V0+E1, V0+E2 in units of 2^kt, direction D in units of 2^kdir/den);
//! the oracle is an exact integer Cramer solve (i128, Leibniz determinants with a replaced column) of
//!     u E1 + v E2 - tau D = O - V0,
//! so a = det * 2^(2 kt + kdir) / den *exactly*, u, v do not depend on the scales and the parameter is
//! tau * den * 2^(kt - kdir).
//!
//! What counts as parallel: only a determinant that is zero to within rounding RELATIVE to its factors,
//! |a| <= 2 eps * max|edge1_i| * max|(direction x edge2)_i| (a scale-free ratio of the integer configuration; for
//! rounded unit directions the forward error bound of the computed a is added). Those cases are not asserted
//! (labelled); every other non-zero determinant is asserted, in particular 0 < |a| < T::epsilon() in absolute terms.

use crate::Lift;
use vek::geom::repr_c::Ray;
use vkit::refmath as rf;
use vkit::regimes::{pow2, scale_exp, scale_label};
use vkit::vk;
use vkit::*;

type I = i128;
type V = [I; 3];

fn det3(c0: &V, c1: &V, c2: &V) -> I {
    // matrix with the given *columns*
    rf::det(&[[c0[0], c1[0], c2[0]], [c0[1], c1[1], c2[1]], [c0[2], c1[2], c2[2]]])
}
fn fv(a: &V) -> [f64; 3] {
    [a[0] as f64, a[1] as f64, a[2] as f64]
}
/// sum_i |a_i| (|b_j c_k| + |b_k c_j|): the sum of the absolute values of the six terms of a . (b x c)
fn abs_triple(a: &V, b: &V, c: &V) -> f64 {
    let (a, b, c) = (fv(a), fv(b), fv(c));
    let mut s = 0.0;
    for i in 0..3 {
        let (j, k) = ((i + 1) % 3, (i + 2) % 3);
        s += a[i].abs() * ((b[j] * c[k]).abs() + (b[k] * c[j]).abs());
    }
    s
}
fn small_v(t: &mut Tape, max: i64) -> V {
    [t.small_int(max) as I, t.small_int(max) as I, t.small_int(max) as I]
}
fn is_zero(a: &V) -> bool {
    a.iter().all(|x| *x == 0)
}
fn nz(a: &V) -> usize {
    a.iter().filter(|x| **x != 0).count()
}
/// 2^k as f64 (|k| <= 1000).
fn p2f(k: i32) -> f64 {
    pow2::<f64>(k)
}

/// Per-domain exponent ranges. `e`: -log2(T::epsilon()); positions are scaled by 2^kt with |kt| <= kt_dn / kt_up,
/// the direction by 2^kd with |kd| <= kd; far origins multiply the hit parameter by up to 2^far.
/// With integer magnitudes below 2^22 every intermediate product of vek (up to 2^(3 kt + 22 + far)) stays in
/// the normal range of the type (f32: 2^+-126), so neither overflow nor underflow is ever involved.
struct Lim {
    e: i32,
    kt_dn: i32,
    kt_up: i32,
    kd: i32,
    far: i32,
}
fn lim<S: Dom>() -> Lim {
    match S::NAME {
        "f32" => Lim { e: 23, kt_dn: 30, kt_up: 30, kd: 20, far: 8 },
        "f64" => Lim { e: 52, kt_dn: 200, kt_up: 200, kd: 100, far: 30 },
        _ => Lim { e: 52, kt_dn: 28, kt_up: 12, kd: 14, far: 10 },
    }
}

fn ray_scale_case<S: Lift>(t: &mut Tape, cx: &mut Cx) -> CaseResult {
    let lm = lim::<S>();
    let class = t.below(16);
    // floats do not assert crossings exactly on an edge / vertex (the Rat instance does): spend those classes on
    // just inside / near miss / interior / miss instead
    let class = if S::EXACT {
        class
    } else {
        match class {
            2 => 9,
            3 => 8,
            4 => 0,
            5 => 6,
            c => c,
        }
    };
    // ---- triangle: V0, E1 = n e1, E2 = n e2 (so that the barycentric grid 1/n stays integral)
    let n = t.int(3, 8) as I;
    let v0 = small_v(t, 8);
    let mut e1 = small_v(t, 5);
    let mut e2 = small_v(t, 5);
    if is_zero(&e1) {
        e1[0] = 1;
    }
    if is_zero(&e2) {
        e2[1] = 1;
    }
    if class == 12 {
        match t.below(4) {
            0 => {
                let c = t.pick(&[1i64, -2, 3, -1]) as I;
                e2 = [c * e1[0], c * e1[1], c * e1[2]];
            }
            1 => e2 = [0; 3],
            2 => e1 = [0; 3],
            _ => {
                e1 = [0; 3];
                e2 = [0; 3];
            }
        }
    }
    let nrm = rf::cross(&e1, &e2);
    if class != 12 && is_zero(&nrm) {
        discard!("random triangle is degenerate");
    }
    let a = t.int(1, n as i64 - 2) as I;
    let b = t.int(1, (n - 1 - a) as i64) as I;
    let k1 = t.int(1, n as i64 - 2) as I;
    // barycentric coordinates of the target point in units of 1/n
    let (ua, vb): (I, I) = match class {
        2 => (0, a),
        3 => (a, 0),
        4 => (a, n - a),
        5 => t.pick(&[(0, 0), (1, 0), (0, 1)]),
        6 | 7 => t.pick(&[(-a, b), (a, -b), (-a, -b), (a, n - a + b), (n + a, b), (a, n + b), (n + a, -a - b), (-a - b, n + a), (n + a, -b)]),
        8 => t.pick(&[(-1, k1), (k1, -1), (k1 + 1, n - k1), (k1, n - k1 + 1), (n + 1, -2), (-1, n), (n, -1), (-1, -1), (n + 1, 0), (0, n + 1)]),
        9 => t.pick(&[(1, k1), (k1, 1), (k1, n - k1 - 1), (1, 1), (n - 2, 1), (1, n - 2)]),
        _ => (a, b),
    };
    let (ua, vb) = if class == 5 { (ua * n, vb * n) } else { (ua, vb) };
    let mut pt = v0;
    for i in 0..3 {
        pt[i] = v0[i] + ua * e1[i] + vb * e2[i];
    }
    let (ee1, ee2): (V, V) = ([n * e1[0], n * e1[1], n * e1[2]], [n * e2[0], n * e2[1], n * e2[2]]);
    // ---- direction (integer vector C; the actual direction is derived from it below)
    let parallel = class == 10 || class == 11;
    let dkind = if parallel { 0 } else { t.below(4) };
    let mut c: V = if parallel {
        let (ca, cb) = t.pick(&[(1i64, 0i64), (0, 1), (1, 1), (1, -1), (2, -1), (1, 3)]);
        let mut d = [0; 3];
        for i in 0..3 {
            d[i] = ca as I * e1[i] + cb as I * e2[i];
        }
        d
    } else {
        match dkind {
            0 | 2 => small_v(t, 6),
            1 => {
                let mut d = [0; 3];
                d[t.below(3)] = if t.bool() { 1 } else { -1 };
                d
            }
            _ => {
                let (tri, _) = crate::pyth::<3>(t);
                [tri[0] as I, tri[1] as I, tri[2] as I]
            }
        }
    };
    if !parallel && class != 12 && class != 15 && rf::dot(&c, &nrm) == 0 {
        // the constructed direction must cross the plane: fall back to the plane normal
        c = nrm;
    }
    if is_zero(&c) {
        c = [0, 0, 1];
    }
    // ---- hit parameter in units of C (origin = target - T C), optionally far away
    let mut tt: I = match class {
        13 => -(t.int(1, 12) as I),
        14 => 0,
        _ => {
            let x = t.int(1, 12) as I;
            if t.chance(48) {
                -x
            } else {
                x
            }
        }
    };
    let far = if t.chance(40) { t.int(1, lm.far as i64) as i32 } else { 0 };
    tt <<= far;
    let mut o = pt;
    for i in 0..3 {
        o[i] = pt[i] - tt * c[i];
    }
    if class == 11 {
        let k = t.int(1, 4) as I;
        for i in 0..3 {
            o[i] += k * nrm[i];
        }
    }
    if class == 15 {
        o = small_v(t, 30);
    }
    // ---- scales
    let regime = t.below(8);
    let e = lm.e;
    let (mut kt, kd): (i32, i32) = match regime {
        0 => (0, 0),
        // small triangle, direction of unit length scale: a = det 2^(2 kt) down to (and just below) epsilon
        1 | 2 => (-(t.int(1, (e / 2 + 2) as i64) as i32), 0),
        // short direction, triangle of unit size
        3 => (0, -(t.int(1, (e + 3) as i64) as i32)),
        // big triangle / long direction
        4 => (t.int(1, lm.kt_up as i64) as i32, t.int(0, lm.kd as i64) as i32),
        // any direction length, triangle size chosen so that a lands in [2^-(e+3), 1]
        5 => {
            let kd = t.int(-lm.kd as i64, lm.kd as i64) as i32;
            let ea = -(t.int(0, (e + 3) as i64) as i32);
            ((ea - kd).div_euclid(2), kd)
        }
        _ => {
            let kt = scale_exp(t, lm.kt_dn);
            (kt, scale_exp(t, lm.kd))
        }
    };
    kt = kt.clamp(-lm.kt_dn, lm.kt_up);
    cx.label(match regime {
        0 => "regime: unit scale",
        1 | 2 => "regime: small triangle, unit-length direction",
        3 => "regime: short direction",
        4 => "regime: big triangle / long direction",
        5 => "regime: determinant placed in [eps/8, 1]",
        _ => "regime: independent triangle and direction scales",
    });
    cx.label(scale_label(kt));
    if far > 0 {
        cx.label("far origin (hit parameter * 2^j)");
    }

    // ---- the actual inputs in S, and the integer direction D with its unit 2^kdir / den
    let pt_s = |x: &V, p: S| -> [S; 3] { [S::i(x[0] as i64) * p, S::i(x[1] as i64) * p, S::i(x[2] as i64) * p] };
    let p_t = pow2::<S>(kt);
    let p_d = pow2::<S>(kd);
    let (d_s, dd, kdir, den, exact_dir): ([S; 3], V, i32, I, bool) = if !parallel && dkind == 3 && S::EXACT {
        // Rat: exactly normalised direction C / |C|
        let h = (c[0] * c[0] + c[1] * c[1] + c[2] * c[2]) as f64;
        let h = h.sqrt().round() as I;
        if h * h != c[0] * c[0] + c[1] * c[1] + c[2] * c[2] {
            // the fallback normal is not Pythagorean: keep the integer direction
            (pt_s(&c, p_d), c, kd, 1, true)
        } else {
            cx.label("unit direction (exact)");
            let q = |x: I| S::q(x as i64, h as i64) * p_d;
            ([q(c[0]), q(c[1]), q(c[2])], c, kd, h, true)
        }
    } else if !parallel && (dkind == 2 || dkind == 3) && !S::EXACT && class != 15 {
        // floats: C / |C| rounded in S; D = d * 2^61 is an integer vector (every non-zero component of a unit
        // vector built from |C_i| <= 64 is >= 2^-8, so its last mantissa bit is >= 2^-61)
        let l = S::i((c[0] * c[0] + c[1] * c[1] + c[2] * c[2]) as i64).sqrt();
        let u = [S::i(c[0] as i64) / l, S::i(c[1] as i64) / l, S::i(c[2] as i64) / l];
        let mut dd = [0 as I; 3];
        for i in 0..3 {
            let x = u[i].f() * p2f(61);
            if x.fract() != 0.0 || x.abs() >= 9.3e18 {
                fail!("harness: rounded direction component {:?} is not a multiple of 2^-61", u[i]);
            }
            dd[i] = x as I;
        }
        cx.label("unit direction (rounded)");
        ([u[0] * p_d, u[1] * p_d, u[2] * p_d], dd, kd - 61, 1, false)
    } else {
        if nz(&c) == 1 && c.iter().all(|x| x.abs() <= 1) {
            cx.label("unit direction (exact)");
        }
        (pt_s(&c, p_d), c, kd, 1, true)
    };
    let v1 = rf::addv(&v0, &ee1);
    let v2 = rf::addv(&v0, &ee2);
    let (o_s, v0_s, v1_s, v2_s) = (pt_s(&o, p_t), pt_s(&v0, p_t), pt_s(&v1, p_t), pt_s(&v2, p_t));
    sample!(cx, "{} class={} o={:?} d={:?} tri=[{:?}, {:?}, {:?}] (integers: O={:?} V0={:?} E1={:?} E2={:?} C={:?}, kt={} kd={} far={}, constructed u={}/{} v={}/{} T={})", S::NAME, class, o_s, d_s, v0_s, v1_s, v2_s, o, v0, ee1, ee2, c, kt, kd, far, ua, n, vb, n, tt);

    // ---- exact integer oracle: u E1 + v E2 - tau D = s
    let s = rf::subv(&o, &v0);
    let nd: V = [-dd[0], -dd[1], -dd[2]];
    let det = det3(&ee1, &ee2, &nd);
    let un = det3(&s, &ee2, &nd);
    let vn = det3(&ee1, &s, &nd);
    let tn = det3(&ee1, &ee2, &s);
    let constructed = class <= 14 && !parallel && class != 12;
    if constructed && exact_dir {
        if det == 0 {
            fail!("harness: constructed non-parallel case has determinant 0");
        }
        // harness self-check: the solve recovers the constructed coordinates
        if un * n != ua * det || vn * n != vb * det || tn != tt * det {
            fail!("harness: oracle ({}, {}, {})/{} differs from the construction u={}/{} v={}/{} T={}", un, vn, tn, det, ua, n, vb, n, tt);
        }
    }
    let seg_label = match class {
        0 | 1 => "constructed: interior hit",
        2 => "constructed: on edge u = 0",
        3 => "constructed: on edge v = 0",
        4 => "constructed: on edge u + v = 1",
        5 => "constructed: on a vertex",
        6 | 7 => "constructed: miss",
        8 => "constructed: near miss (1/n outside)",
        9 => "constructed: just inside (1/n)",
        10 => "constructed: parallel, in the plane",
        11 => "constructed: parallel, off the plane",
        12 => "constructed: degenerate triangle",
        13 => "constructed: hit behind the origin",
        14 => "constructed: origin on the triangle (tau = 0)",
        _ => "unconstructed: random ray",
    };
    cx.label(seg_label);
    cx.set_nontrivial(matches!(class, 2 | 3 | 4 | 5 | 8 | 9 | 10 | 11 | 12) || nz(&c) >= 2);

    if !S::EXACT {
        // harness self-check: the scaled inputs are the integers times 2^kt exactly
        for (xs, xi) in [(&o_s, &o), (&v0_s, &v0), (&v1_s, &v1), (&v2_s, &v2)] {
            for i in 0..3 {
                if xs[i].f() != xi[i] as f64 * p2f(kt) || !xs[i].f().is_finite() {
                    fail!("harness: scaled input {:?} is not {} * 2^{}", xs[i], xi[i], kt);
                }
            }
        }
    }
    let ray = Ray::<S>::new(vk::v3(&o_s), vk::v3(&d_s));
    let got: Option<S> = ray.triangle_intersection([vk::v3(&v0_s), vk::v3(&v1_s), vk::v3(&v2_s)]);

    if det == 0 {
        cx.label("oracle: determinant 0 -> None");
        // exact directions only (always the case for parallel / degenerate classes): vek's a is computed without
        // rounding and is exactly 0
        if exact_dir {
            check!(cx, got.is_none(), "ray parallel to the plane / degenerate triangle (determinant 0) but got {:?}", got);
        }
        return Ok(());
    }
    // ---- the parallel band is RELATIVE: a = edge1 . h, h = direction x edge2, is "zero to within rounding" when
    // |a| <= eps * max|edge1_i| * max|h_i| -- a scale-free quantity: rel = |det| / (max|E1_i| * max|(D x E2)_i|).
    // Nothing is asserted for rel <= 2 eps (plus, for rounded directions, the forward error bound of the computed a);
    // every other non-zero determinant is a proper crossing and is asserted, however small |a| is in absolute terms
    // (an absolute threshold made every triangle smaller than ~sqrt(eps) invisible: finding F15).
    let ea = 2 * kt + kdir;
    let adet = (det as f64).abs();
    let a_abs = adet / den as f64 * p2f(ea.clamp(-1000, 1000));
    let ad = abs_triple(&ee1, &dd, &ee2);
    let gamma = 16.0 * S::eps();
    let eps_t = if S::EXACT { p2f(-52) } else { S::eps() };
    let hh: V = [dd[1] * ee2[2] - dd[2] * ee2[1], dd[2] * ee2[0] - dd[0] * ee2[2], dd[0] * ee2[1] - dd[1] * ee2[0]];
    let m1 = ee1.iter().map(|x| x.abs()).max().unwrap() as f64;
    let mh = hh.iter().map(|x| x.abs()).max().unwrap() as f64;
    let rel = adet / (m1 * mh);
    let below = if exact_dir { rel <= 2.0 * eps_t } else { rel <= 2.0 * eps_t + 2.0 * gamma * ad / (m1 * mh) };
    if below {
        cx.label("|a| <= 2 eps max|edge1| max|direction x edge2|: parallel to within rounding (not asserted)");
        return Ok(());
    }
    if a_abs < eps_t {
        cx.label("0 < |a| < T::epsilon() in absolute terms but not parallel (asserted; F15 regime)");
    }
    cx.label(if a_abs < 4096.0 * eps_t {
        "eps <= |a| < 2^12 eps (asserted)"
    } else if a_abs < p2f(30) * eps_t {
        "2^12 eps <= |a| < 2^30 eps (asserted; f64: up to 2.4e-7)"
    } else if a_abs <= p2f(20) {
        "2^30 eps <= |a| <= 2^20"
    } else {
        "|a| > 2^20"
    });

    // ---- verdict
    let sg = det.signum();
    let (un, vn, tn, dn) = (un * sg, vn * sg, tn * sg, det * sg);
    let wn = dn - un - vn;
    let want_hit: bool;
    let (uf, vf, wf, tf) = (un as f64 / dn as f64, vn as f64 / dn as f64, wn as f64 / dn as f64, tn as f64 / dn as f64);
    let at = abs_triple(&ee2, &s, &ee1);
    if S::EXACT {
        want_hit = un >= 0 && vn >= 0 && wn >= 0;
        if want_hit && (un == 0 || vn == 0 || wn == 0) {
            cx.label("oracle: hit exactly on the boundary");
        }
    } else {
        // floats. Forward error of a computed triple product x . (y x z): <= gamma * (sum of |terms|) with
        // gamma = 16 eps (at most 11 roundings incl. the subtraction o - v0). With a_c = a (1 + theta_a),
        // n_c = n + delta_n: |u_c - u| <= 2 gamma (A_u + |u| A_d) / |det| + 4 eps |u| as long as
        // 2 gamma A_d <= |det| / 2 (otherwise the determinant itself is noise: not asserted).
        if 4.0 * gamma * ad > adet {
            cx.label("float: ill-conditioned determinant (not asserted)");
            return Ok(());
        }
        let au = abs_triple(&s, &dd, &ee2);
        let av = abs_triple(&dd, &s, &ee1);
        let mu = 2.0 * gamma * (au + uf.abs() * ad) / adet + 4.0 * S::eps() * uf.abs();
        let mv = 2.0 * gamma * (av + vf.abs() * ad) / adet + 4.0 * S::eps() * vf.abs();
        let mw = mu + mv + 4.0 * S::eps() * (1.0 + uf.abs() + vf.abs());
        let inside = uf > mu && vf > mv && wf > mw;
        let outside = uf < -mu || vf < -mv || wf < -mw;
        if !inside && !outside {
            cx.label("float: crossing within rounding of an edge (not asserted)");
            return Ok(());
        }
        want_hit = inside;
    }
    if !want_hit {
        cx.label("oracle: miss -> None");
        check!(cx, got.is_none(), "the line misses the triangle (u={} v={} 1-u-v={}, det {}, a = det * 2^{} / {}) but got {:?}", uf, vf, wf, det, ea, den, got);
        return Ok(());
    }
    cx.label(if tn < 0 { "oracle: hit, tau < 0 (line, behind the origin)" } else if tn == 0 { "oracle: hit, tau = 0" } else { "oracle: hit, tau > 0" });
    let g = match got {
        Some(g) => g,
        None => fail!("the line crosses the triangle at u={} v={} tau={} (det {}, a = det * 2^{} / {} = {:e}) but got None", uf, vf, tf, det, ea, den, a_abs),
    };
    cx.count();
    if S::EXACT {
        // tau' = (tn / dn) * den * 2^(kt - kdir)
        let want = S::i(tn as i64) / S::i(dn as i64) * S::i(den as i64) * pow2::<S>(kt - kdir);
        if g != want {
            fail!("returned parameter {:?} differs from the exact solve {:?}", g, want);
        }
        // origin + t * direction is the crossing point
        for i in 0..3 {
            cx.count();
            let crossing = (S::i(v0[i] as i64) + S::i(un as i64) / S::i(dn as i64) * S::i(ee1[i] as i64) + S::i(vn as i64) / S::i(dn as i64) * S::i(ee2[i] as i64)) * p_t;
            if o_s[i] + g * d_s[i] != crossing {
                fail!("origin + t*direction [{}] = {:?} differs from the crossing point {:?}", i, o_s[i] + g * d_s[i], crossing);
            }
        }
        return Ok(());
    }
    // floats, in the integer units: g_u = g * 2^(kdir - kt) against tau = tn / dn;
    // |t_c - tau| <= 2 gamma (A_t + |tau| A_d) / |det| + 4 eps |tau|
    let gu = g.f() * p2f((kdir - kt).clamp(-1000, 1000));
    let tol_t = 2.0 * gamma * (at + tf.abs() * ad) / adet + 4.0 * S::eps() * tf.abs();
    let err = (gu - tf).abs();
    if tol_t > 0.0 {
        cx.note_err(err / tol_t);
    }
    if !(err <= tol_t) {
        fail!("returned parameter {:?} (= {:e} in the units of the integer solve) differs from tau = {}/{} = {:e} by {:e} > {:e} (kt={} kd={})", g, gu, tn, dn, tf, err, tol_t, kt, kd);
    }
    // origin + t * direction is the crossing point V0 + u E1 + v E2 (units of 2^kt)
    for i in 0..3 {
        cx.count();
        // exact integer numerator, one division (so an exactly zero coordinate is exactly zero)
        let crossing = (v0[i] * dn + un * ee1[i] + vn * ee2[i]) as f64 / dn as f64;
        let along = gu * dd[i] as f64;
        let have = o[i] as f64 + along;
        let tol = (dd[i] as f64).abs() * tol_t + 4.0 * S::eps() * ((o[i] as f64).abs() + along.abs() + crossing.abs());
        let err = (have - crossing).abs();
        if tol > 0.0 {
            cx.note_err(err / tol);
        }
        if !(err <= tol) {
            fail!("origin + t*direction [{}] = {:e} differs from the crossing point {:e} by {:e} > {:e} (units of 2^{})", i, have, crossing, err, tol, kt);
        }
    }
    Ok(())
}

pub fn checks(checks: &mut Vec<Check>) {
    let about = "Ray::triangle_intersection on integer configurations scaled exactly by powers of two (positions 2^kt, direction 2^kd, hit distance 2^j; f64 |kt| <= 200, f32 |kt| <= 30, Rat -28..12) vs an exact integer Cramer solve: u, v scale-free, parameter * 2^(kt-kd); None iff determinant 0 or outside the closed triangle; asserted for every determinant that is not zero to within rounding relative to its factors (|a| > 2 eps max|edge1_i| max|(direction x edge2)_i|, a = det * 2^(2kt+kd) exact), in particular for |a| far below T::epsilon() in absolute terms (small triangles, short directions); same constructed classes as ray-*";
    checks.push(Check { name: "ray-scale-rat", about, kind: Kind::Tape { len: 96, quick: 10_000, thorough: 600_000, f: ray_scale_case::<Rat> } });
    checks.push(Check { name: "ray-scale-f64", about, kind: Kind::Tape { len: 96, quick: 20_000, thorough: 1_000_000, f: ray_scale_case::<f64> } });
    checks.push(Check { name: "ray-scale-f32", about, kind: Kind::Tape { len: 96, quick: 20_000, thorough: 1_000_000, f: ray_scale_case::<f32> } });
}
