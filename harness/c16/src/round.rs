//! Disk (2D) and Sphere (3D).

use crate::{isqrt_floor, lift_v, nonzero_count, pyth, sq_dist, Lift};
use num_traits::real::Real;
use num_traits::{NumCast, Zero};
use vek::geom::repr_c::{Aabb, Aabr, Disk, Rect, Rect3, Sphere};
use vkit::refmath as rf;
use vkit::vk;
use vkit::*;

// ---------------------------------------------------------------------------------------------
// 1. containment / collision on the integer grid (f64, f32): decided exactly, see the assumption
//    in `property()`: sqrt(d2) <= R  <=>  d2 <= R^2 for integers d2 <= 1.2e7, R < 4096.
// ---------------------------------------------------------------------------------------------

pub(crate) struct IntRound<const N: usize> {
    pub(crate) c: [i64; N],
    pub(crate) p: [i64; N],
    pub(crate) r: i64,
    pub(crate) r1: i64,
    pub(crate) r2: i64,
    pub(crate) d2: i64,
}

const GRID: i64 = 1000;

fn gen_int_round<const N: usize>(t: &mut Tape, cx: &mut Cx) -> IntRound<N> {
    gen_int_round_opt(t, cx, true)
}

/// Labels and the non-triviality rule of an integer containment configuration (distance^2 `d2`, radius `r`,
/// `offnz` non-zero offset components).
pub(crate) fn label_verdict(cx: &mut Cx, d2: i128, r: i128, r1: i128, r2: i128, offnz: usize) {
    let fl = crate::isqrt_floor128(d2);
    if d2 == r * r {
        cx.label("tangent (d == r exactly)");
    } else if d2 < r * r {
        cx.label(if r - fl <= 1 { "just inside (r = floor(d)+1)" } else { "inside" });
    } else {
        cx.label(if fl - r <= 1 { "just outside (r = floor(d) or floor(d)-1)" } else { "outside" });
    }
    if r == 0 {
        cx.label("zero radius");
    }
    if r1 == 0 || r2 == 0 {
        cx.label("collision: one radius zero");
    }
    cx.set_nontrivial((r - fl).abs() <= 1 || offnz >= 2);
}

/// `verdict_labels = false`: the caller rescales radius / coordinates and labels the final configuration itself.
pub(crate) fn gen_int_round_opt<const N: usize>(t: &mut Tape, cx: &mut Cx, verdict_labels: bool) -> IntRound<N> {
    let mut c = [0i64; N];
    for i in 0..N {
        c[i] = if t.bool() { t.int(-GRID, GRID) } else { t.small_int(40) };
    }
    let mut off = [0i64; N];
    match t.below(8) {
        0 => {
            cx.label("concentric (d = 0)");
        }
        1 | 2 | 3 => {
            let (tri, _h) = pyth::<N>(t);
            let m = tri.iter().map(|x| x.abs()).max().unwrap();
            let kmax = GRID / m;
            let k = if t.bool() { t.int(1, kmax.min(8)) } else { t.int(1, kmax) };
            for i in 0..N {
                off[i] = tri[i] * k;
            }
            cx.label("offset: pythagorean (integer distance)");
        }
        4 => {
            let i = t.below(N);
            off[i] = t.int(-GRID, GRID);
            cx.label("offset: axis-aligned");
        }
        _ => {
            for i in 0..N {
                off[i] = if t.bool() { t.int(-GRID, GRID) } else { t.small_int(30) };
            }
            cx.label("offset: generic");
        }
    }
    // keep the point on the grid: mirroring a component does not change the distance
    let mut p = [0i64; N];
    let mut d2 = 0i64;
    for i in 0..N {
        p[i] = c[i] + off[i];
        if p[i].abs() > GRID {
            p[i] = c[i] - off[i];
        }
        debug_assert!(p[i].abs() <= GRID);
        d2 += (p[i] - c[i]) * (p[i] - c[i]);
    }
    let fl = isqrt_floor(d2);
    let r = match t.below(8) {
        0 | 4 | 7 => fl,
        1 => fl + 1,
        2 => (fl - 1).max(0),
        3 => 0,
        5 => t.int(0, 3000),
        _ => (fl + t.int(-3, 3)).max(0),
    };
    debug_assert!(r < 4096);
    let r1 = match t.below(4) {
        0 => 0,
        1 => r,
        _ => t.int(0, r.min(60000)),
    };
    let r2 = r - r1;
    let offnz = (0..N).filter(|&i| p[i] != c[i]).count();
    if verdict_labels {
        label_verdict(cx, d2 as i128, r as i128, r1 as i128, r2 as i128, offnz);
    }
    IntRound { c, p, r, r1, r2, d2 }
}

fn emb<S: Dom, const N: usize>(a: &[i64; N]) -> [S; N] {
    let mut r = [S::zero(); N];
    for i in 0..N {
        r[i] = S::i(a[i]);
    }
    r
}

macro_rules! round_int_case {
    ($fname:ident, $N:expr, $Shape:ident, $mk:path, $collides:ident) => {
        fn $fname<S: Dom>(t: &mut Tape, cx: &mut Cx) -> CaseResult {
            const N: usize = $N;
            let g = gen_int_round::<N>(t, cx);
            sample!(cx, "{} {} c={:?} r={} p={:?} d2={} (r1={}, r2={})", S::NAME, stringify!($Shape), g.c, g.r, g.p, g.d2, g.r1, g.r2);
            let (c, p): ([S; N], [S; N]) = (emb(&g.c), emb(&g.p));
            let want = g.d2 <= g.r * g.r;
            let shape = $Shape::<S, S>::new($mk(&c), S::i(g.r));
            check_eq!(cx, shape.contains_point($mk(&p)), want, "{}: contains_point, c={:?} r={} p={:?} d2={} r2={}", stringify!($Shape), g.c, g.r, g.p, g.d2, g.r * g.r);
            let a = $Shape::<S, S>::new($mk(&c), S::i(g.r1));
            let b = $Shape::<S, S>::new($mk(&p), S::i(g.r2));
            check_eq!(cx, a.$collides(b), want, "{}: a.collides(b), ca={:?} ra={} cb={:?} rb={} d2={}", stringify!($Shape), g.c, g.r1, g.p, g.r2, g.d2);
            check_eq!(cx, b.$collides(a), want, "{}: b.collides(a), ca={:?} ra={} cb={:?} rb={} d2={}", stringify!($Shape), g.c, g.r1, g.p, g.r2, g.d2);
            // the centre is always contained, a shape always collides with itself (d = 0 <= r)
            check!(cx, shape.contains_point($mk(&c)), "{}: contains its own centre, c={:?} r={}", stringify!($Shape), g.c, g.r);
            check!(cx, a.$collides(a), "{}: collides with itself, c={:?} r={}", stringify!($Shape), g.c, g.r1);
            Ok(())
        }
    };
}
round_int_case!(disk_int, 2, Disk, vk::v2, collides_with_disk);
round_int_case!(sphere_int, 3, Sphere, vk::v3, collides_with_sphere);

// exhaustive small grids: every offset in [-B,B]^N and every radius 0..=RMAX, centre derived from the index
macro_rules! round_grid_case {
    ($fname:ident, $total:ident, $N:expr, $B:expr, $RMAX:expr, $Shape:ident, $mk:path, $collides:ident) => {
        const $total: u64 = { let side = 2 * $B + 1; let mut n = ($RMAX + 1) as u64; let mut i = 0; while i < $N { n *= side as u64; i += 1; } n };
        fn $fname<S: Dom>(idx: u64, cx: &mut Cx) -> CaseResult {
            const N: usize = $N;
            let side = (2 * $B + 1) as u64;
            let mut k = idx;
            let r = (k % ($RMAX + 1) as u64) as i64;
            k /= ($RMAX + 1) as u64;
            let mut off = [0i64; N];
            for i in 0..N {
                off[i] = (k % side) as i64 - $B;
                k /= side;
            }
            let mut c = [0i64; N];
            let mut p = [0i64; N];
            let mut d2 = 0;
            for i in 0..N {
                c[i] = ((idx.wrapping_mul(2654435761) >> (8 * i)) % 41) as i64 - 20;
                p[i] = c[i] + off[i];
                d2 += off[i] * off[i];
            }
            let fl = isqrt_floor(d2);
            cx.set_nontrivial((r - fl).abs() <= 1 || (0..N).filter(|&i| off[i] != 0).count() >= 2);
            if d2 == r * r {
                cx.label("tangent (d == r exactly)");
            } else if d2 < r * r {
                cx.label("inside");
            } else {
                cx.label("outside");
            }
            sample!(cx, "{} {} c={:?} r={} p={:?}", S::NAME, stringify!($Shape), c, r, p);
            let want = d2 <= r * r;
            let (cs, ps): ([S; N], [S; N]) = (emb(&c), emb(&p));
            check_eq!(cx, $Shape::<S, S>::new($mk(&cs), S::i(r)).contains_point($mk(&ps)), want, "{}: contains_point c={:?} r={} p={:?}", stringify!($Shape), c, r, p);
            let r1 = (idx % (r as u64 + 1)) as i64;
            let a = $Shape::<S, S>::new($mk(&cs), S::i(r1));
            let b = $Shape::<S, S>::new($mk(&ps), S::i(r - r1));
            check_eq!(cx, a.$collides(b), want, "{}: collides ca={:?} ra={} cb={:?} rb={}", stringify!($Shape), c, r1, p, r - r1);
            Ok(())
        }
    };
}
round_grid_case!(disk_grid, DISK_GRID_TOTAL, 2, 12, 18, Disk, vk::v2, collides_with_disk);
round_grid_case!(sphere_grid, SPHERE_GRID_TOTAL, 3, 6, 11, Sphere, vk::v3, collides_with_sphere);

// ---------------------------------------------------------------------------------------------
// 2. Pythagorean configurations (Rat: exact incl. tangency) and generic float configurations:
//    containment, collision, collision vector.
// ---------------------------------------------------------------------------------------------

macro_rules! round_pyth_case {
    ($fname:ident, $N:expr, $Shape:ident, $mk:path, $un:path, $collides:ident, $cv:ident) => {
        fn $fname<S: Lift>(t: &mut Tape, cx: &mut Cx) -> CaseResult {
            const N: usize = $N;
            let mut c = [S::zero(); N];
            for i in 0..N {
                c[i] = S::small(t, 20);
            }
            let (tri, hyp) = pyth::<N>(t);
            let omode = t.below(8);
            let sc: S = match t.below(4) {
                0 => S::i(1),
                1 => S::i(t.int(1, 6)),
                2 => S::q(t.int(1, 12), t.pick(&[2i64, 3, 4, 5, 8])),
                _ => S::q(1, t.pick(&[2i64, 4, 8, 16])),
            };
            let generic = !S::EXACT && omode >= 5;
            let mut off = [S::zero(); N];
            if omode == 0 {
                cx.label("concentric (d = 0)");
            } else if generic {
                for i in 0..N {
                    off[i] = S::any(t, 20);
                }
                cx.label("offset: generic float");
            } else {
                for i in 0..N {
                    off[i] = S::i(tri[i]) * sc;
                }
                cx.label("offset: pythagorean (rational distance)");
            }
            let mut p = c;
            for i in 0..N {
                p[i] = c[i] + off[i];
            }
            let (co, po) = (lift_v::<S, N>(&c), lift_v::<S, N>(&p));
            let d2 = sq_dist(&po, &co); // oracle: squared distance from the actual inputs, no sqrt
            // nominal distance, used only to *construct* boundary radii
            let d_nom: S = if omode == 0 {
                S::zero()
            } else if generic {
                <S as NumCast>::from(d2.f().sqrt()).unwrap()
            } else {
                S::i(hyp) * sc
            };
            let delta: S = match t.below(5) {
                0 => S::q(1, 8),
                1 => S::q(1, 2),
                2 => S::i(1),
                3 => S::q(1, 1000),
                _ => S::q(1, 1_000_000),
            };
            let rmode = t.below(8);
            let r: S = match rmode {
                0 | 1 => d_nom,
                2 | 7 => d_nom + delta,
                3 => {
                    if d_nom >= delta {
                        d_nom - delta
                    } else {
                        d_nom
                    }
                }
                4 => S::zero(),
                5 => S::small(t, 40).abs(),
                _ => d_nom * S::q(t.int(1, 8), 4),
            };
            let ro = r.lift();
            let m = vk::vec_max(&c).max(vk::vec_max(&p)).max(r.f());
            // floats: the predicate is decided only away from the boundary (the integer-grid checks decide the boundary)
            let decided = S::EXACT || (d2.f().sqrt() - ro.f()).abs() > 64.0 * S::eps() * (1.0 + m);
            let want = d2 <= ro * ro;
            if d2 == ro * ro {
                cx.label("tangent (d == r exactly)");
            } else if rmode <= 3 || rmode == 7 {
                cx.label(if want { "near boundary: inside by delta" } else { "near boundary: outside by delta" });
            } else {
                cx.label(if want { "inside" } else { "outside" });
            }
            if r.is_zero() {
                cx.label("zero radius");
            }
            if !decided {
                cx.label("float: predicate undecided at the boundary (not asserted)");
            }
            cx.set_nontrivial(rmode <= 3 || rmode == 7 || nonzero_count(&off) >= 2);
            // split the radius: r1 + r2 == r exactly in Rat
            let r1: S = match t.below(4) {
                0 => S::zero(),
                1 => r,
                _ => {
                    let b = t.int(2, 9);
                    r * S::q(t.int(1, b - 1), b)
                }
            };
            let r2: S = r - r1;
            if S::EXACT && r1 + r2 != r {
                fail!("harness: r1 + r2 != r");
            }
            sample!(cx, "{} {} c={:?} p={:?} r={:?} (r1={:?}, r2={:?}) d2={:?}", S::NAME, stringify!($Shape), c, p, r, r1, r2, d2);
            let shape = $Shape::<S, S>::new($mk(&c), r);
            let a = $Shape::<S, S>::new($mk(&c), r1);
            let b = $Shape::<S, S>::new($mk(&p), r2);
            let rsum = r1.lift() + r2.lift();
            if decided {
                check_eq!(cx, shape.contains_point($mk(&p)), want, "{}: contains_point, d2={:?} r={:?}", stringify!($Shape), d2, r);
                let wantc = d2 <= rsum * rsum;
                check_eq!(cx, a.$collides(b), wantc, "{}: a.collides(b), d2={:?} r1={:?} r2={:?}", stringify!($Shape), d2, r1, r2);
                check_eq!(cx, b.$collides(a), wantc, "{}: b.collides(a), d2={:?} r1={:?} r2={:?}", stringify!($Shape), d2, r1, r2);
            }
            // collision vector; precondition: distinct centres
            if p != c {
                cx.label("collision vector checked");
                let d = match S::sqrt_exact(d2) {
                    Some(d) => d,
                    None => discard!("irrational centre distance"),
                };
                let v = rf::subv(&po, &co);
                for (who, x, y, xc, yc) in [("a.cv(b)", a, b, &co, &po), ("b.cv(a)", b, a, &po, &co)] {
                    let cv = lift_v::<S, N>(&$un(&x.$cv(y)));
                    // moving the *other* shape by cv leaves the two exactly tangent
                    let moved = rf::addv(yc, &cv);
                    let dist2 = sq_dist(&moved, xc);
                    if S::EXACT {
                        check_eq!(cx, dist2, rsum * rsum, "{}: {} |other.centre + cv - self.centre|^2 vs (r1+r2)^2, cv={:?}", stringify!($Shape), who, cv);
                    } else {
                        // k = 32, scale = 1 + max|coordinate| + r1 + r2
                        near!(cx, S, dist2.sqrt(), rsum, 1.0 + m + rsum.f(), 32, "{}: {} |other.centre + cv - self.centre| vs r1+r2, cv={:?}", stringify!($Shape), who, cv);
                    }
                    // cv is parallel to the centre difference
                    let cvm = vk::vec_max(&cv);
                    for i in 0..N {
                        for j in i + 1..N {
                            near!(cx, S, cv[i] * v[j] - cv[j] * v[i], <S::O as Zero>::zero(), (1.0 + m) * (cvm + S::eps() * (1.0 + m)), 32, "{}: {} cv x (centre difference) [{}{}], cv={:?} v={:?}", stringify!($Shape), who, i, j, cv, v);
                        }
                    }
                    // "how much this shape penetrates another": |cv| = |r1 + r2 - d|
                    let pen = rsum - d;
                    let cv2 = rf::dot(&cv, &cv);
                    if S::EXACT {
                        check_eq!(cx, cv2, pen * pen, "{}: {} |cv|^2 vs (r1+r2-d)^2", stringify!($Shape), who);
                    } else {
                        near!(cx, S, cv2.sqrt(), pen.abs(), 1.0 + m + rsum.f(), 32, "{}: {} |cv| vs |r1+r2-d|", stringify!($Shape), who);
                    }
                }
                if pen_sign::<S>(rsum, d) > 0 {
                    cx.label("cv: overlapping (d < r1+r2)");
                } else if pen_sign::<S>(rsum, d) < 0 {
                    cx.label("cv: apart (d > r1+r2)");
                } else {
                    cx.label("cv: already tangent (cv = 0)");
                }
            }
            Ok(())
        }
    };
}
fn pen_sign<S: Lift>(rsum: S::O, d: S::O) -> i32 {
    if rsum > d {
        1
    } else if rsum < d {
        -1
    } else {
        0
    }
}
round_pyth_case!(disk_pyth, 2, Disk, vk::v2, vk::a2, collides_with_disk, collision_vector_with_disk);
round_pyth_case!(sphere_pyth, 3, Sphere, vk::v3, vk::a3, collides_with_sphere, collision_vector_with_sphere);

// ---------------------------------------------------------------------------------------------
// 3. constructors, diameter, bounds, measures
// ---------------------------------------------------------------------------------------------

fn rect2_parts<S: Copy>(r: Rect<S, S>) -> ([S; 2], [S; 2]) {
    ([r.x, r.y], [r.w, r.h])
}
fn rect3_parts<S: Copy>(r: Rect3<S, S>) -> ([S; 3], [S; 3]) {
    ([r.x, r.y, r.z], [r.w, r.h, r.d])
}
fn aabr_parts<S: Copy>(b: Aabr<S>) -> ([S; 2], [S; 2]) {
    (vk::a2(&b.min), vk::a2(&b.max))
}
fn aabb_parts<S: Copy>(b: Aabb<S>) -> ([S; 3], [S; 3]) {
    (vk::a3(&b.min), vk::a3(&b.max))
}

fn std_pi<O: Dom>() -> O {
    <O as NumCast>::from(std::f64::consts::PI).unwrap()
}

macro_rules! round_shape_case {
    ($fname:ident, $N:expr, $Shape:ident, $mk:path, $un:path, $rect:ident, $rect_parts:path, $aab:ident, $aab_parts:path, $measures:ident) => {
        fn $fname<S: Lift>(t: &mut Tape, cx: &mut Cx) -> CaseResult {
            const N: usize = $N;
            let mut c = [S::zero(); N];
            for i in 0..N {
                c[i] = S::any(t, 30);
            }
            let r: S = match t.below(8) {
                0 => S::zero(),
                1 => S::one(),
                2 => S::i(t.int(1, 1000)),
                _ => S::any(t, 30).abs(),
            };
            cx.set_nontrivial(!r.is_zero() && r != S::one());
            if r.is_zero() {
                cx.label("zero radius");
            }
            sample!(cx, "{} {} c={:?} r={:?}", S::NAME, stringify!($Shape), c, r);
            let two = S::i(2);
            let s = $Shape::<S, S>::new($mk(&c), r);
            check_eq!(cx, ($un(&s.center), s.radius), (c, r), "{}::new", stringify!($Shape));
            let u = $Shape::<S, S>::unit($mk(&c));
            check_eq!(cx, ($un(&u.center), u.radius), (c, S::one()), "{}::unit", stringify!($Shape));
            let z = $Shape::<S, S>::point($mk(&c));
            check_eq!(cx, ($un(&z.center), z.radius), (c, S::zero()), "{}::point", stringify!($Shape));
            check_eq!(cx, s.diameter(), two * r, "{}::diameter (2r, exact in every domain)", stringify!($Shape));
            check_eq!(cx, u.diameter(), two, "{}::unit().diameter()", stringify!($Shape));
            check_eq!(cx, z.diameter(), S::zero(), "{}::point().diameter()", stringify!($Shape));
            // bounds: centre -/+ radius per axis (one rounding each in floats, the same one vek performs)
            let (pos, ext) = $rect_parts(s.$rect());
            let (mn, mx) = $aab_parts(s.$aab());
            let m = 1.0 + vk::vec_max(&c) + r.f();
            for i in 0..N {
                check_eq!(cx, pos[i], c[i] - r, "{}::{} position[{}] = centre - r", stringify!($Shape), stringify!($rect), i);
                check_eq!(cx, ext[i], two * r, "{}::{} extent[{}] = 2r", stringify!($Shape), stringify!($rect), i);
                check_eq!(cx, mn[i], c[i] - r, "{}::{} min[{}] = centre - r", stringify!($Shape), stringify!($aab), i);
                check_eq!(cx, mx[i], c[i] + r, "{}::{} max[{}] = centre + r", stringify!($Shape), stringify!($aab), i);
                // the far corner of the rectangle is centre + r (exact in Rat; k = 4, scale = 1 + |c| + r in floats)
                near!(cx, S, pos[i].lift() + ext[i].lift(), c[i].lift() + r.lift(), m, 4, "{}::{} position+extent [{}] = centre + r", stringify!($Shape), stringify!($rect), i);
            }
            $measures::<S>(cx, s, r)?;
            Ok(())
        }
    };
}

fn disk_measures<S: Lift>(cx: &mut Cx, s: Disk<S, S>, r: S) -> CaseResult {
    let pi: S::O = std_pi();
    let ro = r.lift();
    let two = <S::O as Dom>::i(2);
    // k = 4 ulps of the result
    let w = two * pi * ro;
    near!(cx, S, s.circumference().lift(), w, w.f(), 4, "Disk::circumference = 2 pi r");
    let w = pi * ro * ro;
    near!(cx, S, s.area().lift(), w, w.f(), 4, "Disk::area = pi r^2");
    Ok(())
}
fn sphere_measures<S: Lift>(cx: &mut Cx, s: Sphere<S, S>, r: S) -> CaseResult {
    let pi: S::O = std_pi();
    let ro = r.lift();
    let (three, four) = (<S::O as Dom>::i(3), <S::O as Dom>::i(4));
    let w = four * pi * ro * ro;
    near!(cx, S, s.surface_area().lift(), w, w.f(), 6, "Sphere::surface_area = 4 pi r^2");
    let w = four * pi * ro * ro * ro / three;
    near!(cx, S, s.volume().lift(), w, w.f(), 6, "Sphere::volume = 4 pi r^3 / 3");
    Ok(())
}
round_shape_case!(disk_shape, 2, Disk, vk::v2, vk::a2, rect, rect2_parts, aabr, aabr_parts, disk_measures);
round_shape_case!(sphere_shape, 3, Sphere, vk::v3, vk::a3, rect3, rect3_parts, aabb, aabb_parts, sphere_measures);

pub fn checks(checks: &mut Vec<Check>) {
    macro_rules! tape {
        ($name:expr, $about:expr, $len:expr, $q:expr, $th:expr, $f:expr) => {
            checks.push(Check { name: $name, about: $about, kind: Kind::Tape { len: $len, quick: $q, thorough: $th, f: $f } });
        };
    }
    let int = "integer grid |coord| <= 1000 (sqrt decided exactly): contains_point <=> d2 <= r^2, collides_with_* (both orders) <=> d2 <= (r1+r2)^2, with exact tangency, floor/ceil radii, concentric, zero radius";
    tape!("disk-int-f64", int, 48, 30_000, 1_000_000, disk_int::<f64>);
    tape!("disk-int-f32", int, 48, 30_000, 1_000_000, disk_int::<f32>);
    tape!("sphere-int-f64", int, 64, 30_000, 1_000_000, sphere_int::<f64>);
    tape!("sphere-int-f32", int, 64, 30_000, 1_000_000, sphere_int::<f32>);
    let grid = "exhaustive small grid: every integer offset and radius, contains_point / collides_with_* vs integer comparison";
    checks.push(Check { name: "disk-grid-f32", about: grid, kind: Kind::Index { total: DISK_GRID_TOTAL, quick: DISK_GRID_TOTAL, thorough: DISK_GRID_TOTAL, f: disk_grid::<f32> } });
    checks.push(Check { name: "disk-grid-f64", about: grid, kind: Kind::Index { total: DISK_GRID_TOTAL, quick: DISK_GRID_TOTAL, thorough: DISK_GRID_TOTAL, f: disk_grid::<f64> } });
    checks.push(Check { name: "sphere-grid-f32", about: grid, kind: Kind::Index { total: SPHERE_GRID_TOTAL, quick: SPHERE_GRID_TOTAL, thorough: SPHERE_GRID_TOTAL, f: sphere_grid::<f32> } });
    checks.push(Check { name: "sphere-grid-f64", about: grid, kind: Kind::Index { total: SPHERE_GRID_TOTAL, quick: SPHERE_GRID_TOTAL, thorough: SPHERE_GRID_TOTAL, f: sphere_grid::<f64> } });
    let py = "Pythagorean offsets (rational distances; floats also generic): contains/collides vs squared distances incl. exact tangency and radius +- delta; collision vector: other.centre + cv at distance exactly r1+r2 from self.centre, cv parallel to the centre difference, |cv| = |r1+r2-d| (both call orders)";
    tape!("disk-pyth-rat", py, 64, 30_000, 1_000_000, disk_pyth::<Rat>);
    tape!("sphere-pyth-rat", py, 64, 30_000, 1_000_000, sphere_pyth::<Rat>);
    tape!("disk-cv-f64", py, 96, 15_000, 500_000, disk_pyth::<f64>);
    tape!("disk-cv-f32", py, 96, 15_000, 500_000, disk_pyth::<f32>);
    tape!("sphere-cv-f64", py, 96, 15_000, 500_000, sphere_pyth::<f64>);
    tape!("sphere-cv-f32", py, 96, 15_000, 500_000, sphere_pyth::<f32>);
    let sh = "new/unit/point, diameter = 2r, rect/rect3 = (centre - r, 2r), aabr/aabb = centre -/+ r, circumference/area resp. surface_area/volume vs the formulas with std pi";
    tape!("disk-shape-rat", sh, 48, 10_000, 300_000, disk_shape::<Rat>);
    tape!("disk-shape-f64", sh, 48, 10_000, 300_000, disk_shape::<f64>);
    tape!("disk-shape-f32", sh, 48, 10_000, 300_000, disk_shape::<f32>);
    tape!("sphere-shape-rat", sh, 64, 10_000, 300_000, sphere_shape::<Rat>);
    tape!("sphere-shape-f64", sh, 64, 10_000, 300_000, sphere_shape::<f64>);
    tape!("sphere-shape-f32", sh, 64, 10_000, 300_000, sphere_shape::<f32>);
}
