//! Disk / Sphere containment and collision for points whose distance from the centre differs from the radius
//! by a RELATIVE 1e-6 .. 1e-15 (f64; 1e-3 .. 1e-7 in f32), on either side, along the diagonals (all |offset
//! components| equal: the corners of the inscribed / circumscribed cube), next to them, along the axes, next to
//! them, and in generic directions.
//!
//! Inputs are integers (f64: radius 2^20 .. 2^40 ~ 1e6 .. 1e12, f32: 2^10 .. 2^22), optionally times 2^k, so the
//! coordinate differences are exact in the type and an exact i128 comparison of D2 = sum (p_i - c_i)^2 with R^2
//! decides the case. What the documented formula `distance(p) <= radius` may legitimately get wrong is bounded
//! by its own rounding: N <= 3 rounded squares, N - 1 rounded additions and one correctly rounded sqrt give
//! d_computed = d (1 + e), |e| <= 1.5 u + u = 2.5 u (u = eps/2), while R is exact; so the verdict is forced as
//! soon as |d - R| > 2.5 u R, i.e. |D2 - R^2| > 5 u R^2 = 2.5 eps R^2. Skipped band (labelled, not asserted):
//! |D2 - R^2| <= 4 eps R^2 -- four ulps of R^2, a relative 2 eps = 4.4e-16 (f64) / 2.4e-7 (f32) in the distance.
//! Everything outside that band is asserted, for contains_point and for collides_with_* in both orders with the
//! radius split into two integer radii (their sum is exact).

use vek::geom::repr_c::{Disk, Sphere};
use vkit::regimes::{pow2, scale_label};
use vkit::vk;
use vkit::*;

use crate::isqrt_floor128 as isqrt;

struct Near<const N: usize> {
    c: [i128; N],
    p: [i128; N],
    r: i128,
}

/// Integer configuration with |D2 - R^2| / (2 R^2) log-uniform in the requested decades (as far as the integer
/// grid allows; the achieved value is what gets labelled and judged).
fn gen_near<S: Dom, const N: usize>(t: &mut Tape, cx: &mut Cx) -> Near<N> {
    let f32_ = S::NAME == "f32";
    // radius: log-uniform
    let (blo, bhi) = if f32_ { (10, 21) } else { (20, 39) };
    let b = t.int(blo, bhi) as u32;
    let r: i128 = (1i128 << b) + (t.u64() as i128 & ((1i128 << b) - 1));
    // relative distance from the sphere: 10^-x, x uniform in the decades of the type, either side
    let (xlo, xhi) = if f32_ { (3.0, 7.4) } else { (6.0, 15.7) };
    let x = t.range_f64(xlo, xhi);
    let rho = 10f64.powf(-x) * if t.bool() { -1.0 } else { 1.0 };
    let r2 = r * r;
    let tgt = (2.0 * rho * r2 as f64) as i128;
    let tgt = if tgt == 0 { if rho < 0.0 { -1 } else { 1 } } else { tgt };
    let n = (r2 + tgt).max(1);
    let mut off = [0i128; N];
    let dir = t.below(8);
    match dir {
        0 | 1 | 2 => {
            // diagonal: all |components| equal m or m + 1, then +p / -p on two of them (changes D2 by ~2 p^2)
            let m = isqrt(n / N as i128);
            let rres = n - N as i128 * m * m;
            let up = t.bool() as i128; // round the last step up instead of down: lands on the other side
            let s = (rres / (2 * m + 1) + if dir == 0 { up } else { 0 }).clamp(0, N as i128);
            for i in 0..N {
                off[i] = m + if (i as i128) < s { 1 } else { 0 };
            }
            if dir == 0 {
                cx.label(if s == 0 || s == N as i128 { "direction: exact diagonal (all |components| equal)" } else { "direction: exact diagonal (|components| m or m + 1)" });
            } else {
                let q = (rres - s * (2 * m + 1)).max(0);
                let p = isqrt(q / 2) + up;
                off[0] += p;
                off[1] -= p;
                cx.label("direction: next to the diagonal (+p, -p, p <= sqrt(r))");
            }
        }
        3 | 4 => {
            // axis: (m, p, q) with p ~ sqrt(2m), q ~ sqrt(2p)
            let up = t.bool() as i128;
            let m = isqrt(n) + if dir == 3 { up } else { 0 };
            off[0] = m;
            if dir == 4 {
                let p = isqrt(n - m * m) + if N == 2 { up } else { 0 };
                off[1] = p;
                if N > 2 {
                    off[N - 1] = isqrt((n - m * m - p * p).max(0)) + up;
                }
                cx.label("direction: next to an axis (m, ~sqrt(2m), ..)");
            } else {
                cx.label("direction: exact axis");
            }
            let rot = t.below(N);
            off.rotate_left(rot);
        }
        5 => {
            // face diagonal of the cube / two equal components (sphere only; for the disk this is the diagonal again)
            let m = isqrt(n / 2);
            off[0] = m;
            off[1] = m;
            if N > 2 {
                off[2] = isqrt((n - 2 * m * m).max(0)) + t.bool() as i128;
            }
            cx.label("direction: two equal components");
        }
        _ => {
            // generic direction: unit vector from the tape, last component solved for
            let mut rem = n;
            for i in 0..N - 1 {
                let frac = t.range_f64(0.05, 0.95);
                let v = isqrt(((rem as f64) * frac * frac) as i128);
                off[i] = v;
                rem = (rem - v * v).max(0);
            }
            off[N - 1] = isqrt(rem) + t.bool() as i128;
            cx.label("direction: generic");
        }
    }
    let mut c = [0i128; N];
    let mut p = [0i128; N];
    // centre: integer of magnitude up to the radius (f32: small enough that centre + offset < 2^24)
    let cb = if f32_ { 20 } else { b.min(40) };
    for i in 0..N {
        if t.bool() {
            off[i] = -off[i];
        }
        c[i] = if t.chance(64) { 0 } else { (t.u64() as i128 & ((1i128 << cb) - 1)) * if t.bool() { -1 } else { 1 } };
        p[i] = c[i] + off[i];
    }
    Near { c, p, r }
}

macro_rules! round_near_case {
    ($fname:ident, $N:expr, $Shape:ident, $mk:path, $collides:ident) => {
        fn $fname<S: Dom>(t: &mut Tape, cx: &mut Cx) -> CaseResult {
            const N: usize = $N;
            let g = gen_near::<S, N>(t, cx);
            let mant: u32 = if S::NAME == "f32" { 24 } else { 53 };
            let mut d2: i128 = 0;
            for i in 0..N {
                let o = g.p[i] - g.c[i];
                if g.c[i].abs() >= 1 << mant || g.p[i].abs() >= 1 << mant || o.abs() >= 1 << mant {
                    fail!("harness: coordinate not exactly representable");
                }
                d2 += o * o;
            }
            let r2 = g.r * g.r;
            let diff = d2 - r2;
            let want = diff <= 0;
            // achieved relative distance |d - r| / r = |D2 - R^2| / (2 R^2) (to first order)
            let rel = diff.abs() as f64 / (2.0 * r2 as f64);
            let band = diff.abs() as f64 <= 4.0 * S::eps() * r2 as f64;
            cx.label(if want { "inside (D2 <= R^2)" } else { "outside (D2 > R^2)" });
            cx.label(if band {
                "within 4 eps R^2 of the sphere: the formula's own rounding decides (not asserted)"
            } else if rel < 1e-14 {
                "relative distance from the sphere < 1e-14"
            } else if rel < 1e-12 {
                "relative distance 1e-14 .. 1e-12"
            } else if rel < 1e-10 {
                "relative distance 1e-12 .. 1e-10"
            } else if rel < 1e-8 {
                "relative distance 1e-10 .. 1e-8"
            } else if rel < 1e-6 {
                "relative distance 1e-8 .. 1e-6"
            } else if rel < 1e-4 {
                "relative distance 1e-6 .. 1e-4"
            } else {
                "relative distance >= 1e-4"
            });
            // whole configuration times 2^k (exact); squares stay normal and finite
            let kmax = if S::NAME == "f32" { 30 } else { 400 };
            let k = if t.bool() { 0 } else { t.int(-kmax, kmax) as i32 };
            cx.label(scale_label(k));
            let p2 = pow2::<S>(k);
            let sc = |x: i128| -> S { S::i(x as i64) * p2 };
            let emb = |a: &[i128; N]| -> [S; N] {
                let mut o = [S::zero(); N];
                for i in 0..N {
                    o[i] = sc(a[i]);
                }
                o
            };
            let (cs, ps, rs) = (emb(&g.c), emb(&g.p), sc(g.r));
            for i in 0..N {
                if cs[i].f() != g.c[i] as f64 * pow2::<f64>(k) || ps[i].f() != g.p[i] as f64 * pow2::<f64>(k) {
                    fail!("harness: scaled coordinate is not the integer times 2^{}", k);
                }
            }
            // radius split r = r1 + r2 (integers, exact sum)
            let r1 = match t.below(4) {
                0 => 0,
                1 => g.r,
                2 => g.r / 2,
                _ => (t.u64() as i128) % (g.r + 1),
            };
            let r2s = g.r - r1;
            sample!(cx, "{} {} c={:?} r={} p={:?} (* 2^{}): D2 - R^2 = {}, relative distance {:e}; r1={} r2={}", S::NAME, stringify!($Shape), g.c, g.r, g.p, k, diff, rel, r1, r2s);
            cx.set_nontrivial(!band);
            if band {
                return Ok(());
            }
            let shape = $Shape::<S, S>::new($mk(&cs), rs);
            check_eq!(cx, shape.contains_point($mk(&ps)), want, "{}: contains_point, (c={:?} r={} p={:?}) * 2^{}: D2 - R^2 = {} (relative distance {:e})", stringify!($Shape), g.c, g.r, g.p, k, diff, rel);
            let a = $Shape::<S, S>::new($mk(&cs), sc(r1));
            let b = $Shape::<S, S>::new($mk(&ps), sc(r2s));
            check_eq!(cx, a.$collides(b), want, "{}: a.collides(b), (ca={:?} ra={} cb={:?} rb={}) * 2^{}: D2 - (ra+rb)^2 = {} (relative distance {:e})", stringify!($Shape), g.c, r1, g.p, r2s, k, diff, rel);
            check_eq!(cx, b.$collides(a), want, "{}: b.collides(a), (ca={:?} ra={} cb={:?} rb={}) * 2^{}: D2 - (ra+rb)^2 = {} (relative distance {:e})", stringify!($Shape), g.c, r1, g.p, r2s, k, diff, rel);
            Ok(())
        }
    };
}
round_near_case!(disk_near, 2, Disk, vk::v2, collides_with_disk);
round_near_case!(sphere_near, 3, Sphere, vk::v3, collides_with_sphere);

pub fn checks(checks: &mut Vec<Check>) {
    macro_rules! tape {
        ($name:expr, $about:expr, $len:expr, $q:expr, $th:expr, $f:expr) => {
            checks.push(Check { name: $name, about: $about, kind: Kind::Tape { len: $len, quick: $q, thorough: $th, f: $f } });
        };
    }
    let about = "points at a relative distance 1e-6 .. 1e-15 (f32: 1e-3 .. 1e-7) inside / outside the disk or sphere, along the diagonals (all |offset components| equal), next to them, along / next to the axes, two equal components, generic; integer coordinates (radius 1e6 .. 1e12, f32 1e3 .. 4e6; optionally * 2^k) judged by the exact i128 comparison D2 <= R^2; contains_point and collides_with_* (both orders, radius split in two); not asserted only where |D2 - R^2| <= 4 eps R^2";
    tape!("disk-near-f64", about, 96, 25_000, 1_500_000, disk_near::<f64>);
    tape!("disk-near-f32", about, 96, 25_000, 1_500_000, disk_near::<f32>);
    tape!("sphere-near-f64", about, 112, 25_000, 1_500_000, sphere_near::<f64>);
    tape!("sphere-near-f32", about, 112, 25_000, 1_500_000, sphere_near::<f32>);
}
