//! Disk / Sphere outside the moderate regime: whole configurations scaled exactly by 2^k (tiny, huge, and so
//! huge that the squared distance overflows), radius / coordinate ratios up to 2^25, negative radii,
//! infinite radii, and the measures / bounds of tiny and huge shapes with *relative* tolerances.
//!
//! Exactness argument for the scaled integer grid (floats). Centre, point and radii are integers times 2^k.
//! As long as every square (D_i 2^k)^2 and their sum N 2^2k (N = integer squared distance) is a normal number
//! below the overflow threshold, vek's differences, squares and sum are exact, IEEE sqrt is correctly rounded
//! and commutes with the even power of two, and `sqrt(N) <= R` equals `N <= R^2` for integers
//! N < 2^53, R < 2^25 in f64 (R (2R+1) < 2^53, so sqrt(R^2+1) - R > ulp(R)/2) and N < 2^24, R < 4096 in f32
//! (see the assumption in `property()`). The verdict is therefore the integer comparison, at every such k.
//!
//! Overflow: when N 2^2k may exceed the largest finite number the documented formula `distance <= radius`
//! sees an infinite distance. A point that really is outside must still be reported outside (inf <= finite
//! radius is false); a point that really is inside cannot be recognised by the formula and is NOT asserted.
//! Underflow (squares below the smallest normal number) is outside the generated range.
//!
//! Negative radii: the statement ("contains a point exactly when its distance to the centre is at most the
//! radius", "collide exactly when the centre distance is at most the sum of radii") has no restriction on the
//! radius and vek documents none; a distance is never <= a negative number, so the answer is `false`.
//! Only the two predicates (and the literal bounds / measure formulas) are asserted for negative radii; the
//! collision vector ("leaves the two exactly tangent") has no meaning there and is not called.

use crate::round::{gen_int_round_opt, label_verdict};
use crate::{isqrt_floor128, pyth, Lift};
use vek::geom::repr_c::{Disk, Sphere};
use vkit::regimes::{pow2, scale_exp, scale_label};
use vkit::vk;
use vkit::*;

/// Exponent ranges of the scaled integer grid: exact for -k_lo <= k with N 2^2k < 2^emax; inputs finite up to k_max.
struct Rng {
    k_lo: i64,
    k_hi: i64,
    k_max: i64,
    emax: i64,
    mixed: bool,
}
fn rng<S: Dom>() -> Rng {
    match S::NAME {
        "f32" => Rng { k_lo: 60, k_hi: 51, k_max: 112, emax: 127, mixed: false },
        _ => Rng { k_lo: 500, k_hi: 487, k_max: 990, emax: 1023, mixed: true },
    }
}

fn bits(x: i128) -> i64 {
    (128 - x.leading_zeros()) as i64
}

macro_rules! round_scaled_case {
    ($fname:ident, $N:expr, $Shape:ident, $mk:path, $un:path, $collides:ident, $cv:ident) => {
        fn $fname<S: Dom>(t: &mut Tape, cx: &mut Cx) -> CaseResult {
            const N: usize = $N;
            let rg = rng::<S>();
            let g = gen_int_round_opt::<N>(t, cx, false);
            // radius / coordinate ratio: multiply the coordinates by 2^jc or the radii by 2^jr (f64 only: headroom)
            let (mut jc, mut jr) = (0i64, 0i64);
            if rg.mixed && t.chance(64) {
                if t.bool() {
                    jc = t.int(1, 12);
                    cx.label("coordinates * 2^j (tiny radius relative to the distance)");
                } else {
                    jr = t.int(1, 13);
                    cx.label("radii * 2^j (huge radius relative to the distance)");
                }
            }
            let (mc, mr) = (1i128 << jc, 1i128 << jr);
            let mut c = [0i128; N];
            let mut p = [0i128; N];
            let mut d2: i128 = 0;
            for i in 0..N {
                c[i] = g.c[i] as i128 * mc;
                p[i] = g.p[i] as i128 * mc;
                d2 += (p[i] - c[i]) * (p[i] - c[i]);
            }
            let (r, r1, r2) = (g.r as i128 * mr, g.r1 as i128 * mr, g.r2 as i128 * mr);
            let offnz = (0..N).filter(|&i| p[i] != c[i]).count();
            label_verdict(cx, d2, r, r1, r2, offnz);
            if !(d2 < (1 << 48) && r < (1 << 25)) {
                fail!("harness: integer configuration out of the exact range");
            }
            let k = match t.below(8) {
                0 => -t.int(rg.k_lo / 2, rg.k_lo),
                1 | 2 => -t.int(1, rg.k_lo / 2),
                3 | 4 => t.int(1, rg.k_hi / 2),
                5 => t.int(rg.k_hi / 2, rg.k_hi),
                _ => t.int(rg.k_hi + 1, rg.k_max),
            } as i32;
            let may_overflow = bits(d2) + 2 * k as i64 > rg.emax;
            cx.label(if may_overflow {
                "scale: d^2 overflows (only 'outside' asserted)"
            } else if k > rg.k_hi as i32 {
                "scale: beyond the no-overflow range but d^2 small enough (exact)"
            } else if k > (rg.k_hi / 2) as i32 {
                "scale: huge (upper half of the exact range)"
            } else if k > 0 {
                "scale: large"
            } else if k >= -(rg.k_lo / 2) as i32 {
                "scale: small"
            } else {
                "scale: tiny (lower half of the exact range)"
            });
            let p2 = pow2::<S>(k);
            let sc = |x: i128| -> S { S::i(x as i64) * p2 };
            let emb = |a: &[i128; N]| -> [S; N] {
                let mut o = [S::zero(); N];
                for i in 0..N {
                    o[i] = sc(a[i]);
                }
                o
            };
            let (cs, ps) = (emb(&c), emb(&p));
            let (rs, r1s, r2s) = (sc(r), sc(r1), sc(r2));
            for x in cs.iter().chain(ps.iter()).chain([rs, r1s, r2s].iter()) {
                if !x.f().is_finite() {
                    fail!("harness: scaled input is not finite");
                }
            }
            sample!(cx, "{} {} (c={:?} p={:?} r={} r1={} r2={}) * 2^{}: c={:?} r={:?} p={:?}", S::NAME, stringify!($Shape), c, p, r, r1, r2, k, cs, rs, ps);
            let want = d2 <= r * r;
            let shape = $Shape::<S, S>::new($mk(&cs), rs);
            let a = $Shape::<S, S>::new($mk(&cs), r1s);
            let b = $Shape::<S, S>::new($mk(&ps), r2s);
            if may_overflow && want {
                cx.label("inside, d^2 overflows: the formula sees an infinite distance (not asserted)");
            } else {
                check_eq!(cx, shape.contains_point($mk(&ps)), want, "{}: contains_point, (c={:?} r={} p={:?}) * 2^{}, d2={} r^2={}", stringify!($Shape), c, r, p, k, d2, r * r);
                check_eq!(cx, a.$collides(b), want, "{}: a.collides(b), (ca={:?} ra={} cb={:?} rb={}) * 2^{}, d2={}", stringify!($Shape), c, r1, p, r2, k, d2);
                check_eq!(cx, b.$collides(a), want, "{}: b.collides(a), (ca={:?} ra={} cb={:?} rb={}) * 2^{}, d2={}", stringify!($Shape), c, r1, p, r2, k, d2);
            }
            // the centre is always contained, a shape always collides with itself (d = 0 <= r), at every scale
            check!(cx, shape.contains_point($mk(&cs)), "{}: contains its own centre, (c={:?} r={}) * 2^{}", stringify!($Shape), c, r, k);
            check!(cx, a.$collides(a), "{}: collides with itself, (c={:?} r={}) * 2^{}", stringify!($Shape), c, r1, k);
            // collision vector on integer distances: cv = (off / d) (R - d) 2^k; vek performs one exact sqrt, one exact
            // subtraction, a division and a product per component. Tolerance 8 eps relative to |off_i| / d * (R + d) 2^k,
            // i.e. to the magnitude of the operands at that scale (not to the possibly cancelled result).
            let d = isqrt_floor128(d2);
            if !may_overflow && d > 0 && d * d == d2 {
                cx.label("collision vector checked (integer distance)");
                let unscale = pow2::<f64>(-k);
                for (who, x, y, sign) in [("a.cv(b)", a, b, 1.0f64), ("b.cv(a)", b, a, -1.0f64)] {
                    let cv = $un(&x.$cv(y));
                    for i in 0..N {
                        let off = (p[i] - c[i]) as f64;
                        let want = sign * off / d as f64 * (r - d) as f64;
                        let got = cv[i].f() * unscale;
                        let tol = 8.0 * S::eps() * off.abs() / d as f64 * (r + d) as f64;
                        cx.count();
                        let err = (got - want).abs();
                        if tol > 0.0 {
                            cx.note_err(err / tol);
                        }
                        if !(err <= tol) {
                            fail!("{}: {} [{}] = {:?} = {:e} * 2^{}, want (off/d)(r1+r2-d) = {:e} * 2^{} (tolerance {:e}); (ca={:?} ra={} cb={:?} rb={}) * 2^{}", stringify!($Shape), who, i, cv[i], got, k, want, k, tol, c, r1, p, r2, k);
                        }
                    }
                }
            }
            Ok(())
        }
    };
}
round_scaled_case!(disk_scaled, 2, Disk, vk::v2, vk::a2, collides_with_disk, collision_vector_with_disk);
round_scaled_case!(sphere_scaled, 3, Sphere, vk::v3, vk::a3, collides_with_sphere, collision_vector_with_sphere);

// ---------------------------------------------------------------------------------------------
// negative (and, for floats, infinite / negative-zero) radii
// ---------------------------------------------------------------------------------------------

macro_rules! round_neg_case {
    ($fname:ident, $N:expr, $Shape:ident, $mk:path, $collides:ident) => {
        fn $fname<S: Lift>(t: &mut Tape, cx: &mut Cx) -> CaseResult {
            const N: usize = $N;
            let mut c = [0i64; N];
            for i in 0..N {
                c[i] = t.small_int(40);
            }
            // offsets with an integer length d (the comparison d <= R is then exact in every domain)
            let mut off = [0i64; N];
            let d: i64 = match t.below(4) {
                0 => {
                    cx.label("concentric (d = 0)");
                    0
                }
                1 => {
                    let i = t.below(N);
                    let x = t.int(1, 60);
                    off[i] = if t.bool() { x } else { -x };
                    cx.label("offset: axis-aligned");
                    x
                }
                _ => {
                    let (tri, h) = pyth::<N>(t);
                    let m = t.int(1, 12);
                    for i in 0..N {
                        off[i] = tri[i] * m;
                    }
                    cx.label("offset: pythagorean (integer distance)");
                    h * m
                }
            };
            let mut p = [0i64; N];
            for i in 0..N {
                p[i] = c[i] + off[i];
            }
            let k = scale_exp(t, if S::EXACT { 10 } else { 40 });
            cx.label(scale_label(k));
            let p2 = pow2::<S>(k);
            let sc = |x: i64| -> S { S::i(x) * p2 };
            let emb = |a: &[i64; N]| -> [S; N] {
                let mut o = [S::zero(); N];
                for i in 0..N {
                    o[i] = sc(a[i]);
                }
                o
            };
            let (cs, ps) = (emb(&c), emb(&p));
            // ---- contains_point with a negative radius: never
            let x = match t.below(6) {
                0 => d.max(1),
                1 => d + 1,
                2 => (d - 1).max(1),
                3 => 1,
                4 => t.int(1, 50),
                _ => t.int(1, 3000),
            };
            let rneg: S = if t.chance(32) { -S::q(1, 1 << t.int(1, 40)) * p2 } else { -sc(x) };
            sample!(cx, "{} {} c={:?} p={:?} (integers {:?}, {:?}, d={}, * 2^{}) r={:?}", S::NAME, stringify!($Shape), cs, ps, c, p, d, k, rneg);
            cx.set_nontrivial(true);
            let s = $Shape::<S, S>::new($mk(&cs), rneg);
            check!(cx, !s.contains_point($mk(&ps)), "{}: negative radius {:?} but contains_point({:?}) is true (c={:?}, distance {} * 2^{})", stringify!($Shape), rneg, ps, cs, d, k);
            check!(cx, !s.contains_point($mk(&cs)), "{}: negative radius {:?} but contains its own centre {:?} (distance 0 > radius)", stringify!($Shape), rneg, cs);
            check!(cx, !s.$collides(s), "{}: negative radius {:?} (sum of radii {:?} < 0 = distance) but collides with itself", stringify!($Shape), rneg, rneg + rneg);
            // ---- collides_with_*: sum of radii R = r1 + r2 with at least one negative radius; want R >= 0 and d <= R
            let (r1, r2): (i64, i64) = match t.below(6) {
                0 => (-t.int(1, 40), -t.int(1, 40)),
                1 => {
                    // negative sum, one radius positive (even larger than the distance)
                    let pos = if t.bool() { d + t.int(0, 5) } else { t.int(1, 60) };
                    (pos, -(pos + t.int(1, 40)))
                }
                2 => {
                    let a = t.int(1, 60);
                    cx.label("sum of radii exactly 0 (one negative)");
                    (a, -a)
                }
                3 => {
                    // positive sum exactly at / next to the distance, one radius negative
                    let neg = t.int(1, 40);
                    let sum = (d + t.int(-1, 1)).max(0);
                    (sum + neg, -neg)
                }
                4 => (-(d.max(1)), 0),
                _ => {
                    let neg = t.int(1, 40);
                    (-neg, neg + t.int(0, 100))
                }
            };
            let rsum = r1 + r2;
            let want = rsum >= 0 && d <= rsum;
            cx.label(if rsum < 0 {
                "collision: negative sum of radii"
            } else if d == rsum {
                "collision: one negative radius, d == r1 + r2"
            } else if want {
                "collision: one negative radius, inside"
            } else {
                "collision: one negative radius, outside"
            });
            let a = $Shape::<S, S>::new($mk(&cs), sc(r1));
            let b = $Shape::<S, S>::new($mk(&ps), sc(r2));
            check_eq!(cx, a.$collides(b), want, "{}: a.collides(b) with (ca={:?} ra={} cb={:?} rb={}) * 2^{}: distance {}, sum of radii {}", stringify!($Shape), c, r1, p, r2, k, d, rsum);
            check_eq!(cx, b.$collides(a), want, "{}: b.collides(a) with (ca={:?} ra={} cb={:?} rb={}) * 2^{}: distance {}, sum of radii {}", stringify!($Shape), c, r1, p, r2, k, d, rsum);
            // ---- floats: -0.0 is the radius 0 (contains exactly its centre); +inf contains every finite point, -inf none
            if !S::EXACT {
                let nzero = -S::zero();
                let z = $Shape::<S, S>::new($mk(&cs), nzero);
                check!(cx, z.contains_point($mk(&cs)), "{}: radius -0.0 (= 0) must contain its centre", stringify!($Shape));
                check_eq!(cx, z.contains_point($mk(&ps)), d == 0, "{}: radius -0.0 (= 0), point at distance {} * 2^{}", stringify!($Shape), d, k);
                let inf = S::one() / S::zero(); // +inf (floats only: this branch is not executed for Rat)
                let big = $Shape::<S, S>::new($mk(&cs), inf);
                check!(cx, big.contains_point($mk(&ps)), "{}: infinite radius must contain the finite point {:?}", stringify!($Shape), ps);
                check!(cx, big.$collides(b) && b.$collides(big), "{}: infinite radius must collide with a finite shape (radius {:?})", stringify!($Shape), sc(r2));
                let ninf = $Shape::<S, S>::new($mk(&cs), -inf);
                check!(cx, !ninf.contains_point($mk(&ps)) && !ninf.contains_point($mk(&cs)), "{}: radius -inf contains nothing", stringify!($Shape));
            }
            Ok(())
        }
    };
}
round_neg_case!(disk_neg, 2, Disk, vk::v2, collides_with_disk);
round_neg_case!(sphere_neg, 3, Sphere, vk::v3, collides_with_sphere);

// ---------------------------------------------------------------------------------------------
// measures and bounds of tiny / huge (and negative-radius) shapes, relative tolerances
// ---------------------------------------------------------------------------------------------

/// |got - want| <= k eps(S) |want| (f64 oracle; `want` carries at most 4 roundings of its own).
fn rel<S: Dom>(cx: &mut Cx, got: f64, want: f64, k: f64) -> bool {
    cx.count();
    if got == want {
        return true;
    }
    let tol = k * S::eps() * want.abs();
    let d = (got - want).abs();
    if !d.is_finite() {
        return false;
    }
    cx.note_err(d / tol);
    d <= tol
}
macro_rules! rel {
    ($cx:expr, $S:ty, $got:expr, $want:expr, $k:expr, $($arg:tt)*) => {{
        let (g, w) = ($got, $want);
        if !rel::<$S>($cx, g, w, $k as f64) {
            return Err(vkit::Fail::Violation(format!("{}: got {:e}, want {:e} (relative tolerance {} eps)", format!($($arg)*), g, w, $k)));
        }
    }};
}

fn shape_radius<S: Dom>(t: &mut Tape, cx: &mut Cx) -> (S, [S; 3], i32) {
    // |3k| + 40 stays inside the normal exponent range of the type (r^3 is formed by volume())
    let kmax = if S::NAME == "f32" { 28 } else { 320 };
    let k = {
        let m = match t.below(4) {
            0 => t.int(1, (kmax / 4) as i64),
            1 => t.int((kmax / 4) as i64, (kmax / 2) as i64),
            _ => t.int((kmax / 2) as i64, kmax as i64),
        } as i32;
        if t.bool() {
            -m
        } else {
            m
        }
    };
    cx.label(scale_label(k));
    let m: S = match t.below(4) {
        0 => S::one(),
        1 => S::i(t.int(1, 1000)),
        _ => {
            // mantissa in [1/16, 31): r^3 stays a normal number at every generated k
            let x = S::any(t, 30).abs();
            if x < S::q(1, 16) {
                x + S::one()
            } else {
                x
            }
        }
    };
    let neg = t.chance(40);
    if neg {
        cx.label("negative radius (literal formulas)");
    }
    let r = (if neg { -m } else { m }) * pow2::<S>(k);
    // centre of a comparable, smaller or larger magnitude
    let kc = k + t.int(-3, 3) as i32;
    let pc = pow2::<S>(kc);
    let c = [S::any(t, 30) * pc, S::any(t, 30) * pc, S::any(t, 30) * pc];
    (r, c, k)
}

fn disk_shape_scaled<S: Lift>(t: &mut Tape, cx: &mut Cx) -> CaseResult {
    let (r, c3, k) = shape_radius::<S>(t, cx);
    let c = [c3[0], c3[1]];
    cx.set_nontrivial(true);
    sample!(cx, "{} Disk c={:?} r={:?} (2^{})", S::NAME, c, r, k);
    let s = Disk::<S, S>::new(vk::v2(&c), r);
    let two = S::i(2);
    check_eq!(cx, s.diameter(), two * r, "Disk::diameter = 2r (exact)");
    let (rect, ab) = (s.rect(), s.aabr());
    let (pos, ext) = ([rect.x, rect.y], [rect.w, rect.h]);
    let (mn, mx) = (vk::a2(&ab.min), vk::a2(&ab.max));
    for i in 0..2 {
        check_eq!(cx, pos[i], c[i] - r, "Disk::rect position[{}] = centre - r", i);
        check_eq!(cx, ext[i], two * r, "Disk::rect extent[{}] = 2r", i);
        check_eq!(cx, mn[i], c[i] - r, "Disk::aabr min[{}] = centre - r", i);
        check_eq!(cx, mx[i], c[i] + r, "Disk::aabr max[{}] = centre + r", i);
        // far corner: (c - r) + 2r = c + r up to 4 eps of the operand magnitude |c| + 3|r| at this scale
        let (g, w) = ((pos[i] + ext[i]).f(), c[i].f() + r.f());
        let tol = 4.0 * S::eps() * (c[i].f().abs() + 3.0 * r.f().abs());
        cx.count();
        check!(cx, (g - w).abs() <= tol, "Disk::rect position+extent [{}] = {:e}, want centre + r = {:e} (tolerance {:e})", i, g, w, tol);
    }
    let pi = std::f64::consts::PI;
    let ro = r.f();
    rel!(cx, S, s.circumference().f(), 2.0 * pi * ro, 4, "Disk::circumference = 2 pi r, r = {:?}", r);
    rel!(cx, S, s.area().f(), pi * ro * ro, 4, "Disk::area = pi r^2, r = {:?}", r);
    Ok(())
}
fn sphere_shape_scaled<S: Lift>(t: &mut Tape, cx: &mut Cx) -> CaseResult {
    let (r, c, k) = shape_radius::<S>(t, cx);
    cx.set_nontrivial(true);
    sample!(cx, "{} Sphere c={:?} r={:?} (2^{})", S::NAME, c, r, k);
    let s = Sphere::<S, S>::new(vk::v3(&c), r);
    let two = S::i(2);
    check_eq!(cx, s.diameter(), two * r, "Sphere::diameter = 2r (exact)");
    let (rect, ab) = (s.rect3(), s.aabb());
    let (pos, ext) = ([rect.x, rect.y, rect.z], [rect.w, rect.h, rect.d]);
    let (mn, mx) = (vk::a3(&ab.min), vk::a3(&ab.max));
    for i in 0..3 {
        check_eq!(cx, pos[i], c[i] - r, "Sphere::rect3 position[{}] = centre - r", i);
        check_eq!(cx, ext[i], two * r, "Sphere::rect3 extent[{}] = 2r", i);
        check_eq!(cx, mn[i], c[i] - r, "Sphere::aabb min[{}] = centre - r", i);
        check_eq!(cx, mx[i], c[i] + r, "Sphere::aabb max[{}] = centre + r", i);
        let (g, w) = ((pos[i] + ext[i]).f(), c[i].f() + r.f());
        let tol = 4.0 * S::eps() * (c[i].f().abs() + 3.0 * r.f().abs());
        cx.count();
        check!(cx, (g - w).abs() <= tol, "Sphere::rect3 position+extent [{}] = {:e}, want centre + r = {:e} (tolerance {:e})", i, g, w, tol);
    }
    let pi = std::f64::consts::PI;
    let ro = r.f();
    rel!(cx, S, s.surface_area().f(), 4.0 * pi * ro * ro, 6, "Sphere::surface_area = 4 pi r^2, r = {:?}", r);
    rel!(cx, S, s.volume().f(), 4.0 * pi * ro * ro * ro / 3.0, 6, "Sphere::volume = 4 pi r^3 / 3, r = {:?}", r);
    Ok(())
}

pub fn checks(checks: &mut Vec<Check>) {
    macro_rules! tape {
        ($name:expr, $about:expr, $len:expr, $q:expr, $th:expr, $f:expr) => {
            checks.push(Check { name: $name, about: $about, kind: Kind::Tape { len: $len, quick: $q, thorough: $th, f: $f } });
        };
    }
    let sc = "the integer-grid configurations scaled exactly by 2^k (f64: -500..990, f32: -60..112; f64 also radius/coordinate ratios up to 2^25): contains_point / collides_with_* (both orders) vs the integer comparison d2 <= r^2 wherever d^2 is a normal finite number; where d^2 overflows only 'outside -> false' is asserted; centre contained and self-collision at every scale; collision vector = (off/d)(r1+r2-d) 2^k on integer distances, tolerance relative to the scaled operands";
    tape!("disk-scale-f64", sc, 64, 20_000, 1_000_000, disk_scaled::<f64>);
    tape!("disk-scale-f32", sc, 64, 20_000, 1_000_000, disk_scaled::<f32>);
    tape!("sphere-scale-f64", sc, 80, 20_000, 1_000_000, sphere_scaled::<f64>);
    tape!("sphere-scale-f32", sc, 80, 20_000, 1_000_000, sphere_scaled::<f32>);
    let ng = "negative radii (statement read literally: a distance is never <= a negative number): contains_point false for every point incl. the centre, no self-collision; collides_with_* (both orders) <=> r1 + r2 >= 0 and d <= r1 + r2 with one or two negative radii (integer distances, scaled by 2^k); floats: radius -0.0 = 0, +inf contains / collides with everything finite, -inf nothing";
    tape!("disk-neg-rat", ng, 48, 5_000, 200_000, disk_neg::<Rat>);
    tape!("disk-neg-f64", ng, 48, 8_000, 400_000, disk_neg::<f64>);
    tape!("disk-neg-f32", ng, 48, 8_000, 400_000, disk_neg::<f32>);
    tape!("sphere-neg-rat", ng, 48, 5_000, 200_000, sphere_neg::<Rat>);
    tape!("sphere-neg-f64", ng, 48, 8_000, 400_000, sphere_neg::<f64>);
    tape!("sphere-neg-f32", ng, 48, 8_000, 400_000, sphere_neg::<f32>);
    let sh = "tiny and huge shapes (radius m * 2^k, f64 |k| <= 320, f32 |k| <= 28, centre of comparable magnitude; 1/6 negative radii, formulas read literally): diameter, rect/rect3, aabr/aabb exact, far corner and circumference/area/surface_area/volume within 4..6 eps *relative to the result*";
    tape!("disk-shape-scale-f64", sh, 48, 6_000, 300_000, disk_shape_scaled::<f64>);
    tape!("disk-shape-scale-f32", sh, 48, 6_000, 300_000, disk_shape_scaled::<f32>);
    tape!("sphere-shape-scale-f64", sh, 48, 6_000, 300_000, sphere_shape_scaled::<f64>);
    tape!("sphere-shape-scale-f32", sh, 48, 6_000, 300_000, sphere_shape_scaled::<f32>);
}
