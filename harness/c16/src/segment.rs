//! LineSegment2 / LineSegment3: projected_point, distance_to_point, range conversions.
//!
//! `projected_point` is defined for the exactly degenerate segment (start == end): the code returns `start`,
//! which is the only point of the segment, so that class is included. The base checks keep squared lengths
//! 0 or >= 1/64; the `*-tiny-*` / `*-huge-*` instances multiply the whole arrangement exactly by 2^-k / 2^+k and
//! compare with tolerances relative to the coordinate magnitude at that scale (floor 0 instead of 1).

use crate::{lift_v, nonzero_count, pyth, sq_dist, Lift};
use num_traits::Zero;
use vek::geom::repr_c::{LineSegment2, LineSegment3};
use vkit::refmath as rf;
use vkit::vk;
use vkit::*;

/// A vector perpendicular to `d` (2D: the rotated direction).
fn perp2<S: Dom>(_t: &mut Tape, d: &[S; 2]) -> [S; 2] {
    [-d[1], d[0]]
}
/// A vector perpendicular to `d` (3D: d x w for a tape-chosen w not parallel to d).
fn perp3<S: Dom>(t: &mut Tape, d: &[S; 3]) -> [S; 3] {
    let w = [S::i(t.small_int(5)), S::i(t.small_int(5)), S::i(t.small_int(5))];
    let n = rf::cross(d, &w);
    if nonzero_count(&n) > 0 {
        return n;
    }
    let n = rf::cross(d, &[S::one(), S::zero(), S::zero()]);
    if nonzero_count(&n) > 0 {
        return n;
    }
    rf::cross(d, &[S::zero(), S::one(), S::zero()])
}

/// Direction and a perpendicular of rational length (Pythagorean), for exact distances in Rat.
fn dir_with_rational_normal2<S: Dom>(t: &mut Tape, sc: S) -> ([S; 2], [S; 2]) {
    let (tri, _) = pyth::<2>(t);
    let d = [S::i(tri[0]) * sc, S::i(tri[1]) * sc];
    ([d[0], d[1]], [-S::i(tri[1]), S::i(tri[0])])
}
fn dir_with_rational_normal3<S: Dom>(t: &mut Tape, sc: S) -> ([S; 3], [S; 3]) {
    let (tri, _) = pyth::<3>(t);
    let n = [S::i(tri[0]), S::i(tri[1]), S::i(tri[2])];
    let d = perp3(t, &n); // d is perpendicular to n, hence n is perpendicular to d
    ([d[0] * sc, d[1] * sc, d[2] * sc], n)
}

macro_rules! segment_case {
    ($fname:ident, $tiny:ident, $huge:ident, $inner:ident, $N:expr, $Seg:ident, $mk:path, $un:path, $perp:ident, $ratn:ident) => {
        fn $fname<S: Lift>(t: &mut Tape, cx: &mut Cx) -> CaseResult {
            $inner::<S>(t, cx, 0)
        }
        /// The same arrangement scaled by 2^-k (exact in every domain): segments far shorter than
        /// sqrt(epsilon) are ordinary segments, only start == end is degenerate.
        fn $tiny<S: Lift>(t: &mut Tape, cx: &mut Cx) -> CaseResult {
            $inner::<S>(t, cx, -1)
        }
        /// The same arrangement scaled by 2^+k: a segment far from the unit scale in the other direction.
        fn $huge<S: Lift>(t: &mut Tape, cx: &mut Cx) -> CaseResult {
            $inner::<S>(t, cx, 1)
        }
        fn $inner<S: Lift>(t: &mut Tape, cx: &mut Cx, mode: i32) -> CaseResult {
            let tiny = mode != 0; // "scaled": tolerances relative to the coordinate magnitude, no floor of 1
            let fl = if tiny { 0.0 } else { 1.0 };
            const N: usize = $N;
            let mut start = [S::zero(); N];
            for i in 0..N {
                start[i] = S::any(t, 12);
            }
            let kind = t.below(16);
            let sc: S = match t.below(4) {
                0 => S::i(1),
                1 => S::i(t.int(1, 4)),
                2 => S::q(t.int(1, 12), t.pick(&[2i64, 4, 8])),
                _ => S::q(1, t.pick(&[2i64, 4, 8])),
            };
            // direction D and a perpendicular n
            let mut dir = [S::zero(); N];
            let mut nrm = [S::zero(); N];
            if kind != 0 {
                match t.below(4) {
                    0 | 1 => {
                        for i in 0..N {
                            dir[i] = S::small(t, 12);
                        }
                        if nonzero_count(&dir) == 0 {
                            dir[0] = S::one();
                        }
                        nrm = $perp(t, &dir);
                    }
                    2 => {
                        let (d, n) = $ratn::<S>(t, sc);
                        dir = d;
                        nrm = n;
                        cx.label("perpendicular of rational length");
                    }
                    _ => {
                        let i = t.below(N);
                        dir[i] = if t.bool() { sc } else { -sc };
                        nrm = $perp(t, &dir);
                        cx.label("axis-aligned segment");
                    }
                }
            }
            let mut end = start;
            for i in 0..N {
                end[i] = start[i] + dir[i];
            }
            // the query point
            let pick_q = |t: &mut Tape, xs: &[(i64, i64)]| -> S {
                let (n, d) = t.pick(xs);
                S::q(n, d)
            };
            let mut p = [S::zero(); N];
            match kind {
                0 | 10 | 11 => {
                    // an end point plus a Pythagorean vector (rational distance to that end point)
                    let base = if kind == 11 { end } else { start };
                    let (tri, _) = pyth::<N>(t);
                    let k = if t.chance(32) { S::zero() } else { sc };
                    for i in 0..N {
                        p[i] = base[i] + S::i(tri[i]) * k;
                    }
                }
                1..=9 => {
                    let t0: S = match kind {
                        1 | 6 | 7 => pick_q(t, &[(1, 2), (1, 3), (1, 4), (3, 4), (2, 5), (1, 8), (7, 8), (5, 16), (100, 256)]),
                        2 => S::zero(),
                        3 => S::one(),
                        4 => pick_q(t, &[(-1, 2), (-1, 1), (-2, 1), (-1, 8), (-1, 64), (-7, 3)]),
                        5 => pick_q(t, &[(3, 2), (2, 1), (3, 1), (9, 8), (65, 64), (10, 3)]),
                        8 => pick_q(t, &[(0, 1), (1, 1)]),
                        // next to an end, down to 2^-54 (below T::epsilon(): the clamp has no tolerance band)
                        _ => pick_q(t, &[(1, 256), (255, 256), (-1, 256), (257, 256), (1, 512), (511, 512), (1, 1 << 54), ((1 << 54) - 1, 1 << 54), (-1, 1 << 54), ((1 << 54) + 1, 1 << 54)]),
                    };
                    let m: S = if kind == 7 || kind == 8 { S::zero() } else { S::small(t, 6) };
                    for i in 0..N {
                        p[i] = start[i] + t0 * dir[i] + m * nrm[i];
                    }
                }
                _ => {
                    for i in 0..N {
                        p[i] = S::any(t, 15);
                    }
                }
            }
            if mode > 0 {
                // k: f32 up to 2^44, f64 up to 2^400 (|end-start|^2 and the dot products stay finite: coordinates
                // <= 2^6 * 2^k, squared and summed < 2^(2k+16)), Rat up to 2^16 (i128 headroom)
                let kmax = match S::NAME {
                    "f32" => 44,
                    "f64" => 400,
                    _ => 16,
                };
                let k = if t.bool() { t.int(8, kmax.min(40)) } else { t.int(8, kmax) };
                let sfac = vkit::regimes::pow2::<S>(k as i32);
                for i in 0..N {
                    start[i] = start[i] * sfac;
                    end[i] = end[i] * sfac;
                    p[i] = p[i] * sfac;
                }
                cx.label(if k >= 100 { "scaled by 2^100 or more" } else if k >= 27 { "scaled by 2^27..2^99" } else { "scaled by 2^8..2^26" });
            }
            if mode < 0 {
                // k: f32 up to 2^-24 (len^2 ~ 1e-13 << eps_f32), f64 / Rat up to 2^-40 (len^2 ~ 1e-22 << 2^-52)
                let kmax = if S::NAME == "f32" { 24 } else { 40 };
                let k = t.int(8, kmax);
                let mut sfac = S::one();
                let half = S::q(1, 2);
                for _ in 0..k {
                    sfac = sfac * half;
                }
                for i in 0..N {
                    start[i] = start[i] * sfac;
                    end[i] = end[i] * sfac;
                    p[i] = p[i] * sfac;
                }
                cx.label(if k >= 27 { "scaled by 2^-27 or less (|end-start|^2 < 2^-52)" } else if k >= 12 { "scaled by 2^-12..2^-26" } else { "scaled by 2^-8..2^-11" });
            }
            sample!(cx, "{} {} start={:?} end={:?} p={:?}", S::NAME, stringify!($Seg), start, end, p);

            // ---- oracle, from the actual inputs, in the oracle domain
            let (so, eo, po) = (lift_v::<S, N>(&start), lift_v::<S, N>(&end), lift_v::<S, N>(&p));
            let zero = <S::O as Zero>::zero();
            let one = <S::O as Dom>::i(1);
            let dv = rf::subv(&eo, &so);
            let len_sq = rf::dot(&dv, &dv);
            let degenerate = len_sq.is_zero();
            if !tiny && !degenerate && len_sq.f() < 1.0 / 64.0 - 1e-9 {
                discard!("near-degenerate segment (outside the domain)");
            }
            let t_raw = if degenerate { zero } else { rf::dot(&rf::subv(&po, &so), &dv) / len_sq };
            let t_c = if t_raw < zero {
                zero
            } else if t_raw > one {
                one
            } else {
                t_raw
            };
            let want = rf::addv(&so, &rf::scale(&dv, t_c));
            let want_d2 = sq_dist(&po, &want);
            let tol_t = if S::EXACT { 0.0 } else { 1e-6 };
            let tr = t_raw.f();
            let class = if degenerate {
                "degenerate (start == end)"
            } else if tr < -tol_t {
                "foot before the start (t < 0)"
            } else if tr <= tol_t {
                "foot at the start (t = 0)"
            } else if tr < 1.0 - tol_t {
                "foot inside (0 < t < 1)"
            } else if tr <= 1.0 + tol_t {
                "foot at the end (t = 1)"
            } else {
                "foot after the end (t > 1)"
            };
            cx.label(class);
            if want_d2.is_zero() {
                cx.label("p on the segment (distance 0)");
            }
            let near_end = !degenerate && ((tr.abs() <= 1.0 / 128.0) || ((tr - 1.0).abs() <= 1.0 / 128.0));
            cx.set_nontrivial(!degenerate && (nonzero_count(&dv) >= 2 || near_end || tr < 0.0 || tr > 1.0));
            // float tolerance: k = 32, scale = 1 + max |coordinate|
            let m = (if tiny { 0.0 } else { 1.0 }) + vk::vec_max(&start).max(vk::vec_max(&end)).max(vk::vec_max(&p));

            // ---- vek
            let seg = $Seg::<S> { start: $mk(&start), end: $mk(&end) };
            let got_s: [S; N] = $un(&seg.projected_point($mk(&p)));
            let got = lift_v::<S, N>(&got_s);
            // (a) closed form: start + clamp01(((p-start).(end-start))/|end-start|^2) (end-start)
            for i in 0..N {
                near_fl!(cx, S, fl, got[i], want[i], m, 32, "{}::projected_point[{}] vs clamped closed form ({}), got {:?} want {:?}", stringify!($Seg), i, class, got, want);
            }
            if degenerate {
                check_eq!(cx, got_s, start, "{}::projected_point on a degenerate segment is start", stringify!($Seg));
            }
            // (b) model-free: the result lies on the segment ...
            if !degenerate {
                let mut ax = 0;
                for i in 0..N {
                    if dv[i].f().abs() > dv[ax].f().abs() {
                        ax = i;
                    }
                }
                let s = (got[ax] - so[ax]) / dv[ax];
                ge_tol!(cx, S, s, zero, m / dv[ax].f().abs(), 64, "{}::projected_point parameter >= 0", stringify!($Seg));
                ge_tol!(cx, S, one, s, m / dv[ax].f().abs(), 64, "{}::projected_point parameter <= 1", stringify!($Seg));
                for i in 0..N {
                    near_fl!(cx, S, fl, got[i], so[i] + s * dv[i], m * (1.0 + (dv[i].f() / dv[ax].f()).abs()), 64, "{}::projected_point is on the supporting line [{}]", stringify!($Seg), i);
                }
            }
            // ... and no point of a 257-point sampling of the segment is nearer to p (squared distances)
            let got_d2 = sq_dist(&po, &got);
            for k in 0..=256i64 {
                let q = rf::addv(&so, &rf::scale(&dv, <S::O as Dom>::q(k, 256)));
                ge_tol_fl!(cx, S, fl, sq_dist(&po, &q), got_d2, 4.0 * m * m, 64, "{}: sampled point {}/256 is nearer to p than projected_point (got {:?})", stringify!($Seg), k, got);
            }
            // (c) distance_to_point = |p - nearest point|; Rat: only when that distance is rational
            match S::sqrt_exact(want_d2) {
                Some(wd) => {
                    cx.label("distance_to_point checked");
                    let gd = seg.distance_to_point($mk(&p)).lift();
                    near_fl!(cx, S, fl, gd, wd, m, 32, "{}::distance_to_point vs |p - nearest| ({})", stringify!($Seg), class);
                    // and it is the distance to vek's own projection
                    near_fl!(cx, S, fl, gd * gd, got_d2, 4.0 * m * m, 64, "{}::distance_to_point^2 vs |p - projected_point(p)|^2", stringify!($Seg));
                }
                None => cx.label("distance irrational in Rat (distance_to_point not called)"),
            }
            // range conversions
            let range = $mk(&start)..$mk(&end);
            check_eq!(cx, $Seg::<S>::from(range.clone()), seg, "{}::from(Range)", stringify!($Seg));
            check_eq!(cx, seg.into_range(), range, "{}::into_range", stringify!($Seg));
            Ok(())
        }
    };
}
segment_case!(seg2, seg2_tiny, seg2_huge, seg2_inner, 2, LineSegment2, vk::v2, vk::a2, perp2, dir_with_rational_normal2);
segment_case!(seg3, seg3_tiny, seg3_huge, seg3_inner, 3, LineSegment3, vk::v3, vk::a3, perp3, dir_with_rational_normal3);

pub fn checks(checks: &mut Vec<Check>) {
    macro_rules! tape {
        ($name:expr, $about:expr, $len:expr, $q:expr, $th:expr, $f:expr) => {
            checks.push(Check { name: $name, about: $about, kind: Kind::Tape { len: $len, quick: $q, thorough: $th, f: $f } });
        };
    }
    let about = "projected_point = start + clamp01(((p-start).(end-start))/|end-start|^2)(end-start); model-free: on the segment and no point of a 257-point sampling is nearer to p; distance_to_point = |p - nearest point|; From<Range>/into_range; classes: foot before/at start/inside/at end/after, p on the segment, degenerate start == end";
    tape!("seg2-rat", about, 64, 30_000, 1_000_000, seg2::<Rat>);
    tape!("seg2-f64", about, 96, 30_000, 1_000_000, seg2::<f64>);
    tape!("seg2-f32", about, 96, 30_000, 1_000_000, seg2::<f32>);
    tape!("seg3-rat", about, 80, 30_000, 1_000_000, seg3::<Rat>);
    tape!("seg3-f64", about, 128, 30_000, 1_000_000, seg3::<f64>);
    tape!("seg3-f32", about, 128, 30_000, 1_000_000, seg3::<f32>);
    let tiny = "the same arrangements scaled exactly by 2^-8 .. 2^-40 (f32: 2^-24): a segment shorter than sqrt(epsilon) is still a segment -- projected_point is the nearest point of it (closed form, on-the-segment, 257-point sampling), distance_to_point = |p - nearest|; tolerance relative to the coordinate magnitude";
    tape!("seg2-tiny-rat", tiny, 80, 10_000, 300_000, seg2_tiny::<Rat>);
    tape!("seg2-tiny-f64", tiny, 112, 10_000, 300_000, seg2_tiny::<f64>);
    tape!("seg2-tiny-f32", tiny, 112, 10_000, 300_000, seg2_tiny::<f32>);
    tape!("seg3-tiny-rat", tiny, 96, 10_000, 300_000, seg3_tiny::<Rat>);
    tape!("seg3-tiny-f64", tiny, 144, 10_000, 300_000, seg3_tiny::<f64>);
    tape!("seg3-tiny-f32", tiny, 144, 10_000, 300_000, seg3_tiny::<f32>);
    let huge = "the same arrangements scaled exactly by 2^8 .. 2^400 (f32: 2^44, Rat: 2^16): projected_point / distance_to_point of huge segments, tolerance relative to the coordinate magnitude";
    tape!("seg2-huge-rat", huge, 80, 2_000, 100_000, seg2_huge::<Rat>);
    tape!("seg2-huge-f64", huge, 112, 10_000, 300_000, seg2_huge::<f64>);
    tape!("seg2-huge-f32", huge, 112, 10_000, 300_000, seg2_huge::<f32>);
    tape!("seg3-huge-rat", huge, 96, 2_000, 100_000, seg3_huge::<Rat>);
    tape!("seg3-huge-f64", huge, 144, 10_000, 300_000, seg3_huge::<f64>);
    tape!("seg3-huge-f32", huge, 144, 10_000, 300_000, seg3_huge::<f32>);
}
