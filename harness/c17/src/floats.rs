//! Float part of C17 (f32 / f64): clamp / range test incl. the panic condition, wrapped / wrapped_between /
//! pingpong range + congruence within a derived tolerance, delta_angle(_degrees), wrapped_2pi,
//! partial_min / partial_max.
//!
//! Tolerances. Write e = EPSILON of the type, M = max(|value|, period) (period = upper, 2*upper for
//! pingpong; M = max(|value|, upper) for wrapped_between). vek computes `v - floor(v/u)*u` with three
//! roundings; following them through gives |r - (v - k*u)| <= (e/2)(|v| + 2u) for the integer k it used and
//! r in [-(e)(|v|+u), u + (e/2)(|v|+2u)], i.e. well inside 8*e*M. wrapped_between adds the roundings of
//! `v - lower`, `upper - lower` and `+ lower`: <= 5*e*M. pingpong adds two: <= 3*e*M. We allow 8*e*M throughout.
//! Congruence is decided with the exact IEEE remainder (`%` on floats is fmod: exact), in f64.

use num_traits::FloatConst;
use std::fmt::Debug;
use vek::ops::{partial_max, partial_min, Clamp, IsBetween, Wrap};
use vkit::*;

pub trait Fl:
    Copy + Debug + PartialEq + PartialOrd + num_traits::Zero + num_traits::One + Clamp + IsBetween<Output = bool> + Wrap + FloatConst + From<u16> + std::ops::Add<Output = Self> + std::ops::Sub<Output = Self> + 'static
{
    const NAME: &'static str;
    const EPS: f64;
    /// Largest |value| generated for the wrap functions.
    const HUGE: f64;
    const MIN_POS: f64;
    const TINY_SUB: f64;
    fn from64(x: f64) -> Self;
    fn to64(self) -> f64;
    fn up(self) -> Self;
    fn down(self) -> Self;
    fn is_nan_(self) -> bool {
        self.to64().is_nan()
    }
    fn finite(self) -> bool {
        self.to64().is_finite()
    }
}
macro_rules! fl_impl {
    ($F:ident, $huge:expr) => {
        impl Fl for $F {
            const NAME: &'static str = stringify!($F);
            const EPS: f64 = $F::EPSILON as f64;
            const HUGE: f64 = $huge;
            const MIN_POS: f64 = $F::MIN_POSITIVE as f64;
            const TINY_SUB: f64 = $F::MIN_POSITIVE as f64 * $F::EPSILON as f64;
            fn from64(x: f64) -> Self {
                x as $F
            }
            fn to64(self) -> f64 {
                self as f64
            }
            fn up(self) -> Self {
                if self.is_nan() || self == $F::INFINITY {
                    return self;
                }
                if self == 0.0 {
                    return $F::from_bits(1);
                }
                let b = self.to_bits();
                $F::from_bits(if self > 0.0 { b + 1 } else { b - 1 })
            }
            fn down(self) -> Self {
                -((-self).up())
            }
        }
    };
}
fl_impl!(f64, 1e15);
fl_impl!(f32, 1e12);

// ------------------------------------------------------------------------------------------------
// Generators.

/// A valid (finite, > 0) period in [~1e-6, ~2e6].
fn gen_upper<F: Fl>(t: &mut Tape) -> F {
    let x = match t.below(12) {
        0 => 1.0,
        1 => 3.0,
        2 => 0.1,
        3 => 2.0 * std::f64::consts::PI,
        4 => 360.0,
        5 => 2f64.powi(t.int(-20, 20) as i32),
        6 => 1e-6 * (1.0 + t.unit_f64()),
        7 => 1e6 * (1.0 + t.unit_f64()),
        8 => t.int(1, 100) as f64,
        _ => 0.001 + t.unit_f64() * 100.0,
    };
    F::from64(x)
}
/// A bound for which the documentation requires a panic (<= 0), incl. -0.0 and -inf.
fn gen_nonpositive<F: Fl>(t: &mut Tape) -> F {
    let x = match t.below(6) {
        0 => 0.0,
        1 => -0.0,
        2 => -1.0,
        3 => -F::MIN_POS,
        4 => f64::NEG_INFINITY,
        _ => -t.unit_f64() * 100.0,
    };
    F::from64(x)
}
/// A finite value to be wrapped with period `u` (or `2u`): zeros, exact multiples and their neighbours,
/// values within an ulp of the bound, tiny negatives, subnormals, huge values, ordinary values.
fn gen_value<F: Fl>(t: &mut Tape, u: F, cx: &mut Cx) -> F {
    let u64_ = u.to64();
    let sign = |t: &mut Tape| if t.bool() { -1.0 } else { 1.0 };
    match t.below(16) {
        0 => {
            cx.label("value: +-0");
            F::from64(0.0 * sign(t))
        }
        1 => {
            cx.label("value: small multiple of the period");
            F::from64(t.int(-8, 8) as f64 * u64_)
        }
        2 => {
            cx.label("value: 1 ulp above a multiple");
            F::from64(t.int(-8, 8) as f64 * u64_).up()
        }
        3 => {
            cx.label("value: 1 ulp below a multiple");
            F::from64(t.int(-8, 8) as f64 * u64_).down()
        }
        4 => {
            cx.label("value: tiny (+-1e-20)");
            F::from64(1e-20 * sign(t))
        }
        5 => {
            cx.label("value: +-MIN_POSITIVE / smallest subnormal");
            F::from64(if t.bool() { F::MIN_POS } else { F::TINY_SUB } * sign(t))
        }
        6 => {
            cx.label("value: huge");
            F::from64(F::HUGE * (0.001 + t.unit_f64()) * sign(t))
        }
        7 => {
            cx.label("value: large multiple of the period");
            F::from64((t.int(-30000, 30000) * 1000) as f64 * u64_)
        }
        8 => {
            cx.label("value: small integer");
            F::from64(t.int(-20, 20) as f64)
        }
        9 => {
            cx.label("value: within 1 ulp of the period");
            if t.bool() { u.up() } else { u.down() }
        }
        _ => {
            cx.label("value: ordinary");
            F::from64((t.unit_f64() * 8.0 - 4.0) * u64_)
        }
    }
}
fn gen_nonfinite<F: Fl>(t: &mut Tape) -> F {
    F::from64(t.pick(&[f64::INFINITY, f64::NEG_INFINITY, f64::NAN]))
}

/// Distance from x - y to the nearest multiple of p (p > 0; x, y, p finite), in f64. `%` is exact; the
/// subtraction and the comparisons round at most a few times relative to p (accounted for by the caller).
fn circ_dist(x: f64, y: f64, p: f64) -> f64 {
    let e = (x % p) - (y % p); // in (-2p, 2p)
    let e = (e % p).abs(); // in [0, p)
    e.min(p - e)
}

// ------------------------------------------------------------------------------------------------
// clamp / is_between / partial_min / partial_max

fn gen_any<F: Fl>(t: &mut Tape) -> F {
    let x = match t.below(16) {
        0 => 0.0,
        1 => -0.0,
        2 => 1.0,
        3 => -1.0,
        4 => f64::INFINITY,
        5 => f64::NEG_INFINITY,
        6 => f64::NAN,
        7 => F::MIN_POS,
        8 => F::from64(1e300).to64(), // MAX-ish / +inf for f32
        9 => t.int(-5, 5) as f64,
        10 => t.int(-5, 5) as f64 * 0.5,
        _ => t.unit_f64() * 20.0 - 10.0,
    };
    F::from64(x)
}

pub fn f_clamp<F: Fl>(t: &mut Tape, cx: &mut Cx) -> CaseResult {
    let (mut lo, mut hi) = (gen_any::<F>(t), gen_any::<F>(t));
    if t.below(4) != 0 && lo > hi {
        std::mem::swap(&mut lo, &mut hi);
    }
    let v = match t.below(6) {
        0 => lo,
        1 => hi,
        2 => lo.down(),
        3 => hi.up(),
        _ => gen_any::<F>(t),
    };
    sample!(cx, "{} value={:?} lower={:?} upper={:?}", F::NAME, v, lo, hi);
    // panic <=> not (lower <= upper); NaN bounds are not ordered
    let ordered = lo <= hi;
    cx.set_nontrivial(!ordered || v.is_nan_() || v <= lo || v >= hi);
    cx.label(if !ordered {
        if lo.is_nan_() || hi.is_nan_() { "clamp: NaN bound (panic required)" } else { "clamp: lower>upper (panic required)" }
    } else if v.is_nan_() {
        "clamp: NaN value (no panic; value not asserted)"
    } else if v < lo {
        "clamp: value below lower"
    } else if v > hi {
        "clamp: value above upper"
    } else if v == lo || v == hi {
        "clamp: tie"
    } else {
        "clamp: strictly inside"
    });
    if ordered && (!lo.finite() || !hi.finite()) {
        cx.label("clamp: infinite bound");
    }
    let outs = [
        ("clamped", catch(|| Clamp::clamped(v, lo, hi))),
        ("Clamp::clamp", catch(|| <F as Clamp>::clamp(v, lo, hi))),
        ("clamped_to_inclusive_range", catch(|| Clamp::clamped_to_inclusive_range(v, lo..=hi))),
        ("clamp_to_inclusive_range", catch(|| <F as Clamp>::clamp_to_inclusive_range(v, lo..=hi))),
    ];
    let tests = [("is_between", catch(|| IsBetween::is_between(v, lo, hi))), ("is_between_inclusive_range_bounds", catch(|| IsBetween::is_between_inclusive_range_bounds(v, lo..=hi)))];
    for (name, r) in &outs {
        check!(cx, r.is_err() == !ordered, "{} {}({:?}; {:?}, {:?}): panic <=> not lower<=upper violated: {:?}", F::NAME, name, v, lo, hi, r);
        if let (Ok(r), false) = (r, v.is_nan_()) {
            let want = if v < lo { lo } else if v > hi { hi } else { v };
            check!(cx, *r == want, "{} {}({:?}; {:?}, {:?}) = {:?}, want {:?}", F::NAME, name, v, lo, hi, r, want);
            check!(cx, lo <= *r && *r <= hi, "{} {} result {:?} outside [{:?}, {:?}]", F::NAME, name, r, lo, hi);
            let again = catch(|| Clamp::clamped(*r, lo, hi));
            check!(cx, again == Ok(*r), "{} {} not idempotent: {:?} then {:?}", F::NAME, name, r, again);
        }
    }
    for (name, b) in &tests {
        check!(cx, b.is_err() == !ordered, "{} {}({:?}; {:?}, {:?}): panic <=> not lower<=upper violated: {:?}", F::NAME, name, v, lo, hi, b);
        if let (Ok(b), false) = (b, v.is_nan_()) {
            check_eq!(cx, *b, lo <= v && v <= hi, "{} {}({:?}; {:?}, {:?})", F::NAME, name, v, lo, hi);
            if let Ok(c) = &outs[0].1 {
                check_eq!(cx, *b, *c == v, "{} is_between <=> clamped is the identity ({:?}; {:?}, {:?})", F::NAME, v, lo, hi);
            }
        }
    }
    // unit-interval forms
    if !v.is_nan_() {
        let one = F::from64(1.0);
        let zero = F::from64(0.0);
        let want01 = if v < zero { zero } else if v > one { one } else { v };
        check!(cx, catch(|| Clamp::clamped01(v)) == Ok(want01), "{} clamped01({:?})", F::NAME, v);
        check!(cx, catch(|| <F as Clamp>::clamp01(v)) == Ok(want01), "{} clamp01({:?})", F::NAME, v);
        check!(cx, catch(|| IsBetween::is_between01(v)) == Ok(zero <= v && v <= one), "{} is_between01({:?})", F::NAME, v);
    }
    Ok(())
}

pub fn f_partial_minmax<F: Fl>(t: &mut Tape, cx: &mut Cx) -> CaseResult {
    let a = gen_any::<F>(t);
    let b = match t.below(4) {
        0 => a,
        1 => a.up(),
        _ => gen_any::<F>(t),
    };
    sample!(cx, "{} a={:?} b={:?}", F::NAME, a, b);
    if a.is_nan_() || b.is_nan_() {
        cx.label("partial_min/max: NaN argument (only: no panic)");
        check!(cx, catch(|| (partial_min(a, b), partial_max(a, b))).is_ok(), "partial_min/max panicked on NaN");
        return Ok(());
    }
    cx.set_nontrivial(a != b);
    if a == b {
        cx.label("partial_min/max: tie");
    }
    let bits = |x: F| x.to64().to_bits();
    let (mn, mx) = (partial_min(a, b), partial_max(a, b));
    check!(cx, bits(mn) == bits(a) || bits(mn) == bits(b), "{} partial_min({:?}, {:?}) = {:?} is neither argument", F::NAME, a, b, mn);
    check!(cx, bits(mx) == bits(a) || bits(mx) == bits(b), "{} partial_max({:?}, {:?}) = {:?} is neither argument", F::NAME, a, b, mx);
    check!(cx, mn <= a && mn <= b, "{} partial_min({:?}, {:?}) = {:?} does not bound both", F::NAME, a, b, mn);
    check!(cx, mx >= a && mx >= b, "{} partial_max({:?}, {:?}) = {:?} does not bound both", F::NAME, a, b, mx);
    Ok(())
}

// ------------------------------------------------------------------------------------------------
// wrapped / wrapped_2pi

/// r must lie in [0, u] and be congruent to v modulo u, both within 8*EPS*max(|v|, u).
fn wrapped_law<F: Fl>(cx: &mut Cx, what: &str, v: F, u: F, r: F) -> CaseResult {
    let (v6, u6, r6) = (v.to64(), u.to64(), r.to64());
    check!(cx, r6.is_finite(), "{} {}: ({:?}, {:?}) -> {:?} not finite", F::NAME, what, v, u, r);
    let tol = 8.0 * F::EPS * v6.abs().max(u6);
    check!(cx, r6 >= -tol && r6 <= u6 + tol, "{} {}: ({:?}).wrapped({:?}) = {:?} outside [0, upper] by more than {:e}", F::NAME, what, v, u, r, tol);
    let d = circ_dist(v6, r6, u6);
    let slack = tol + 8.0 * f64::EPSILON * u6;
    cx.note_err(d / slack);
    check!(cx, d <= slack, "{} {}: ({:?}).wrapped({:?}) = {:?} is not congruent to the input modulo upper: off by {:e} > {:e}", F::NAME, what, v, u, r, d, slack);
    if r6 == u6 {
        cx.label("wrapped: result == upper (rounding, legitimate)");
    }
    if r6 < 0.0 {
        cx.label("wrapped: result slightly negative (within slack)");
    }
    Ok(())
}

pub fn f_wrapped<F: Fl>(t: &mut Tape, cx: &mut Cx) -> CaseResult {
    let mode = t.below(8);
    if mode == 0 {
        // documented panic: upper <= 0
        let u = gen_nonpositive::<F>(t);
        let v = gen_any::<F>(t);
        sample!(cx, "{} value={:?} upper={:?} (panic required)", F::NAME, v, u);
        cx.nontrivial();
        cx.label("wrapped: upper<=0 (panic required)");
        check!(cx, catch(|| Wrap::wrapped(v, u)).is_err(), "{} ({:?}).wrapped({:?}) must panic (upper <= 0)", F::NAME, v, u);
        check!(cx, catch(|| <F as Wrap>::wrap(v, u)).is_err(), "{} wrap({:?}, {:?}) must panic (upper <= 0)", F::NAME, v, u);
        check!(cx, catch(|| Wrap::pingpong(v, u)).is_err(), "{} ({:?}).pingpong({:?}) must panic (upper <= 0)", F::NAME, v, u);
        return Ok(());
    }
    let u = gen_upper::<F>(t);
    if mode == 1 {
        // non-finite value: the result is not defined by the docs; only "no panic" (the bound is valid)
        let v = gen_nonfinite::<F>(t);
        sample!(cx, "{} value={:?} upper={:?} (non-finite value)", F::NAME, v, u);
        cx.label("wrapped: non-finite value (only: no panic)");
        check!(cx, catch(|| Wrap::wrapped(v, u)).is_ok(), "{} ({:?}).wrapped({:?}) panicked", F::NAME, v, u);
        check!(cx, catch(|| Wrap::pingpong(v, u)).is_ok(), "{} ({:?}).pingpong({:?}) panicked", F::NAME, v, u);
        return Ok(());
    }
    let v = gen_value::<F>(t, u, cx);
    sample!(cx, "{} value={:?} upper={:?}", F::NAME, v, u);
    let (v6, u6) = (v.to64(), u.to64());
    cx.set_nontrivial(v6 < 0.0 || v6 >= u6);
    if v6 < 0.0 {
        cx.label("wrapped: value negative");
    }
    let r = match catch(|| Wrap::wrapped(v, u)) {
        Ok(r) => r,
        Err(m) => fail!("{} ({:?}).wrapped({:?}) panicked: {}", F::NAME, v, u, m),
    };
    wrapped_law::<F>(cx, "wrapped", v, u, r)?;
    let r2 = catch(|| <F as Wrap>::wrap(v, u));
    check!(cx, r2 == Ok(r), "{} Wrap::wrap({:?}, {:?}) = {:?} differs from wrapped = {:?}", F::NAME, v, u, r2, r);
    if v6 >= 0.0 && v6 < u6 {
        cx.label("wrapped: value already in [0,upper)");
    }
    Ok(())
}

pub fn f_wrapped_2pi<F: Fl>(t: &mut Tape, cx: &mut Cx) -> CaseResult {
    let two_pi = F::PI() + F::PI();
    let v = gen_value::<F>(t, two_pi, cx);
    sample!(cx, "{} value={:?}", F::NAME, v);
    cx.set_nontrivial(v.to64() < 0.0 || v >= two_pi);
    let r = match catch(|| Wrap::wrapped_2pi(v)) {
        Ok(r) => r,
        Err(m) => fail!("{} ({:?}).wrapped_2pi() panicked: {}", F::NAME, v, m),
    };
    wrapped_law::<F>(cx, "wrapped_2pi", v, two_pi, r)?;
    let r2 = catch(|| <F as Wrap>::wrap_2pi(v));
    check!(cx, r2 == Ok(r), "{} wrap_2pi({:?}) = {:?} differs from wrapped_2pi = {:?}", F::NAME, v, r2, r);
    Ok(())
}

// ------------------------------------------------------------------------------------------------
// pingpong

pub fn f_pingpong<F: Fl>(t: &mut Tape, cx: &mut Cx) -> CaseResult {
    let u = gen_upper::<F>(t);
    let two_u = F::from64(2.0 * u.to64());
    let base = if t.bool() { u } else { two_u };
    let v = gen_value::<F>(t, base, cx);
    sample!(cx, "{} value={:?} upper={:?}", F::NAME, v, u);
    let (v6, u6) = (v.to64(), u.to64());
    cx.set_nontrivial(v6 < 0.0 || v6 >= u6);
    let r = match catch(|| Wrap::pingpong(v, u)) {
        Ok(r) => r,
        Err(m) => fail!("{} ({:?}).pingpong({:?}) panicked: {}", F::NAME, v, u, m),
    };
    let r6 = r.to64();
    check!(cx, r6.is_finite(), "{} ({:?}).pingpong({:?}) = {:?} not finite", F::NAME, v, u, r);
    let p = 2.0 * u6;
    let tol = 8.0 * F::EPS * v6.abs().max(p);
    check!(cx, r6 >= -tol && r6 <= u6 + tol, "{} ({:?}).pingpong({:?}) = {:?} outside [0, upper] by more than {:e}", F::NAME, v, u, r, tol);
    // triangle wave: distance from v to the nearest multiple of 2u (exact remainder, then <= 2 roundings in f64)
    let mut a = v6 % p;
    if a < 0.0 {
        a += p;
    }
    let tri = a.min(p - a);
    cx.label(if a < u6 { "pingpong: rising half" } else { "pingpong: falling half" });
    let slack = tol + 8.0 * f64::EPSILON * p;
    let d = (r6 - tri).abs();
    cx.note_err(d / slack);
    check!(cx, d <= slack, "{} ({:?}).pingpong({:?}) = {:?}, triangle wave gives {:e}: off by {:e} > {:e}", F::NAME, v, u, r, tri, d, slack);
    Ok(())
}

// ------------------------------------------------------------------------------------------------
// bounds and values that are small-integer multiples of one unit 2^e, with the unit anywhere from the smallest
// subnormal to huge: every intermediate of any reasonable formula is exact, so the result is the integer answer
// times the unit, bit for bit. (The magnitude of the BOUND is otherwise confined to 2^-20 .. 2^20.)

pub fn f_unit_grid<F: Fl>(t: &mut Tape, cx: &mut Cx) -> CaseResult {
    let min_sub_exp = (F::TINY_SUB.log2()).round() as i32;
    let min_pos_exp = (F::MIN_POS.log2()).round() as i32;
    let max_exp = -min_pos_exp; // 2^126 resp. 2^1022 (values up to 4096 units stay finite below that: cap at max_exp - 14)
    let (e, regime) = match t.below(8) {
        0 => (min_sub_exp, "unit = smallest subnormal"),
        1 => (min_sub_exp + 1 + t.below(8) as i32, "unit subnormal"),
        2 => (min_pos_exp - 1 - t.below(4) as i32, "unit just below MIN_POSITIVE"),
        3 => (min_pos_exp, "unit = MIN_POSITIVE"),
        4 => (min_pos_exp + 1 + t.below(8) as i32, "unit just above MIN_POSITIVE"),
        5 => (max_exp - 14 - t.below(8) as i32, "unit huge"),
        6 => (t.int(-60, 60) as i32, "unit moderate"),
        _ => (t.int(min_sub_exp as i64, (max_exp - 14) as i64) as i32, "unit anywhere"),
    };
    // 2^e exactly, also in the subnormal range (powi would go through 1 / 2^1074 = 1 / inf)
    let unit = if e >= -1022 { f64::from_bits(((e + 1023) as u64) << 52) } else { f64::from_bits(1u64 << (e + 1074)) };
    let m = 1 + t.below(64) as i64; // upper = m units
    let n = t.int(-4096, 4096); // value = n units
    let l = t.int(0, 64); // lower = l units >= 0 (documented precondition of the float wrapped_between: 0 <= lower < upper)
    let (v, u, lo, hi) = (F::from64(n as f64 * unit), F::from64(m as f64 * unit), F::from64(l as f64 * unit), F::from64((l + m) as f64 * unit));
    sample!(cx, "{} unit=2^{} ({}) value={} units upper={} units lower={} units", F::NAME, e, regime, n, m, l);
    cx.label(regime);
    if u.to64() < F::MIN_POS { cx.label("upper is subnormal"); }
    cx.set_nontrivial(n < 0 || n >= m);
    let w = n.rem_euclid(m);
    let a = n.rem_euclid(2 * m);
    let tri = a.min(2 * m - a);
    let wb = l + (n - l).rem_euclid(m);
    let judge = |cx: &mut Cx, what: &str, got: Result<F, String>, want_units: i64| -> CaseResult {
        let want = F::from64(want_units as f64 * unit);
        match got {
            Ok(r) => check!(cx, r.to64() == want.to64(), "{} {}: value = {} x 2^{}, upper = {} x 2^{}, lower = {} x 2^{}: got {:?} = {} units, want {} units (all operands are small multiples of one power of two: exact)", F::NAME, what, n, e, m, e, l, e, r, r.to64() / unit, want_units),
            Err(msg) => fail!("{} {}: value = {} x 2^{}, upper = {} x 2^{} (a valid, strictly positive bound): panicked: {}", F::NAME, what, n, e, m, e, msg),
        }
        Ok(())
    };
    judge(cx, "wrapped", catch(|| Wrap::wrapped(v, u)), w)?;
    judge(cx, "Wrap::wrap", catch(|| <F as Wrap>::wrap(v, u)), w)?;
    judge(cx, "pingpong", catch(|| Wrap::pingpong(v, u)), tri)?;
    judge(cx, "wrapped_between", catch(|| Wrap::wrapped_between(v, lo, hi)), wb)?;
    judge(cx, "Wrap::wrap_between", catch(|| <F as Wrap>::wrap_between(v, lo, hi)), wb)?;
    Ok(())
}

// ------------------------------------------------------------------------------------------------
// wrapped_between

pub fn f_wrapped_between<F: Fl>(t: &mut Tape, cx: &mut Cx) -> CaseResult {
    let mode = t.below(8);
    if mode == 0 {
        // documented panics: lower >= upper, lower < 0, upper <= 0 (non-NaN bounds)
        let (lo, hi) = match t.below(4) {
            0 => {
                let x = gen_upper::<F>(t);
                (x, x)
            }
            1 => {
                let x = gen_upper::<F>(t);
                (x.up(), x)
            }
            2 => (F::from64(-(t.unit_f64() + 0.001)), gen_upper::<F>(t)),
            _ => (F::from64(0.0), gen_nonpositive::<F>(t)),
        };
        let v = gen_any::<F>(t);
        sample!(cx, "{} value={:?} lower={:?} upper={:?} (panic required)", F::NAME, v, lo, hi);
        cx.nontrivial();
        cx.label(if lo.to64() < 0.0 { "wrapped_between: lower<0 (panic required)" } else { "wrapped_between: lower>=upper (panic required)" });
        check!(cx, catch(|| Wrap::wrapped_between(v, lo, hi)).is_err(), "{} ({:?}).wrapped_between({:?}, {:?}) must panic", F::NAME, v, lo, hi);
        check!(cx, catch(|| <F as Wrap>::wrap_between(v, lo, hi)).is_err(), "{} wrap_between({:?}, {:?}, {:?}) must panic", F::NAME, v, lo, hi);
        return Ok(());
    }
    // valid bounds 0 <= lower < upper
    let w = gen_upper::<F>(t);
    let lo = match t.below(6) {
        0 => F::from64(0.0),
        1 => F::from64(-0.0),
        2 => w,
        3 => F::from64(t.int(1, 50) as f64),
        _ => F::from64(t.unit_f64() * 100.0),
    };
    let hi = match t.below(8) {
        // adjacent bounds: the period is one ulp of lower (only for lower >= 1e-6, so that value / period cannot overflow)
        0 if lo.to64() >= 1e-6 => lo.up(),
        _ => lo + w,
    };
    if !(lo < hi) {
        discard!("lower + width rounded to lower");
    }
    let period = F::from64(hi.to64() - lo.to64());
    let v = match t.below(4) {
        0 => lo,
        1 => hi,
        2 => if t.bool() { lo.down() } else { hi.down() },
        _ => {
            let x = gen_value::<F>(t, period, cx);
            if t.bool() { x } else { F::from64(x.to64() + lo.to64()) }
        }
    };
    sample!(cx, "{} value={:?} lower={:?} upper={:?}", F::NAME, v, lo, hi);
    let (v6, lo6, hi6) = (v.to64(), lo.to64(), hi.to64());
    cx.set_nontrivial(v6 < lo6 || v6 >= hi6 || v6 == lo6);
    cx.label(if v6 < lo6 {
        "wrapped_between: value below lower"
    } else if v6 >= hi6 {
        "wrapped_between: value >= upper"
    } else {
        "wrapped_between: value already in [lower, upper)"
    });
    let r = match catch(|| Wrap::wrapped_between(v, lo, hi)) {
        Ok(r) => r,
        Err(m) => fail!("{} ({:?}).wrapped_between({:?}, {:?}) panicked: {}", F::NAME, v, lo, hi, m),
    };
    let r6 = r.to64();
    check!(cx, r6.is_finite(), "{} ({:?}).wrapped_between({:?}, {:?}) = {:?} not finite", F::NAME, v, lo, hi, r);
    let tol = 8.0 * F::EPS * v6.abs().max(hi6);
    check!(cx, r6 >= lo6 - tol && r6 <= hi6 + tol, "{} ({:?}).wrapped_between({:?}, {:?}) = {:?} outside [lower, upper] by more than {:e}", F::NAME, v, lo, hi, r, tol);
    // the period as vek's own type rounds it (f64) resp. exactly (f32 in f64): the difference to the true
    // period times the number of turns is inside the tolerance (see the module comment)
    let p6 = hi6 - lo6;
    let d = circ_dist(v6, r6, p6);
    let slack = tol + 8.0 * f64::EPSILON * p6;
    cx.note_err(d / slack);
    check!(cx, d <= slack, "{} ({:?}).wrapped_between({:?}, {:?}) = {:?} is not congruent to the input modulo upper-lower: off by {:e} > {:e}", F::NAME, v, lo, hi, r, d, slack);
    let r2 = catch(|| <F as Wrap>::wrap_between(v, lo, hi));
    check!(cx, r2 == Ok(r), "{} wrap_between = {:?} differs from wrapped_between = {:?}", F::NAME, r2, r);
    Ok(())
}

// ------------------------------------------------------------------------------------------------
// delta_angle / delta_angle_degrees

fn gen_angle<F: Fl>(t: &mut Tape, half: f64, cx: &mut Cx) -> F {
    let x = match t.below(8) {
        0 => 0.0 * if t.bool() { -1.0 } else { 1.0 },
        1 => t.int(-12, 12) as f64 * half / 6.0,
        2 => t.int(-8, 8) as f64 * half,
        3 => {
            cx.label("angle: far outside one turn");
            (t.unit_f64() * 2.0 - 1.0) * 1e6 * half
        }
        4 => {
            cx.label("angle: within an ulp of a multiple of half a turn");
            let x = F::from64(t.int(-4, 4) as f64 * half);
            return if t.bool() { x.up() } else { x.down() };
        }
        _ => (t.unit_f64() * 8.0 - 4.0) * half,
    };
    F::from64(x)
}

/// result in (-half, half] and congruent to target - self modulo 2*half, within 8*EPS*max(|self|+|target|, 2*half).
fn delta_law<F: Fl>(cx: &mut Cx, what: &str, s: F, g: F, r: F, half: F) -> CaseResult {
    let (s6, g6, r6, h6) = (s.to64(), g.to64(), r.to64(), half.to64());
    let p = 2.0 * h6;
    check!(cx, r6.is_finite(), "{} ({:?}).{}({:?}) = {:?} not finite", F::NAME, s, what, g, r);
    let tol = 8.0 * F::EPS * (s6.abs() + g6.abs()).max(p);
    check!(cx, r6 >= -h6 - tol && r6 <= h6 + tol, "{} ({:?}).{}({:?}) = {:?} outside (-half turn, half turn] by more than {:e}", F::NAME, s, what, g, r, tol);
    // (g - s - r) mod p via exact remainders of each term
    let e = (g6 % p) - (s6 % p) - (r6 % p); // in (-3p, 3p), a few roundings relative to p
    let e = (e % p).abs();
    let d = e.min(p - e);
    let slack = tol + 16.0 * f64::EPSILON * p;
    cx.note_err(d / slack);
    check!(cx, d <= slack, "{} ({:?}).{}({:?}) = {:?} is not congruent to target - self modulo a turn: off by {:e} > {:e}", F::NAME, s, what, g, r, d, slack);
    Ok(())
}

pub fn f_delta_angle<F: Fl>(t: &mut Tape, cx: &mut Cx) -> CaseResult {
    let pi = F::PI();
    let s = gen_angle::<F>(t, std::f64::consts::PI, cx);
    let g = gen_angle::<F>(t, std::f64::consts::PI, cx);
    sample!(cx, "{} self={:?} target={:?}", F::NAME, s, g);
    let d = g.to64() - s.to64();
    cx.set_nontrivial(d.abs() > std::f64::consts::PI);
    cx.label(if d.abs() > std::f64::consts::PI { "delta_angle: |target-self| > pi" } else { "delta_angle: |target-self| <= pi" });
    let r = match catch(|| Wrap::delta_angle(s, g)) {
        Ok(r) => r,
        Err(m) => fail!("{} ({:?}).delta_angle({:?}) panicked: {}", F::NAME, s, g, m),
    };
    delta_law::<F>(cx, "delta_angle", s, g, r, pi)
}

pub fn f_delta_angle_degrees<F: Fl>(t: &mut Tape, cx: &mut Cx) -> CaseResult {
    let half = F::from64(180.0);
    if t.bool() {
        // integer degrees of moderate size: every operation of any reasonable formula is exact, so the law is exact
        let gen = |t: &mut Tape| -> i64 {
            match t.below(3) {
                0 => t.int(-8, 8) * 90 + t.int(-1, 1),
                1 => t.int(-720, 720),
                _ => t.int(-10000, 10000),
            }
        };
        let (s, g) = (gen(t), gen(t));
        sample!(cx, "{} self={} target={} (integer degrees)", F::NAME, s, g);
        let d = g - s;
        let mut want = d.rem_euclid(360);
        if want > 180 {
            want -= 360;
        }
        cx.set_nontrivial(d < 0 || d >= 360 || want == 180);
        cx.label("delta_angle_degrees: integer degrees (exact)");
        if want == 180 {
            cx.label("delta_angle_degrees: exactly half a turn (+180 required)");
        }
        let r = catch(|| Wrap::delta_angle_degrees(F::from64(s as f64), F::from64(g as f64)));
        check!(cx, r == Ok(F::from64(want as f64)), "{} ({}).delta_angle_degrees({}) = {:?}, want {}", F::NAME, s, g, r, want);
        return Ok(());
    }
    let s = gen_angle::<F>(t, 180.0, cx);
    let g = gen_angle::<F>(t, 180.0, cx);
    sample!(cx, "{} self={:?} target={:?}", F::NAME, s, g);
    let d = g.to64() - s.to64();
    cx.set_nontrivial(d.abs() > 180.0);
    let r = match catch(|| Wrap::delta_angle_degrees(s, g)) {
        Ok(r) => r,
        Err(m) => fail!("{} ({:?}).delta_angle_degrees({:?}) panicked: {}", F::NAME, s, g, m),
    };
    delta_law::<F>(cx, "delta_angle_degrees", s, g, r, half)
}
