//! Integer part of C17: i128 models written from the mathematical definitions, the exact signature of
//! the known finding F7 (an intermediate of vek's formula leaves T although the result is
//! representable), exhaustive 8-bit index checks and stratified tape checks for the wider types.

use num_traits::{One, Zero};
use std::fmt::Debug;
use std::num::Wrapping;
use vek::ops::{Clamp, IsBetween, Wrap};
use vkit::*;

pub const F7: &str = "F7-wrap-int-overflow";

/// An integer type vek implements Clamp / IsBetween / Wrap for, with a bridge to the i128 model.
pub trait Int:
    Copy
    + Debug
    + PartialEq
    + PartialOrd
    + Clamp
    + IsBetween<Output = bool>
    + Wrap
    + Zero
    + One
    + std::ops::Add<Output = Self>
    + std::ops::Sub<Output = Self>
    + 'static
{
    const NAME: &'static str;
    const BITS: u32;
    const SIGNED: bool;
    const WRAPPING: bool;
    /// Precondition: `min_i() <= x <= max_i()`.
    fn of(x: i128) -> Self;
    fn val(self) -> i128;
    /// `(clamped_minus1_1, clamp_minus1_1)` for the types that have `Neg`.
    fn minus1_forms(self) -> Option<(Result<Self, String>, Result<Self, String>)>;
    fn min_i() -> i128 {
        if Self::SIGNED { -(1i128 << (Self::BITS - 1)) } else { 0 }
    }
    fn max_i() -> i128 {
        if Self::SIGNED { (1i128 << (Self::BITS - 1)) - 1 } else { (1i128 << Self::BITS) - 1 }
    }
    fn fits(x: i128) -> bool {
        Self::min_i() <= x && x <= Self::max_i()
    }
}

macro_rules! minus1 {
    (neg, $s:ident) => {
        Some((catch(|| Clamp::clamped_minus1_1($s)), catch(|| <Self as Clamp>::clamp_minus1_1($s))))
    };
    (noneg, $s:ident) => {{
        let _ = $s;
        None
    }};
}
macro_rules! int_impl {
    ($($t:ident $bits:expr, $signed:expr, $neg:ident;)+) => {$(
        impl Int for $t {
            const NAME: &'static str = stringify!($t);
            const BITS: u32 = $bits;
            const SIGNED: bool = $signed;
            const WRAPPING: bool = false;
            fn of(x: i128) -> Self { debug_assert!(Self::fits(x)); x as $t }
            fn val(self) -> i128 { self as i128 }
            fn minus1_forms(self) -> Option<(Result<Self, String>, Result<Self, String>)> { minus1!($neg, self) }
        }
        impl Int for Wrapping<$t> {
            const NAME: &'static str = concat!("Wrapping<", stringify!($t), ">");
            const BITS: u32 = $bits;
            const SIGNED: bool = $signed;
            const WRAPPING: bool = true;
            fn of(x: i128) -> Self { debug_assert!(Self::fits(x)); Wrapping(x as $t) }
            fn val(self) -> i128 { self.0 as i128 }
            // Wrapping<unsigned> has Neg too: -1 is MAX there
            fn minus1_forms(self) -> Option<(Result<Self, String>, Result<Self, String>)> { minus1!(neg, self) }
        }
    )+};
}
int_impl! {
    i8 8, true, neg; i16 16, true, neg; i32 32, true, neg; i64 64, true, neg; isize 64, true, neg;
    u8 8, false, noneg; u16 16, false, noneg; u32 32, false, noneg; u64 64, false, noneg; usize 64, false, noneg;
}

// ------------------------------------------------------------------------------------------------
// The model (mathematical definitions over i128; never calls vek).

#[derive(Clone, Copy, PartialEq, Debug)]
pub enum Want {
    /// the documented / asserted precondition is violated: a panic is required
    Panic,
    Val(i128),
}

/// v if lo <= v <= hi, else the nearer bound; panic iff not lo <= hi.
pub fn m_clamp(v: i128, lo: i128, hi: i128) -> Want {
    if !(lo <= hi) {
        Want::Panic
    } else if v < lo {
        Want::Val(lo)
    } else if v > hi {
        Want::Val(hi)
    } else {
        Want::Val(v)
    }
}
/// The unique r in [lo, lo+p) with r = v (mod p), verified against that definition.
fn residue(v: i128, lo: i128, p: i128) -> i128 {
    let r = lo + (v - lo).rem_euclid(p);
    assert!(lo <= r && r < lo + p && (v - r) % p == 0, "model self-check");
    r
}
pub fn m_wrapped(v: i128, u: i128) -> Want {
    if u <= 0 { Want::Panic } else { Want::Val(residue(v, 0, u)) }
}
pub fn m_wrapped_between(v: i128, lo: i128, hi: i128) -> Want {
    if lo >= hi || lo < 0 || hi <= 0 { Want::Panic } else { Want::Val(residue(v, lo, hi - lo)) }
}
/// Triangle wave of period 2u through (0,0) and (u,u): the distance from v to the nearest multiple of 2u.
pub fn m_pingpong(v: i128, u: i128) -> Want {
    if u <= 0 {
        return Want::Panic;
    }
    let t = residue(v, 0, 2 * u);
    let r = t.min(2 * u - t);
    assert!(0 <= r && r <= u, "model self-check");
    Want::Val(r)
}

// ------------------------------------------------------------------------------------------------
// Signature of F7: which mathematical intermediate of vek's formula (src/ops.rs, wrap_impl_uint /
// wrap_impl_sint) is the first to leave T. `None` = every intermediate stays inside T, so vek must
// agree with the model exactly.

#[derive(Clone, Copy, PartialEq, Debug)]
pub enum Ovf {
    /// `lower - self` (signed, self far below lower)
    LowerMinusSelf,
    /// `(lower-self)/range_size + 1`
    QPlusOne,
    /// `range_size * ((lower-self)/range_size + 1)`
    RangeTimesQ1,
    /// `self += ...` (mathematically never: the sum is <= upper)
    SelfPlus,
    /// `upper + upper`
    UpperPlusUpper,
}

/// `wrapped_between` of both integer macros; preconditions (0 <= lo < hi) hold.
/// Unsigned: lower-self <= lower, and range*(q+1) <= upper-self <= MAX, so nothing can overflow; the
/// generic evaluation below confirms that instead of assuming it.
pub fn f7_wrapped_between<T: Int>(v: i128, lo: i128, hi: i128) -> Option<Ovf> {
    let range = hi - lo;
    if v < lo {
        let d = lo - v;
        if !T::fits(d) {
            return Some(Ovf::LowerMinusSelf);
        }
        let q1 = d / range + 1;
        if !T::fits(q1) {
            return Some(Ovf::QPlusOne);
        }
        let m = range * q1;
        if !T::fits(m) {
            return Some(Ovf::RangeTimesQ1);
        }
        if !T::fits(v + m) {
            return Some(Ovf::SelfPlus);
        }
    }
    None
}
/// `wrapped`: unsigned is `self % upper` (no intermediate); signed is `wrapped_between(0, upper)`.
pub fn f7_wrapped<T: Int>(v: i128, u: i128) -> Option<Ovf> {
    if T::SIGNED { f7_wrapped_between::<T>(v, 0, u) } else { None }
}
/// `pingpong`: `upper+upper`, then (signed) `wrapped(upper+upper)`; `upper+upper-r` is then in [0, upper].
pub fn f7_pingpong<T: Int>(v: i128, u: i128) -> Option<Ovf> {
    if !T::fits(2 * u) {
        return Some(Ovf::UpperPlusUpper);
    }
    f7_wrapped::<T>(v, 2 * u)
}

#[derive(Clone, Copy, PartialEq, Debug)]
pub enum Fun {
    WrappedBetween,
    Wrapped,
    Pingpong,
}
fn f7_label(f: Fun, o: Ovf) -> &'static str {
    match (f, o) {
        (Fun::WrappedBetween, Ovf::LowerMinusSelf) => "F7-zone wrapped_between: lower-self leaves T",
        (Fun::WrappedBetween, Ovf::QPlusOne) => "F7-zone wrapped_between: (lower-self)/range+1 leaves T",
        (Fun::WrappedBetween, Ovf::RangeTimesQ1) => "F7-zone wrapped_between: range*(q+1) leaves T",
        (Fun::WrappedBetween, Ovf::SelfPlus) => "F7-zone wrapped_between: self+=.. leaves T",
        (Fun::Wrapped, Ovf::LowerMinusSelf) => "F7-zone wrapped: 0-self leaves T (self==MIN)",
        (Fun::Wrapped, Ovf::QPlusOne) => "F7-zone wrapped: (0-self)/upper+1 leaves T",
        (Fun::Wrapped, Ovf::RangeTimesQ1) => "F7-zone wrapped: upper*(q+1) leaves T",
        (Fun::Wrapped, Ovf::SelfPlus) => "F7-zone wrapped: self+=.. leaves T",
        (Fun::Pingpong, Ovf::UpperPlusUpper) => "F7-zone pingpong: upper+upper leaves T",
        (Fun::Pingpong, Ovf::LowerMinusSelf) => "F7-zone pingpong: inner wrapped(2*upper): 0-self leaves T (self==MIN)",
        (Fun::Pingpong, Ovf::QPlusOne) => "F7-zone pingpong: inner wrapped(2*upper): q+1 leaves T",
        (Fun::Pingpong, Ovf::RangeTimesQ1) => "F7-zone pingpong: inner wrapped(2*upper): 2*upper*(q+1) leaves T",
        (Fun::Pingpong, Ovf::SelfPlus) => "F7-zone pingpong: inner wrapped(2*upper): self+=.. leaves T",
        (_, Ovf::UpperPlusUpper) => "F7-zone: upper+upper leaves T",
    }
}

/// Compare one vek outcome with the model. `zone` = Some(..) iff the input carries the F7 signature.
fn judge<T: Int>(cx: &mut Cx, what: &'static str, args: &[i128], got: &Result<T, String>, want: Want, zone: Option<(Fun, Ovf)>) -> CaseResult {
    cx.count();
    match (want, got) {
        (Want::Panic, Err(_)) => Ok(()),
        (Want::Panic, Ok(g)) => fail!("{} {}{:?}: a panic is required (precondition violated) but vek returned {:?}", T::NAME, what, args, g),
        (Want::Val(w), Ok(g)) if g.val() == w => {
            if let Some((f, o)) = zone {
                // an intermediate overflowed mathematically, yet the value is right (Wrapping types)
                cx.label(f7_label(f, o));
                cx.label("F7-zone: vek result nevertheless correct");
            }
            Ok(())
        }
        (Want::Val(w), _) => {
            let shown = match got {
                Ok(g) => format!("returned {:?}", g),
                Err(m) => format!("panicked ({})", m),
            };
            if let Some((f, o)) = zone {
                if cx.known(F7) {
                    cx.label(f7_label(f, o));
                    cx.label(if got.is_ok() { "F7 tolerated: silently wrong value" } else { "F7 tolerated: panic" });
                    return Ok(());
                }
                fail!("[{}] {} {}{:?} {}, want {} (representable); signature: {}", F7, T::NAME, what, args, shown, w, f7_label(f, o));
            }
            fail!("{} {}{:?} {}, want {}", T::NAME, what, args, shown, w)
        }
    }
}

fn at_limit<T: Int>(x: i128) -> bool {
    x == T::min_i() || x == T::max_i()
}

// ------------------------------------------------------------------------------------------------
// The per-input laws, shared by the exhaustive 8-bit sweeps, the boundary cubes and the wide sweeps.

/// clamped / clamp / *_inclusive_range / is_between / is_between_inclusive_range_bounds on one triple.
pub fn clamp_triple<T: Int>(v: i128, lo: i128, hi: i128, cx: &mut Cx) -> CaseResult {
    sample!(cx, "{} value={} lower={} upper={}", T::NAME, v, lo, hi);
    let (tv, tlo, thi) = (T::of(v), T::of(lo), T::of(hi));
    let want = m_clamp(v, lo, hi);
    let args = [v, lo, hi];
    let outside = v < lo || v >= hi;
    let tie = v == lo || v == hi || lo == hi;
    let limit = at_limit::<T>(lo) || at_limit::<T>(hi) || at_limit::<T>(v);
    cx.set_nontrivial(outside || tie || limit);
    match want {
        Want::Panic => cx.label("clamp: lower>upper (panic required)"),
        Want::Val(_) if v < lo => cx.label("clamp: value below lower"),
        Want::Val(_) if v > hi => cx.label("clamp: value above upper"),
        Want::Val(_) if tie => cx.label("clamp: tie (value on a bound or lower==upper)"),
        Want::Val(_) => cx.label("clamp: strictly inside"),
    }
    if limit {
        cx.label("clamp: an argument at a type limit");
    }
    let c1 = catch(|| Clamp::clamped(tv, tlo, thi));
    judge::<T>(cx, "clamped", &args, &c1, want, None)?;
    judge::<T>(cx, "Clamp::clamp", &args, &catch(|| <T as Clamp>::clamp(tv, tlo, thi)), want, None)?;
    judge::<T>(cx, "clamped_to_inclusive_range", &args, &catch(|| Clamp::clamped_to_inclusive_range(tv, tlo..=thi)), want, None)?;
    judge::<T>(cx, "clamp_to_inclusive_range", &args, &catch(|| <T as Clamp>::clamp_to_inclusive_range(tv, tlo..=thi)), want, None)?;
    let b1 = catch(|| IsBetween::is_between(tv, tlo, thi));
    let b2 = catch(|| IsBetween::is_between_inclusive_range_bounds(tv, tlo..=thi));
    for (name, b) in [("is_between", &b1), ("is_between_inclusive_range_bounds", &b2)] {
        cx.count();
        match (want, b) {
            (Want::Panic, Err(_)) => {}
            (Want::Panic, Ok(x)) => fail!("{} {}{:?}: lower>upper requires a panic, got {}", T::NAME, name, args, x),
            (Want::Val(_), Ok(x)) => {
                check_eq!(cx, *x, lo <= v && v <= hi, "{} {}{:?}", T::NAME, name, args);
            }
            (Want::Val(_), Err(m)) => fail!("{} {}{:?} panicked although lower<=upper: {}", T::NAME, name, args, m),
        }
    }
    if let (Ok(c), Ok(b)) = (&c1, &b1) {
        // the range test agrees with "clamp is the identity"; clamping is idempotent and lands in bounds
        check_eq!(cx, *b, *c == tv, "{} is_between <=> clamped is identity {:?}", T::NAME, args);
        let again = catch(|| Clamp::clamped(*c, tlo, thi));
        check!(cx, again.as_ref().ok() == Some(c), "{} clamped not idempotent on {:?}: {:?} then {:?}", T::NAME, args, c, again);
        check!(cx, tlo <= *c && *c <= thi, "{} clamped{:?} = {:?} outside the bounds", T::NAME, args, c);
    }
    Ok(())
}

/// wrapped_between / wrap_between on one triple.
pub fn wrapbetween_triple<T: Int>(v: i128, lo: i128, hi: i128, cx: &mut Cx) -> CaseResult {
    sample!(cx, "{} value={} lower={} upper={}", T::NAME, v, lo, hi);
    let (tv, tlo, thi) = (T::of(v), T::of(lo), T::of(hi));
    let want = m_wrapped_between(v, lo, hi);
    let args = [v, lo, hi];
    let zone = match want {
        Want::Val(_) => f7_wrapped_between::<T>(v, lo, hi).map(|o| (Fun::WrappedBetween, o)),
        Want::Panic => None,
    };
    let limit = at_limit::<T>(lo) || at_limit::<T>(hi) || at_limit::<T>(v);
    match want {
        Want::Panic => {
            cx.label(if lo < 0 { "wrapped_between: lower<0 (panic required)" } else { "wrapped_between: lower>=upper (panic required)" });
            cx.set_nontrivial(lo == hi || limit);
        }
        Want::Val(_) => {
            let outside = v < lo || v >= hi;
            cx.set_nontrivial(outside || v == lo || limit);
            cx.label(if v < lo {
                "wrapped_between: value below lower"
            } else if v >= hi {
                "wrapped_between: value >= upper"
            } else {
                "wrapped_between: value already in [lower,upper)"
            });
            if v == hi || v == lo {
                cx.label("wrapped_between: tie (value on a bound)");
            }
        }
    }
    if limit {
        cx.label("wrapped_between: an argument at a type limit");
    }
    let w1 = catch(|| Wrap::wrapped_between(tv, tlo, thi));
    judge::<T>(cx, "wrapped_between", &args, &w1, want, zone)?;
    if zone.is_some() && w1.is_err() {
        // tolerated F7 panic: the alias forwards to the same code; a second caught panic only costs time
        return Ok(());
    }
    judge::<T>(cx, "Wrap::wrap_between", &args, &catch(|| <T as Wrap>::wrap_between(tv, tlo, thi)), want, zone)?;
    Ok(())
}

/// wrapped / wrap on one pair.
pub fn wrapped_pair<T: Int>(v: i128, u: i128, cx: &mut Cx) -> CaseResult {
    sample!(cx, "{} value={} upper={}", T::NAME, v, u);
    let (tv, tu) = (T::of(v), T::of(u));
    let want = m_wrapped(v, u);
    let args = [v, u];
    let zone = match want {
        Want::Val(_) => f7_wrapped::<T>(v, u).map(|o| (Fun::Wrapped, o)),
        Want::Panic => None,
    };
    let limit = at_limit::<T>(u) || at_limit::<T>(v);
    match want {
        Want::Panic => {
            cx.label("wrapped: upper<=0 (panic required)");
            cx.set_nontrivial(u == 0 || limit);
        }
        Want::Val(_) => {
            cx.set_nontrivial(v < 0 || v >= u || limit);
            cx.label(if v < 0 {
                "wrapped: value negative"
            } else if v >= u {
                "wrapped: value >= upper"
            } else {
                "wrapped: value already in [0,upper)"
            });
            if v % u == 0 {
                cx.label("wrapped: value an exact multiple of upper");
            }
        }
    }
    if limit {
        cx.label("wrapped: an argument at a type limit");
    }
    let w1 = catch(|| Wrap::wrapped(tv, tu));
    judge::<T>(cx, "wrapped", &args, &w1, want, zone)?;
    if zone.is_some() && w1.is_err() {
        return Ok(());
    }
    judge::<T>(cx, "Wrap::wrap", &args, &catch(|| <T as Wrap>::wrap(tv, tu)), want, zone)?;
    Ok(())
}

/// pingpong on one pair.
pub fn pingpong_pair<T: Int>(v: i128, u: i128, cx: &mut Cx) -> CaseResult {
    sample!(cx, "{} value={} upper={}", T::NAME, v, u);
    let (tv, tu) = (T::of(v), T::of(u));
    let want = m_pingpong(v, u);
    let args = [v, u];
    let zone = match want {
        Want::Val(_) => f7_pingpong::<T>(v, u).map(|o| (Fun::Pingpong, o)),
        Want::Panic => None,
    };
    let limit = at_limit::<T>(u) || at_limit::<T>(v);
    match want {
        Want::Panic => {
            cx.label("pingpong: upper<=0 (panic required)");
            cx.set_nontrivial(u == 0 || limit);
        }
        Want::Val(_) => {
            cx.set_nontrivial(v < 0 || v >= u || limit);
            let t = v.rem_euclid(2 * u);
            cx.label(if t == u {
                "pingpong: at the peak (value = upper mod 2*upper)"
            } else if t == 0 {
                "pingpong: at the trough (value = 0 mod 2*upper)"
            } else if t < u {
                "pingpong: rising half"
            } else {
                "pingpong: falling half"
            });
            if v < 0 {
                cx.label("pingpong: value negative");
            }
        }
    }
    if limit {
        cx.label("pingpong: an argument at a type limit");
    }
    judge::<T>(cx, "pingpong", &args, &catch(|| Wrap::pingpong(tv, tu)), want, zone)
}

/// clamped01 / clamp01 / is_between01 / clamped_minus1_1 / clamp_minus1_1 on one value.
pub fn unary_forms<T: Int>(v: i128, cx: &mut Cx) -> CaseResult {
    sample!(cx, "{} value={}", T::NAME, v);
    let tv = T::of(v);
    cx.set_nontrivial(v < 0 || v >= 1 || at_limit::<T>(v));
    let want01 = m_clamp(v, 0, 1);
    judge::<T>(cx, "clamped01", &[v], &catch(|| Clamp::clamped01(tv)), want01, None)?;
    judge::<T>(cx, "Clamp::clamp01", &[v], &catch(|| <T as Clamp>::clamp01(tv)), want01, None)?;
    let b = catch(|| IsBetween::is_between01(tv));
    check!(cx, b == Ok(0 <= v && v <= 1), "{} is_between01({}) = {:?}", T::NAME, v, b);
    if let Some((a, b)) = tv.minus1_forms() {
        // -1 in T: for Wrapping<unsigned> that is MAX, so the bounds (MAX, 1) are not ordered: panic required
        let m1 = if T::SIGNED { -1 } else { T::max_i() };
        let want = m_clamp(v, m1, 1);
        cx.label(if want == Want::Panic { "minus1_1: -1 wraps to MAX, bounds unordered (panic required)" } else { "minus1_1: ordered bounds" });
        judge::<T>(cx, "clamped_minus1_1", &[v], &a, want, None)?;
        judge::<T>(cx, "Clamp::clamp_minus1_1", &[v], &b, want, None)?;
    }
    Ok(())
}

// ------------------------------------------------------------------------------------------------
// 8-bit index spaces.

fn byte<T: Int>(b: u64) -> i128 {
    let b = (b & 0xFF) as u8;
    if T::SIGNED { b as i8 as i128 } else { b as i128 }
}

/// The 2^16 (lower, upper) pairs of an 8-bit type, partitioned by the documented preconditions, so that
/// the panic-free part of T^3 and the panic-required part are separate index spaces (a caught panic
/// costs ~2 us of wall time regardless of the number of threads, so the quick tier samples the two
/// parts at different rates; the thorough tier enumerates both: together exactly T^3).
pub struct Pairs {
    /// lower <= upper
    pub ordered: Vec<(i16, i16)>,
    /// lower > upper
    pub unordered: Vec<(i16, i16)>,
    /// 0 <= lower < upper
    pub wrap_valid: Vec<(i16, i16)>,
    /// not (0 <= lower < upper)
    pub wrap_invalid: Vec<(i16, i16)>,
}
pub const N_ORDERED: u64 = 32896 * 256;
pub const N_UNORDERED: u64 = 32640 * 256;
pub const N_WRAP_VALID_S: u64 = 8128 * 256;
pub const N_WRAP_INVALID_S: u64 = 57408 * 256;
pub const N_WRAP_VALID_U: u64 = 32640 * 256;
pub const N_WRAP_INVALID_U: u64 = 32896 * 256;
fn pairs(signed: bool) -> &'static Pairs {
    static S: std::sync::OnceLock<Pairs> = std::sync::OnceLock::new();
    static U: std::sync::OnceLock<Pairs> = std::sync::OnceLock::new();
    let build = move || {
        let (min, max) = if signed { (-128i16, 127i16) } else { (0i16, 255i16) };
        let mut p = Pairs { ordered: Vec::new(), unordered: Vec::new(), wrap_valid: Vec::new(), wrap_invalid: Vec::new() };
        for lo in min..=max {
            for hi in min..=max {
                if lo <= hi { p.ordered.push((lo, hi)) } else { p.unordered.push((lo, hi)) }
                if 0 <= lo && lo < hi { p.wrap_valid.push((lo, hi)) } else { p.wrap_invalid.push((lo, hi)) }
            }
        }
        assert_eq!(p.ordered.len() as u64 * 256, N_ORDERED);
        assert_eq!(p.unordered.len() as u64 * 256, N_UNORDERED);
        assert_eq!(p.wrap_valid.len() as u64 * 256, if signed { N_WRAP_VALID_S } else { N_WRAP_VALID_U });
        assert_eq!(p.wrap_invalid.len() as u64 * 256, if signed { N_WRAP_INVALID_S } else { N_WRAP_INVALID_U });
        assert_eq!(p.ordered.len() + p.unordered.len(), 1 << 16);
        assert_eq!(p.wrap_valid.len() + p.wrap_invalid.len(), 1 << 16);
        p
    };
    if signed { S.get_or_init(build) } else { U.get_or_init(build) }
}
fn triple_from<T: Int>(table: &[(i16, i16)], idx: u64) -> (i128, i128, i128) {
    let (lo, hi) = table[(idx >> 8) as usize];
    (byte::<T>(idx), lo as i128, hi as i128)
}
/// index space {lower <= upper} x T: no panic may occur
pub fn clamp3_ordered<T: Int>(idx: u64, cx: &mut Cx) -> CaseResult {
    let (v, lo, hi) = triple_from::<T>(&pairs(T::SIGNED).ordered, idx);
    clamp_triple::<T>(v, lo, hi, cx)
}
/// index space {lower > upper} x T: every form must panic
pub fn clamp3_unordered<T: Int>(idx: u64, cx: &mut Cx) -> CaseResult {
    let (v, lo, hi) = triple_from::<T>(&pairs(T::SIGNED).unordered, idx);
    clamp_triple::<T>(v, lo, hi, cx)
}
/// index space {0 <= lower < upper} x T: the result is representable, no panic may occur
pub fn wrapbetween3_valid<T: Int>(idx: u64, cx: &mut Cx) -> CaseResult {
    let (v, lo, hi) = triple_from::<T>(&pairs(T::SIGNED).wrap_valid, idx);
    wrapbetween_triple::<T>(v, lo, hi, cx)
}
/// index space {not 0 <= lower < upper} x T: a panic is required
pub fn wrapbetween3_invalid<T: Int>(idx: u64, cx: &mut Cx) -> CaseResult {
    let (v, lo, hi) = triple_from::<T>(&pairs(T::SIGNED).wrap_invalid, idx);
    wrapbetween_triple::<T>(v, lo, hi, cx)
}
pub fn wrapped2<T: Int>(idx: u64, cx: &mut Cx) -> CaseResult {
    wrapped_pair::<T>(byte::<T>(idx), byte::<T>(idx >> 8), cx)
}
pub fn pingpong2<T: Int>(idx: u64, cx: &mut Cx) -> CaseResult {
    pingpong_pair::<T>(byte::<T>(idx), byte::<T>(idx >> 8), cx)
}
pub fn unary1<T: Int>(idx: u64, cx: &mut Cx) -> CaseResult {
    unary_forms::<T>(byte::<T>(idx), cx)
}

/// Boundary values of an 8-bit type: the limits and their neighbours, around 0, around the quarter points.
pub const CUBE_N: u64 = 20;
fn cube_value<T: Int>(k: u64) -> i128 {
    const S: [i128; 20] = [-128, -127, -126, -65, -64, -63, -3, -2, -1, 0, 1, 2, 3, 63, 64, 65, 66, 125, 126, 127];
    const U: [i128; 20] = [0, 1, 2, 3, 63, 64, 65, 126, 127, 128, 129, 130, 191, 192, 193, 200, 250, 253, 254, 255];
    if T::SIGNED { S[k as usize] } else { U[k as usize] }
}
pub fn cube_clamp<T: Int>(idx: u64, cx: &mut Cx) -> CaseResult {
    let n = CUBE_N;
    clamp_triple::<T>(cube_value::<T>(idx % n), cube_value::<T>(idx / n % n), cube_value::<T>(idx / n / n), cx)
}
pub fn cube_wrapbetween<T: Int>(idx: u64, cx: &mut Cx) -> CaseResult {
    let n = CUBE_N;
    wrapbetween_triple::<T>(cube_value::<T>(idx % n), cube_value::<T>(idx / n % n), cube_value::<T>(idx / n / n), cx)
}

// ------------------------------------------------------------------------------------------------
// Wider integers: stratified tapes.

fn gen_val<T: Int>(t: &mut Tape) -> i128 {
    if T::BITS == 64 && !T::SIGNED {
        // reinterpret: i64 -1 -> u64::MAX, i64::MIN -> 2^63, small negatives -> near MAX
        t.strat_i64(i64::MIN, i64::MAX) as u64 as i128
    } else {
        t.strat_i64(T::min_i() as i64, T::max_i() as i64) as i128
    }
}
/// A value close to `x` (ties and neighbours), kept inside T.
fn near<T: Int>(t: &mut Tape, x: i128) -> i128 {
    (x + t.int(-2, 2) as i128).clamp(T::min_i(), T::max_i())
}
/// Turn a raw bound into a non-negative one (MIN -> MAX, -1 -> 0).
fn nonneg(x: i128) -> i128 {
    if x < 0 { -(x + 1) } else { x }
}

pub fn wide_clamp_t<T: Int>(t: &mut Tape, cx: &mut Cx) -> CaseResult {
    cx.label(T::NAME);
    let (mut lo, mut hi) = (gen_val::<T>(t), gen_val::<T>(t));
    let mode = t.below(4);
    if mode != 0 && lo > hi {
        std::mem::swap(&mut lo, &mut hi);
    }
    let v = match t.below(4) {
        0 => near::<T>(t, lo),
        1 => near::<T>(t, hi),
        _ => gen_val::<T>(t),
    };
    clamp_triple::<T>(v, lo, hi, cx)?;
    unary_forms::<T>(v, cx)
}
pub fn wide_wrapbetween_t<T: Int>(t: &mut Tape, cx: &mut Cx) -> CaseResult {
    cx.label(T::NAME);
    let (mut lo, mut hi) = (gen_val::<T>(t), gen_val::<T>(t));
    let mode = t.below(4);
    if mode != 0 {
        lo = nonneg(lo);
        hi = nonneg(hi);
        if lo > hi {
            std::mem::swap(&mut lo, &mut hi);
        }
    }
    let v = match t.below(4) {
        0 => near::<T>(t, lo),
        1 => near::<T>(t, hi),
        _ => gen_val::<T>(t),
    };
    wrapbetween_triple::<T>(v, lo, hi, cx)
}
pub fn wide_wrapped_t<T: Int>(t: &mut Tape, cx: &mut Cx) -> CaseResult {
    cx.label(T::NAME);
    let mut u = gen_val::<T>(t);
    if t.below(4) != 0 {
        u = nonneg(u);
    }
    let v = match t.below(4) {
        0 => near::<T>(t, u),
        1 => {
            let m = (u * t.int(-3, 3) as i128).clamp(T::min_i(), T::max_i());
            near::<T>(t, m)
        }
        _ => gen_val::<T>(t),
    };
    wrapped_pair::<T>(v, u, cx)
}
pub fn wide_pingpong_t<T: Int>(t: &mut Tape, cx: &mut Cx) -> CaseResult {
    cx.label(T::NAME);
    let mut u = gen_val::<T>(t);
    if t.below(4) != 0 {
        u = nonneg(u);
    }
    let v = match t.below(4) {
        0 => near::<T>(t, u),
        1 => {
            let m = (u * t.int(-4, 4) as i128).clamp(T::min_i(), T::max_i());
            near::<T>(t, m)
        }
        _ => gen_val::<T>(t),
    };
    pingpong_pair::<T>(v, u, cx)
}

macro_rules! wide_dispatch {
    ($name:ident, $inner:ident) => {
        pub fn $name(t: &mut Tape, cx: &mut Cx) -> CaseResult {
            match t.below(16) {
                0 => $inner::<i16>(t, cx),
                1 => $inner::<i32>(t, cx),
                2 => $inner::<i64>(t, cx),
                3 => $inner::<isize>(t, cx),
                4 => $inner::<u16>(t, cx),
                5 => $inner::<u32>(t, cx),
                6 => $inner::<u64>(t, cx),
                7 => $inner::<usize>(t, cx),
                8 => $inner::<Wrapping<i16>>(t, cx),
                9 => $inner::<Wrapping<i32>>(t, cx),
                10 => $inner::<Wrapping<i64>>(t, cx),
                11 => $inner::<Wrapping<isize>>(t, cx),
                12 => $inner::<Wrapping<u16>>(t, cx),
                13 => $inner::<Wrapping<u32>>(t, cx),
                14 => $inner::<Wrapping<u64>>(t, cx),
                _ => $inner::<Wrapping<usize>>(t, cx),
            }
        }
    };
}
wide_dispatch!(wide_clamp, wide_clamp_t);
wide_dispatch!(wide_wrapbetween, wide_wrapbetween_t);
wide_dispatch!(wide_wrapped, wide_wrapped_t);
wide_dispatch!(wide_pingpong, wide_pingpong_t);

/// `delta_angle_degrees` on i32 / i64 (the types with `From<u16>`): with |self|,|target| <= MAX/4 no
/// intermediate of `target - self`, `wrap(.., 360)`, `num - 360` can leave T, so the exact law is required:
/// the result is the unique value in (-180, 180] congruent to target - self modulo 360.
pub fn int_delta_degrees(t: &mut Tape, cx: &mut Cx) -> CaseResult {
    fn one<T: Int + From<u16>>(t: &mut Tape, cx: &mut Cx) -> CaseResult {
        cx.label(T::NAME);
        let q = T::max_i() / 4;
        let gen = |t: &mut Tape| -> i128 {
            match t.below(4) {
                0 => t.int(-4, 4) as i128 * 90 + t.int(-1, 1) as i128,
                1 => t.int(-720, 720) as i128,
                _ => t.strat_i64(-(q as i64), q as i64) as i128,
            }
        };
        let (s, g) = (gen(t), gen(t));
        sample!(cx, "{} self={} target={}", T::NAME, s, g);
        let d = g - s;
        let mut want = d.rem_euclid(360);
        if want > 180 {
            want -= 360;
        }
        assert!(-180 < want && want <= 180 && (d - want) % 360 == 0);
        cx.set_nontrivial(d < 0 || d >= 360 || d.rem_euclid(360) == 180);
        if d.rem_euclid(360) == 180 {
            cx.label("delta_angle_degrees: exactly half a turn (+180 required)");
        }
        let r = catch(|| Wrap::delta_angle_degrees(T::of(s), T::of(g)));
        check!(cx, r.as_ref().map(|x| x.val()) == Ok(want), "{} ({}).delta_angle_degrees({}) = {:?}, want {}", T::NAME, s, g, r, want);
        Ok(())
    }
    if t.bool() { one::<i32>(t, cx) } else { one::<i64>(t, cx) }
}

/// partial_min / partial_max on integers: one of the arguments, bounding both.
pub fn int_partial_minmax(t: &mut Tape, cx: &mut Cx) -> CaseResult {
    let a = t.strat_i64(i64::MIN, i64::MAX);
    let b = if t.below(4) == 0 { a } else { t.strat_i64(i64::MIN, i64::MAX) };
    sample!(cx, "i64 a={} b={}", a, b);
    cx.set_nontrivial(a != b);
    let (mn, mx) = (vek::ops::partial_min(a, b), vek::ops::partial_max(a, b));
    check!(cx, (mn == a || mn == b) && mn <= a && mn <= b, "partial_min({}, {}) = {}", a, b, mn);
    check!(cx, (mx == a || mx == b) && mx >= a && mx >= b, "partial_max({}, {}) = {}", a, b, mx);
    Ok(())
}
