//! C17 — clamp, range test, wrap, ping-pong and angle difference obey their range laws.
//!
//! * `ints`   — i128 models, the F7 signature, exhaustive 8-bit index checks, stratified wide-integer tapes
//! * `floats` — f32 / f64 laws with derived tolerances
//! * `lifts`  — vector forms apply the scalar law per element

pub mod floats;
pub mod ints;
pub mod lifts;

use std::num::Wrapping;
use vkit::*;

const CUBE: u64 = ints::CUBE_N * ints::CUBE_N * ints::CUBE_N;

pub fn property() -> Property {
    let mut checks = Vec::new();
    macro_rules! index {
        ($name:expr, $about:expr, $total:expr, $q:expr, $th:expr, $f:expr) => {
            checks.push(Check { name: $name, about: $about, kind: Kind::Index { total: $total, quick: $q, thorough: $th, f: $f } });
        };
    }
    macro_rules! tape {
        ($name:expr, $about:expr, $len:expr, $q:expr, $th:expr, $f:expr) => {
            checks.push(Check { name: $name, about: $about, kind: Kind::Tape { len: $len, quick: $q, thorough: $th, f: $f } });
        };
    }
    const A_CLAMP_O: &str = "T^3 part 1, every (value, lower, upper) with lower <= upper: clamped / Clamp::clamp / clamped_to_inclusive_range / clamp_to_inclusive_range equal the model (v if lower<=v<=upper else the nearer bound) and do not panic; is_between / is_between_inclusive_range_bounds equal lower<=v<=upper; is_between <=> clamped is the identity; clamped is idempotent and lands in [lower, upper]";
    const A_CLAMP_U: &str = "T^3 part 2, every (value, lower, upper) with lower > upper: all six clamp / is_between forms panic (with part 1: panic <=> not lower<=upper on all 2^24 triples)";
    const A_WB_V: &str = "T^3 part 1, every (value, lower, upper) with 0 <= lower < upper: wrapped_between / Wrap::wrap_between return the unique r in [lower, upper) with r = value (mod upper-lower) (always representable) without panicking; inputs where a mathematical intermediate of vek's formula leaves T carry the F7 signature, all others must match exactly";
    const A_WB_I: &str = "T^3 part 2, every (value, lower, upper) with lower >= upper or lower < 0: wrapped_between / wrap_between panic (with part 1: all 2^24 triples)";
    const A_W: &str = "every (value, upper) in T^2: wrapped / Wrap::wrap return the unique r in [0, upper) with r = value (mod upper) for upper > 0, panic for upper <= 0; F7 signature as for wrapped_between(0, upper) on signed types";
    const A_PP: &str = "every (value, upper) in T^2: pingpong is the triangle wave of period 2*upper through (0,0) and (upper,upper) (distance to the nearest multiple of 2*upper, in [0, upper]) for upper > 0, panic for upper <= 0; F7 signature: upper+upper or an intermediate of the inner wrapped(2*upper) leaves T";
    const A_UN: &str = "every value of T: clamped01 / clamp01 / is_between01 against the model with bounds (0,1); clamped_minus1_1 / clamp_minus1_1 with bounds (-1,1) where T has Neg (for Wrapping<unsigned> -1 is MAX: bounds unordered, panic required)";
    const A_CUBE_C: &str = "the clamp laws on the full boundary cube {MIN, MIN+1, MIN+2, .., -3..3, .., 63..66, .., MAX-2, MAX-1, MAX}^3 of the type";
    const A_CUBE_W: &str = "the wrapped_between laws on the full boundary cube of the type";
    macro_rules! eight_bit {
        ($T:ty, $n:expr, $nv:expr, $ni:expr) => {
            index!(concat!("clamp3-ordered-", $n), A_CLAMP_O, ints::N_ORDERED, 1 << 20, ints::N_ORDERED, ints::clamp3_ordered::<$T>);
            index!(concat!("clamp3-unordered-", $n), A_CLAMP_U, ints::N_UNORDERED, 1 << 15, ints::N_UNORDERED, ints::clamp3_unordered::<$T>);
            index!(concat!("clamp-cube-", $n), A_CUBE_C, CUBE, CUBE, CUBE, ints::cube_clamp::<$T>);
            index!(concat!("wrapbetween3-valid-", $n), A_WB_V, $nv, 1 << 20, $nv, ints::wrapbetween3_valid::<$T>);
            index!(concat!("wrapbetween3-invalid-", $n), A_WB_I, $ni, 1 << 15, $ni, ints::wrapbetween3_invalid::<$T>);
            index!(concat!("wrapbetween-cube-", $n), A_CUBE_W, CUBE, CUBE, CUBE, ints::cube_wrapbetween::<$T>);
            index!(concat!("wrapped2-", $n), A_W, 1 << 16, 1 << 16, 1 << 16, ints::wrapped2::<$T>);
            index!(concat!("pingpong2-", $n), A_PP, 1 << 16, 1 << 16, 1 << 16, ints::pingpong2::<$T>);
            index!(concat!("unary1-", $n), A_UN, 256, 256, 256, ints::unary1::<$T>);
        };
    }
    eight_bit!(i8, "i8", ints::N_WRAP_VALID_S, ints::N_WRAP_INVALID_S);
    eight_bit!(u8, "u8", ints::N_WRAP_VALID_U, ints::N_WRAP_INVALID_U);
    eight_bit!(Wrapping<i8>, "wrapping-i8", ints::N_WRAP_VALID_S, ints::N_WRAP_INVALID_S);
    eight_bit!(Wrapping<u8>, "wrapping-u8", ints::N_WRAP_VALID_U, ints::N_WRAP_INVALID_U);

    tape!("wide-clamp", "the clamp / is_between / unit-interval laws of clamp3 + unary1 on i16 i32 i64 isize u16 u32 u64 usize and their Wrapping forms (type chosen by the tape), stratified values (limits, small, 2^k+-1, random, neighbours of the bounds) against the same i128 model", 48, 40_000, 2_000_000, ints::wide_clamp);
    tape!("wide-wrapbetween", "the wrapped_between / wrap_between law of wrapbetween3 on the 16 wider integer types, stratified values, same i128 model and F7 signature", 48, 60_000, 3_000_000, ints::wide_wrapbetween);
    tape!("wide-wrapped", "the wrapped / wrap law of wrapped2 on the 16 wider integer types, stratified values, same i128 model and F7 signature", 48, 40_000, 2_000_000, ints::wide_wrapped);
    tape!("wide-pingpong", "the pingpong law of pingpong2 on the 16 wider integer types, stratified values, same i128 model and F7 signature", 48, 40_000, 2_000_000, ints::wide_pingpong);
    tape!("int-delta-degrees", "i32 / i64 delta_angle_degrees with |self|,|target| <= MAX/4 (no intermediate can leave T): exactly the unique value in (-180, 180] congruent to target-self modulo 360", 32, 10_000, 500_000, ints::int_delta_degrees);
    tape!("int-partial-minmax", "partial_min / partial_max on i64: one of the arguments, bounding both", 24, 4_000, 200_000, ints::int_partial_minmax);

    const F_CLAMP: &str = "clamped / clamp / *_inclusive_range / is_between(+range form) / clamped01 / clamp01 / is_between01 on floats incl. +-0, +-inf, NaN, neighbours of the bounds: panic <=> not lower<=upper (NaN bounds panic), value = v inside / nearer bound outside (NaN value: only the panic law), is_between <=> clamp is identity, idempotent";
    const F_W: &str = "float wrapped / wrap: finite, in [0, upper] and congruent to the value modulo upper (exact fmod), both within 8 eps max(|value|, upper); panic for upper <= 0 (wrapped, wrap, pingpong); non-finite value: no panic; values: +-0, multiples of the period and their ulp neighbours, +-1e-20, subnormals, up to 1e15 (1e12 for f32)";
    const F_WB: &str = "float wrapped_between / wrap_between: finite, in [lower, upper] and congruent to the value modulo upper-lower within 8 eps max(|value|, upper), for 0 <= lower < upper incl. lower = +-0 and adjacent bounds; panic for lower >= upper, lower < 0, upper <= 0";
    const F_PP: &str = "float pingpong: in [0, upper] and equal to the triangle wave of period 2*upper (distance to the nearest multiple of 2*upper via exact fmod) within 8 eps max(|value|, 2*upper)";
    const F_DA: &str = "delta_angle: finite, in [-pi, pi] and congruent to target-self modulo 2pi (the type's constants), within 8 eps max(|self|+|target|, 2pi); angles: random, multiples of pi/6, ulp neighbours of multiples of pi, up to 1e6 pi";
    const F_DD: &str = "delta_angle_degrees: integer degrees (|x| <= 10000, all operations exact): exactly the unique value in (-180, 180] congruent to target-self mod 360 (+180 at half a turn); general values: in [-180, 180] and congruent within 8 eps max(|self|+|target|, 360)";
    const F_2PI: &str = "wrapped_2pi / wrap_2pi: in [0, 2pi] and congruent to the value modulo 2pi (the type's PI+PI) within 8 eps max(|value|, 2pi)";
    const F_MM: &str = "partial_min / partial_max on floats (non-NaN, incl. +-0, +-inf, ties, ulp neighbours): bitwise one of the arguments, bounding both; NaN argument: no panic";
    macro_rules! floats {
        ($F:ty, $n:expr) => {
            tape!(concat!("float-clamp-", $n), F_CLAMP, 48, 30_000, 750_000, floats::f_clamp::<$F>);
            tape!(concat!("float-wrapped-", $n), F_W, 48, 40_000, 1_000_000, floats::f_wrapped::<$F>);
            tape!(concat!("float-wrapbetween-", $n), F_WB, 64, 40_000, 1_000_000, floats::f_wrapped_between::<$F>);
            tape!(concat!("float-pingpong-", $n), F_PP, 48, 40_000, 1_000_000, floats::f_pingpong::<$F>);
            tape!(concat!("float-unit-grid-", $n), "value, upper and lower are small-integer multiples of one unit 2^e, the unit ranging from the smallest subnormal over MIN_POSITIVE to 2^(max-14): wrapped / Wrap::wrap / pingpong / wrapped_between / Wrap::wrap_between return the integer answer times the unit exactly and never panic on a strictly positive (possibly subnormal) bound", 48, 40_000, 1_000_000, floats::f_unit_grid::<$F>);
            tape!(concat!("float-delta-angle-", $n), F_DA, 48, 25_000, 600_000, floats::f_delta_angle::<$F>);
            tape!(concat!("float-delta-degrees-", $n), F_DD, 48, 25_000, 600_000, floats::f_delta_angle_degrees::<$F>);
            tape!(concat!("float-wrapped-2pi-", $n), F_2PI, 32, 10_000, 250_000, floats::f_wrapped_2pi::<$F>);
            tape!(concat!("float-partial-minmax-", $n), F_MM, 32, 5_000, 100_000, floats::f_partial_minmax::<$F>);
        };
    }
    floats!(f64, "f64");
    floats!(f32, "f32");

    const L: &str = "vector lifts (Vec2 Vec3 Vec4 Vec8 Vec16 Rgba Rgb Extent3 Extent2 Uv Uvw, chosen by the tape) with independent lanes: clamped / clamp / clamped_to_inclusive_range / is_between(+range form) / clamped01 / clamped_minus1_1 / is_between01 / wrapped / wrap / wrapped_between / pingpong, vector-bound and scalar-bound (broadcast) impls: lane i == scalar function on lane i, the vector form panics iff some lane panics";
    tape!("lift-i32", L, 256, 15_000, 400_000, lifts::lift_int);
    tape!("lift-f32", L, 256, 15_000, 400_000, lifts::lift_float);

    Property {
        id: "C17",
        rule: "8-bit integer checks enumerate an index space (value, lower, upper) in T^3 resp. (value, upper) in T^2 (T^3 is split into the part where the documented preconditions hold and the part where a panic is required, because a caught panic costs ~2 us wall; quick: the 2^16 spaces and the boundary cubes completely, a seeded arithmetic progression of 2^20 triples of the precondition-holds part and 2^15 of the must-panic part; thorough: everything, i.e. all 2^24 triples per type and function); wider integers, floats and vector lifts are byte tapes generated by proptest and decoded by stratified generators. A case is non-trivial when the value lies outside [lower, upper) (resp. [0, upper)), or ties with a bound (value == lower/upper, lower == upper, exact multiple), or an argument sits at a type limit, or a required panic is exercised (floats: also NaN/inf arguments); vector lifts: lanes not all equal; distinct = distinct index resp. distinct consumed tape prefix per check",
        assumptions: &[
            "rustc, std (i128 arithmetic, rem_euclid, catch_unwind) and the proptest runner/shrinker are trusted",
            "the integer oracle is an i128 model written from the mathematical definitions (unique residue in [lower, upper), distance to the nearest multiple of 2*upper, nearer bound); each model result is re-verified against its defining conditions; it never calls vek",
            "the harness is built with overflow-checks and debug-assertions on: an intermediate overflow inside vek on a primitive integer shows up as a panic, on Wrapping<_> as a wrong value",
            "F7 signature: the input is tolerated (when F7-wrap-int-overflow is listed open) only if an intermediate of vek's own formula (lower-self, (lower-self)/range+1, range*(q+1), upper+upper), evaluated exactly in the model, leaves T; every other input must match the model exactly",
            "float `%` is the exact IEEE remainder (fmod); float tolerances 8*eps*max(|value|, period) are derived from the three to six roundings of the obvious formulas (see floats.rs) and the float domain is restricted so that value/period cannot overflow (|value| <= 1e15 resp. 1e12, period >= ~1e-22)",
            "vector lifts are compared with the scalar vek functions per lane (those are judged by the other checks)",
        ],
        checks,
        max_discard_frac: 0.05,
    }
}
