//! Vector lifts of Clamp / IsBetween / Wrap (src/vec.rs, both the vector-bound and the scalar-bound impls):
//! with independent lanes, lane i of the result is the scalar function applied to lane i of the arguments,
//! and the vector form panics iff some lane panics. The scalar functions themselves are judged by the
//! integer / float checks; here they are the per-lane reference.

use vek::ops::{Clamp, IsBetween, Wrap};
use vek::vec::repr_c::{Extent2, Extent3, Rgb, Rgba, Uv, Uvw, Vec16, Vec2, Vec3, Vec4, Vec8};
use vkit::*;

pub trait Lane: Copy + std::fmt::Debug + PartialEq + 'static {
    const NAME: &'static str;
    /// (value, lower, upper) of one lane; `valid` => 0 <= lower < upper and no overflow anywhere.
    fn gen(t: &mut Tape, valid: bool) -> (Self, Self, Self);
    fn same(a: Self, b: Self) -> bool;
}
impl Lane for i32 {
    const NAME: &'static str = "i32";
    fn gen(t: &mut Tape, valid: bool) -> (i32, i32, i32) {
        if valid {
            let lo = t.int(0, 50) as i32;
            let hi = lo + t.int(1, 50) as i32;
            (t.int(-200, 200) as i32, lo, hi)
        } else {
            let g = |t: &mut Tape| if t.chance(16) { t.strat_i64(i32::MIN as i64, i32::MAX as i64) as i32 } else { t.int(-4, 4) as i32 };
            (g(t), g(t), g(t))
        }
    }
    fn same(a: i32, b: i32) -> bool {
        a == b
    }
}
impl Lane for f32 {
    const NAME: &'static str = "f32";
    fn gen(t: &mut Tape, valid: bool) -> (f32, f32, f32) {
        if valid {
            let lo = t.int(0, 200) as f32 * 0.25;
            let hi = lo + t.int(1, 200) as f32 * 0.25;
            (t.int(-1600, 1600) as f32 * 0.125, lo, hi)
        } else {
            let g = |t: &mut Tape| if t.chance(16) { t.pick(&[f32::NAN, f32::INFINITY, f32::NEG_INFINITY, -0.0]) } else { t.int(-8, 8) as f32 * 0.5 };
            (g(t), g(t), g(t))
        }
    }
    fn same(a: f32, b: f32) -> bool {
        (a.is_nan() && b.is_nan()) || a.to_bits() == b.to_bits()
    }
}

/// Apply the scalar reference to every lane; Err as soon as one lane panics.
fn per_lane<R: Copy, const N: usize>(f: impl Fn(usize) -> R) -> Result<[R; N], String> {
    let mut out: Vec<R> = Vec::with_capacity(N);
    for i in 0..N {
        out.push(catch(|| f(i))?);
    }
    Ok(std::array::from_fn(|i| out[i]))
}

fn agree<R: Copy + std::fmt::Debug, const N: usize>(cx: &mut Cx, ctx: &str, name: &str, got: &Result<[R; N], String>, want: &Result<[R; N], String>, same: impl Fn(R, R) -> bool) -> CaseResult {
    cx.count();
    match (got, want) {
        (Err(_), Err(_)) => {
            cx.label("lift: some lane panics => vector form panics");
            Ok(())
        }
        (Ok(g), Ok(w)) => {
            for i in 0..N {
                if !same(g[i], w[i]) {
                    fail!("{}::{}: lane {} is {:?}, the scalar function gives {:?} (vector {:?}, per lane {:?})", ctx, name, i, g[i], w[i], g, w);
                }
            }
            Ok(())
        }
        (Ok(g), Err(m)) => fail!("{}::{}: a lane panics ({}) but the vector form returned {:?}", ctx, name, m, g),
        (Err(m), Ok(w)) => fail!("{}::{}: no lane panics (per lane {:?}) but the vector form panicked: {}", ctx, name, w, m),
    }
}

macro_rules! lift_for {
    ($fname:ident, $V:ident, $N:expr, $E:ty) => {
        fn $fname(t: &mut Tape, cx: &mut Cx) -> CaseResult {
            const N: usize = $N;
            type E = $E;
            type V = $V<E>;
            cx.label(concat!(stringify!($V), "<", stringify!($E), ">"));
            let all_valid = t.below(4) != 0;
            let mut v = [<E as num_traits::Zero>::zero(); N];
            let mut lo = v;
            let mut hi = v;
            for i in 0..N {
                // in the mixed mode each lane is valid or not on its own
                let valid = all_valid || t.bool();
                let (a, b, c) = <E as Lane>::gen(t, valid);
                v[i] = a;
                lo[i] = b;
                hi[i] = c;
            }
            sample!(cx, "{}<{}> value={:?} lower={:?} upper={:?}", stringify!($V), <E as Lane>::NAME, v, lo, hi);
            // independent lanes: not all lanes carry the same triple
            cx.set_nontrivial((1..N).any(|i| !(E::same(v[i], v[0]) && E::same(lo[i], lo[0]) && E::same(hi[i], hi[0]))));
            cx.label(if all_valid { "lift: all lanes within the preconditions" } else { "lift: lanes may violate preconditions" });
            let mk = |a: [E; N]| V::from(a);
            let same = <E as Lane>::same;
            let beq = |a: bool, b: bool| a == b;
            let ctx = format!("value={:?} lower={:?} upper={:?} {}<{}>", v, lo, hi, stringify!($V), <E as Lane>::NAME);
            let (lo0, hi0) = (lo[0], hi[0]);

            // ---- Clamp / IsBetween, vector bounds
            let want = per_lane::<E, N>(|i| Clamp::clamped(v[i], lo[i], hi[i]));
            agree(cx, &ctx, "clamped(vec,vec)", &catch(|| Clamp::clamped(mk(v), mk(lo), mk(hi)).into_array()), &want, same)?;
            agree(cx, &ctx, "Clamp::clamp(vec,vec)", &catch(|| <V as Clamp<V>>::clamp(mk(v), mk(lo), mk(hi)).into_array()), &want, same)?;
            agree(cx, &ctx, "clamped_to_inclusive_range(vec..=vec)", &catch(|| Clamp::clamped_to_inclusive_range(mk(v), mk(lo)..=mk(hi)).into_array()), &want, same)?;
            let wantb = per_lane::<bool, N>(|i| IsBetween::is_between(v[i], lo[i], hi[i]));
            agree(cx, &ctx, "is_between(vec,vec)", &catch(|| IsBetween::is_between(mk(v), mk(lo), mk(hi)).into_array()), &wantb, beq)?;
            agree(cx, &ctx, "is_between_inclusive_range_bounds(vec..=vec)", &catch(|| IsBetween::is_between_inclusive_range_bounds(mk(v), mk(lo)..=mk(hi)).into_array()), &wantb, beq)?;
            // ---- Clamp / IsBetween, scalar bounds (broadcast)
            let want = per_lane::<E, N>(|i| Clamp::clamped(v[i], lo0, hi0));
            agree(cx, &ctx, "clamped(scalar,scalar)", &catch(|| Clamp::clamped(mk(v), lo0, hi0).into_array()), &want, same)?;
            agree(cx, &ctx, "Clamp::clamp(scalar,scalar)", &catch(|| <V as Clamp<E>>::clamp(mk(v), lo0, hi0).into_array()), &want, same)?;
            let wantb = per_lane::<bool, N>(|i| IsBetween::is_between(v[i], lo0, hi0));
            agree(cx, &ctx, "is_between(scalar,scalar)", &catch(|| IsBetween::is_between(mk(v), lo0, hi0).into_array()), &wantb, beq)?;
            // ---- unit-interval forms, both bound types
            let want = per_lane::<E, N>(|i| Clamp::clamped01(v[i]));
            agree(cx, &ctx, "clamped01 (scalar bound)", &catch(|| <V as Clamp<E>>::clamped01(mk(v)).into_array()), &want, same)?;
            agree(cx, &ctx, "clamped01 (vector bound)", &catch(|| <V as Clamp<V>>::clamped01(mk(v)).into_array()), &want, same)?;
            let want = per_lane::<E, N>(|i| Clamp::clamped_minus1_1(v[i]));
            agree(cx, &ctx, "clamped_minus1_1 (scalar bound)", &catch(|| <V as Clamp<E>>::clamped_minus1_1(mk(v)).into_array()), &want, same)?;
            agree(cx, &ctx, "clamped_minus1_1 (vector bound)", &catch(|| <V as Clamp<V>>::clamped_minus1_1(mk(v)).into_array()), &want, same)?;
            let wantb = per_lane::<bool, N>(|i| IsBetween::is_between01(v[i]));
            agree(cx, &ctx, "is_between01 (scalar bound)", &catch(|| <V as IsBetween<E>>::is_between01(mk(v)).into_array()), &wantb, beq)?;
            agree(cx, &ctx, "is_between01 (vector bound)", &catch(|| <V as IsBetween<V>>::is_between01(mk(v)).into_array()), &wantb, beq)?;

            // ---- Wrap, vector bounds
            let want = per_lane::<E, N>(|i| Wrap::wrapped(v[i], hi[i]));
            agree(cx, &ctx, "wrapped(vec)", &catch(|| Wrap::wrapped(mk(v), mk(hi)).into_array()), &want, same)?;
            agree(cx, &ctx, "Wrap::wrap(vec)", &catch(|| <V as Wrap<V>>::wrap(mk(v), mk(hi)).into_array()), &want, same)?;
            let want = per_lane::<E, N>(|i| Wrap::wrapped_between(v[i], lo[i], hi[i]));
            agree(cx, &ctx, "wrapped_between(vec,vec)", &catch(|| Wrap::wrapped_between(mk(v), mk(lo), mk(hi)).into_array()), &want, same)?;
            let want = per_lane::<E, N>(|i| Wrap::pingpong(v[i], hi[i]));
            agree(cx, &ctx, "pingpong(vec)", &catch(|| Wrap::pingpong(mk(v), mk(hi)).into_array()), &want, same)?;
            // ---- Wrap, scalar bounds (broadcast)
            let want = per_lane::<E, N>(|i| Wrap::wrapped(v[i], hi0));
            agree(cx, &ctx, "wrapped(scalar)", &catch(|| Wrap::wrapped(mk(v), hi0).into_array()), &want, same)?;
            agree(cx, &ctx, "Wrap::wrap(scalar)", &catch(|| <V as Wrap<E>>::wrap(mk(v), hi0).into_array()), &want, same)?;
            let want = per_lane::<E, N>(|i| Wrap::wrapped_between(v[i], lo0, hi0));
            agree(cx, &ctx, "wrapped_between(scalar,scalar)", &catch(|| Wrap::wrapped_between(mk(v), lo0, hi0).into_array()), &want, same)?;
            let want = per_lane::<E, N>(|i| Wrap::pingpong(v[i], hi0));
            agree(cx, &ctx, "pingpong(scalar)", &catch(|| Wrap::pingpong(mk(v), hi0).into_array()), &want, same)?;
            Ok(())
        }
    };
}

lift_for!(lift_vec2_i, Vec2, 2, i32);
lift_for!(lift_vec3_i, Vec3, 3, i32);
lift_for!(lift_vec4_i, Vec4, 4, i32);
lift_for!(lift_vec8_i, Vec8, 8, i32);
lift_for!(lift_vec16_i, Vec16, 16, i32);
lift_for!(lift_rgba_i, Rgba, 4, i32);
lift_for!(lift_rgb_i, Rgb, 3, i32);
lift_for!(lift_extent3_i, Extent3, 3, i32);
lift_for!(lift_extent2_i, Extent2, 2, i32);
lift_for!(lift_uv_i, Uv, 2, i32);
lift_for!(lift_uvw_i, Uvw, 3, i32);
lift_for!(lift_vec2_f, Vec2, 2, f32);
lift_for!(lift_vec3_f, Vec3, 3, f32);
lift_for!(lift_vec4_f, Vec4, 4, f32);
lift_for!(lift_vec8_f, Vec8, 8, f32);
lift_for!(lift_vec16_f, Vec16, 16, f32);
lift_for!(lift_rgba_f, Rgba, 4, f32);
lift_for!(lift_rgb_f, Rgb, 3, f32);
lift_for!(lift_extent3_f, Extent3, 3, f32);
lift_for!(lift_extent2_f, Extent2, 2, f32);
lift_for!(lift_uv_f, Uv, 2, f32);
lift_for!(lift_uvw_f, Uvw, 3, f32);

pub fn lift_int(t: &mut Tape, cx: &mut Cx) -> CaseResult {
    match t.below(11) {
        0 => lift_vec2_i(t, cx),
        1 => lift_vec3_i(t, cx),
        2 => lift_vec4_i(t, cx),
        3 => lift_vec8_i(t, cx),
        4 => lift_vec16_i(t, cx),
        5 => lift_rgba_i(t, cx),
        6 => lift_rgb_i(t, cx),
        7 => lift_extent3_i(t, cx),
        8 => lift_extent2_i(t, cx),
        9 => lift_uv_i(t, cx),
        _ => lift_uvw_i(t, cx),
    }
}
pub fn lift_float(t: &mut Tape, cx: &mut Cx) -> CaseResult {
    match t.below(11) {
        0 => lift_vec2_f(t, cx),
        1 => lift_vec3_f(t, cx),
        2 => lift_vec4_f(t, cx),
        3 => lift_vec8_f(t, cx),
        4 => lift_vec16_f(t, cx),
        5 => lift_rgba_f(t, cx),
        6 => lift_rgb_f(t, cx),
        7 => lift_extent3_f(t, cx),
        8 => lift_extent2_f(t, cx),
        9 => lift_uv_f(t, cx),
        _ => lift_uvw_f(t, cx),
    }
}
