fn main() {
    vkit::driver::main(c17::property())
}
