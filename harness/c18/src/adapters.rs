//! C18, regimes beyond {next, next_back, len, size_hint, observers, drop}:
//!
//! (a') the WHOLE `Iterator` / `DoubleEndedIterator` / `ExactSizeIterator` surface of the consuming iterator:
//!      every method a user can call directly (`nth`, `nth_back`, `find`, `rfind`, `position`, `rposition`, `any`,
//!      `all`, `find_map`, `try_for_each`, `try_fold`, `try_rfold`, and by value `last`, `count`, `fold`, `rfold`,
//!      `for_each`, `collect`, `max`, `min`, `*_by(_key)`, `reduce`, `sum`, `partition`, `unzip`, `is_sorted*`,
//!      `eq`/`ne`/`cmp`/`partial_cmp`/`lt`/`ge`) and every std adapter that is implemented in terms of them
//!      (`skip`, `step_by`, `take`, `rev`, `chain`, `zip`, `flatten`, `peekable`, `fuse`, `enumerate`, `map`,
//!      `inspect`, `filter`, `filter_map`, `take_while`, `skip_while`, `map_while`, `Vec::extend`, the vector's own
//!      `FromIterator`), through `by_ref()` (partial consumption, the history goes on afterwards) and by value
//!      (which is what reaches an override of `fold` / `count` / `last` / `rfold`), with arguments below / at /
//!      beyond the remaining length (0, 1, rem/2, rem-1, rem, rem+1, rem+7, usize::MAX).
//! (b') BINARY operations on PAIRS of iterators in independently chosen cursor states: `==`, `!=` (both operand
//!      orders), the `Hash`/`Eq` contract across the pair, `Iterator::{eq, ne, cmp, partial_cmp, lt, ge}`,
//!      `zip`, `chain`, `flatten`, `mem::swap`, with value-shifted contents so that equal remaining sequences
//!      at different cursor positions occur (and a one-element distortion, and constant contents).
//!
//! ORACLE. The same generic std code (`partial` / `finish` below) is run on vek's iterator and on `Model`, a
//! `VecDeque` wrapper that implements nothing but `next`, `next_back` and an exact `size_hint` (all other methods
//! are the std defaults). A correct override is observationally equal to the default, so: the returned values,
//! the order in which elements reach the consumer, and the remaining lengths must agree; and the ownership
//! ledger must BALANCE AFTER EVERY OPERATION: an element is live iff the model still holds it, yielded exactly
//! once iff the model handed it to the consumer, and otherwise (skipped by `nth`, trimmed by `zip`, filtered out,
//! peeked and abandoned, ..) dropped exactly once already. Neither the model nor the ledger calls vek.
//! `==` is judged by the model: equal iff the two REMAINING value sequences are equal (vek: "Debug, PartialEq and
//! Hash only consider the elements that weren't yielded"), and by the ledger: no read of a yielded element.

use crate::ledger::{self, Ctx, St, Tracked};
use crate::observers::{check_debug, hash_view, DEBUG_SPECS, N_SINKS, SINK_NAMES};
use crate::shapes::VecOps;
use crate::{explain, Guard};
use std::fmt::Debug;
use std::collections::VecDeque;
use std::sync::OnceLock;
use vkit::*;

// ------------------------------------------------------------------------------------------------
// elements and the model iterator
// ------------------------------------------------------------------------------------------------

pub trait El: Ord {
    fn id(&self) -> u32;
    fn val(&self) -> u32;
}
impl El for Tracked {
    fn id(&self) -> u32 {
        self.id
    }
    fn val(&self) -> u32 {
        self.val
    }
}

/// Model element: not `Copy`, no `Drop`; compares by `val` exactly like `Tracked`.
#[derive(Debug)]
pub struct MEl {
    pub(crate) id: u32,
    pub(crate) val: u32,
}
impl PartialEq for MEl {
    fn eq(&self, o: &MEl) -> bool {
        ledger::tick();
        self.val == o.val
    }
}
impl Eq for MEl {}
impl Ord for MEl {
    fn cmp(&self, o: &MEl) -> std::cmp::Ordering {
        ledger::tick();
        self.val.cmp(&o.val)
    }
}
impl PartialOrd for MEl {
    fn partial_cmp(&self, o: &MEl) -> Option<std::cmp::Ordering> {
        Some(self.cmp(o))
    }
}
impl El for MEl {
    fn id(&self) -> u32 {
        self.id
    }
    fn val(&self) -> u32 {
        self.val
    }
}

/// Reference iterator: ONLY `next`, `next_back`, exact `size_hint`; everything else is a std default.
pub struct Model {
    pub(crate) q: VecDeque<MEl>,
}
impl Iterator for Model {
    type Item = MEl;
    fn next(&mut self) -> Option<MEl> {
        self.q.pop_front()
    }
    fn size_hint(&self) -> (usize, Option<usize>) {
        (self.q.len(), Some(self.q.len()))
    }
}
impl DoubleEndedIterator for Model {
    fn next_back(&mut self) -> Option<MEl> {
        self.q.pop_back()
    }
}
impl ExactSizeIterator for Model {}

// ------------------------------------------------------------------------------------------------
// arguments relative to the remaining length
// ------------------------------------------------------------------------------------------------

#[derive(Clone, Copy, Debug, PartialEq, Eq)]
pub enum Arg {
    Zero,
    One,
    Two,
    Half,
    RemM1,
    Rem,
    RemP1,
    RemP7,
    /// relative to the remaining length of BOTH operands (chain / flatten)
    BothM1,
    Both,
    BothP1,
    Max,
}

pub(crate) fn resolve(a: Arg, rem: usize, other: usize) -> usize {
    match a {
        Arg::Zero => 0,
        Arg::One => 1,
        Arg::Two => 2,
        Arg::Half => rem / 2,
        Arg::RemM1 => rem.saturating_sub(1),
        Arg::Rem => rem,
        Arg::RemP1 => rem + 1,
        Arg::RemP7 => rem + 7,
        Arg::BothM1 => (rem + other).saturating_sub(1),
        Arg::Both => rem + other,
        Arg::BothP1 => rem + other + 1,
        Arg::Max => usize::MAX,
    }
}

const A_NONE: &[Arg] = &[Arg::Zero];
const A_REL: &[Arg] = &[Arg::Zero, Arg::One, Arg::Half, Arg::RemM1, Arg::Rem, Arg::RemP1, Arg::RemP7, Arg::Max];
const A_BOTH: &[Arg] = &[Arg::Zero, Arg::One, Arg::RemM1, Arg::Rem, Arg::RemP1, Arg::BothM1, Arg::Both, Arg::BothP1, Arg::Max];
const A_SMALL: &[Arg] = &[Arg::Zero, Arg::One, Arg::Max];

fn arg_label(a: Arg, used: bool) -> &'static str {
    if !used {
        return "arg:none";
    }
    match a {
        Arg::Zero | Arg::One | Arg::Two | Arg::Half | Arg::RemM1 | Arg::BothM1 => "arg:below-remaining",
        Arg::Rem | Arg::Both => "arg:at-remaining",
        Arg::RemP1 | Arg::RemP7 | Arg::BothP1 => "arg:beyond-remaining",
        Arg::Max => "arg:usize::MAX",
    }
}

macro_rules! ops_enum {
    ($E:ident, $prefix:literal, { $($v:ident),+ $(,)? }) => {
        #[derive(Clone, Copy, Debug, PartialEq, Eq)]
        pub enum $E { $($v),+ }
        impl $E {
            pub const ALL: &'static [$E] = &[$($E::$v),+];
            pub fn name(self) -> &'static str {
                match self { $($E::$v => concat!($prefix, stringify!($v))),+ }
            }
        }
    };
}

// ------------------------------------------------------------------------------------------------
// partial operations: the iterator survives, the history goes on
// ------------------------------------------------------------------------------------------------

ops_enum!(POp, "op:", {
    // pulls
    Next, NextBack,
    // `&mut self` methods, called on the iterator itself (an override is reached directly)
    Nth, NthBack, Find, RFind, Position, RPosition, Any, All, FindMap, TryForEach, TryFold, TryRFold,
    // by_ref() + skip
    SkipNext, SkipNextBack, SkipNth, SkipNthBack, SkipEach, SkipRevEach, SkipLast, SkipCount,
    // by_ref() + step_by
    StepByTake, StepByNextBack, StepByNth, StepByRevTake, SkipStepByTake,
    // by_ref() + take
    TakeEach, TakeRevEach, TakeNextBack, TakeNth, TakeNthBack, TakeLast, TakeCount, ExtendTake,
    // by_ref() + rev
    RevTakeEach, RevNth, RevNthBack, RevSkipNext, RevStepByTake,
    // by_ref() + predicates (positional, so that model and vek see the same decisions)
    TakeWhileEach, SkipWhileNext, MapWhileEach, FilterTakeEach, FilterNextBack, FilterCount, FilterMapTakeEach,
    // by_ref() + peekable / enumerate / fuse / map / inspect
    Peek0, PeekNext, PeekNextIf, PeekNextBack, PeekNth, EnumSkipNext, EnumNthBack, FuseNth, FuseNthBack, MapNth, MapNthBack, InspectNth,
    // by_ref() + whole consumers (drain through `&mut I`)
    Last, Count, Max, Min, MaxByKey, MinByKey, CollectVec, RevCollect, Sum, Partition,
    // two operands
    ZipTakeEach, ZipNth, ZipNextBack, ZipRevTake, ZipCount, ZipLast,
    ChainNth, ChainSkipNext, ChainNextBack, ChainNthBack, ChainTakeEach, ChainRevTakeEach, ChainLast, ChainCount,
    FlattenNth, FlattenNextBack, FlattenTakeEach, FlattenRevTake, FlattenCount, FlattenLast,
});

impl POp {
    pub fn two_operand(self) -> bool {
        use POp::*;
        matches!(self, ZipTakeEach | ZipNth | ZipNextBack | ZipRevTake | ZipCount | ZipLast | ChainNth | ChainSkipNext | ChainNextBack | ChainNthBack | ChainTakeEach | ChainRevTakeEach | ChainLast | ChainCount | FlattenNth | FlattenNextBack | FlattenTakeEach | FlattenRevTake | FlattenCount | FlattenLast)
    }
    pub fn is_pull(self) -> bool {
        matches!(self, POp::Next | POp::NextBack)
    }
    /// (classes of `a`, classes of `b`)
    pub fn args(self) -> (&'static [Arg], &'static [Arg]) {
        use POp::*;
        match self {
            Next | NextBack | FilterNextBack | FilterCount | Peek0 | PeekNext | PeekNextIf | PeekNextBack | Last | Count | Max | Min | MaxByKey | MinByKey | CollectVec | RevCollect | Sum | Partition => (A_NONE, A_NONE),
            ZipNextBack | ZipCount | ZipLast | ChainNextBack | ChainLast | ChainCount | FlattenNextBack | FlattenCount | FlattenLast => (A_NONE, A_NONE),
            SkipNth | SkipNthBack | StepByTake | StepByNth | StepByRevTake | SkipStepByTake | TakeNth | TakeNthBack | RevStepByTake => (A_REL, A_SMALL),
            ZipTakeEach | ZipNth | ZipRevTake => (A_REL, A_NONE),
            ChainNth | ChainSkipNext | ChainNthBack | ChainTakeEach | ChainRevTakeEach | FlattenNth | FlattenTakeEach | FlattenRevTake => (A_BOTH, A_NONE),
            _ => (A_REL, A_NONE),
        }
    }
}

/// One partial operation, generic over the iterator: run identically on vek's `IntoIter<Tracked>` and on `Model`.
/// Every element that reaches the consumer by value goes to `sink`; the returned vector lists every other
/// observable result (ids of returned elements, counts, positions, booleans).
pub fn partial<X: El, I>(op: POp, a: usize, b: usize, it: &mut I, ot: &mut I, sink: &mut dyn FnMut(X)) -> Vec<i64>
where
    I: Iterator<Item = X> + DoubleEndedIterator + ExactSizeIterator,
{
    let mut obs: Vec<i64> = Vec::new();
    let step = a.max(1);
    let bstep = b.max(1);
    let mut c = 0usize; // positional predicate counter
    macro_rules! ret {
        ($e:expr) => {{
            let r: Option<X> = $e;
            match r {
                Some(x) => {
                    obs.push(x.id() as i64);
                    sink(x)
                }
                None => obs.push(-1),
            }
        }};
    }
    macro_rules! ret2 {
        ($e:expr) => {{
            let r: Option<(X, X)> = $e;
            match r {
                Some((x, y)) => {
                    obs.push(x.id() as i64);
                    obs.push(y.id() as i64);
                    sink(x);
                    sink(y)
                }
                None => obs.push(-1),
            }
        }};
    }
    match op {
        POp::Next => ret!(it.next()),
        POp::NextBack => ret!(it.next_back()),
        POp::Nth => ret!(it.nth(a)),
        POp::NthBack => ret!(it.nth_back(a)),
        POp::Find => ret!(it.find(|_| {
            c += 1;
                ledger::tick();
            c > a
        })),
        POp::RFind => ret!(it.rfind(|_| {
            c += 1;
                ledger::tick();
            c > a
        })),
        POp::Position => {
            let r = it.position(|x| {
                sink(x);
                c += 1;
                ledger::tick();
                c > a
            });
            obs.push(r.map_or(-1, |p| p as i64));
        }
        POp::RPosition => {
            let r = it.rposition(|x| {
                sink(x);
                c += 1;
                ledger::tick();
                c > a
            });
            obs.push(r.map_or(-1, |p| p as i64));
        }
        POp::Any => {
            let r = it.any(|x| {
                sink(x);
                c += 1;
                ledger::tick();
                c > a
            });
            obs.push(r as i64);
        }
        POp::All => {
            let r = it.all(|x| {
                sink(x);
                c += 1;
                ledger::tick();
                c <= a
            });
            obs.push(r as i64);
        }
        POp::FindMap => {
            let r = it.find_map(|x| {
                c += 1;
                ledger::tick();
                if c > a {
                    Some(x)
                } else {
                    None
                }
            });
            ret!(r)
        }
        POp::TryForEach => {
            let r: Result<(), ()> = it.try_for_each(|x| {
                sink(x);
                c += 1;
                ledger::tick();
                if c > a {
                    Err(())
                } else {
                    Ok(())
                }
            });
            obs.push(r.is_ok() as i64);
        }
        POp::TryFold => {
            let r: Option<usize> = it.try_fold(0usize, |acc, x| {
                sink(x);
                if acc >= a {
                    None
                } else {
                    Some(acc + 1)
                }
            });
            obs.push(r.map_or(-1, |p| p as i64));
        }
        POp::TryRFold => {
            let r: Option<usize> = it.try_rfold(0usize, |acc, x| {
                sink(x);
                if acc >= a {
                    None
                } else {
                    Some(acc + 1)
                }
            });
            obs.push(r.map_or(-1, |p| p as i64));
        }
        POp::SkipNext => ret!(it.by_ref().skip(a).next()),
        POp::SkipNextBack => ret!(it.by_ref().skip(a).next_back()),
        POp::SkipNth => ret!(it.by_ref().skip(a).nth(b)),
        POp::SkipNthBack => ret!(it.by_ref().skip(a).nth_back(b)),
        POp::SkipEach => it.by_ref().skip(a).for_each(|x| sink(x)),
        POp::SkipRevEach => it.by_ref().skip(a).rev().for_each(|x| sink(x)),
        POp::SkipLast => ret!(it.by_ref().skip(a).last()),
        POp::SkipCount => obs.push(it.by_ref().skip(a).count() as i64),
        POp::StepByTake => it.by_ref().step_by(step).take(b).for_each(|x| sink(x)),
        POp::StepByNextBack => ret!(it.by_ref().step_by(step).next_back()),
        // std's `StepBy::nth` resolves an overflowing n * step by a loop that takes ~2^64 rounds for
        // (usize::MAX, usize::MAX); both factors are capped at 2^20 here (still far beyond any remaining length)
        POp::StepByNth => ret!(it.by_ref().step_by(step.min(1 << 20)).nth(b.min(1 << 20))),
        POp::StepByRevTake => it.by_ref().step_by(step).rev().take(b).for_each(|x| sink(x)),
        POp::SkipStepByTake => it.by_ref().skip(a).step_by(bstep).take(2).for_each(|x| sink(x)),
        POp::TakeEach => it.by_ref().take(a).for_each(|x| sink(x)),
        POp::TakeRevEach => it.by_ref().take(a).rev().for_each(|x| sink(x)),
        POp::TakeNextBack => ret!(it.by_ref().take(a).next_back()),
        POp::TakeNth => ret!(it.by_ref().take(a).nth(b)),
        POp::TakeNthBack => ret!(it.by_ref().take(a).nth_back(b)),
        POp::TakeLast => ret!(it.by_ref().take(a).last()),
        POp::TakeCount => obs.push(it.by_ref().take(a).count() as i64),
        POp::ExtendTake => {
            let mut v: Vec<X> = Vec::new();
            v.extend(it.by_ref().take(a));
            obs.push(v.len() as i64);
            for x in v {
                sink(x)
            }
        }
        POp::RevTakeEach => it.by_ref().rev().take(a).for_each(|x| sink(x)),
        POp::RevNth => ret!(it.by_ref().rev().nth(a)),
        POp::RevNthBack => ret!(it.by_ref().rev().nth_back(a)),
        POp::RevSkipNext => ret!(it.by_ref().rev().skip(a).next()),
        POp::RevStepByTake => it.by_ref().rev().step_by(step).take(b).for_each(|x| sink(x)),
        POp::TakeWhileEach => it
            .by_ref()
            .take_while(|_| {
                c += 1;
                ledger::tick();
                c <= a
            })
            .for_each(|x| sink(x)),
        POp::SkipWhileNext => ret!(it
            .by_ref()
            .skip_while(|_| {
                c += 1;
                ledger::tick();
                c <= a
            })
            .next()),
        POp::MapWhileEach => {
            // the closure owns every element it is given, including the one it answers `None` for
            let got: Vec<X> = it
                .by_ref()
                .map_while(|x| {
                    c += 1;
                ledger::tick();
                    if c <= a {
                        Some(x)
                    } else {
                        None
                    }
                })
                .collect();
            obs.push(got.len() as i64);
            for x in got {
                sink(x)
            }
        }
        POp::FilterTakeEach => it.by_ref().filter(|x| {
            ledger::tick();
            x.val() % 2 == 0
        }).take(a).for_each(|x| sink(x)),
        POp::FilterNextBack => ret!(it.by_ref().filter(|x| {
            ledger::tick();
            x.val() % 2 == 0
        }).next_back()),
        POp::FilterCount => obs.push(it.by_ref().filter(|x| {
            ledger::tick();
            x.val() % 2 == 0
        }).count() as i64),
        POp::FilterMapTakeEach => it.by_ref().filter_map(|x| {
            ledger::tick();
            if x.val() % 2 == 1 { Some(x) } else { None }
        }).take(a).for_each(|x| sink(x)),
        POp::Peek0 => {
            let mut p = it.by_ref().peekable();
            obs.push(p.peek().map_or(-1, |x| x.id() as i64));
            // the peeked element dies with the adapter
        }
        POp::PeekNext => {
            let mut p = it.by_ref().peekable();
            obs.push(p.peek().map_or(-1, |x| x.id() as i64));
            ret!(p.next())
        }
        POp::PeekNextIf => {
            let mut p = it.by_ref().peekable();
            ret!(p.next_if(|x| {
                ledger::tick();
                x.val() % 2 == 0
            }))
        }
        POp::PeekNextBack => {
            let mut p = it.by_ref().peekable();
            obs.push(p.peek().map_or(-1, |x| x.id() as i64));
            ret!(p.next_back())
        }
        POp::PeekNth => {
            let mut p = it.by_ref().peekable();
            obs.push(p.peek().map_or(-1, |x| x.id() as i64));
            ret!(p.nth(a))
        }
        POp::EnumSkipNext => {
            let r = it.by_ref().enumerate().skip(a).next();
            obs.push(r.as_ref().map_or(-1, |p| p.0 as i64));
            ret!(r.map(|p| p.1))
        }
        POp::EnumNthBack => {
            let r = it.by_ref().enumerate().nth_back(a);
            obs.push(r.as_ref().map_or(-1, |p| p.0 as i64));
            ret!(r.map(|p| p.1))
        }
        POp::FuseNth => ret!(it.by_ref().fuse().nth(a)),
        POp::FuseNthBack => ret!(it.by_ref().fuse().nth_back(a)),
        POp::MapNth => ret!(it.by_ref().map(|x| {
            ledger::tick();
            x
        }).nth(a)),
        POp::MapNthBack => ret!(it.by_ref().map(|x| {
            ledger::tick();
            x
        }).nth_back(a)),
        POp::InspectNth => ret!(it
            .by_ref()
            .inspect(|_| {
                c += 1;
                ledger::tick();
            })
            .nth(a)),
        POp::Last => ret!(it.by_ref().last()),
        POp::Count => obs.push(it.by_ref().count() as i64),
        POp::Max => ret!(it.by_ref().max()),
        POp::Min => ret!(it.by_ref().min()),
        POp::MaxByKey => ret!(it.by_ref().max_by_key(|x| {
            ledger::tick();
            x.val()
        })),
        POp::MinByKey => ret!(it.by_ref().min_by_key(|x| {
            ledger::tick();
            x.val()
        })),
        POp::CollectVec => {
            let v: Vec<X> = it.by_ref().collect();
            obs.push(v.len() as i64);
            for x in v {
                sink(x)
            }
        }
        POp::RevCollect => {
            let v: VecDeque<X> = it.by_ref().rev().collect();
            obs.push(v.len() as i64);
            for x in v {
                sink(x)
            }
        }
        POp::Sum => {
            let s: u64 = it
                .by_ref()
                .map(|x| {
                    let v = x.val() as u64;
                    sink(x);
                    v
                })
                .sum();
            obs.push(s as i64);
        }
        POp::Partition => {
            let (e, o): (Vec<X>, Vec<X>) = it.by_ref().partition(|x| {
            ledger::tick();
            x.val() % 2 == 0
        });
            obs.push(e.len() as i64);
            obs.push(o.len() as i64);
            for x in e.into_iter().chain(o) {
                sink(x)
            }
        }
        POp::ZipTakeEach => it.by_ref().zip(ot.by_ref()).take(a).for_each(|(x, y)| {
            sink(x);
            sink(y)
        }),
        POp::ZipNth => ret2!(it.by_ref().zip(ot.by_ref()).nth(a)),
        POp::ZipNextBack => ret2!(it.by_ref().zip(ot.by_ref()).next_back()),
        POp::ZipRevTake => it.by_ref().zip(ot.by_ref()).rev().take(a).for_each(|(x, y)| {
            sink(x);
            sink(y)
        }),
        POp::ZipCount => obs.push(it.by_ref().zip(ot.by_ref()).count() as i64),
        POp::ZipLast => ret2!(it.by_ref().zip(ot.by_ref()).last()),
        POp::ChainNth => ret!(it.by_ref().chain(ot.by_ref()).nth(a)),
        POp::ChainSkipNext => ret!(it.by_ref().chain(ot.by_ref()).skip(a).next()),
        POp::ChainNextBack => ret!(it.by_ref().chain(ot.by_ref()).next_back()),
        POp::ChainNthBack => ret!(it.by_ref().chain(ot.by_ref()).nth_back(a)),
        POp::ChainTakeEach => it.by_ref().chain(ot.by_ref()).take(a).for_each(|x| sink(x)),
        POp::ChainRevTakeEach => it.by_ref().chain(ot.by_ref()).rev().take(a).for_each(|x| sink(x)),
        POp::ChainLast => ret!(it.by_ref().chain(ot.by_ref()).last()),
        POp::ChainCount => obs.push(it.by_ref().chain(ot.by_ref()).count() as i64),
        POp::FlattenNth => ret!([it.by_ref(), ot.by_ref()].into_iter().flatten().nth(a)),
        POp::FlattenNextBack => ret!([it.by_ref(), ot.by_ref()].into_iter().flatten().next_back()),
        POp::FlattenTakeEach => [it.by_ref(), ot.by_ref()].into_iter().flatten().take(a).for_each(|x| sink(x)),
        POp::FlattenRevTake => [it.by_ref(), ot.by_ref()].into_iter().flatten().rev().take(a).for_each(|x| sink(x)),
        POp::FlattenCount => obs.push([it.by_ref(), ot.by_ref()].into_iter().flatten().count() as i64),
        POp::FlattenLast => ret!([it.by_ref(), ot.by_ref()].into_iter().flatten().last()),
    }
    obs
}

// ------------------------------------------------------------------------------------------------
// final operations: the iterator is consumed BY VALUE (this is what reaches fold / rfold / count / last overrides)
// ------------------------------------------------------------------------------------------------

ops_enum!(FOp, "fin:", {
    Drop, Last, Count, Fold, RFold, ForEach, Collect, Nth, NthBack,
    RevEach, RevLast, RevCount, RevCollect, RevSkipEach, RevStepByEach,
    SkipEach, SkipLast, SkipCount, SkipRevEach, SkipStepByEach, SkipTakeRevEach,
    StepByEach, StepByCount, StepByLast, StepByRevEach,
    TakeEach, TakeLast, TakeCount, TakeRevEach,
    Max, Min, MaxByKey, MinByKey, MaxBy, MinBy, Reduce, Sum, Partition, Unzip, Extend,
    IsSorted, IsSortedBy, IsSortedByKey,
    PeekCount, PeekLast, PeekEach, FuseEach, FuseCount, FuseLast, FuseRevEach, EnumCount, EnumLast, EnumRevEach, MapCount, MapLast,
    // two operands
    ChainEach, ChainCount, ChainLast, ChainRevEach, ChainNth, ChainSkipEach,
    ZipEach, ZipCount, ZipLast, ZipRevEach,
    FlattenEach, FlattenCount, FlattenLast, FlattenRevEach, FlattenNth,
    IterEq, IterNe, IterCmp, IterPartialCmp, IterLt, IterGe,
});

impl FOp {
    pub fn two_operand(self) -> bool {
        use FOp::*;
        matches!(self, ChainEach | ChainCount | ChainLast | ChainRevEach | ChainNth | ChainSkipEach | ZipEach | ZipCount | ZipLast | ZipRevEach | FlattenEach | FlattenCount | FlattenLast | FlattenRevEach | FlattenNth | IterEq | IterNe | IterCmp | IterPartialCmp | IterLt | IterGe)
    }
    pub fn args(self) -> (&'static [Arg], &'static [Arg]) {
        use FOp::*;
        match self {
            Nth | NthBack | RevSkipEach | RevStepByEach | SkipEach | SkipLast | SkipCount | SkipRevEach | StepByEach | StepByCount | StepByLast | StepByRevEach | TakeEach | TakeLast | TakeCount | TakeRevEach => (A_REL, A_NONE),
            SkipStepByEach | SkipTakeRevEach => (A_REL, A_SMALL),
            ChainNth | ChainSkipEach | FlattenNth => (A_BOTH, A_NONE),
            _ => (A_NONE, A_NONE),
        }
    }
}

pub fn finish<X: El, I>(op: FOp, a: usize, b: usize, it: I, ot: I, sink: &mut dyn FnMut(X)) -> Vec<i64>
where
    I: Iterator<Item = X> + DoubleEndedIterator + ExactSizeIterator,
{
    let mut obs: Vec<i64> = Vec::new();
    let step = a.max(1);
    let bstep = b.max(1);
    macro_rules! ret {
        ($e:expr) => {{
            let r: Option<X> = $e;
            match r {
                Some(x) => {
                    obs.push(x.id() as i64);
                    sink(x)
                }
                None => obs.push(-1),
            }
        }};
    }
    macro_rules! ret2 {
        ($e:expr) => {{
            let r: Option<(X, X)> = $e;
            match r {
                Some((x, y)) => {
                    obs.push(x.id() as i64);
                    obs.push(y.id() as i64);
                    sink(x);
                    sink(y)
                }
                None => obs.push(-1),
            }
        }};
    }
    macro_rules! pair_sink {
        () => {
            |(x, y)| {
                sink(x);
                sink(y)
            }
        };
    }
    if !op.two_operand() {
        drop(ot);
        match op {
            FOp::Drop => drop(it),
            FOp::Last => ret!(it.last()),
            FOp::Count => obs.push(it.count() as i64),
            FOp::Fold => obs.push(it.fold(0i64, |acc, x| {
                sink(x);
                acc + 1
            })),
            FOp::RFold => obs.push(it.rfold(0i64, |acc, x| {
                sink(x);
                acc + 1
            })),
            FOp::ForEach => it.for_each(|x| sink(x)),
            FOp::Collect => {
                let v: Vec<X> = it.collect();
                obs.push(v.len() as i64);
                for x in v {
                    sink(x)
                }
            }
            FOp::Nth => {
                let mut it = it;
                ret!(it.nth(a));
                obs.push(it.len() as i64);
            }
            FOp::NthBack => {
                let mut it = it;
                ret!(it.nth_back(a));
                obs.push(it.len() as i64);
            }
            FOp::RevEach => it.rev().for_each(|x| sink(x)),
            FOp::RevLast => ret!(it.rev().last()),
            FOp::RevCount => obs.push(it.rev().count() as i64),
            FOp::RevCollect => {
                let v: Vec<X> = it.rev().collect();
                obs.push(v.len() as i64);
                for x in v {
                    sink(x)
                }
            }
            FOp::RevSkipEach => it.rev().skip(a).for_each(|x| sink(x)),
            FOp::RevStepByEach => it.rev().step_by(step).for_each(|x| sink(x)),
            FOp::SkipEach => it.skip(a).for_each(|x| sink(x)),
            FOp::SkipLast => ret!(it.skip(a).last()),
            FOp::SkipCount => obs.push(it.skip(a).count() as i64),
            FOp::SkipRevEach => it.skip(a).rev().for_each(|x| sink(x)),
            FOp::SkipStepByEach => it.skip(a).step_by(bstep).for_each(|x| sink(x)),
            FOp::SkipTakeRevEach => it.skip(a).take(b).rev().for_each(|x| sink(x)),
            FOp::StepByEach => it.step_by(step).for_each(|x| sink(x)),
            FOp::StepByCount => obs.push(it.step_by(step).count() as i64),
            FOp::StepByLast => ret!(it.step_by(step).last()),
            FOp::StepByRevEach => it.step_by(step).rev().for_each(|x| sink(x)),
            FOp::TakeEach => it.take(a).for_each(|x| sink(x)),
            FOp::TakeLast => ret!(it.take(a).last()),
            FOp::TakeCount => obs.push(it.take(a).count() as i64),
            FOp::TakeRevEach => it.take(a).rev().for_each(|x| sink(x)),
            FOp::Max => ret!(it.max()),
            FOp::Min => ret!(it.min()),
            FOp::MaxByKey => ret!(it.max_by_key(|x| {
            ledger::tick();
            x.val()
        })),
            FOp::MinByKey => ret!(it.min_by_key(|x| {
            ledger::tick();
            x.val()
        })),
            FOp::MaxBy => ret!(it.max_by(|p, q| {
            ledger::tick();
            p.val().cmp(&q.val())
        })),
            FOp::MinBy => ret!(it.min_by(|p, q| {
            ledger::tick();
            p.val().cmp(&q.val())
        })),
            FOp::Reduce => {
                // keep the larger one, hand the other one to the consumer
                let r = it.reduce(|p, q| {
                    if q.val() > p.val() {
                        sink(p);
                        q
                    } else {
                        sink(q);
                        p
                    }
                });
                ret!(r)
            }
            FOp::Sum => {
                let s: u64 = it
                    .map(|x| {
                        let v = x.val() as u64;
                        sink(x);
                        v
                    })
                    .sum();
                obs.push(s as i64);
            }
            FOp::Partition => {
                let (e, o): (Vec<X>, Vec<X>) = it.partition(|x| {
            ledger::tick();
            x.val() % 2 == 0
        });
                obs.push(e.len() as i64);
                obs.push(o.len() as i64);
                for x in e.into_iter().chain(o) {
                    sink(x)
                }
            }
            FOp::Unzip => {
                let (ids, xs): (Vec<u32>, Vec<X>) = it.map(|x| {
            ledger::tick();
            (x.id(), x)
        }).unzip();
                obs.extend(ids.iter().map(|&i| i as i64));
                for x in xs {
                    sink(x)
                }
            }
            FOp::Extend => {
                let mut v: VecDeque<X> = VecDeque::new();
                v.extend(it);
                obs.push(v.len() as i64);
                for x in v {
                    sink(x)
                }
            }
            FOp::IsSorted => obs.push(it.is_sorted() as i64),
            FOp::IsSortedBy => obs.push(it.is_sorted_by(|p, q| {
            ledger::tick();
            p.val() <= q.val()
        }) as i64),
            FOp::IsSortedByKey => obs.push(it.is_sorted_by_key(|x| {
                let v = x.val();
                sink(x);
                v
            }) as i64),
            FOp::PeekCount => {
                let mut p = it.peekable();
                obs.push(p.peek().map_or(-1, |x| x.id() as i64));
                obs.push(p.count() as i64);
            }
            FOp::PeekLast => {
                let mut p = it.peekable();
                obs.push(p.peek().map_or(-1, |x| x.id() as i64));
                ret!(p.last())
            }
            FOp::PeekEach => {
                let mut p = it.peekable();
                obs.push(p.peek().map_or(-1, |x| x.id() as i64));
                p.for_each(|x| sink(x))
            }
            FOp::FuseEach => it.fuse().for_each(|x| sink(x)),
            FOp::FuseCount => obs.push(it.fuse().count() as i64),
            FOp::FuseLast => ret!(it.fuse().last()),
            FOp::FuseRevEach => it.fuse().rev().for_each(|x| sink(x)),
            FOp::EnumCount => obs.push(it.enumerate().count() as i64),
            FOp::EnumLast => {
                let r = it.enumerate().last();
                obs.push(r.as_ref().map_or(-1, |p| p.0 as i64));
                ret!(r.map(|p| p.1))
            }
            FOp::EnumRevEach => it.enumerate().rev().for_each(|(i, x)| {
                obs.push(i as i64);
                sink(x)
            }),
            FOp::MapCount => obs.push(it.map(|x| {
            ledger::tick();
            x
        }).count() as i64),
            FOp::MapLast => ret!(it.map(|x| {
            ledger::tick();
            x
        }).last()),
            _ => unreachable!(),
        }
    } else {
        match op {
            FOp::ChainEach => it.chain(ot).for_each(|x| sink(x)),
            FOp::ChainCount => obs.push(it.chain(ot).count() as i64),
            FOp::ChainLast => ret!(it.chain(ot).last()),
            FOp::ChainRevEach => it.chain(ot).rev().for_each(|x| sink(x)),
            FOp::ChainNth => {
                let mut ch = it.chain(ot);
                ret!(ch.nth(a));
                obs.push(ch.count() as i64);
            }
            FOp::ChainSkipEach => it.chain(ot).skip(a).for_each(|x| sink(x)),
            FOp::ZipEach => it.zip(ot).for_each(pair_sink!()),
            FOp::ZipCount => obs.push(it.zip(ot).count() as i64),
            FOp::ZipLast => ret2!(it.zip(ot).last()),
            FOp::ZipRevEach => it.zip(ot).rev().for_each(pair_sink!()),
            FOp::FlattenEach => [it, ot].into_iter().flatten().for_each(|x| sink(x)),
            FOp::FlattenCount => obs.push([it, ot].into_iter().flatten().count() as i64),
            FOp::FlattenLast => ret!([it, ot].into_iter().flatten().last()),
            FOp::FlattenRevEach => [it, ot].into_iter().flatten().rev().for_each(|x| sink(x)),
            FOp::FlattenNth => {
                let mut fl = [it, ot].into_iter().flatten();
                ret!(fl.nth(a));
                obs.push(fl.count() as i64);
            }
            FOp::IterEq => obs.push(Iterator::eq(it, ot) as i64),
            FOp::IterNe => obs.push(Iterator::ne(it, ot) as i64),
            FOp::IterCmp => obs.push(Iterator::cmp(it, ot) as i64),
            FOp::IterPartialCmp => obs.push(Iterator::partial_cmp(it, ot).map_or(-9, |o| o as i64)),
            FOp::IterLt => obs.push(Iterator::lt(it, ot) as i64),
            FOp::IterGe => obs.push(Iterator::ge(it, ot) as i64),
            _ => unreachable!(),
        }
    }
    obs
}

// ------------------------------------------------------------------------------------------------
// the runner
// ------------------------------------------------------------------------------------------------

/// Observers and other operations that are not generic over the model.
#[derive(Clone, Copy, Debug, PartialEq, Eq)]
pub enum OOp {
    Len,
    SizeHint,
    /// format both iterators with `DEBUG_SPECS[spec]` into sink `sink`: exactly the live elements are looked at, in order
    Debug { spec: u8, sink: u8 },
    /// hash both (every route of `observers::hash_view`, and as members of a `HashSet`); if the model says the remaining sequences are equal the hashes must be equal (Hash/Eq contract)
    Hash,
    /// `a == b`, `a != b`, `b == a`, `b != a` against the model (remaining value sequences)
    Eq,
    /// `a == a`
    SelfEq,
    /// `mem::swap(&mut a, &mut b)`: the iterators are moved in memory
    Swap,
    /// the vector type's own `FromIterator` fed from `by_ref()`: remaining elements in order, tail `Default`
    FromIterSelf,
}
const ALL_OOPS: [OOp; 8] = [OOp::Len, OOp::SizeHint, OOp::Debug { spec: 0, sink: 0 }, OOp::Hash, OOp::Eq, OOp::SelfEq, OOp::Swap, OOp::FromIterSelf];

impl OOp {
    fn name(self) -> &'static str {
        match self {
            OOp::Len => "obs:len",
            OOp::SizeHint => "obs:size_hint",
            OOp::Debug { .. } => "obs:Debug(format spec x sink)",
            OOp::Hash => "obs:hash(pair)",
            OOp::Eq => "obs:==,!=(pair)",
            OOp::SelfEq => "obs:self==self",
            OOp::Swap => "obs:mem::swap",
            OOp::FromIterSelf => "obs:V::from_iter(by_ref)",
        }
    }
}

#[derive(Clone, Copy, Debug)]
pub enum Step {
    /// `other`: the roles of the two iterators are exchanged for this step
    P { op: POp, a: Arg, b: Arg, other: bool },
    O { op: OOp, other: bool },
}

#[derive(Clone, Copy, Debug)]
pub struct Fin {
    pub op: FOp,
    pub a: Arg,
    pub b: Arg,
    pub other: bool,
}

/// Contents of the two iterators. First: slot k holds val 1000+k. Second: slot k holds val 1000+k+shift
/// (+5000 in the `distort` slot). `constant`: every slot of both holds 7.
#[derive(Clone, Copy, Debug)]
pub struct Setup {
    pub shift: i32,
    pub constant: bool,
    pub distort: Option<usize>,
    /// consumer policy: 0 drops every received element at once, 1 keeps all until after the iterators are gone, 2 alternates
    pub policy: u8,
}

struct Consumer {
    kept: Vec<Tracked>,
    log: Vec<u32>,
    cnt: usize,
    policy: u8,
}
impl Consumer {
    fn take(&mut self, t: Tracked) {
        ledger::yielded(&t);
        self.log.push(t.id);
        let keep = match self.policy {
            0 => false,
            1 => true,
            _ => self.cnt % 2 == 0,
        };
        self.cnt += 1;
        if keep {
            self.kept.push(t)
        } else {
            ledger::consume(t)
        }
    }
}

fn settle_here(cx: &mut Cx, at: &dyn Fn() -> String) -> CaseResult {
    crate::settle(cx, true, at).map(|_| ())
}

/// The ledger must balance NOW: live iff the model still holds it, yielded once iff the model handed it out,
/// dropped once (by the iterator / the adapter) otherwise. `final_` = iterators are gone and kept elements consumed.
fn audit(cx: &mut Cx, n2: usize, live: &[&Model], mlog: &[u32], final_: bool, at: &dyn Fn() -> String) -> CaseResult {
    let mut role = vec![2u8; n2];
    for m in live {
        for x in &m.q {
            role[x.id as usize] = 0;
        }
    }
    for &id in mlog {
        if role[id as usize] != 2 {
            fail!("harness: model handed out element #{} twice / while holding it ({})", id, at());
        }
        role[id as usize] = 1;
    }
    let es = ledger::entries();
    if es.len() < n2 {
        fail!("harness: ledger lost entries ({})", at());
    }
    for (id, en) in es.iter().enumerate().take(n2) {
        cx.count();
        let ok = match role[id] {
            0 => en.st == St::Live && en.yields == 0 && en.container_drops == 0 && en.consumer_drops == 0,
            1 => en.yields == 1 && en.container_drops == 0 && if final_ { en.st == St::Gone && en.consumer_drops == 1 } else { (en.st == St::Gone && en.consumer_drops == 1) || (en.st == St::Yielded && en.consumer_drops == 0) },
            _ => en.st == St::Dropped && en.yields == 0 && en.container_drops == 1 && en.consumer_drops == 0,
        };
        if !ok {
            let what = match (role[id], en.st) {
                (2, St::Live) => "LEAKED: neither in the iterator any more nor yielded nor dropped",
                (2, _) => "should have been dropped exactly once by the iterator / adapter and never yielded",
                (0, _) => "should still be live inside the iterator",
                _ => "should have been yielded exactly once and never dropped by the iterator",
            };
            fail!("{}: element #{} (slot {} of the {} iterator) {}: {:?}", at(), id, id % (n2 / 2), if id < n2 / 2 { "first" } else { "second" }, what, en);
        }
        check!(cx, en.clones == 0, "{}: element #{} was cloned", at(), id);
    }
    Ok(())
}

pub fn run_ext<V: VecOps<N>, const N: usize>(setup: &Setup, steps: &[Step], fin: Option<Fin>, cx: &mut Cx) -> CaseResult {
    ledger::reset();
    let n = N;
    let s = *setup;
    let val_a = |k: usize| if s.constant { 7u32 } else { 1000 + k as u32 };
    let val_b = |k: usize| (if s.constant { 7u32 } else { (1000 + k as i32 + s.shift) as u32 }) + if s.distort == Some(k) { 5000 } else { 0 };
    let mut it = Guard::new(V::build(&mut |k| ledger::fresh(val_a(k))).into_it());
    let mut ot = Guard::new(V::build(&mut |k| ledger::fresh(val_b(k))).into_it());
    let mut m_it = Model { q: (0..n).map(|k| MEl { id: k as u32, val: val_a(k) }).collect() };
    let mut m_ot = Model { q: (0..n).map(|k| MEl { id: (n + k) as u32, val: val_b(k) }).collect() };
    let mut con = Consumer { kept: Vec::new(), log: Vec::new(), cnt: 0, policy: s.policy };
    let mut mlog: Vec<u32> = Vec::new();
    sample!(cx, "{} n={} {:?} steps={:?} then {:?}", V::NAME, n, s, steps, fin);
    let at = |i: usize| {
        let upto = (i + 1).min(steps.len());
        format!("{} (n={}, {:?}) after {:?}{}", V::NAME, n, s, &steps[..upto], if i >= steps.len() { format!(" then {:?}", fin) } else { String::new() })
    };
    {
        let t = ledger::totals();
        check!(cx, t.ids == 2 * n && t.drops == 0 && t.clones == 0 && t.observed == 0, "{} into_iter(): elements were created/dropped/cloned/observed: {:?}", V::NAME, t);
    }
    let mut adapter_ops = 0usize;
    let mut beyond = false;
    let mut pair_obs_moved = false;
    for (i, st) in steps.iter().enumerate() {
        let here = || at(i);
        let logged = mlog.len();
        match *st {
            Step::P { op, a, b, other } => {
                let (rem, orem) = if other { (m_ot.q.len(), m_it.q.len()) } else { (m_it.q.len(), m_ot.q.len()) };
                let (av, bv) = (resolve(a, rem, orem), resolve(b, rem, orem));
                let want = {
                    let mut sink = |x: MEl| mlog.push(x.id);
                    if other { partial(op, av, bv, &mut m_ot, &mut m_it, &mut sink) } else { partial(op, av, bv, &mut m_it, &mut m_ot, &mut sink) }
                };
                let got = {
                    let (x, y): (&mut V::It, &mut V::It) = if other { (&mut *ot, &mut *it) } else { (&mut *it, &mut *ot) };
                    let con = &mut con;
                    vkit::catch(move || {
                        let mut sink = |t: Tracked| con.take(t);
                        partial(op, av, bv, x, y, &mut sink)
                    })
                };
                let got = match got {
                    Ok(g) => g,
                    Err(msg) => fail!("{}: panicked: {}", here(), msg),
                };
                cx.count();
                if con.log[logged.min(con.log.len())..] != mlog[logged..] {
                    fail!("{}: elements reached the consumer in the order {:?}, the model (std defaults over a deque) hands out {:?}", here(), &con.log[logged.min(con.log.len())..], &mlog[logged..]);
                }
                cx.count();
                if got != want {
                    fail!("{}: returned {:?} (ids / counts / positions, -1 = None), the model returns {:?}", here(), got, want);
                }
                if !op.is_pull() {
                    adapter_ops += 1;
                    cx.label(op.name());
                    let (ua, ub) = op.args();
                    cx.label(arg_label(a, ua.len() > 1));
                    if ub.len() > 1 {
                        cx.label(arg_label(b, true));
                    }
                    beyond |= ua.len() > 1 && av >= rem;
                }
            }
            Step::O { op, other } => {
                cx.label(op.name());
                let moved = m_it.q.len() < n || m_ot.q.len() < n;
                match op {
                    OOp::Len => {
                        check_eq!(cx, it.len(), m_it.q.len(), "{}: len()", here());
                        check_eq!(cx, ot.len(), m_ot.q.len(), "{}: len() of the second iterator", here());
                    }
                    OOp::SizeHint => {
                        check_eq!(cx, it.size_hint(), (m_it.q.len(), Some(m_it.q.len())), "{}: size_hint()", here());
                        check_eq!(cx, ot.size_hint(), (m_ot.q.len(), Some(m_ot.q.len())), "{}: size_hint() of the second iterator", here());
                    }
                    OOp::Debug { spec, sink } => {
                        let sp = &DEBUG_SPECS[spec as usize % DEBUG_SPECS.len()];
                        let sink = sink as usize % N_SINKS;
                        cx.label(SINK_NAMES[sink]);
                        if sp.name != "{:?}" {
                            cx.label("fmt:non-default-flags");
                        }
                        for (which, g, m) in [("first", &it, &m_it), ("second", &ot, &m_ot)] {
                            let ids: Vec<u32> = m.q.iter().map(|x| x.id).collect();
                            let vals: Vec<u32> = m.q.iter().map(|x| x.val).collect();
                            ledger::with_ctx(Ctx::IterDebug, || check_debug(cx, sp, sink, &**g as &dyn Debug, &ids, &vals, true, &|| format!("{} ({} iterator)", here(), which)))?;
                        }
                        pair_obs_moved |= moved;
                    }
                    OOp::Hash => {
                        let r = vkit::catch(|| {
                            ledger::with_ctx(Ctx::IterHash, || {
                                let (h1, h2) = (hash_view(&*it), hash_view(&*ot));
                                let mut set: std::collections::HashSet<&V::It, std::hash::BuildHasherDefault<std::collections::hash_map::DefaultHasher>> = Default::default();
                                set.insert(&*it);
                                set.insert(&*ot);
                                (h1, h2, set.len())
                            })
                        });
                        let (h1, h2, members) = match r {
                            Ok(h) => h,
                            Err(msg) => fail!("{}: hash panicked: {}", here(), msg),
                        };
                        let equal = m_it.q.iter().map(|x| x.val).eq(m_ot.q.iter().map(|x| x.val));
                        if equal {
                            cx.label("pair:equal-remaining-sequences");
                            check!(cx, h1 == h2, "{}: the remaining sequences are equal ({:?}) but the iterators hash differently on some route {:?} - Hash/Eq contract: {:?} vs {:?}", here(), m_it.q.iter().map(|x| x.val).collect::<Vec<_>>(), crate::observers::HASH_MODES, h1, h2);
                        }
                        check!(cx, members == if equal { 1 } else { 2 }, "{}: a HashSet holding both iterators has {} members, remaining sequences equal = {}", here(), members, equal);
                        pair_obs_moved |= moved;
                    }
                    OOp::Eq => {
                        let r = vkit::catch(|| {
                            ledger::with_ctx(Ctx::IterEq, || {
                                let (a, b): (&V::It, &V::It) = (&*it, &*ot);
                                // the same question through references, Option, arrays, tuples and the trait methods by name
                                let forms = [a == b, !(a != b), Some(a) == Some(b), !(Some(a) != Some(b)), [a] == [b], !([a] != [b]), (a, 1u8) == (b, 1u8), !((a, 1u8) != (b, 1u8)), PartialEq::eq(a, b), !PartialEq::ne(a, b), [a, a] == [b, b], !((b, a) != (a, b))];
                                ((*a == *b, *a != *b, *b == *a, *b != *a), forms)
                            })
                        });
                        let ((e1, n1, e2, n2), forms) = match r {
                            Ok(v) => v,
                            Err(msg) => fail!("{}: == panicked: {}", here(), msg),
                        };
                        let (va, vb): (Vec<u32>, Vec<u32>) = (m_it.q.iter().map(|x| x.val).collect(), m_ot.q.iter().map(|x| x.val).collect());
                        let equal = va == vb;
                        cx.label(if equal { "pair:equal-remaining-sequences" } else if va.len() == vb.len() { "pair:same-length,different-values" } else { "pair:different-lengths" });
                        if equal && m_it.q.front().map(|x| x.id as usize % n) != m_ot.q.front().map(|x| x.id as usize % n) {
                            cx.label("pair:equal-sequences-at-different-cursor-positions");
                        }
                        cx.count();
                        if (e1, n1, e2, n2) != (equal, !equal, equal, !equal) {
                            fail!("{}: remaining values {:?} vs {:?}: (a==b, a!=b, b==a, b!=a) = {:?}, want {:?}", here(), va, vb, (e1, n1, e2, n2), (equal, !equal, equal, !equal));
                        }
                        cx.count();
                        if forms.iter().any(|&f| f != equal) {
                            fail!("{}: remaining values {:?} vs {:?}: the comparison through [&a==&b, !(&a!=&b), Some==, !(Some!=), [a]==[b], !([a]!=[b]), (a,1)==(b,1), !(tuple !=), PartialEq::eq, !PartialEq::ne, [a,a]==[b,b], !((b,a)!=(a,b))] gives {:?}, want all {}", here(), va, vb, forms, equal);
                        }
                        pair_obs_moved |= moved;
                    }
                    OOp::SelfEq => {
                        let r = vkit::catch(|| ledger::with_ctx(Ctx::IterEq, || (*it == *it, *it != *it)));
                        cx.count();
                        match r {
                            Ok((true, false)) => {}
                            Ok(v) => fail!("{}: (a==a, a!=a) = {:?}", here(), v),
                            Err(msg) => fail!("{}: == panicked: {}", here(), msg),
                        }
                    }
                    OOp::Swap => {
                        std::mem::swap(&mut *it, &mut *ot);
                        std::mem::swap(&mut m_it, &mut m_ot);
                    }
                    OOp::FromIterSelf => {
                        let (x, m): (&mut V::It, &mut Model) = if other { (&mut *ot, &mut m_ot) } else { (&mut *it, &mut m_it) };
                        let w = match vkit::catch(|| V::from_iter_(x)) {
                            Ok(w) => w,
                            Err(msg) => fail!("{}: from_iter panicked: {}", here(), msg),
                        };
                        for k in 0..n {
                            let t = w.fld(k);
                            cx.count();
                            match m.q.get(k) {
                                Some(x) => {
                                    if t.id != x.id {
                                        fail!("{}: V::from_iter(it.by_ref()) position {} holds element #{}, the remaining sequence puts #{} there", here(), k, t.id, x.id);
                                    }
                                }
                                None => match ledger::entry(t.id) {
                                    Some(e) if e.from_default && e.val == t.val && e.st == St::Live => {}
                                    e => fail!("{}: V::from_iter(it.by_ref()) tail position {} holds #{} which is not a live Default-created element: {:?}", here(), k, t.id, e),
                                },
                            }
                        }
                        m.q.clear(); // the elements now belong to `w`, which dies here: dropped once, never yielded
                        drop(w);
                        adapter_ops += 1;
                    }
                }
            }
        }
        settle_here(cx, &here)?;
        // the cheap invariants after every step
        cx.count();
        if it.len() != m_it.q.len() || ot.len() != m_ot.q.len() {
            fail!("{}: len() = {} / {}, remaining count in the model = {} / {}", here(), it.len(), ot.len(), m_it.q.len(), m_ot.q.len());
        }
        let pull = matches!(*st, Step::P { op, .. } if op.is_pull());
        if !pull {
            cx.count();
            let (h1, h2) = (it.size_hint(), ot.size_hint());
            if h1 != (m_it.q.len(), Some(m_it.q.len())) || h2 != (m_ot.q.len(), Some(m_ot.q.len())) {
                fail!("{}: size_hint() = {:?} / {:?}, remaining count in the model = {} / {}", here(), h1, h2, m_it.q.len(), m_ot.q.len());
            }
            audit(cx, 2 * n, &[&m_it, &m_ot], &mlog, false, &here)?;
        }
    }
    let end = || at(steps.len());
    let logged = mlog.len();
    match fin {
        None => {
            for (which, g) in [("first", it), ("second", ot)] {
                cx.count();
                if let Err(msg) = g.finish() {
                    fail!("{}: dropping the {} iterator panicked: {}", end(), which, msg);
                }
            }
        }
        Some(f) => {
            cx.label(f.op.name());
            let (rem, orem) = if f.other { (m_ot.q.len(), m_it.q.len()) } else { (m_it.q.len(), m_ot.q.len()) };
            let (av, bv) = (resolve(f.a, rem, orem), resolve(f.b, rem, orem));
            let (ua, _) = f.op.args();
            cx.label(arg_label(f.a, ua.len() > 1));
            beyond |= ua.len() > 1 && av >= rem;
            if f.op != FOp::Drop {
                adapter_ops += 1;
            }
            let want = {
                let mut sink = |x: MEl| mlog.push(x.id);
                let (p, q) = if f.other { (m_ot, m_it) } else { (m_it, m_ot) };
                finish(f.op, av, bv, p, q, &mut sink)
            };
            let (x, y) = (it.into_inner(), ot.into_inner());
            let (x, y) = if f.other { (y, x) } else { (x, y) };
            let got = {
                let con = &mut con;
                vkit::catch(move || {
                    let mut sink = |t: Tracked| con.take(t);
                    finish(f.op, av, bv, x, y, &mut sink)
                })
            };
            let got = match got {
                Ok(g) => g,
                Err(msg) => fail!("{}: panicked: {}", end(), msg),
            };
            cx.count();
            if con.log[logged.min(con.log.len())..] != mlog[logged..] {
                fail!("{}: elements reached the consumer in the order {:?}, the model (std defaults over a deque) hands out {:?}", end(), &con.log[logged.min(con.log.len())..], &mlog[logged..]);
            }
            cx.count();
            if got != want {
                fail!("{}: returned {:?} (ids / counts / booleans, -1 = None), the model returns {:?}", end(), got, want);
            }
        }
    }
    settle_here(cx, &end)?;
    for t in con.kept.drain(..) {
        ledger::consume(t);
    }
    settle_here(cx, &|| format!("{} when the consumer dropped the elements it kept", end()))?;
    // final accounting: yielded exactly once XOR dropped exactly once; nothing else exists or is left over
    audit(cx, 2 * n, &[], &mlog, true, &end)?;
    cx.count();
    if let Some((id, e)) = ledger::first_not_dropped_once() {
        fail!("{}: element #{} (val {:#x}) was not dropped exactly once at the end: {:?}", end(), id, e.val, e);
    }
    for a in ledger::take_anomalies() {
        fail!("{}: {}", end(), explain(&a));
    }
    cx.set_nontrivial(adapter_ops > 0 || pair_obs_moved);
    if beyond {
        cx.label("some-argument-at-or-beyond-remaining");
    }
    Ok(())
}

// ------------------------------------------------------------------------------------------------
// case functions
// ------------------------------------------------------------------------------------------------

#[derive(Clone, Copy, Debug)]
pub enum Variant {
    P(POp, Arg, Arg),
    O(OOp),
    F(FOp, Arg, Arg),
}

fn expand(two_operand: bool) -> Vec<Variant> {
    let mut v = Vec::new();
    for &op in POp::ALL {
        if op.two_operand() != two_operand || op.is_pull() {
            continue;
        }
        let (aa, bb) = op.args();
        for &a in aa {
            for &b in bb {
                v.push(Variant::P(op, a, b));
            }
        }
    }
    if two_operand {
        v.push(Variant::O(OOp::Swap));
    } else {
        for op in [OOp::SelfEq, OOp::FromIterSelf] {
            v.push(Variant::O(op));
        }
        for spec in 0..DEBUG_SPECS.len() {
            for sink in 0..N_SINKS {
                v.push(Variant::O(OOp::Debug { spec: spec as u8, sink: sink as u8 }));
            }
        }
    }
    for &op in FOp::ALL {
        if op.two_operand() != two_operand {
            continue;
        }
        let (aa, bb) = op.args();
        for &a in aa {
            for &b in bb {
                v.push(Variant::F(op, a, b));
            }
        }
    }
    v
}

/// every single-operand (operation, argument class) combination
pub fn single_variants() -> &'static [Variant] {
    static V: OnceLock<Vec<Variant>> = OnceLock::new();
    V.get_or_init(|| expand(false))
}
/// every two-operand (operation, argument class) combination
pub fn pair_variants() -> &'static [Variant] {
    static V: OnceLock<Vec<Variant>> = OnceLock::new();
    V.get_or_init(|| expand(true))
}

pub const fn n_states(n: u64) -> u64 {
    (n + 1) * (n + 2) / 2
}

/// state index -> (start, end); ordered by the number of pulls, then by the number of front pulls
pub(crate) fn state(n: usize, i: u64) -> (usize, usize) {
    let (mut p, mut rest) = (0usize, i as usize);
    while rest > p {
        rest -= p + 1;
        p += 1;
    }
    (rest, n - (p - rest))
}

/// pulls that bring an untouched iterator to (start, end)
fn reach(n: usize, start: usize, end: usize, back_first: bool, other: bool, out: &mut Vec<Step>) {
    let f = Step::P { op: POp::Next, a: Arg::Zero, b: Arg::Zero, other };
    let b = Step::P { op: POp::NextBack, a: Arg::Zero, b: Arg::Zero, other };
    if back_first {
        out.extend(std::iter::repeat(b).take(n - end));
        out.extend(std::iter::repeat(f).take(start));
    } else {
        out.extend(std::iter::repeat(f).take(start));
        out.extend(std::iter::repeat(b).take(n - end));
    }
}

fn push_variant(v: Variant, steps: &mut Vec<Step>) -> Option<Fin> {
    let pull = |op| Step::P { op, a: Arg::Zero, b: Arg::Zero, other: false };
    match v {
        Variant::P(op, a, b) => {
            steps.push(Step::P { op, a, b, other: false });
            // the history goes on: the cursors must still be consistent
            steps.push(pull(POp::Next));
            steps.push(pull(POp::NextBack));
            steps.push(Step::O { op: OOp::Len, other: false });
            None
        }
        Variant::O(op) => {
            steps.push(Step::O { op, other: false });
            steps.push(pull(POp::NextBack));
            steps.push(pull(POp::Next));
            steps.push(Step::O { op: OOp::SizeHint, other: false });
            None
        }
        Variant::F(op, a, b) => Some(Fin { op, a, b, other: false }),
    }
}

pub fn single_total(n: u64) -> u64 {
    n_states(n) * single_variants().len() as u64
}

/// EXHAUSTIVE (for the smaller dimensions): every cursor state x every single-operand (operation, argument class).
pub fn single_case<V: VecOps<N>, const N: usize>(idx: u64, cx: &mut Cx) -> CaseResult {
    let vs = single_variants();
    let vi = (idx % vs.len() as u64) as usize;
    let si = idx / vs.len() as u64;
    let (start, end) = state(N, si);
    let mut steps = Vec::with_capacity(N + 5);
    let back_first = (si + vi as u64) % 2 == 1;
    reach(N, start, end, back_first, false, &mut steps);
    let fin = push_variant(vs[vi], &mut steps);
    let setup = Setup { shift: 0, constant: false, distort: None, policy: (vi % 3) as u8 };
    cx.label(if start == 0 && end == N { "state:untouched" } else if start == end { "state:exhausted" } else if start > 0 && end < N { "state:pulled-both-ends" } else { "state:pulled-one-end" });
    run_ext::<V, N>(&setup, &steps, fin, cx)
}

/// contents modes of the pair checks
fn pair_setup(mode: u64, s1: usize, s2: usize, e2: usize, flip: bool, policy: u8) -> Setup {
    let aligned = s1 as i32 - s2 as i32;
    match mode {
        0 => Setup { shift: aligned, constant: false, distort: None, policy },
        1 => Setup { shift: 0, constant: false, distort: None, policy },
        2 => Setup { shift: aligned, constant: false, distort: if s2 < e2 { Some(if flip { s2 } else { e2 - 1 }) } else { None }, policy },
        _ => Setup { shift: 0, constant: true, distort: None, policy },
    }
}
const PAIR_MODE_LABELS: [&str; 4] = ["contents:value-shifted(aligned-windows)", "contents:identical", "contents:aligned,one-live-element-differs", "contents:constant"];

const PAIR_OBS: [OOp; 2] = [OOp::Eq, OOp::Hash];
pub fn pair_obs_total(n: u64) -> u64 {
    n_states(n) * n_states(n) * 4 * PAIR_OBS.len() as u64
}

/// `==`, `!=`, hash on every PAIR of cursor states x 4 content modes.
pub fn pair_obs_case<V: VecOps<N>, const N: usize>(idx: u64, cx: &mut Cx) -> CaseResult {
    let ns = n_states(N as u64);
    let mut i = idx;
    let op = PAIR_OBS[(i % 2) as usize];
    i /= 2;
    let mode = i % 4;
    i /= 4;
    let (s1, e1) = state(N, i % ns);
    let (s2, e2) = state(N, i / ns);
    let mut steps = Vec::with_capacity(2 * N + 4);
    reach(N, s1, e1, false, false, &mut steps);
    reach(N, s2, e2, true, true, &mut steps);
    steps.push(Step::O { op, other: false });
    // afterwards both must still work
    steps.push(Step::P { op: POp::Next, a: Arg::Zero, b: Arg::Zero, other: false });
    steps.push(Step::P { op: POp::NextBack, a: Arg::Zero, b: Arg::Zero, other: true });
    steps.push(Step::O { op, other: false });
    let setup = pair_setup(mode, s1, s2, e2, idx % 3 == 0, (idx % 3) as u8);
    cx.label(PAIR_MODE_LABELS[mode as usize]);
    cx.label(if (s1, e1) == (s2, e2) { "pair:same-cursor-state" } else if e1 - s1 == e2 - s2 { "pair:same-length,different-cursor-positions" } else { "pair:different-lengths" });
    run_ext::<V, N>(&setup, &steps, None, cx)
}

pub fn pair_ops_total(n: u64) -> u64 {
    n_states(n) * n_states(n) * pair_variants().len() as u64
}

/// zip / chain / flatten / Iterator::{eq,ne,cmp,..} / swap on every PAIR of cursor states x argument class.
pub fn pair_ops_case<V: VecOps<N>, const N: usize>(idx: u64, cx: &mut Cx) -> CaseResult {
    let vs = pair_variants();
    let ns = n_states(N as u64);
    let vi = (idx % vs.len() as u64) as usize;
    let i = idx / vs.len() as u64;
    let (s1, e1) = state(N, i % ns);
    let (s2, e2) = state(N, i / ns);
    let mut steps = Vec::with_capacity(2 * N + 6);
    reach(N, s1, e1, vi % 2 == 1, false, &mut steps);
    reach(N, s2, e2, vi % 2 == 0, true, &mut steps);
    let fin = push_variant(vs[vi], &mut steps);
    if fin.is_none() {
        steps.push(Step::P { op: POp::Next, a: Arg::Zero, b: Arg::Zero, other: true });
        steps.push(Step::O { op: OOp::Eq, other: false });
    }
    // value-shifted (aligned) contents for even pairs, identical contents for odd ones: Iterator::eq & co. see both
    let mode = i % 2;
    let setup = pair_setup(mode, s1, s2, e2, false, (vi % 3) as u8);
    cx.label(PAIR_MODE_LABELS[mode as usize]);
    cx.label(if (s1, e1) == (s2, e2) { "pair:same-cursor-state" } else if e1 - s1 == e2 - s2 { "pair:same-length,different-cursor-positions" } else { "pair:different-lengths" });
    run_ext::<V, N>(&setup, &steps, fin, cx)
}

fn any_arg(t: &mut Tape) -> Arg {
    const ALL: [Arg; 12] = [Arg::Zero, Arg::One, Arg::Two, Arg::Half, Arg::RemM1, Arg::Rem, Arg::RemP1, Arg::RemP7, Arg::BothM1, Arg::Both, Arg::BothP1, Arg::Max];
    ALL[t.below(12)]
}

pub const RANDOM_STEPS: usize = 10;
pub const EXT_RANDOM_TAPE_LEN: usize = 8 + 6 * RANDOM_STEPS + 5;

/// Random histories over the whole alphabet on two iterators that are driven independently.
pub fn ext_random_case<V: VecOps<N>, const N: usize>(t: &mut Tape, cx: &mut Cx) -> CaseResult {
    let policy = t.below(3) as u8;
    let mode = t.below(4) as u64;
    // independent starting states: f/b pulls on each
    let ns = n_states(N as u64);
    let (s1, e1) = state(N, t.below16(ns as usize) as u64);
    let (s2, e2) = state(N, t.below16(ns as usize) as u64);
    let flip = t.bool();
    let setup = pair_setup(mode, s1, s2, e2, flip, policy);
    let mut steps = Vec::new();
    reach(N, s1, e1, false, false, &mut steps);
    reach(N, s2, e2, true, true, &mut steps);
    let len = t.below(RANDOM_STEPS + 1);
    for _ in 0..len {
        let other = t.chance(64);
        match t.below(16) {
            0..=3 => steps.push(Step::P { op: if t.bool() { POp::NextBack } else { POp::Next }, a: Arg::Zero, b: Arg::Zero, other }),
            4..=6 => {
                let op = match ALL_OOPS[t.below(ALL_OOPS.len())] {
                    OOp::Debug { .. } => OOp::Debug { spec: t.below(DEBUG_SPECS.len()) as u8, sink: t.below(N_SINKS) as u8 },
                    o => o,
                };
                steps.push(Step::O { op, other })
            }
            _ => {
                let op = POp::ALL[t.below(POp::ALL.len())];
                steps.push(Step::P { op, a: any_arg(t), b: any_arg(t), other });
            }
        }
    }
    let fin = if t.chance(224) {
        Some(Fin { op: FOp::ALL[t.below(FOp::ALL.len())], a: any_arg(t), b: any_arg(t), other: t.chance(64) })
    } else {
        None
    };
    cx.label(PAIR_MODE_LABELS[mode as usize]);
    run_ext::<V, N>(&setup, &steps, fin, cx)
}
