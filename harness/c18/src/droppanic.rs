//! C18, ELEMENT DESTRUCTORS THAT PANIC.
//!
//! The other unwinding checks (`unwind.rs`) inject the panic into user closures and element trait impls; there the
//! element's own `Drop` never panics. Here the element with a chosen id panics INSIDE ITS DESTRUCTOR, exactly once
//! per case and only when it is dropped by the container (vek code, or drop glue of a vek value) while the thread is
//! not already panicking (`ledger::arm_drop_panic`). The places where vek runs destructors:
//!   * `impl Drop for IntoIter` (every vector type, every cursor state, the chosen element anywhere in the live
//!     range, in the yielded ranges, or nowhere), also when the iterator is dropped DURING the unwinding;
//!   * std's default `nth` / `nth_back` / `count` / `last` running on vek's `next` / `next_back` (they discard
//!     elements inside the call), followed by more use of the surviving iterator and its drop;
//!   * `FromIterator` overwriting the Default elements (`*elem = value`), the surplus of an owned source;
//!   * shrinking conversions (`Vec3::from(Vec4)`, `xy()`, `rgb()`, ..) and `diagonal()` which discard elements;
//!   * dropping a vector / matrix / the result of every array, tuple, map, zip, transpose, layout conversion.
//!
//! Oracle (the property: "each element is either yielded once or dropped once by the iterator", never duplicated):
//! the panic is caught (`vkit::catch`), everything that survived is used up and dropped, then
//!   * NO element's destructor ran twice - the panicking one included: it counts as dropped once its destructor was
//!     entered (the ledger is updated before the panic is raised) -, no element was handed out twice, no handed-out
//!     element was dropped by the container, nothing was read after it was dropped (ledger anomalies);
//!   * when no destructor panicked: every element was dropped EXACTLY once;
//!   * when one panicked: the OTHER elements of the container were dropped at most once. Whether the elements the
//!     container had not yet dropped are dropped afterwards (std's iterators and drop glue do) or leaked (a plain
//!     loop that unwinds, as in the unchanged vek `IntoIter`) is not decided by the property: labelled, not judged;
//!   * a panic other than the destructor's fails the case.

use crate::adapters;
use crate::ledger::{self, DropPanic, St, Tracked, DROP_PANIC};
use crate::shapes::{MatOps, VecOps};
use crate::{explain, Guard};
use vek::vec::repr_c::{Extent2, Extent3, Rgb, Rgba, Uv, Uvw, Vec2, Vec3, Vec4};
use vkit::*;

/// Run `f` with the destructor of element `id` armed.
fn bombed<T>(id: Option<u32>, f: impl FnOnce() -> T) -> (Result<T, String>, DropPanic) {
    if let Some(id) = id {
        ledger::arm_drop_panic(id);
    }
    let r = vkit::catch(f);
    (r, ledger::disarm_drop_panic())
}

/// The result of one armed call: only the destructor's panic may come out.
fn only_destructor_panic<T>(r: &Result<T, String>, at: &dyn Fn() -> String) -> CaseResult {
    if let Err(msg) = r {
        if !msg.contains(DROP_PANIC) {
            fail!("{}: a panic other than the element destructor's came out: {}", at(), msg);
        }
    }
    Ok(())
}

/// Everything has been dropped by now. Returns the number of leaked elements.
fn verdict(cx: &mut Cx, bomb: Option<u32>, fired: DropPanic, at: &dyn Fn() -> String) -> Result<usize, Fail> {
    cx.count();
    if let Some(a) = ledger::take_anomalies().first() {
        fail!("{}: {}", at(), explain(a));
    }
    let entries = ledger::entries();
    let mut leaked = 0usize;
    for (id, e) in entries.iter().enumerate() {
        cx.count();
        if e.container_drops + e.consumer_drops > 1 || e.yields > 1 || e.clones > 0 {
            fail!("{}: element #{} was dropped / handed out more than once or cloned: {:?}", at(), id, e);
        }
        if e.yields == 1 && e.container_drops > 0 {
            fail!("{}: element #{} was handed out AND dropped by the container: {:?}", at(), id, e);
        }
        if e.st == St::Live || e.st == St::Yielded {
            leaked += 1;
        }
    }
    match fired {
        DropPanic::Panicked => {
            cx.nontrivial();
            let b = bomb.unwrap_or(u32::MAX) as usize;
            cx.count();
            match entries.get(b) {
                Some(e) if e.container_drops == 1 && e.st == St::Dropped => {}
                other => fail!("{}: harness: the panicking element #{} is not recorded as dropped once by the container: {:?}", at(), b, other),
            }
            cx.label(if entries.get(b).map(|e| e.from_default).unwrap_or(false) { "panicking-element:a-Default-made-by-vek" } else { "panicking-element:made-by-the-caller" });
            cx.label(if leaked > 0 { "after-the-panic:undropped-elements-LEAKED(plain loop, allowed)" } else { "after-the-panic:every-other-element-dropped-once(std-like, or none was left)" });
        }
        DropPanic::Suppressed | DropPanic::NotReached => {
            cx.label(if fired == DropPanic::Suppressed { "destructor-panic:suppressed(thread already panicking)" } else if bomb.is_some() { "destructor-panic:armed-but-element-not-dropped-by-the-container" } else { "destructor-panic:none-armed" });
            if fired == DropPanic::NotReached {
                // nothing panicked: the plain regime, exactly once
                cx.count();
                if let Some((id, e)) = ledger::first_not_dropped_once() {
                    fail!("{}: no destructor panicked, yet element #{} (val {:#x}) was not dropped exactly once: {:?}", at(), id, e.val, e);
                }
            }
        }
    }
    Ok(leaked)
}

// ------------------------------------------------------------------------------------------------
// (1) drop of the consuming iterator: cursor state x way of reaching it x position of the panicking element
// ------------------------------------------------------------------------------------------------

/// idx = (state * 3 + reach) * (n + 1) + p; p = n: no destructor panics
pub fn iter_total(n: u64) -> u64 {
    adapters::n_states(n) * 3 * (n + 1)
}

pub fn iter_case<V: VecOps<N>, const N: usize>(idx: u64, cx: &mut Cx) -> CaseResult {
    ledger::reset();
    let n = N;
    let p = (idx % (n as u64 + 1)) as usize;
    let reach = (idx / (n as u64 + 1)) % 3;
    let si = idx / (n as u64 + 1) / 3;
    let (s, e) = adapters::state(n, si);
    let keep = (si + p as u64) % 2 == 0;
    // yielded positions: the two next to the live range and the two outermost ones stand for the rest
    if (p < s && p != 0 && p + 1 != s) || (p >= e && p < n && p != e && p + 1 != n) {
        cx.label("panicking:a-yielded-position-represented-by-its-neighbours(skipped, trivial)");
        return Ok(());
    }
    // element k has id k
    let mut it = Guard::new(V::build(&mut |k| ledger::fresh(1000 + k as u32)).into_it());
    let mut kept: Vec<Tracked> = Vec::new();
    let (mut f, mut b) = (s, n - e);
    let mut turn = reach == 1;
    while f + b > 0 {
        let front = match reach {
            0 => f > 0,
            1 => b == 0,
            _ => {
                turn = !turn;
                if turn { f > 0 } else { b == 0 }
            }
        };
        let x = if front {
            f -= 1;
            it.next()
        } else {
            b -= 1;
            it.next_back()
        };
        match x {
            Some(t) => {
                ledger::yielded(&t);
                if keep { kept.push(t) } else { ledger::consume(t) }
            }
            None => fail!("{} (n={}): the iterator ended while being brought to [{}..{})", V::NAME, n, s, e),
        }
    }
    let bomb = if p < n { Some(p as u32) } else { None };
    let at = || format!("{} (n={}): into_iter() brought to [{}..{}) ({}), consumer {} what it pulled, the destructor of element #{} panics; drop(iterator)", V::NAME, n, s, e, ["front pulls first", "back pulls first", "alternating"][reach as usize], if keep { "keeps" } else { "drops" }, p);
    sample!(cx, "{}", at());
    cx.label(if s == 0 && e == n { "state:untouched" } else if s == e { "state:exhausted" } else if s > 0 && e < n { "state:pulled-both-ends" } else { "state:pulled-one-end" });
    cx.label(if p == n {
        "panicking:none"
    } else if p < s {
        "panicking:in-the-front-yielded-range(must not be touched)"
    } else if p >= e {
        "panicking:in-the-back-yielded-range(must not be touched)"
    } else if e - s == 1 {
        "panicking:the-only-live-element"
    } else if p == s {
        "panicking:first-live-element"
    } else if p == e - 1 {
        "panicking:last-live-element"
    } else {
        "panicking:inside-the-live-range"
    });
    let inner = it.into_inner();
    let (r, fired) = bombed(bomb, move || drop(inner));
    only_destructor_panic(&r, &at)?;
    for t in kept.drain(..) {
        ledger::consume(t);
    }
    cx.count();
    let want = p >= s && p < e;
    if want != (fired == DropPanic::Panicked) {
        fail!("{}: the panicking element is {} the live range, so its destructor must {}run during the iterator's drop - it did{}", at(), if want { "in" } else { "outside" }, if want { "" } else { "NOT " }, if want { " not" } else { "" });
    }
    verdict(cx, bomb, fired, &at)?;
    Ok(())
}

// ------------------------------------------------------------------------------------------------
// (2) histories: next / next_back / nth / nth_back / len with the destructor armed all along, then a finisher
// ------------------------------------------------------------------------------------------------

pub const HISTORY_TAPE_LEN: usize = 40;

pub fn history_case<V: VecOps<N>, const N: usize>(t: &mut Tape, cx: &mut Cx) -> CaseResult {
    ledger::reset();
    let n = N;
    let bomb = if t.chance(16) { None } else { Some(t.below(n) as u32) };
    let mut it = Guard::new(V::build(&mut |k| ledger::fresh(1000 + k as u32)).into_it());
    let mut kept: Vec<Tracked> = Vec::new();
    let mut log = String::new();
    let steps = t.below(9);
    if let Some(b) = bomb {
        ledger::arm_drop_panic(b);
    }
    let mut fired_in: Option<&'static str> = None;
    let take = |x: Option<Tracked>, keep: bool, kept: &mut Vec<Tracked>| {
        if let Some(x) = x {
            ledger::yielded(&x);
            if keep { kept.push(x) } else { ledger::consume(x) }
        }
    };
    for _ in 0..steps {
        let op = t.below(8);
        let keep = t.bool();
        // remaining length as the iterator itself reports it (only used to choose arguments)
        let rem = it.len().min(n);
        let arg = match t.below(4) {
            0 => 0,
            1 => rem / 2,
            2 => rem.saturating_sub(1),
            _ => rem + 1,
        };
        let (name, r): (&'static str, Result<Option<Tracked>, String>) = {
            let g: &mut V::It = &mut *it;
            match op {
                0 | 1 => ("next", vkit::catch(move || g.next())),
                2 | 3 => ("next_back", vkit::catch(move || g.next_back())),
                4 | 5 => ("nth", vkit::catch(move || g.nth(arg))),
                6 => ("nth_back", vkit::catch(move || g.nth_back(arg))),
                _ => ("len", vkit::catch(move || {
                    let _ = g.len();
                    None
                })),
            }
        };
        log.push_str(&format!("{}({}){}, ", name, arg, if keep { "k" } else { "d" }));
        let at = || format!("{} (n={}), destructor of #{:?} armed: {}", V::NAME, n, bomb, log);
        only_destructor_panic(&r, &at)?;
        match r {
            Ok(x) => take(x, keep, &mut kept),
            Err(_) => {
                fired_in = Some(name);
                cx.label(match name {
                    "nth" => "panic-inside:nth(by_ref); the iterator survives",
                    "nth_back" => "panic-inside:nth_back(by_ref); the iterator survives",
                    _ => "panic-inside:next/next_back/len(unexpected for a correct iterator)",
                });
            }
        }
    }
    let fin = t.below(6);
    let fin_name = ["drop", "drop", "count()", "last()", "by-value nth(1), then drop", "rev().count()"][fin];
    log.push_str(fin_name);
    let at = || format!("{} (n={}), destructor of #{:?} armed: {}", V::NAME, n, bomb, log);
    sample!(cx, "{}", at());
    let inner = it.into_inner();
    let r: Result<Option<Tracked>, String> = vkit::catch(move || match fin {
        0 | 1 => {
            drop(inner);
            None
        }
        2 => {
            let _ = inner.count();
            None
        }
        3 => inner.last(),
        4 => {
            let mut inner = inner;
            inner.nth(1)
        }
        _ => {
            let _ = inner.rev().count();
            None
        }
    });
    let fired = ledger::disarm_drop_panic();
    only_destructor_panic(&r, &at)?;
    match r {
        Ok(x) => take(x, false, &mut kept),
        Err(_) => {
            cx.label(match fin {
                0 | 1 => "panic-inside:drop(iterator)",
                2 | 5 => "panic-inside:count()(by value: the iterator is dropped while unwinding)",
                3 => "panic-inside:last()(by value: the iterator is dropped while unwinding)",
                _ => "panic-inside:by-value nth(the iterator is dropped while unwinding)",
            });
        }
    }
    for x in kept.drain(..) {
        ledger::consume(x);
    }
    let _ = fired_in;
    verdict(cx, bomb, fired, &at)?;
    Ok(())
}

// ------------------------------------------------------------------------------------------------
// (3) vectors: drop of the value and of every conversion result, FromIterator overwriting Defaults
// ------------------------------------------------------------------------------------------------

pub const VEC_KINDS: [&str; 17] = [
    "drop(vector built through its fields)",
    "drop(V::from([T; N]))",
    "drop(v.into_array())",
    "drop(v.into_tuple())",
    "drop(V::from(tuple))",
    "drop(v.map(identity))",
    "drop(v.zip(w))",
    "drop(v.map2(w, pair))",
    "drop(v.map3(b, c)) (closure consumes the middle one)",
    "drop(v.into_iter().collect::<V>()) (FromIterator overwrites n Defaults; the source is vek's IntoIter)",
    "drop(v.into_iter().rev().collect::<V>())",
    "drop(V::from_iter(owned std source, n+2 elements))",
    "drop(V::from_iter(owned std source, n-1 elements))",
    "drop(V::from_iter(borrowed std source, n+2 elements))",
    "drop(V::from_iter(advanced vek IntoIter by_ref())), then drop the iterator",
    "drop(V::from_array(v.into_array()).into_iter().collect::<V>().into_tuple())",
    "drop((v.into_iter(), w.into_iter())) after one pull each",
];

/// idx = kind * (3n + 3) + b; b = index of the panicking element in order of creation (the caller's elements first,
/// then the Defaults vek makes); the last b of a kind means "none"
pub fn vec_total(n: u64) -> u64 {
    VEC_KINDS.len() as u64 * (3 * n + 3)
}

pub fn vec_case<V: VecOps<N>, const N: usize>(idx: u64, cx: &mut Cx) -> CaseResult {
    ledger::reset();
    let n = N;
    let bmax = 3 * n as u64 + 3;
    let b = (idx % bmax) as usize;
    let kind = (idx / bmax) as usize;
    // number of elements that exist in the case (caller's + Defaults)
    let cnt = match kind {
        0..=5 => n,
        6 | 7 => 2 * n,
        8 => 3 * n,
        9 | 10 => 2 * n,
        11 | 13 => 2 * n + 2,
        12 => 2 * n - 1,
        14 => 2 * n,
        15 => 2 * n,
        _ => 2 * n,
    };
    if b > cnt {
        cx.label("index-beyond-the-elements-of-this-kind(trivial)");
        return Ok(());
    }
    let bomb = if b < cnt { Some(b as u32) } else { None };
    cx.label(VEC_KINDS[kind]);
    let at = || format!("{} (n={}): {} with the destructor of the {}-th created element panicking (of {})", V::NAME, n, VEC_KINDS[kind], b, cnt);
    sample!(cx, "{}", at());
    let mk = |off: usize| V::build(&mut |q| ledger::fresh((100 * off + q) as u32));
    // elements that end up with the consumer (borrowed sources, pulled elements)
    let mut mine: Vec<Tracked> = Vec::new();
    let (r, fired): (Result<(), String>, DropPanic) = match kind {
        0 => {
            let v = mk(1);
            bombed(bomb, move || drop(v))
        }
        1 => {
            let a: [Tracked; N] = std::array::from_fn(|q| ledger::fresh(100 + q as u32));
            bombed(bomb, move || drop(V::from_array(a)))
        }
        2 => {
            let v = mk(1);
            bombed(bomb, move || drop(v.into_array_()))
        }
        3 => {
            let v = mk(1);
            bombed(bomb, move || drop(v.into_tuple_()))
        }
        4 => bombed(bomb, move || drop(V::from_tuple(&mut |q| ledger::fresh(100 + q as u32)))),
        5 => {
            let v = mk(1);
            bombed(bomb, move || drop(v.map_identity()))
        }
        6 => {
            let (v, w) = (mk(1), mk(2));
            bombed(bomb, move || drop(v.zip_(w)))
        }
        7 => {
            let (v, w) = (mk(1), mk(2));
            bombed(bomb, move || drop(v.map2_pair(w)))
        }
        8 => {
            let (v, w, x) = (mk(1), mk(2), mk(3));
            bombed(bomb, move || drop(v.map3_outer(w, x)))
        }
        9 => {
            let v = mk(1);
            bombed(bomb, move || drop(V::from_iter_(&mut v.into_it())))
        }
        10 => {
            let v = mk(1);
            bombed(bomb, move || drop(V::from_iter_(&mut v.into_it().rev())))
        }
        11 | 12 => {
            let len = if kind == 11 { n + 2 } else { n - 1 };
            let src: Vec<Tracked> = (0..len).map(|q| ledger::fresh(700 + q as u32)).collect();
            bombed(bomb, move || {
                let mut it = src.into_iter();
                let w = V::from_iter_(&mut it);
                // the surplus is dropped by std's iterator, then the vector
                drop(it);
                drop(w)
            })
        }
        13 => {
            let mut src = (0..n + 2).map(|q| ledger::fresh(700 + q as u32)).collect::<Vec<Tracked>>().into_iter();
            let res = {
                let s = &mut src;
                bombed(bomb, move || drop(V::from_iter_(s)))
            };
            mine.extend(src);
            res
        }
        14 => {
            // a vek iterator advanced by one at each end feeds FromIterator; it survives and is dropped afterwards
            let mut it = Guard::new(mk(1).into_it());
            for x in [it.next(), it.next_back()].into_iter().flatten() {
                ledger::yielded(&x);
                mine.push(x);
            }
            bombed(bomb, move || {
                let w = V::from_iter_(&mut *it);
                drop(w);
                drop(it.into_inner())
            })
        }
        15 => {
            let v = mk(1);
            bombed(bomb, move || {
                let w = V::from_array(v.into_array_());
                let x = V::from_iter_(&mut w.into_it());
                drop(x.into_tuple_())
            })
        }
        _ => {
            let (mut a, mut c) = (Guard::new(mk(1).into_it()), Guard::new(mk(2).into_it()));
            for x in [a.next(), c.next_back()].into_iter().flatten() {
                ledger::yielded(&x);
                mine.push(x);
            }
            bombed(bomb, move || drop((a.into_inner(), c.into_inner())))
        }
    };
    only_destructor_panic(&r, &at)?;
    for x in mine.drain(..) {
        // handed to / left with the consumer
        if ledger::entry(x.id).map(|e| e.st == St::Live).unwrap_or(false) {
            ledger::yielded(&x);
        }
        ledger::consume(x);
    }
    verdict(cx, bomb, fired, &at)?;
    Ok(())
}

// ------------------------------------------------------------------------------------------------
// (4) conversions across vector types (the shrinking ones discard elements inside the conversion)
// ------------------------------------------------------------------------------------------------

pub const ACROSS_KINDS: u64 = 22;
/// idx = kind * 5 + b (b-th source element panics; b = number of source elements: none)
pub const ACROSS_TOTAL: u64 = ACROSS_KINDS * 5;

pub fn across_case(idx: u64, cx: &mut Cx) -> CaseResult {
    ledger::reset();
    let b = (idx % 5) as usize;
    let kind = idx / 5;
    let mk = |k: usize| ledger::fresh(2000 + k as u32);
    macro_rules! conv {
        ($what:expr, $n_src:expr, $kept:expr, $e:expr) => {{
            if b > $n_src {
                cx.label("index-beyond-the-elements-of-this-kind(trivial)");
                return Ok(());
            }
            let bomb = if b < $n_src { Some(b as u32) } else { None };
            cx.label($what);
            cx.label(if b >= $kept && b < $n_src { "panicking:an-element-the-conversion-discards" } else if b < $kept { "panicking:an-element-the-conversion-keeps" } else { "panicking:none" });
            let at = || format!("drop({}) with the destructor of source element #{} panicking", $what, b);
            sample!(cx, "{}", at());
            let src = $e;
            let (r, fired) = bombed(bomb, move || drop(src()));
            only_destructor_panic(&r, &at)?;
            verdict(cx, bomb, fired, &at)?;
        }};
    }
    match kind {
        0 => conv!("Vec3::from((Vec2, z))", 3, 3, { let v = (Vec2 { x: mk(0), y: mk(1) }, mk(2)); move || Vec3::from(v) }),
        1 => conv!("Vec4::from((Vec3, w))", 4, 4, { let v = (Vec3 { x: mk(0), y: mk(1), z: mk(2) }, mk(3)); move || Vec4::from(v) }),
        2 => conv!("Extent3::from((Extent2, d))", 3, 3, { let v = (Extent2 { w: mk(0), h: mk(1) }, mk(2)); move || Extent3::from(v) }),
        3 => conv!("Rgba::from((Rgb, a))", 4, 4, { let v = (Rgb { r: mk(0), g: mk(1), b: mk(2) }, mk(3)); move || Rgba::from(v) }),
        4 => conv!("Uvw::from((Uv, w))", 3, 3, { let v = (Uv { u: mk(0), v: mk(1) }, mk(2)); move || Uvw::from(v) }),
        5 => conv!("Into::<Vec3>::into((Vec2, z))", 3, 3, { let v = (Vec2 { x: mk(0), y: mk(1) }, mk(2)); move || { let r: Vec3<Tracked> = v.into(); r } }),
        6 => conv!("Into::<Vec4>::into((Vec3, w))", 4, 4, { let v = (Vec3 { x: mk(0), y: mk(1), z: mk(2) }, mk(3)); move || { let r: Vec4<Tracked> = v.into(); r } }),
        7 => conv!("Vec3::from(Vec4)", 4, 3, { let v = Vec4 { x: mk(0), y: mk(1), z: mk(2), w: mk(3) }; move || Vec3::from(v) }),
        8 => conv!("Vec2::from(Vec4)", 4, 2, { let v = Vec4 { x: mk(0), y: mk(1), z: mk(2), w: mk(3) }; move || Vec2::from(v) }),
        9 => conv!("Vec2::from(Vec3)", 3, 2, { let v = Vec3 { x: mk(0), y: mk(1), z: mk(2) }; move || Vec2::from(v) }),
        10 => conv!("Vec4::xyz()", 4, 3, { let v = Vec4 { x: mk(0), y: mk(1), z: mk(2), w: mk(3) }; move || v.xyz() }),
        11 => conv!("Vec4::xy()", 4, 2, { let v = Vec4 { x: mk(0), y: mk(1), z: mk(2), w: mk(3) }; move || v.xy() }),
        12 => conv!("Vec3::xy()", 3, 2, { let v = Vec3 { x: mk(0), y: mk(1), z: mk(2) }; move || v.xy() }),
        13 => conv!("Rgba::rgb()", 4, 3, { let v = Rgba { r: mk(0), g: mk(1), b: mk(2), a: mk(3) }; move || v.rgb() }),
        14 => conv!("Rgb::from(Rgba)", 4, 3, { let v = Rgba { r: mk(0), g: mk(1), b: mk(2), a: mk(3) }; move || Rgb::from(v) }),
        15 => conv!("Vec4::from(Rgba)", 4, 4, { let v = Rgba { r: mk(0), g: mk(1), b: mk(2), a: mk(3) }; move || Vec4::from(v) }),
        16 => conv!("Rgba::from(Vec4)", 4, 4, { let v = Vec4 { x: mk(0), y: mk(1), z: mk(2), w: mk(3) }; move || Rgba::from(v) }),
        17 => conv!("Vec3::from(Extent3)", 3, 3, { let v = Extent3 { w: mk(0), h: mk(1), d: mk(2) }; move || Vec3::from(v) }),
        18 => conv!("Extent2::from(Vec2)", 2, 2, { let v = Vec2 { x: mk(0), y: mk(1) }; move || Extent2::from(v) }),
        19 => conv!("Vec3::from(Rgb)", 3, 3, { let v = Rgb { r: mk(0), g: mk(1), b: mk(2) }; move || Vec3::from(v) }),
        20 => conv!("Uvw::from(Vec3)", 3, 3, { let v = Vec3 { x: mk(0), y: mk(1), z: mk(2) }; move || Uvw::from(v) }),
        _ => conv!("Uv::from(Vec2)", 2, 2, { let v = Vec2 { x: mk(0), y: mk(1) }; move || Uv::from(v) }),
    }
    Ok(())
}

// ------------------------------------------------------------------------------------------------
// (5) matrices
// ------------------------------------------------------------------------------------------------

pub const MAT_KINDS: [&str; 16] = [
    "drop(matrix built through its fields)",
    "drop(M::from_row_array(a))",
    "drop(M::from_col_array(a))",
    "drop(M::from_row_arrays(a))",
    "drop(M::from_col_arrays(a))",
    "drop(m.into_row_array())",
    "drop(m.into_col_array())",
    "drop(m.into_row_arrays())",
    "drop(m.into_col_arrays())",
    "drop(m.transposed())",
    "m.transpose(); drop(m)",
    "drop(Other::from(m)) (layout change)",
    "drop(m.map(identity))",
    "drop(M::new(..))",
    "drop(m.diagonal()) (the off-diagonal elements are discarded by vek)",
    "drop(m.map_rows|map_cols(identity))",
];

/// idx = kind * (NN + 1) + b
pub fn mat_total(nn: u64) -> u64 {
    MAT_KINDS.len() as u64 * (nn + 1)
}

pub fn mat_case<M, const N: usize, const NN: usize>(idx: u64, cx: &mut Cx) -> CaseResult
where
    M: MatOps<N, NN>,
{
    ledger::reset();
    let b = (idx % (NN as u64 + 1)) as usize;
    let kind = (idx / (NN as u64 + 1)) as usize;
    let bomb = if b < NN { Some(b as u32) } else { None };
    cx.label(MAT_KINDS[kind]);
    let at = || format!("{}: {} with the destructor of the {}-th created element panicking (of {})", M::NAME, MAT_KINDS[kind], b, NN);
    sample!(cx, "{}", at());
    let mk = || M::build(&mut |i, j| ledger::fresh((10 * i + j) as u32));
    let flat = || -> [Tracked; NN] { std::array::from_fn(|q| ledger::fresh(q as u32)) };
    let nested = || -> [[Tracked; N]; N] { std::array::from_fn(|i| std::array::from_fn(|j| ledger::fresh((10 * i + j) as u32))) };
    let (r, fired): (Result<(), String>, DropPanic) = match kind {
        0 => {
            let m = mk();
            bombed(bomb, move || drop(m))
        }
        1 => {
            let a = flat();
            bombed(bomb, move || drop(M::from_row_array_(a)))
        }
        2 => {
            let a = flat();
            bombed(bomb, move || drop(M::from_col_array_(a)))
        }
        3 => {
            let a = nested();
            bombed(bomb, move || drop(M::from_row_arrays_(a)))
        }
        4 => {
            let a = nested();
            bombed(bomb, move || drop(M::from_col_arrays_(a)))
        }
        5 => {
            let m = mk();
            bombed(bomb, move || drop(m.into_row_array_()))
        }
        6 => {
            let m = mk();
            bombed(bomb, move || drop(m.into_col_array_()))
        }
        7 => {
            let m = mk();
            bombed(bomb, move || drop(m.into_row_arrays_()))
        }
        8 => {
            let m = mk();
            bombed(bomb, move || drop(m.into_col_arrays_()))
        }
        9 => {
            let m = mk();
            bombed(bomb, move || drop(m.transposed_()))
        }
        10 => {
            let mut m = mk();
            bombed(bomb, move || {
                m.transpose_();
                drop(m)
            })
        }
        11 => {
            let m = mk();
            bombed(bomb, move || drop(m.relayout()))
        }
        12 => {
            let m = mk();
            bombed(bomb, move || drop(m.map_identity()))
        }
        13 => bombed(bomb, move || drop(M::new_(&mut |q| ledger::fresh(q as u32)))),
        14 => {
            let m = mk();
            bombed(bomb, move || drop(m.diagonal_()))
        }
        _ => {
            let m = mk();
            bombed(bomb, move || drop(m.map_lines_identity()))
        }
    };
    only_destructor_panic(&r, &at)?;
    verdict(cx, bomb, fired, &at)?;
    Ok(())
}
