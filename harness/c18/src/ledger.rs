//! Ownership-tracking element type for C18.
//!
//! `Tracked` is a plain `{ id: u32, val: u32 }` struct (no heap pointer): a moved-out slot of a
//! container still holds the bitwise copy of the element, and reading such a stale copy must not be
//! dangerous for the harness itself. What makes the read visible is the THREAD-LOCAL ledger: every
//! id has a state
//!
//!   Live     owned by a container / iterator (vek's responsibility)
//!   Yielded  moved out to the consumer (the harness), still alive there
//!   Gone     yielded and then dropped by the consumer
//!   Dropped  dropped while it was owned by the container
//!
//! and `Drop`, `Clone`, `Debug`, `PartialEq`, `Hash` consult the ledger and RECORD (never panic on)
//! anomalies: double drop, drop of an unknown id, the container dropping an element it had already
//! yielded, and any observation of an element that is not `Live`.
//!
//! The harness never uses `Tracked`'s own `Debug/PartialEq/Ord/Hash/Clone` itself; it reads `.id` / `.val`
//! (std consumers such as `Iterator::max` / `Iterator::eq` do use them, on elements they own).

use std::cell::RefCell;
use std::fmt;
use std::hash::{Hash, Hasher};

#[derive(Clone, Copy, Debug, PartialEq, Eq)]
pub enum St {
    Live,
    Yielded,
    Gone,
    Dropped,
}

#[derive(Clone, Copy, Debug, PartialEq, Eq)]
pub enum Obs {
    Debug,
    Eq,
    Hash,
    Clone,
    /// `Display` (vek's `Display` impls of vectors and matrices format every element)
    Display,
    /// `Ord` / `PartialOrd` (used by `Iterator::{max, min, cmp, lt, is_sorted, ..}` on elements in flight)
    Cmp,
}

/// What the harness is currently asking vek to do (set around observer calls on an `IntoIter`).
#[derive(Clone, Copy, Debug, PartialEq, Eq)]
pub enum Ctx {
    Plain,
    IterDebug,
    IterEq,
    IterHash,
}

/// Who is running: vek code / drop glue of containers (default), or the consumer disposing of an
/// element that was handed to it.
#[derive(Clone, Copy, Debug, PartialEq, Eq)]
pub enum Who {
    Container,
    Consumer,
}

#[derive(Clone, Copy, Debug)]
pub struct Entry {
    pub val: u32,
    pub st: St,
    pub from_default: bool,
    pub clone_of: Option<u32>,
    pub yields: u32,
    pub container_drops: u32,
    pub consumer_drops: u32,
    pub clones: u32,
    pub observed: u32,
}

#[derive(Clone, Debug, PartialEq, Eq)]
pub enum Anomaly {
    /// `Drop` ran on a bit pattern whose id was never registered in this case.
    DropUnknown { id: u32, val: u32 },
    /// `Drop` ran a second time on the same element.
    DoubleDrop { id: u32, st: St, who: Who },
    /// The container dropped an element it had already handed out.
    ContainerDroppedYielded { id: u32, st: St },
    /// The consumer dropped something it does not own (harness bug, or vek handed out a duplicate).
    ConsumerDroppedUnowned { id: u32, st: St },
    /// Debug/PartialEq/Hash/Clone ran on an unregistered bit pattern.
    ObservedUnknown { obs: Obs, id: u32, val: u32, ctx: Ctx },
    /// Debug/PartialEq/Hash/Clone ran on an element that is not owned by the container any more.
    ObservedNotLive { obs: Obs, id: u32, val: u32, st: St, ctx: Ctx },
    /// An element was handed to the consumer although it was not Live (duplicate yield, yield of a dropped element).
    YieldNotLive { id: u32, st: St },
    YieldUnknown { id: u32, val: u32 },
}

impl Anomaly {
    /// The F8 class: an observer (Debug / PartialEq / Hash) of an `IntoIter`, called through the
    /// matching safe operation on the iterator, touched an element that had already been yielded.
    pub fn is_f8_class(&self) -> bool {
        match *self {
            Anomaly::ObservedNotLive { obs, st, ctx, .. } => {
                (st == St::Yielded || st == St::Gone)
                    && matches!((obs, ctx), (Obs::Debug, Ctx::IterDebug) | (Obs::Eq, Ctx::IterEq) | (Obs::Hash, Ctx::IterHash))
            }
            _ => false,
        }
    }
}

pub struct Ledger {
    pub entries: Vec<Entry>,
    pub anomalies: Vec<Anomaly>,
    /// every observation in order: (kind, id of the bit pattern looked at); cleared by `reset` / `take_obs_log`
    pub obs_log: Vec<(Obs, u32)>,
    pub who: Who,
    pub ctx: Ctx,
}

thread_local! {
    static LEDGER: RefCell<Ledger> = RefCell::new(Ledger { entries: Vec::new(), anomalies: Vec::new(), obs_log: Vec::new(), who: Who::Container, ctx: Ctx::Plain });
}

// ------------------------------------------------------------------------------------------------
// panic injection: a fuse that every user closure of the harness and every element trait impl ticks
// ------------------------------------------------------------------------------------------------

thread_local! {
    static FUSE: std::cell::Cell<u64> = std::cell::Cell::new(0);
    static TICKS: std::cell::Cell<u64> = std::cell::Cell::new(0);
    static FIRED: std::cell::Cell<bool> = std::cell::Cell::new(false);
}

/// The message of an injected panic (recognised after `vkit::catch`).
pub const INJECTED: &str = "c18-injected-panic";

/// Called by every harness closure handed to vek / std and by `Tracked`'s Default / Debug / Display / PartialEq /
/// Ord / Hash. Counts; when the fuse is armed with k, the k-th call panics (once: the fuse is then spent).
pub fn tick() {
    let _ = TICKS.try_with(|t| t.set(t.get() + 1));
    let fire = FUSE
        .try_with(|f| {
            let v = f.get();
            if v > 0 {
                f.set(v - 1);
            }
            v == 1
        })
        .unwrap_or(false);
    if fire {
        let _ = FIRED.try_with(|f| f.set(true));
        panic!("{}", INJECTED);
    }
}
/// Arm the fuse: the k-th `tick` from now panics (k >= 1). Resets the tick counter.
pub fn arm(k: u64) {
    FUSE.with(|f| f.set(k));
    TICKS.with(|t| t.set(0));
    FIRED.with(|f| f.set(false));
}
/// Disarm; returns whether the injected panic was raised.
pub fn disarm() -> bool {
    FUSE.with(|f| f.set(0));
    FIRED.with(|f| f.replace(false))
}
/// Ticks since the last `arm` / `reset_ticks`.
pub fn ticks() -> u64 {
    TICKS.with(|t| t.get())
}
pub fn reset_ticks() {
    TICKS.with(|t| t.set(0));
}

fn with<R>(f: impl FnOnce(&mut Ledger) -> R) -> Option<R> {
    // try_with / try_borrow_mut: never panic (Drop may run during unwinding or thread teardown).
    LEDGER.try_with(|l| l.try_borrow_mut().ok().map(|mut g| f(&mut g))).ok().flatten()
}

/// Start of a case: forget everything.
pub fn reset() {
    with(|l| {
        l.entries.clear();
        l.anomalies.clear();
        l.obs_log.clear();
        l.who = Who::Container;
        l.ctx = Ctx::Plain;
    });
    disarm();
    reset_ticks();
    disarm_drop_panic();
}

#[repr(C)]
pub struct Tracked {
    pub id: u32,
    pub val: u32,
}

pub const DEFAULT_VAL: u32 = 0xDEFA_0000;

fn register(val: u32, from_default: bool, clone_of: Option<u32>) -> Tracked {
    let id = with(|l| {
        l.entries.push(Entry { val, st: St::Live, from_default, clone_of, yields: 0, container_drops: 0, consumer_drops: 0, clones: 0, observed: 0 });
        (l.entries.len() - 1) as u32
    })
    .unwrap_or(u32::MAX);
    Tracked { id, val }
}

/// A new element, owned by whatever container it is put into.
pub fn fresh(val: u32) -> Tracked {
    register(val, false, None)
}

impl Default for Tracked {
    fn default() -> Self {
        tick();
        register(DEFAULT_VAL, true, None)
    }
}

fn observe(t: &Tracked, obs: Obs) {
    with(|l| {
        let ctx = l.ctx;
        l.obs_log.push((obs, t.id));
        match l.entries.get_mut(t.id as usize) {
            Some(e) if e.val == t.val => {
                e.observed += 1;
                if obs == Obs::Clone {
                    e.clones += 1;
                }
                if e.st != St::Live {
                    let st = e.st;
                    l.anomalies.push(Anomaly::ObservedNotLive { obs, id: t.id, val: t.val, st, ctx });
                }
            }
            _ => l.anomalies.push(Anomaly::ObservedUnknown { obs, id: t.id, val: t.val, ctx }),
        }
    });
}

impl Clone for Tracked {
    fn clone(&self) -> Self {
        observe(self, Obs::Clone);
        register(self.val, false, Some(self.id))
    }
}

impl fmt::Debug for Tracked {
    fn fmt(&self, f: &mut fmt::Formatter) -> fmt::Result {
        observe(self, Obs::Debug);
        tick();
        write!(f, "t{}", self.val)
    }
}

impl fmt::Display for Tracked {
    fn fmt(&self, f: &mut fmt::Formatter) -> fmt::Result {
        observe(self, Obs::Display);
        tick();
        write!(f, "t{}", self.val)
    }
}

impl PartialEq for Tracked {
    fn eq(&self, other: &Tracked) -> bool {
        observe(self, Obs::Eq);
        observe(other, Obs::Eq);
        tick();
        self.val == other.val
    }
}
impl Eq for Tracked {}

/// Ordering by `val`, consistent with `PartialEq`; every comparison is an observation of both operands.
impl Ord for Tracked {
    fn cmp(&self, other: &Tracked) -> std::cmp::Ordering {
        observe(self, Obs::Cmp);
        observe(other, Obs::Cmp);
        tick();
        self.val.cmp(&other.val)
    }
}
impl PartialOrd for Tracked {
    fn partial_cmp(&self, other: &Tracked) -> Option<std::cmp::Ordering> {
        Some(self.cmp(other))
    }
}

impl Hash for Tracked {
    fn hash<H: Hasher>(&self, h: &mut H) {
        observe(self, Obs::Hash);
        tick();
        h.write_u32(self.val);
    }
}

impl Drop for Tracked {
    fn drop(&mut self) {
        let (id, val) = (self.id, self.val);
        let by_container = with(|l| {
            let who = l.who;
            match l.entries.get_mut(id as usize) {
                Some(e) if e.val == val => {
                    let st = e.st;
                    match who {
                        Who::Container => {
                            e.container_drops += 1;
                            match st {
                                St::Live => e.st = St::Dropped,
                                St::Dropped => l.anomalies.push(Anomaly::DoubleDrop { id, st, who }),
                                St::Yielded | St::Gone => l.anomalies.push(Anomaly::ContainerDroppedYielded { id, st }),
                            }
                            true
                        }
                        Who::Consumer => {
                            e.consumer_drops += 1;
                            match st {
                                St::Yielded => e.st = St::Gone,
                                St::Gone => l.anomalies.push(Anomaly::DoubleDrop { id, st, who }),
                                St::Live | St::Dropped => l.anomalies.push(Anomaly::ConsumerDroppedUnowned { id, st }),
                            }
                            false
                        }
                    }
                }
                _ => {
                    l.anomalies.push(Anomaly::DropUnknown { id, val });
                    false
                }
            }
        })
        .unwrap_or(false);
        // the destructor-panic switch (off unless a droppanic-* check armed it): the ledger is already updated
        // (the element counts as dropped once its destructor was entered) and no borrow is held here
        if by_container && DROP_PANIC_ID.try_with(|b| b.get() == id).unwrap_or(false) {
            let _ = DROP_PANIC_ID.try_with(|b| b.set(u32::MAX));
            if std::thread::panicking() {
                // a second panic would abort the process: stay silent, remember it
                let _ = DROP_PANIC_STATE.try_with(|s| s.set(2));
            } else {
                let _ = DROP_PANIC_STATE.try_with(|s| s.set(1));
                panic!("{}", DROP_PANIC);
            }
        }
    }
}

// ------------------------------------------------------------------------------------------------
// destructor-panic switch: the element with the chosen id panics in its own `Drop`, once, when it is dropped by
// the container (never when the consumer disposes of it, never while the thread is already panicking)
// ------------------------------------------------------------------------------------------------

thread_local! {
    static DROP_PANIC_ID: std::cell::Cell<u32> = std::cell::Cell::new(u32::MAX);
    /// 0 = not reached, 1 = panicked, 2 = reached while the thread was already panicking (suppressed)
    static DROP_PANIC_STATE: std::cell::Cell<u8> = std::cell::Cell::new(0);
}

/// The message of an element destructor's panic.
pub const DROP_PANIC: &str = "c18-element-destructor-panic";

#[derive(Clone, Copy, Debug, PartialEq, Eq)]
pub enum DropPanic {
    NotReached,
    Panicked,
    /// the chosen element was dropped by the container while another panic was unwinding: no second panic
    Suppressed,
}

/// From now on the element registered as `id` panics when the container drops it (once).
pub fn arm_drop_panic(id: u32) {
    DROP_PANIC_ID.with(|b| b.set(id));
    DROP_PANIC_STATE.with(|s| s.set(0));
}
/// Switch off; what happened since `arm_drop_panic`.
pub fn disarm_drop_panic() -> DropPanic {
    let _ = DROP_PANIC_ID.try_with(|b| b.set(u32::MAX));
    match DROP_PANIC_STATE.try_with(|s| s.replace(0)).unwrap_or(0) {
        1 => DropPanic::Panicked,
        2 => DropPanic::Suppressed,
        _ => DropPanic::NotReached,
    }
}

/// The consumer received `t` by value from the container (iterator item, closure argument, replaced slot).
pub fn yielded(t: &Tracked) {
    with(|l| match l.entries.get_mut(t.id as usize) {
        Some(e) if e.val == t.val => {
            e.yields += 1;
            if e.st == St::Live {
                e.st = St::Yielded;
            } else {
                let st = e.st;
                l.anomalies.push(Anomaly::YieldNotLive { id: t.id, st });
            }
        }
        _ => l.anomalies.push(Anomaly::YieldUnknown { id: t.id, val: t.val }),
    });
}

/// The consumer disposes of an element it owns.
pub fn consume(t: Tracked) {
    let prev = with(|l| std::mem::replace(&mut l.who, Who::Consumer)).unwrap_or(Who::Container);
    drop(t);
    with(|l| l.who = prev);
}

/// Run `f` (a safe observer operation on an iterator) under the given context tag.
pub fn with_ctx<R>(ctx: Ctx, f: impl FnOnce() -> R) -> R {
    struct Restore(Ctx);
    impl Drop for Restore {
        fn drop(&mut self) {
            let c = self.0;
            with(|l| l.ctx = c);
        }
    }
    let prev = with(|l| std::mem::replace(&mut l.ctx, ctx)).unwrap_or(Ctx::Plain);
    let _r = Restore(prev);
    f()
}

/// The observations since the last call (or `reset`), in order.
pub fn take_obs_log() -> Vec<(Obs, u32)> {
    with(|l| std::mem::take(&mut l.obs_log)).unwrap_or_default()
}

pub fn take_anomalies() -> Vec<Anomaly> {
    with(|l| std::mem::take(&mut l.anomalies)).unwrap_or_default()
}

pub fn entry(id: u32) -> Option<Entry> {
    with(|l| l.entries.get(id as usize).copied()).flatten()
}

pub fn entries() -> Vec<Entry> {
    with(|l| l.entries.clone()).unwrap_or_default()
}

/// (number of registered ids, total drops, total clones)
#[derive(Clone, Copy, Debug, PartialEq, Eq)]
pub struct Totals {
    pub ids: usize,
    pub drops: u32,
    pub clones: u32,
    pub observed: u32,
}

pub fn totals() -> Totals {
    with(|l| Totals {
        ids: l.entries.len(),
        drops: l.entries.iter().map(|e| e.container_drops + e.consumer_drops).sum(),
        clones: l.entries.iter().map(|e| e.clones).sum(),
        observed: l.entries.iter().map(|e| e.observed).sum(),
    })
    .unwrap_or(Totals { ids: 0, drops: 0, clones: 0, observed: 0 })
}

/// After everything has been dropped: the first id that was not dropped exactly once (by anyone), if any.
pub fn first_not_dropped_once() -> Option<(u32, Entry)> {
    with(|l| l.entries.iter().enumerate().find(|(_, e)| e.container_drops + e.consumer_drops != 1 || e.st == St::Live || e.st == St::Yielded).map(|(i, e)| (i as u32, *e))).flatten()
}
